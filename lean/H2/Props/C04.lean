/-
  C04 — inbound flow control is enforced exactly at the advertised windows.

  `WindowManager` is regenerated from windows.py on every run (the theorems below are re-checked against the
  current source); the connection-level methods are the hand model.
-/
import H2.Proofs.PairCredit
-- the credit equation of one window between two endpoints, everything in flight (arithmetic of windows.py + C03/C04/C11)
-- @also H2.PairCredit.data_never_overruns
import H2.Proofs.StreamLemmas

namespace H2.C04
open H2 H2.Gen H2.Conn

/-- **enforcement (generated code)**: a DATA frame of flow-controlled length `n` is refused with FlowControlError
    exactly when it overruns the advertised window; one that fits is never refused.  A frame of length zero overruns
    nothing, also when a lowered INITIAL_WINDOW_SIZE has the window below zero (RFC 7540 §6.9.1, §6.9.2; before the
    repair D43 the empty DATA frame that ends a stream was refused there) -/
theorem C04_consumed (w : WindowManager) (n : Int) :
    (w.window_consumed n).1 = (if 0 < n ∧ w.current_window_size - n < 0 then .error (.h2 .FlowControlError) else .ok none) ∧
    (w.window_consumed n).2 = { w with current_window_size := w.current_window_size - n } := by
  unfold WindowManager.window_consumed
  simp only [decide_eq_true_eq, Bool.and_eq_true, gt_iff_lt]
  split <;> simp_all

/-- an empty frame is never refused for flow-control reasons, whatever the window -/
theorem C04_empty_frame_fits (w : WindowManager) : (w.window_consumed 0).1 = .ok none := by
  rw [(C04_consumed w 0).1]; simp

/-- FlowControlError carries FLOW_CONTROL_ERROR -/
theorem C04_code : ExcClass.FlowControlError.classCode = some 3 := by decide

/-- **atomicity (generated code)**: a refused window increment changes nothing; an accepted one adds exactly the
    increment (raising the maximum when the window outgrows it) -/
theorem C04_opened (w : WindowManager) (n : Int) :
    (w.current_window_size + n > 2147483647 → w.window_opened n = (.error (.h2 .FlowControlError), w)) ∧
    (w.current_window_size + n ≤ 2147483647 →
      (w.window_opened n).1 = .ok none ∧ (w.window_opened n).2.current_window_size = w.current_window_size + n ∧
      (w.window_opened n).2.bytes_processed = w.bytes_processed) := by
  unfold WindowManager.window_opened
  simp only [decide_eq_true_eq]
  constructor
  · intro h; simp [h]
  · intro h
    have : ¬ (w.current_window_size + n > 2147483647) := by omega
    simp only [this, if_false]
    split <;> simp

/-- **what is emitted is what is added**: the increment `process_bytes` returns (it becomes the WINDOW_UPDATE) is
    exactly the amount by which the advertised window grows -/
theorem C04_process_bytes (w : WindowManager) (n : Int) :
    match w.process_bytes n with
    | (.ok (some v), w') => w'.current_window_size = w.current_window_size + v ∧ w'.max_window_size = w.max_window_size
    | (.ok none, w') => w'.current_window_size = w.current_window_size ∧ w'.max_window_size = w.max_window_size
    | (.error _, _) => False := by
  unfold WindowManager.process_bytes WindowManager.maybe_update_window
  grind

/-- **query**: `remote_flow_control_window` reports the smaller of the connection's and the stream's advertised window
    and changes nothing -/
theorem C04_query (c : Conn) (sid : Int) (st : Stream) (h : c.streams.lookup sid = some st) :
    wp (remoteFlowControlWindow sid)
      (fun v c' => v = min c.inWM.current_window_size st.inWM.current_window_size ∧ c' = c) (fun _ _ => False) c := by
  simp only [remoteFlowControlWindow]
  wps
  rw [wp_getStreamById_eq]
  have hs : hasStream c sid = true := by rw [hasStream_lookup, h]; rfl
  simp only [hs, if_true, lookupStream]
  wps
  simp only [h]
  wps
  simp

/-- **a window-changing call that raises changes no window** (connection-level increment): whatever goes wrong in
    `increment_flow_control_window(n)`, the advertised connection window and every stream are as before -/
theorem C04_increment_conn_atomic (c : Conn) (n : Int) (hmax : 4 ≤ c.maxOutFrame) :
    wp (incrementFlowControlWindow n none)
      (fun _ c' => c'.inWM.current_window_size = c.inWM.current_window_size + n ∧ c'.streams = c.streams)
      (fun _ c' => c'.inWM = c.inWM ∧ c'.streams = c.streams ∧ c'.out = c.out) c := by
  obtain ⟨b, hb, hl⟩ := wu_serialize 0 n
  simp only [incrementFlowControlWindow]
  wps
  have hM : MAX_WINDOW_INCREMENT = 2147483647 := rfl
  by_cases hr : (!(decide (1 ≤ n) && decide (n ≤ MAX_WINDOW_INCREMENT))) = true
  · rw [if_pos hr]; exact ⟨trivial, trivial, trivial⟩
  · rw [if_neg hr]
    have hn : 1 ≤ n ∧ n ≤ 2147483647 := by rw [← hM]; simpa using hr
    cases htab : connTable c.cstate .SEND_WINDOW_UPDATE with
    | none => rw [wp_connInput_err _ _ htab]; first | exact ⟨rfl, rfl, rfl⟩ | simp
    | some t =>
      rw [wp_connInput_ok _ _ _ htab]
      wps
      rw [wp_onConnWM]
      by_cases hov : c.inWM.current_window_size + n > 2147483647
      · simp only [(C04_opened c.inWM n).1 hov]
        first | exact ⟨rfl, rfl, rfl⟩ | simp
      · have hle : c.inWM.current_window_size + n ≤ 2147483647 := by omega
        obtain ⟨h1, h2, _⟩ := (C04_opened c.inWM n).2 hle
        cases hw : c.inWM.window_opened n with
        | mk r w' =>
          simp only [hw] at h1 h2
          subst h1
          simp only
          wps
          rw [wp_prepare_eq [Frame.windowUpdate 0 n] _ [b] (by simp) (by simp [hb])
            (by simp only [List.all_cons, List.all_nil, Bool.and_true, hl, decide_eq_true_eq]; exact hmax)]
          exact ⟨h2, rfl⟩

/-- `acknowledge_received_data` for a stream id that was never used raises NoSuchStreamError and changes nothing -/
theorem C04_ack_unknown_atomic (c : Conn) (size sid : Int) (hno : hasStream c sid = false)
    (hhi : sid > (if streamIdIsOutbound c sid then c.highestOut else c.highestIn)) :
    wp (acknowledgeReceivedData size sid) (fun _ c' => c' = c) (fun _ c' => c' = c) c := by
  simp only [acknowledgeReceivedData]
  wps
  rw [wp_getStreamById_eq]
  simp only [hno, Bool.false_eq_true, if_false, hhi, if_true]
  repeat' (first | rfl | split)
  all_goals simp_all [Exc.isInstance, ExcClass.isSub, ExcClass.isSub.go, ExcClass.parent]

/-- non-vacuity: the boundary on the generated code -/
example : ({ max_window_size := 65535, current_window_size := 100, bytes_processed := 0 } : WindowManager).window_consumed 100
      = (.ok none, { max_window_size := 65535, current_window_size := 0, bytes_processed := 0 }) ∧
    (({ max_window_size := 65535, current_window_size := 100, bytes_processed := 0 } : WindowManager).window_consumed 101).1
      = .error (.h2 .FlowControlError) := by
  constructor <;> rfl

end H2.C04
