#!/usr/bin/env python3
"""Scans lean/H2/Props/Cxx.lean and writes theorems.json: property id -> module + the theorem names that
constitute its claim (every `theorem` in the file, plus names listed on `-- @also` lines)."""
import json, os, re
ROOT = os.path.dirname(os.path.dirname(os.path.abspath(__file__)))
out = {}
d = os.path.join(ROOT, 'lean', 'H2', 'Props')
for f in sorted(os.listdir(d)):
    m = re.match(r'(C\d+)\.lean$', f)
    if not m:
        continue
    pid = m.group(1)
    text = open(os.path.join(d, f)).read()
    ns = re.search(r'^namespace\s+(\S+)', text, re.M).group(1)
    names = [ns + '.' + n for n in re.findall(r'^theorem\s+(\S+)', text, re.M)]
    names += re.findall(r'^--\s*@also\s+(\S+)', text, re.M)
    out[pid] = {'module': 'H2.Props.' + pid, 'theorems': names}
json.dump(out, open(os.path.join(ROOT, 'theorems.json'), 'w'), indent=1)
print({k: len(v['theorems']) for k, v in out.items()})
