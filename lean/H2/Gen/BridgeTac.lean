/-
  `bridge f g`: two straight-line integer programs are equal — unfold both, split every `if` / `match`, close each
  case by `rfl`, linear arithmetic, or structure extensionality; `grind` as the last resort.
-/
namespace H2.Bridge

macro "bridge" a:ident b:ident : tactic => `(tactic|
  first
  | rfl
  | (simp only [$a:ident, $b:ident]; done)
  | (simp only [$a:ident, $b:ident]
     repeat' split
     all_goals first
       | rfl
       | omega
       | (simp_all; done)
       | (simp_all <;> omega)
       | grind)
  | grind [$a:ident, $b:ident])

end H2.Bridge
