/-
  H2Connection, part 3: `receive_data`, `_receive_frame` and the frame handlers.
-/
import H2.Model.ConnApi

namespace H2
open H2.Gen

namespace Conn

abbrev FE := List Frame × List Event

/-- connection.py `_decode_headers(decoder, block)` -/
def decodeHeaders (block : Bytes) : CM (List Header) := do
  let r ← zoom (·.hp) (fun c h => { c with hp := h }) (Hp.decode block)
  match r with
  | .ok hs => pure hs
  | .oversized => raise (mkExc .DenialOfServiceError)
  | .hpackError => raise pErr
  | .py n => raise (.py (.Other n))

def errorCodeFromInt (n : Int) : Int := n

/-- `_flow_control_change_from_settings`: stream by stream, in dict order; a raise half-way keeps the earlier updates -/
def flowControlChangeFromSettings (old new : Int) : CM Unit := fun c =>
  let delta := new - old
  let rec go (done : List (Int × Stream)) : List (Int × Stream) → Except Exc Unit × List (Int × Stream)
    | [] => (.ok (), done)
    | (k, st) :: rest =>
      match guard_increment_window st.outWin delta with
      | .ok w => go (done ++ [(k, { st with outWin := w })]) rest
      | .error e => (.error (ofPyErr e), done ++ (k, st) :: rest)
  match go [] c.streams with
  | (r, ss) => (r, { c with streams := ss })

/-- `_inbound_flow_control_change_from_settings` -/
def inboundFlowControlChangeFromSettings (old new : Int) : CM Unit := fun c =>
  let delta := new - old
  let rec go (done : List (Int × Stream)) : List (Int × Stream) → Except Exc Unit × List (Int × Stream)
    | [] => (.ok (), done)
    | (k, st) :: rest =>
      match Stream.inboundFlowControlChange delta st with
      | (.ok _, st') => go (done ++ [(k, st')]) rest
      | (.error e, st') => (.error e, done ++ (k, st') :: rest)
  match go [] c.streams with
  | (r, ss) => (r, { c with streams := ss })

def findChange (changes : List (Int × Option Int × Int)) (k : Nat) : Option (Option Int × Int) :=
  (changes.find? fun e => e.1 == (k : Int)).map (·.2)

/-- the INITIAL_WINDOW_SIZE part of `_acknowledge_settings` -/
def remoteWindowChange (changes : List (Int × Option Int × Int)) : CM Unit :=
  match findChange changes SettingCodes.INITIAL_WINDOW_SIZE with
  | some (old, new) =>
    (match old with
     | some o => flowControlChangeFromSettings o new
     | none => raise (.py .TypeError))
  | none => pure ()

/-- the HEADER_TABLE_SIZE and MAX_FRAME_SIZE parts of `_acknowledge_settings` (plain assignments) -/
def remoteOtherChanges (changes : List (Int × Option Int × Int)) (c : Conn) : Conn :=
  let c := match findChange changes SettingCodes.HEADER_TABLE_SIZE with
    | some (_, new) =>
      if new != c.encTableSize then
        { c with encTableSize := new, hp := { c.hp with encLog := c.hp.encLog ++ [EncEv.resize new] } } else c
    | none => c
  match findChange changes SettingCodes.MAX_FRAME_SIZE with
  | some (_, new) =>
    { c with maxOutFrame := new, streams := c.streams.map fun e => (e.1, { e.2 with maxOutFrame := new }) }
  | none => c

/-- `_acknowledge_settings` (the peer's settings take effect) -/
def acknowledgeSettings : CM (List Frame) := do
  connInput .SEND_SETTINGS
  let c ← getS
  modifyS (fun c => { c with remoteSettings := (Settings.acknowledge c.remoteSettings).2 })
  remoteWindowChange (Settings.acknowledge c.remoteSettings).1
  modifyS (remoteOtherChanges (Settings.acknowledge c.remoteSettings).1)
  pure [Frame.settings true []]

/-- the INITIAL_WINDOW_SIZE part of `_local_settings_acked` -/
def localWindowChange (changes : List (Int × Option Int × Int)) : CM Unit :=
  match findChange changes SettingCodes.INITIAL_WINDOW_SIZE with
  | some (old, new) =>
    (match old with
     | some o => inboundFlowControlChangeFromSettings o new
     | none => raise (.py .TypeError))
  | none => pure ()

/-- the MAX_HEADER_LIST_SIZE, MAX_FRAME_SIZE and HEADER_TABLE_SIZE parts of `_local_settings_acked` -/
def localOtherChanges (changes : List (Int × Option Int × Int)) (c : Conn) : Conn :=
  let c := match findChange changes SettingCodes.MAX_HEADER_LIST_SIZE with
    | some (_, new) => { c with decMaxHeaderList := new }
    | none => c
  let c := match findChange changes SettingCodes.MAX_FRAME_SIZE with
    | some (_, new) => { c with maxInFrame := new }
    | none => c
  match findChange changes SettingCodes.HEADER_TABLE_SIZE with
  | some (_, new) => { c with decMaxTableSize := new }
  | none => c

/-- `_local_settings_acked` -/
def localSettingsAcked : CM (List (Int × Option Int × Int)) := do
  let c ← getS
  modifyS (fun c => { c with localSettings := (Settings.acknowledge c.localSettings).2 })
  localWindowChange (Settings.acknowledge c.localSettings).1
  modifyS (localOtherChanges (Settings.acknowledge c.localSettings).1)
  pure (Settings.acknowledge c.localSettings).1

/-- `_receive_settings_frame`; also used by the h2c upgrade with the decoded HTTP2-Settings -/
def receiveSettingsFrame (ack : Bool) (items : List (Int × Int)) : CM FE := do
  connInput .RECV_SETTINGS
  if ack then
    let changed ← localSettingsAcked
    pure ([], [Event.SettingsAcknowledged changed])
  else
    let c ← getS
    match Settings.update c.remoteSettings items with
    | (.error e, s') => do modifyS (fun c => { c with remoteSettings := s' }); raise e
    | (.ok _, s') =>
      modifyS (fun c => { c with remoteSettings := s' })
      -- RemoteSettingsChanged.from_settings(old_settings := remote_settings, new := frame.settings)
      let ev := Event.RemoteSettingsChanged (items.map fun kv => (kv.1, s'.getItem? kv.1, kv.2))
      let frames ← acknowledgeSettings
      pure (frames, [ev])

def receivePriorityFrame (sid : Int) (p : Prio) : CM FE := do
  connInput .RECV_PRIORITY
  if p.dependsOn == sid then raise pErr else
  pure ([], [Event.PriorityUpdated sid (p.weight + 1) p.dependsOn p.exclusive])

def setPriorityUpdated : List Event → List Event
  | .Headers k s h se _ :: rest => .Headers k s h se true :: rest
  | es => es

/-- `_receive_headers_frame` after the concurrency check -/
def receiveHeadersRest (sid : Int) (block : Bytes) (endStream : Bool) (prio : Option Prio) : CM FE := do
  let headers ← decodeHeaders block
  connInput .RECV_HEADERS
  let c ← getS
  if c.cfg.client && !hasStream c sid && !streamIdIsOutbound c sid && sid > c.highestIn then raise pErr else
  getOrCreateStream sid (!c.cfg.client)
  let (frames, streamEvents) ← withStream sid (Stream.receiveHeaders c.cfg headers endStream)
  match prio with
  | some p =>
    let (_, pEvents) ← receivePriorityFrame sid p
    pure (frames, setPriorityUpdated streamEvents ++ pEvents)
  | none => pure (frames, streamEvents)

def receiveHeadersFrame (sid : Int) (block : Bytes) (endStream : Bool) (prio : Option Prio) : CM FE := do
  let c ← getS
  -- only a frame that would open a stream counts against the limit (a frame for a closed and forgotten stream does not)
  if !hasStream c sid && !streamIdIsOutbound c sid && sid > c.highestIn then
    let maxOpen := c.localSettings.maxConcurrentStreams
    let n ← openInboundStreams
    if n + 1 > maxOpen then raise (mkExc .TooManyStreamsError)
  receiveHeadersRest sid block endStream prio

/-- `_refuse_pushed_stream` -/
def refusePushedStream (promised : Int) : CM Frame := do
  modifyS fun c =>
    if !streamIdIsOutbound c promised && promised > c.highestIn then
      { c with highestIn := promised, closedStreams := closedInsert c.closedStreams promised (some .SEND_RST_STREAM) }
    else c
  pure (Frame.rstStream promised ErrorCodes.REFUSED_STREAM)

/-- `_receive_push_promise_frame` once the parent stream is known to be in the table -/
def receivePushPromiseKnown (sid promised : Int) (pushedHeaders : List Header) : CM FE := do
  if sid % 2 == 0 then raise pErr else
  let c ← getS
  let r ← tryCatch (do
      let x ← withStream sid (Stream.receivePushPromiseInBand c.cfg promised pushedHeaders)
      pure (some x))
    (fun e => e.isInstance .StreamClosedError) (fun _ => pure none)
  match r with
  | none =>
    let f ← refusePushedStream promised
    pure ([f], [])
  | some (frames, streamEvents) =>
    -- closed streams are forgotten here as well (fix: commit), or promised-and-closed streams pile up
    let _ ← openInboundStreams
    beginNewStream promised false
    let _ ← withStream promised (Stream.remotelyPushed pushedHeaders)
    pure (frames, streamEvents)

/-- `_receive_push_promise_frame` when the parent stream is not in the table -/
def receivePushPromiseUnknown (sid promised : Int) : CM FE := do
  let c ← getS
  if streamClosedBy c sid == some .SEND_RST_STREAM then
    let f ← refusePushedStream promised
    pure ([f], [])
  else raise pErr

def receivePushPromiseFrame (sid promised : Int) (block : Bytes) : CM FE := do
  let c ← getS
  match c.localSettings.enablePush with
  | none => raise (.py .KeyError)
  | some ep =>
  if ep == 0 then raise pErr else
  let pushedHeaders ← decodeHeaders block
  connInput .RECV_PUSH_PROMISE
  -- (fix D52: the promised id comes with the reserved bit still on it; refused before the promise is acted on)
  if promised > HIGHEST_ALLOWED_STREAM_ID then raise pErr else
  let found ← tryCatch (do getStreamById sid; pure true)
    (fun e => e.isInstance .NoSuchStreamError) (fun _ => pure false)
  if !found then receivePushPromiseUnknown sid promised
  else receivePushPromiseKnown sid promised pushedHeaders

def receiveDataFrame (sid : Int) (payload : Bytes) (endStream : Bool) (fcl : Int) : CM FE := do
  connInput .RECV_DATA
  let _ ← onConnWM (·.window_consumed fcl)
  tryCatch (do
      getStreamById sid
      withStream sid (Stream.receiveData payload endStream fcl))
    (fun e => e.isInstance .StreamClosedError)
    (fun e => do
      -- _handle_data_on_closed_stream
      let incr ← onConnWM (·.process_bytes fcl)
      let frames := match incr with
        | some n => if n != 0 then [Frame.windowUpdate 0 n] else []
        | none => []
      match e with
      | .h2 _ code esid evs => pure (frames ++ [Frame.rstStream (esid.getD 0) (code.getD 0)], evs)
      | _ => pure (frames, []))

def receiveWindowUpdateFrame (sid incr : Int) : CM FE := do
  connInput .RECV_WINDOW_UPDATE
  if sid != 0 then
    tryCatch (do
        getStreamById sid
        withStream sid (Stream.receiveWindowUpdate incr))
      (fun e => e.isInstance .StreamClosedError) (fun _ => pure ([], []))
  else
    let c ← getS
    match guard_increment_window c.outWin incr with
    | .ok w => do
      modifyS (fun c => { c with outWin := w })
      pure ([], [Event.WindowUpdated 0 (some incr)])
    | .error e => raise (ofPyErr e)

def receivePingFrame (ack : Bool) (payload : Bytes) : CM FE := do
  connInput .RECV_PING
  if ack then pure ([], [Event.PingAckReceived payload])
  else pure ([Frame.ping true payload], [Event.PingReceived payload])

def receiveRstStreamFrame (sid code : Int) : CM FE := do
  connInput .RECV_RST_STREAM
  let found ← tryCatch (do getStreamById sid; pure true)
    (fun e => e.isInstance .NoSuchStreamError) (fun _ => pure false)
  if found then withStream sid (Stream.streamReset code) else pure ([], [])

def receiveGoawayFrame (last code : Int) (extra : Bytes) : CM FE := do
  connInput .RECV_GOAWAY
  clearOutboundDataBuffer
  pure ([], [Event.ConnectionTerminated code last (if extra.isEmpty then none else some extra)])

def receiveNakedContinuation (sid : Int) : CM FE := do
  getStreamById sid
  let _ ← withStream sid (processInput .RECV_CONTINUATION)
  raise (.py .AssertionError)

def receiveAltSvcFrame (sid : Int) (origin field : Bytes) : CM FE := do
  connInput .RECV_ALTERNATIVE_SERVICE
  if sid != 0 then
    let found ← tryCatch (do getStreamById sid; pure true)
      (fun e => e.isInstance .NoSuchStreamError) (fun _ => pure false)
    if found then withStream sid (Stream.receiveAltSvc origin field) else pure ([], [])
  else
    let c ← getS
    if origin.isEmpty then pure ([], [])
    else if !c.cfg.client then pure ([], [])
    else pure ([], [Event.AlternativeServiceAvailable (some origin) (some field)])

/-- `_frame_dispatch_table[frame.__class__](frame)` -/
def dispatch (rf : RFrame) : CM FE :=
  match rf.frame with
  | .headers sid block es _ _ prio => receiveHeadersFrame sid block es prio
  | .pushPromise sid promised block _ _ => receivePushPromiseFrame sid promised block
  | .settings ack items => receiveSettingsFrame ack items
  | .data sid payload es _ => receiveDataFrame sid payload es rf.fcl
  | .windowUpdate sid incr => receiveWindowUpdateFrame sid incr
  | .ping ack payload => receivePingFrame ack payload
  | .rstStream sid code => receiveRstStreamFrame sid code
  | .priority sid p => receivePriorityFrame sid p
  | .goaway last code extra => receiveGoawayFrame last code extra
  | .continuation sid _ _ => receiveNakedContinuation sid
  | .altsvc sid origin field => receiveAltSvcFrame sid origin field
  | .ext t fl sid body => pure ([], [Event.UnknownFrameReceived t fl sid body])

/-- the `except StreamClosedError` / `except StreamIDTooLowError` clauses of `_receive_frame` -/
def frameErrorHandler (e : Exc) : CM (List Event) :=
  match e with
  | .h2 cls code esid evs =>
    if cls.isSub .StreamClosedError then do
      let c ← getS
      if closedByReset c (esid.getD 0) then do
        connInput .SEND_RST_STREAM
        prepareForSending [Frame.rstStream (esid.getD 0) (code.getD 0)]
        pure evs
      else raise e
    else do
      let c ← getS
      if closedByReset c (esid.getD 0) then do
        connInput .SEND_RST_STREAM
        prepareForSending [Frame.rstStream (esid.getD 0) ErrorCodes.STREAM_CLOSED]
        pure []
      else if closedByEnd c (esid.getD 0) then raise (mkStreamClosed (esid.getD 0))
      else raise e
  | _ => raise e

/-- `_receive_frame` -/
def receiveFrame (rf : RFrame) : CM (List Event) := do
  let r ← tryCatch (do let fe ← dispatch rf; pure (Sum.inl fe))
    (fun e => e.isInstance .StreamClosedError || e.isInstance .StreamIDTooLowError)
    (fun e => do let evs ← frameErrorHandler e; pure (Sum.inr evs))
  match r with
  | .inl (frames, events) => do prepareForSending frames; pure events
  | .inr evs => pure evs

/-- `_terminate_connection(error_code)` -/
def terminateConnection (code : Int) : CM Unit := do
  let c ← getS
  let f := Frame.goaway c.highestIn code []
  connInput .SEND_GOAWAY
  prepareForSending [f]

/-- Run a connection-level computation with the frame buffer out of sight.  Nothing outside `receive_data` /
    the frame iterator touches `incoming_buffer`; the model makes that a matter of construction, so that
    statements about chunking need no per-handler frame lemmas. -/
def hideFb {α} (m : CM α) : CM α := fun c =>
  match m { c with fb := {} } with
  | (r, c') => (r, { c' with fb := c.fb })

/-- the `for frame in self.incoming_buffer` loop of receive_data; fuel = number of bytes buffered -/
def recvLoop : Nat → List Event → CM (List Event)
  | 0, evs => pure evs
  | fuel+1, evs => fun c =>
    match FrameBuffer.next (c.fb.data.length + 1) c.fb with
    | (.error e, fb) => (.error e, { c with fb := fb })
    | (.ok none, fb) => (.ok evs, { c with fb := fb })
    | (.ok (some rf), fb) =>
      match hideFb (receiveFrame rf) { c with fb := fb } with
      | (.error e, c) => (.error e, c)
      | (.ok es, c) =>
        -- the limit is refreshed after every frame (fix: commit)
        recvLoop fuel (evs ++ es) { c with fb := { c.fb with maxFrameSize := c.maxInFrame } }

/-- the `except` clauses of `receive_data` -/
def handleRecvError (e : Exc) : CM (List Event) :=
  match e with
  | .py (.Other "InvalidPaddingError") => do
    terminateConnection ErrorCodes.PROTOCOL_ERROR
    raise pErr
  | .h2 cls code _ _ =>
    if cls.isSub .ProtocolError then
      match code with
      | some code => do
        terminateConnection code
        raise e
      | none => raise (.py .AttributeError)
    else raise e
  | _ => raise e

/-- `receive_data(data)` -/
def receiveData (data : Bytes) : CM (List Event) := fun c =>
  match FrameBuffer.addData c.fb data with
  | .error e => (.error e, c)           -- invalid preamble: raised outside the try block, no GOAWAY
  | .ok fb =>
    let c := { c with fb := { fb with maxFrameSize := c.maxInFrame } }
    match recvLoop (c.fb.data.length + 1) [] c with
    | (.ok evs, c) => (.ok evs, c)
    | (.error e, c) => hideFb (handleRecvError e) c

end Conn
end H2
