/-
  C06 — the stream lifecycle follows the RFC 7540 section 5.1 state machine.

  `rfc` below is a reference machine written from the RFC text; `classify`
  reads the reaction of the library off `stepShape`, the interpreter of the
  transition table that is *regenerated from stream.py on every run*.  The
  comparison is decided by the kernel over all 1 680 shapes × 19 inputs.
-/
import H2.Proofs.Shapes
import H2.Proofs.StreamLemmas
import H2.Proofs.RecvWF

namespace H2.C06
open H2 H2.Gen

inductive Reaction where
  | accept (tgt : StreamState)      -- the frame / call is accepted, stream moves to tgt
  | refuse                          -- local call refused (exception, nothing sent)
  | streamErr                       -- RST_STREAM(STREAM_CLOSED) for this stream
  | connErr                         -- connection error
  | closedErr                       -- frame on a closed stream: stream or connection error depending on how it closed
deriving DecidableEq, Repr

def isSend : StreamInputs → Bool
  | .SEND_HEADERS | .SEND_PUSH_PROMISE | .SEND_RST_STREAM | .SEND_DATA | .SEND_WINDOW_UPDATE | .SEND_END_STREAM
  | .SEND_INFORMATIONAL_HEADERS | .SEND_ALTERNATIVE_SERVICE | .UPGRADE_CLIENT | .UPGRADE_SERVER => true
  | _ => false

def classify (sh : Shape) (inp : StreamInputs) : Reaction :=
  match stepShape sh inp with
  | (.ok _, sh') => .accept sh'.state
  | (.proto, _) => if isSend inp then .refuse else .connErr
  | (.streamClosed true, _) => .streamErr
  | (.streamClosed false, _) => if isSend inp then .refuse else .closedErr

open StreamState StreamInputs in
/-- RFC 7540 section 5.1 (and 6.6, 8.2 for PUSH_PROMISE), written from the text: the reactions the RFC permits -/
def rfc (st : StreamState) (inp : StreamInputs) : List Reaction :=
  match st, inp with
  -- idle
  | IDLE, SEND_HEADERS => [.accept OPEN]
  | IDLE, RECV_HEADERS => [.accept OPEN]
  | IDLE, SEND_PUSH_PROMISE => [.accept RESERVED_LOCAL]       -- this stream is the promised one
  | IDLE, RECV_PUSH_PROMISE => [.accept RESERVED_REMOTE]
  | IDLE, UPGRADE_CLIENT => [.accept HALF_CLOSED_LOCAL]
  | IDLE, UPGRADE_SERVER => [.accept HALF_CLOSED_REMOTE]
  -- reserved (local)
  | RESERVED_LOCAL, SEND_HEADERS => [.accept HALF_CLOSED_REMOTE]
  | RESERVED_LOCAL, SEND_RST_STREAM => [.accept CLOSED]
  | RESERVED_LOCAL, RECV_RST_STREAM => [.accept CLOSED]
  | RESERVED_LOCAL, RECV_WINDOW_UPDATE => [.accept RESERVED_LOCAL]
  -- reserved (remote)
  | RESERVED_REMOTE, RECV_HEADERS => [.accept HALF_CLOSED_LOCAL]
  | RESERVED_REMOTE, SEND_RST_STREAM => [.accept CLOSED]
  | RESERVED_REMOTE, RECV_RST_STREAM => [.accept CLOSED]
  -- open
  | OPEN, SEND_HEADERS | OPEN, RECV_HEADERS | OPEN, SEND_DATA | OPEN, RECV_DATA | OPEN, SEND_WINDOW_UPDATE
  | OPEN, RECV_WINDOW_UPDATE | OPEN, SEND_PUSH_PROMISE | OPEN, RECV_PUSH_PROMISE
  | OPEN, SEND_INFORMATIONAL_HEADERS | OPEN, RECV_INFORMATIONAL_HEADERS => [.accept OPEN]
  | OPEN, SEND_END_STREAM => [.accept HALF_CLOSED_LOCAL]
  | OPEN, RECV_END_STREAM => [.accept HALF_CLOSED_REMOTE]
  | OPEN, SEND_RST_STREAM | OPEN, RECV_RST_STREAM => [.accept CLOSED]
  -- half-closed (local): may receive anything, may send WINDOW_UPDATE, PRIORITY, RST_STREAM
  | HALF_CLOSED_LOCAL, RECV_HEADERS | HALF_CLOSED_LOCAL, RECV_DATA | HALF_CLOSED_LOCAL, RECV_WINDOW_UPDATE
  | HALF_CLOSED_LOCAL, RECV_PUSH_PROMISE | HALF_CLOSED_LOCAL, RECV_INFORMATIONAL_HEADERS
  | HALF_CLOSED_LOCAL, SEND_WINDOW_UPDATE => [.accept HALF_CLOSED_LOCAL]
  | HALF_CLOSED_LOCAL, RECV_END_STREAM => [.accept CLOSED]
  | HALF_CLOSED_LOCAL, SEND_RST_STREAM | HALF_CLOSED_LOCAL, RECV_RST_STREAM => [.accept CLOSED]
  -- half-closed (remote): may send anything; receiving other than WINDOW_UPDATE, PRIORITY, RST_STREAM is a stream error
  | HALF_CLOSED_REMOTE, SEND_HEADERS | HALF_CLOSED_REMOTE, SEND_DATA | HALF_CLOSED_REMOTE, SEND_WINDOW_UPDATE
  | HALF_CLOSED_REMOTE, RECV_WINDOW_UPDATE | HALF_CLOSED_REMOTE, SEND_PUSH_PROMISE
  | HALF_CLOSED_REMOTE, SEND_INFORMATIONAL_HEADERS => [.accept HALF_CLOSED_REMOTE]
  | HALF_CLOSED_REMOTE, SEND_END_STREAM => [.accept CLOSED]
  | HALF_CLOSED_REMOTE, SEND_RST_STREAM | HALF_CLOSED_REMOTE, RECV_RST_STREAM => [.accept CLOSED]
  | HALF_CLOSED_REMOTE, RECV_HEADERS | HALF_CLOSED_REMOTE, RECV_DATA | HALF_CLOSED_REMOTE, RECV_PUSH_PROMISE
  | HALF_CLOSED_REMOTE, RECV_INFORMATIONAL_HEADERS | HALF_CLOSED_REMOTE, RECV_END_STREAM => [.streamErr]
  -- closed: WINDOW_UPDATE / RST_STREAM may still arrive; other frames are a stream or connection error
  | CLOSED, RECV_WINDOW_UPDATE | CLOSED, RECV_RST_STREAM => [.accept CLOSED]
  | CLOSED, RECV_HEADERS | CLOSED, RECV_DATA | CLOSED, RECV_PUSH_PROMISE | CLOSED, RECV_INFORMATIONAL_HEADERS
  | CLOSED, RECV_END_STREAM => [.closedErr, .connErr, .accept CLOSED]
  -- ALTSVC (RFC 7838) is advisory: never an error at this level
  | s, RECV_ALTERNATIVE_SERVICE => [.accept s]
  | s, SEND_ALTERNATIVE_SERVICE => [.accept s, .refuse]
  | _, _ => []

/-- what the RFC leaves when it permits nothing: local calls are refused, received frames are connection errors -/
def rfcOrDefault (st : StreamState) (inp : StreamInputs) : List Reaction :=
  match rfc st inp with
  | [] => if isSend inp then [.refuse] else [.connErr]
  | l => if isSend inp then .refuse :: l else .connErr :: l     -- stricter message rules of the library may always refuse


/-- The reactions of the unchanged tree that RFC 7540 section 5.1 does not permit and that no comment or
    document of the library describes as intended (known findings D27/D28): DATA on a reserved (or leaked idle)
    stream is answered with RST_STREAM instead of a connection error, and WINDOW_UPDATE is accepted on
    reserved(remote) and may be sent on both reserved states. -/
def knownDeviations : List (StreamState × StreamInputs × Reaction) :=
  [(.IDLE, .RECV_DATA, .streamErr), (.RESERVED_REMOTE, .RECV_DATA, .streamErr), (.RESERVED_LOCAL, .RECV_DATA, .streamErr),
   (.RESERVED_REMOTE, .RECV_WINDOW_UPDATE, .accept .RESERVED_REMOTE),
   (.RESERVED_REMOTE, .SEND_WINDOW_UPDATE, .accept .RESERVED_REMOTE),
   (.RESERVED_LOCAL, .SEND_WINDOW_UPDATE, .accept .RESERVED_LOCAL)]

def conforms (sh : Shape) (i : StreamInputs) : Bool :=
  !Good sh || (rfcOrDefault sh.state i).contains (classify sh i) || knownDeviations.contains (sh.state, i, classify sh i)

/-- **C06 (partial: modulo the six listed deviations)**: in every state the library can reach, for every local
    action and received frame, the reaction is one RFC 7540 section 5.1 permits there (acceptance with the RFC's
    target state, a refusal, a stream error or a connection error as the state prescribes). -/
theorem C06_conformance_partial : ∀ sh i, conforms sh i = true :=
  forall_shape_input (by decide +kernel)

/-- the full statement (no deviation list) is false of the unchanged tree: witnesses -/
theorem C06_deviation_witness :
    classify { state := .RESERVED_REMOTE, client := some true, headersSent := true } .RECV_DATA = .streamErr ∧
    classify { state := .RESERVED_REMOTE, client := some true, headersSent := true } .RECV_WINDOW_UPDATE = .accept .RESERVED_REMOTE := by
  decide

/-- A local send succeeds only where the RFC state permits sending that frame (no deviation besides
    WINDOW_UPDATE on reserved streams), and always with the RFC's target state. -/
theorem C06_send_only_where_permitted (sh : Shape) (i : StreamInputs) (tgt : StreamState)
    (hg : Good sh = true) (hs : isSend i = true) (hacc : classify sh i = .accept tgt)
    (hwu : i ≠ .SEND_WINDOW_UPDATE) : (rfc sh.state i).contains (.accept tgt) = true := by
  have h := C06_conformance_partial sh i
  revert hg hs hacc hwu h
  revert tgt
  have key : ∀ sh i, (!Good sh || !isSend i || (i == .SEND_WINDOW_UPDATE) ||
      (match classify sh i with
       | .accept tgt => (rfc sh.state i).contains (.accept tgt)
       | _ => true)) = true := forall_shape_input (by decide +kernel)
  intro tgt hg hs hacc hwu _
  have := key sh i
  simp only [hg, hs, hacc, Bool.not_true, Bool.false_or] at this
  cases hi : (i == StreamInputs.SEND_WINDOW_UPDATE) with
  | true => exact absurd (by simpa using hi) hwu
  | false => simpa [hi] using this

/-! ### streams that are still idle (the connection's part of section 5.1)

  A frame other than HEADERS / PRIORITY (and the tolerated RST_STREAM / ALTSVC) for a stream id the connection has not
  seen yet — not in the table and above the high-water mark of its side — is a connection error: the handler raises
  NoSuchStreamError with PROTOCOL_ERROR, which is not the StreamClosedError that `_receive_frame` answers with
  RST_STREAM, so `receive_data` ends the connection (C18). -/

/-- the exception of a lookup on an idle stream: a ProtocolError with code PROTOCOL_ERROR that is not a
    StreamClosedError -/
def idleErr (sid : Int) : Exc := .h2 .NoSuchStreamError (some 1) (some sid) []

theorem idleErr_is_connection_error (sid : Int) :
    (idleErr sid).isInstance .ProtocolError = true ∧ (idleErr sid).isInstance .StreamClosedError = false :=
  ⟨rfl, rfl⟩

open H2.Conn in
/-- **WINDOW_UPDATE on an idle stream** is a connection error (PROTOCOL_ERROR); the window is not touched -/
theorem C06_idle_window_update (c : Conn) (sid incr : Int) (hs : sid ≠ 0)
    (hno : hasStream c sid = false)
    (hidle : sid > (if streamIdIsOutbound c sid then c.highestOut else c.highestIn))
    (hopen : c.cstate = .CLIENT_OPEN ∨ c.cstate = .SERVER_OPEN) :
    wp (receiveWindowUpdateFrame sid incr) (fun _ _ => False) (fun e c' => e = idleErr sid ∧ c' = c) c := by
  have htab : connTable c.cstate .RECV_WINDOW_UPDATE = some c.cstate := by
    rcases hopen with h | h <;> simp [h, connTable]
  have hc : ({ c with cstate := c.cstate } : Conn) = c := by cases c; rfl
  unfold receiveWindowUpdateFrame
  wps
  rw [wp_connInput_ok _ _ _ htab, hc]
  have hs' : (sid != 0) = true := by simpa using hs
  simp only [hs', if_true]
  wps
  rw [wp_getStreamById_eq, hno]
  simp only [Bool.false_eq_true, if_false, hidle, if_true]
  first | exact ⟨rfl, rfl⟩ | trivial

open H2.Conn in
/-- **DATA on an idle stream** is a connection error (PROTOCOL_ERROR) -/
theorem C06_idle_data (c : Conn) (sid : Int) (p : Bytes) (es : Bool) (fcl : Int)
    (hno : hasStream c sid = false)
    (hidle : sid > (if streamIdIsOutbound c sid then c.highestOut else c.highestIn))
    (hopen : c.cstate = .CLIENT_OPEN ∨ c.cstate = .SERVER_OPEN) :
    wp (receiveDataFrame sid p es fcl) (fun _ _ => False)
      (fun e _ => e = idleErr sid ∨ e.isInstance .FlowControlError = true) c := by
  have htab : connTable c.cstate .RECV_DATA = some c.cstate := by
    rcases hopen with h | h <;> simp [h, connTable]
  have hc : ({ c with cstate := c.cstate } : Conn) = c := by cases c; rfl
  unfold receiveDataFrame
  wps
  rw [wp_connInput_ok _ _ _ htab, hc]
  wps
  rw [wp_onConnWM]
  cases hw : c.inWM.window_consumed fcl with
  | mk r w =>
    cases r with
    | error e =>
      simp only
      right
      unfold WindowManager.window_consumed at hw
      simp only at hw
      split at hw <;> simp at hw
      obtain ⟨h1, _⟩ := hw
      subst h1
      decide
    | ok v =>
      simp only
      wps
      rw [wp_getStreamById_eq]
      have hno' : hasStream { c with inWM := w } sid = false := hno
      rw [hno']
      have hidle' : sid > (if streamIdIsOutbound { c with inWM := w } sid then ({ c with inWM := w } : Conn).highestOut
          else ({ c with inWM := w } : Conn).highestIn) := hidle
      simp only [Bool.false_eq_true, if_false, hidle', if_true]
      first | exact ⟨rfl, Or.inl rfl⟩ | exact Or.inl rfl | trivial

-- @also H2.good_step
/-- non-vacuity: the reference machine accepts the ordinary request/response life of a stream -/
example : classify {} .SEND_HEADERS = .accept .OPEN ∧ (rfc .IDLE .SEND_HEADERS).contains (.accept .OPEN) = true := by decide

end H2.C06
