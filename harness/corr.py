"""Correspondence run: the same op lines go to real h2 objects and to the Lean
model driver; canonical observations are compared op by op."""
import json
import random

import gen
import proto
from real import World
from model import ModelProc


def enc_json(o):
    if isinstance(o, (bytes, bytearray)):
        return {'$b': bytes(o).hex()}
    if isinstance(o, tuple):
        return {'$t': [enc_json(x) for x in o]}
    if isinstance(o, list):
        return [enc_json(x) for x in o]
    if isinstance(o, dict):
        return {k: enc_json(v) for k, v in o.items()}
    return o


def dec_json(o):
    if isinstance(o, dict):
        if '$b' in o:
            return bytes.fromhex(o['$b'])
        if '$t' in o:
            return tuple(dec_json(x) for x in o['$t'])
        return {k: dec_json(v) for k, v in o.items()}
    if isinstance(o, list):
        return [dec_json(x) for x in o]
    return o


FIELDS = ['res', 'ev', 'out', 'enc', 'st']


def split_obs(line):
    """'res | ev .. | out .. | enc .. | st=..' -> dict"""
    parts = line.split(' | ')
    d = {'res': parts[0]}
    for p in parts[1:]:
        if p.startswith('ev '):
            d['ev'] = p[3:]
        elif p.startswith('out '):
            d['out'] = p[4:]
        elif p.startswith('enc '):
            d['enc'] = p[4:]
        elif p.startswith('st='):
            d['st'] = p[3:]
        elif p.startswith('ss='):
            d['ss'] = p[3:]
        else:
            d.setdefault('extra', []).append(p)
    return d


def diff_obs(real_line, model_line, fields=None):
    """-> list of differing field names (restricted to `fields` when given)"""
    if real_line == model_line:
        return []
    a, b = split_obs(real_line), split_obs(model_line)
    keys = set(a) | set(b)
    out = [k for k in sorted(keys) if a.get(k) != b.get(k)]
    if fields is not None:
        out = [k for k in out if k in fields or k == 'extra']
    return out


class Runner(object):
    """Runs ops on both sides.  `model` may be None (real only, for oracles)."""

    def __init__(self, model=None):
        self.world = World()
        self.model = model
        if model is not None:
            model.reset()
        self.ops = []
        self.log = []          # (op, real_line, model_line, obs)
        self.mismatch = None   # (index, fields)
        self.unmodelled = False
        self.unmodelled_idx = None

    def run(self, op):
        if op.get('op') == 'initiate_upgrade' and op.get('settings_header') == '@0':
            # directed histories: the server is handed whatever HTTP2-Settings value connection 0 produced
            val = None
            for op0, ol0, _, _ in self.log:
                if op0['op'] == 'initiate_upgrade' and op0.get('c') == 0 and ol0.startswith('ok ') and not ol0.startswith('ok -'):
                    val = proto.unhx(ol0.split(' ')[1])
            op = dict(op, settings_header=val)
        line, obs_line, obs = self.world.run(op)
        mline = None
        if self.model is not None and not self.unmodelled and any(
                not isinstance(x, (str, bytes, bytearray)) for h in (op.get('headers') or []) for x in (h[0], h[1])):
            # a header name or value that is not a string at all: outside what the model represents
            self.unmodelled = True
            self.unmodelled_idx = len(self.ops)
        if self.model is not None and not self.unmodelled:
            mline = self.model.send(line)
            if 'UNMODELLED' in mline:
                self.unmodelled = True
                self.unmodelled_idx = len(self.ops)
            elif self.mismatch is None:
                d = diff_obs(obs_line, mline)
                if d:
                    self.mismatch = (len(self.ops), d)
        self.ops.append(op)
        self.log.append((op, obs_line, mline, obs))
        return obs


CFGS = {
    # C14: each combination of the outbound options; C15: each inbound combination incl. header_encoding
    'out': lambda rng: dict(vo=int(rng.random() < 0.7), no=int(rng.random() < 0.7)),
    'in': lambda rng: dict(vi=int(rng.random() < 0.7), ni=int(rng.random() < 0.6), enc=('utf-8' if rng.random() < 0.4 else None)),
}


def _unmodelled_at(self, idx):
    return self.unmodelled_idx is not None and idx >= self.unmodelled_idx


Runner.unmodelled_at = _unmodelled_at


def gen_program(rng, model, mode='pair', steps=40, weights=None, invalid=0.15, allow_str=True, stop_on_mismatch=True,
                max_data=70000, autoack=False, cfgs=None):
    r = Runner(model)
    ops, conns = gen.setup_ops(rng, mode, CFGS[cfgs](rng) if cfgs else None)
    for op in ops:
        obs = r.run(op)
    if mode == 'upgrade':
        # hand the client's HTTP2-Settings value to the server
        val = None
        for op, ol, ml, obs in r.log:
            if op['op'] == 'initiate_upgrade' and ol.startswith('ok ') and not ol.startswith('ok -'):
                val = proto.unhx(ol.split(' ')[1])
        sh = val
        if rng.random() < 0.1:
            sh = None
        r.run({'op': 'initiate_upgrade', 'c': 1, 'settings_header': sh})
        r.run({'op': 'xfer', 'c': 0, 'to': 1})
        r.run({'op': 'xfer', 'c': 1, 'to': 0})
    g = gen.Gen(rng, r.world, conns, weights=weights, invalid=invalid, allow_str=allow_str, max_data=max_data)
    for _ in range(steps):
        if stop_on_mismatch and r.mismatch is not None:
            break
        op = g.next_op()
        obs = r.run(op)
        if autoack and obs is not None and rng.random() < 0.8:
            # the application hands every received flow-controlled byte back (C05's discipline)
            import h2.events as EV
            c = op['to'] if op['op'] == 'xfer' else op.get('c', 0)
            for e in list(obs['raw_events']):
                if isinstance(e, EV.DataReceived) and e.flow_controlled_length:
                    n = e.flow_controlled_length
                    if rng.random() < 0.3 and n > 1:
                        k = rng.randrange(1, n)
                        r.run({'op': 'ack_data', 'c': c, 'size': k, 'sid': e.stream_id})
                        n -= k
                    r.run({'op': 'ack_data', 'c': c, 'size': n, 'sid': e.stream_id})
        # a closed connection is a sink: look at it for a few more ops only
        if any(rc.conn.state_machine.state.name == 'CLOSED' for rc in r.world.conns.values()) and rng.random() < 0.25:
            break
    return r


def replay(ops, model):
    r = Runner(model)
    for op in ops:
        r.run(op)
    return r


def minimise(ops, model, fields_of_interest=None, budget=400):
    """delta-debug an op list that shows a mismatch to a (locally) minimal one"""
    def bad(cand):
        try:
            r = replay(cand, model)
        except Exception:
            return False
        return r.mismatch is not None
    cur = list(ops)
    # cut everything after the mismatching op
    r = replay(cur, model)
    if r.mismatch is None:
        return cur
    cur = cur[:r.mismatch[0] + 1]
    n = 2
    tries = 0
    while len(cur) >= 2 and tries < budget:
        chunk = max(1, len(cur) // n)
        reduced = False
        for i in range(0, len(cur), chunk):
            cand = cur[:i] + cur[i + chunk:]
            tries += 1
            if cand and any(o['op'] == 'new' for o in cand) and bad(cand):
                cur = cand
                n = max(n - 1, 2)
                reduced = True
                break
        if not reduced:
            if chunk == 1:
                break
            n = min(len(cur), n * 2)
    return cur


if __name__ == '__main__':
    import sys
    import time
    seed = int(sys.argv[1]) if len(sys.argv) > 1 else 1
    nprog = int(sys.argv[2]) if len(sys.argv) > 2 else 50
    mode = sys.argv[3] if len(sys.argv) > 3 else 'pair'
    weights = json.loads(sys.argv[4]) if len(sys.argv) > 4 else None
    m = ModelProc()
    t0 = time.time()
    bad = 0
    nops = 0
    for i in range(nprog):
        rng = random.Random(seed * 100003 + i)
        r = gen_program(rng, m, mode=mode, steps=40, weights=weights)
        nops += len(r.ops)
        if r.mismatch:
            bad += 1
            idx, fields = r.mismatch
            small = minimise(r.ops, m)
            rr = replay(small, m)
            print('MISMATCH prog %d at op %d fields %s (minimised to %d ops)' % (i, idx, fields, len(small)))
            for op, ol, ml, obs in rr.log:
                print('   ', proto.fmt_op(op)[:160] if op['op'] != 'new' else proto.fmt_op(op))
            op, ol, ml, obs = rr.log[-1]
            for f in rr.mismatch[1]:
                print('      real  %s: %s' % (f, str(split_obs(ol).get(f))[:300]))
                print('      model %s: %s' % (f, str(split_obs(ml).get(f))[:300]))
            if bad >= 5:
                break
    print('programs %d ops %d mismatching %d  %.1fs' % (i + 1, nops, bad, time.time() - t0))
