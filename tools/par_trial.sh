#!/bin/sh
# par_trial.sh seed|benign <name> <pid> [pid...] : one trial in its own scratch world — a worktree of /repo with the
# patch applied and a copy of /verif (with its Lean build products) whose checks read that worktree (H2_SRC).
# Neither /repo nor /verif is touched, so trials can run side by side.  Prints the result lines.
KIND=$1; NAME=$2; shift 2
case $KIND in seed) PATCH=/verif/seeded/$NAME/patch.diff;; *) PATCH=/verif/benign/$NAME/patch.diff;; esac
W=$(mktemp -d /var/tmp/trial_${NAME}_XXXXXX)
git -C /repo worktree add -q --detach $W/repo HEAD || { rm -rf $W; exit 2; }
git -C $W/repo apply $PATCH || { echo "[$NAME] PATCH DOES NOT APPLY"; git -C /repo worktree remove --force $W/repo; rm -rf $W; exit 2; }
mkdir $W/verif
(cd /verif && tar cf - --exclude=.git --exclude=work --exclude=evidence . ) | (cd $W/verif && tar xf -)
mkdir -p $W/verif/work $W/verif/evidence
for p in "$@"; do
  (cd $W/verif && H2_SRC=$W/repo/src timeout 2400 ./check $p --tier quick 2>&1 | grep -E "VIOLATION|-> " | sed "s#$W/verif#/verif#; s/^/[$NAME] /" | cut -c1-260)
done
git -C /repo worktree remove --force $W/repo
rm -rf $W
