/-
  C21 core: the frame iterator and the receive loop do not care where the byte stream was cut.
-/
import H2.Proofs.Wp

namespace H2
open H2.Gen H2.Conn

namespace FrameBuffer

/-- the buffer with `x` more bytes behind what is already buffered -/
def more (fb : FrameBuffer) (x : Bytes) : FrameBuffer := { fb with data := fb.data ++ x }

@[simp] theorem more_nil (fb : FrameBuffer) : fb.more [] = fb := by simp [more]
@[simp] theorem more_data (fb : FrameBuffer) (x : Bytes) : (fb.more x).data = fb.data ++ x := rfl
@[simp] theorem more_max (fb : FrameBuffer) (x : Bytes) : (fb.more x).maxFrameSize = fb.maxFrameSize := rfl
@[simp] theorem more_hb (fb : FrameBuffer) (x : Bytes) : (fb.more x).headersBuffer = fb.headersBuffer := rfl
@[simp] theorem more_pre (fb : FrameBuffer) (x : Bytes) : (fb.more x).preamble = fb.preamble := rfl
theorem more_more (fb : FrameBuffer) (x y : Bytes) : (fb.more x).more y = fb.more (x ++ y) := by
  simp [more, List.append_assoc]

/-- `_update_header_buffer` never looks at the buffered bytes -/
theorem updateHeaderBuffer_more (fb : FrameBuffer) (f : RFrame) (x : Bytes) :
    updateHeaderBuffer (fb.more x) f = ((updateHeaderBuffer fb f).1, (updateHeaderBuffer fb f).2.more x) := rfl

theorem updateHeaderBuffer_data (fb : FrameBuffer) (f : RFrame) : (updateHeaderBuffer fb f).2.data = fb.data := rfl

/-- **one step of the iterator is stable under more input**: whatever `next1` decides on the bytes it has (a frame,
    a swallowed header fragment, an error) it decides the same way when more bytes follow, and the extra bytes stay
    at the end of the buffer.  Only "not enough bytes yet" may change. -/
theorem next1_more (fb : FrameBuffer) (x : Bytes) :
    match next1 fb with
    | (.ok .none, _) => True
    | (r, fb') => next1 (fb.more x) = (r, fb'.more x) := by
  unfold next1
  simp only [more_data, more_max, updateHeaderBuffer, more_hb, more_pre]
  by_cases h9 : fb.data.length < 9
  · simp [h9]
  · have h9' : ¬ ((fb.data ++ x).length < 9) := by simp; omega
    have htake : (fb.data ++ x).take 9 = fb.data.take 9 := by
      rw [List.take_append_of_le_length (by omega)]
    simp only [h9, h9', if_false, htake]
    cases hh : parseFrameHeader (fb.data.take 9) with
    | error e => simp [more]
    | ok h =>
      simp only
      by_cases hlen : fb.data.length < h.length + 9
      · simp [hlen]
      · have hlen' : ¬ ((fb.data ++ x).length < h.length + 9) := by simp; omega
        simp only [hlen, hlen', if_false]
        by_cases hmax : (h.length : Int) > fb.maxFrameSize
        · simp [hmax, more]
        · simp only [hmax, if_false]
          by_cases hack : (h.type = 4 && hasBit h.flags 1 && h.length != 0) = true
          · simp [hack, more]
          · simp only [hack, if_false]
            have hbody : ((fb.data ++ x).drop 9).take h.length = (fb.data.drop 9).take h.length := by
              rw [List.drop_append_of_le_length (by omega)]
              rw [List.take_append_of_le_length (by simp; omega)]
            have hdrop : (fb.data ++ x).drop (9 + h.length) = fb.data.drop (9 + h.length) ++ x := by
              rw [List.drop_append_of_le_length (by omega)]
            rw [hbody]
            cases hp : parseBody h ((fb.data.drop 9).take h.length) with
            | error e => cases e <;> simp [more]
            | ok f =>
              simp only [hdrop, Bool.false_eq_true, if_false]
              cases hu : stepHeaderBuffer fb.headersBuffer f with
              | mk r hb2 =>
                cases r with
                | error e => simp [more]
                | ok o => cases o <;> simp [more]

/-- a step that produces or swallows a frame consumes at least nine bytes -/
theorem next1_shrinks (fb : FrameBuffer) :
    match next1 fb with
    | (.ok (.frame _), fb') => fb'.data.length + 9 ≤ fb.data.length
    | (.ok .skip, fb') => fb'.data.length + 9 ≤ fb.data.length
    | _ => True := by
  unfold next1
  by_cases h9 : fb.data.length < 9
  · simp [h9]
  · simp only [h9, if_false]
    cases hh : parseFrameHeader (fb.data.take 9) with
    | error e => simp
    | ok h =>
      simp only
      by_cases hlen : fb.data.length < h.length + 9
      · simp [hlen]
      · simp only [hlen, if_false]
        by_cases hmax : (h.length : Int) > fb.maxFrameSize
        · simp [hmax]
        · simp only [hmax, if_false]
          by_cases hack : (h.type = 4 && hasBit h.flags 1 && h.length != 0) = true
          · simp [hack]
          · simp only [hack, if_false]
            cases hp : parseBody h ((fb.data.drop 9).take h.length) with
            | error e => cases e <;> simp
            | ok f =>
              simp only [updateHeaderBuffer, Bool.false_eq_true, if_false]
              cases hu : stepHeaderBuffer fb.headersBuffer f with
              | mk r hb2 =>
                cases r with
                | error e => simp
                | ok o => cases o <;> simp <;> omega

/-- `next1` never changes the frame size limit -/
theorem next1_max (fb : FrameBuffer) : (next1 fb).2.maxFrameSize = fb.maxFrameSize := by
  unfold next1 updateHeaderBuffer
  repeat' split
  all_goals first | rfl | skip
  all_goals (
    dsimp only
    generalize stepHeaderBuffer fb.headersBuffer _ = p
    obtain ⟨r, hb⟩ := p
    cases r with
    | error e => rfl
    | ok o => cases o <;> rfl)

theorem next1_none_same (fb fb' : FrameBuffer) (h : next1 fb = (.ok .none, fb')) : fb' = fb := by
  unfold next1 updateHeaderBuffer at h
  repeat' split at h
  all_goals first | (injection h with _ h2; exact h2.symm) | skip
  all_goals (
    revert h
    dsimp only
    generalize stepHeaderBuffer fb.headersBuffer _ = p
    obtain ⟨r, hb⟩ := p
    cases r with
    | error e => intro h; injection h with h1 _; injection h1
    | ok o => cases o <;> (intro h; injection h with h1 _; injection h1 with h1; injection h1))

/-- unfolding `__next__` -/
theorem next_succ (fuel : Nat) (fb : FrameBuffer) :
    next (fuel + 1) fb =
      (match next1 fb with
       | (.error e, fb) => (.error e, fb)
       | (.ok .none, fb) => (.ok none, fb)
       | (.ok (.frame f), fb) => (.ok (some f), fb)
       | (.ok .skip, fb) => next fuel fb) := rfl

/-- the fuel of `next` is irrelevant once it covers the buffered bytes -/
theorem next_fuel (f1 f2 : Nat) (fb : FrameBuffer) (h1 : fb.data.length < 9 * f1) (h2 : fb.data.length < 9 * f2) :
    next f1 fb = next f2 fb := by
  induction f1 generalizing f2 fb with
  | zero => omega
  | succ n ih =>
    cases f2 with
    | zero => omega
    | succ m =>
      rw [next_succ, next_succ]
      have hs := next1_shrinks fb
      cases hn : next1 fb with
      | mk r fb' =>
        rw [hn] at hs
        cases r with
        | error e => rfl
        | ok o =>
          cases o with
          | none => rfl
          | frame f => rfl
          | skip => simp only at hs ⊢; exact ih m fb' (by omega) (by omega)

end FrameBuffer
end H2
