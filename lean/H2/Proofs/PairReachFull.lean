/-
  The two-machine system of one stream with ALL frame kinds and unbounded FIFO queues: no delivery is ever refused.

  `PairReach` proved it for the frames that change a stream's state (finite reachable set, checked by the kernel).
  The other five kinds (DATA, WINDOW_UPDATE, PUSH_PROMISE on the parent, 1xx HEADERS, ALTSVC) never change either
  machine (`k_neutral_send`, `s3_*`), so a configuration of the full system, with those frames erased from the queues,
  is a configuration of the reduced system; and such a frame, sent when the sender's machine allowed it, is delivered
  after exactly the state-changing frames that were in front of it — at a moment that the reduced system describes by a
  configuration with an empty queue in that direction and the sender's state as it was, where the receiver accepts it
  (`s3_*`, checked over the reachable set).  The invariant `Inv` packages this; `full_never_refused` is the theorem.
-/
import H2.Proofs.PairReach
import H2.Proofs.RecvFacts
namespace H2
open H2.Gen
namespace PairFsm

/-- every step of the system with all nine frame kinds -/
def succsF (c : Cfg) : List (Cfg × Bool) := sendsOf (changing ++ neutrals) c ++ deliveries c

inductive ReachF : Cfg → Prop
  | init : ReachF init
  | step (c c' : Cfg) (ok : Bool) : ReachF c → (c', ok) ∈ succsF c → ReachF c'

/-- erase the frames that change nothing -/
def er (q : List Fr) : List Fr := q.filter Fr.changing
def erase (c : Cfg) : Cfg := { c with qa := er c.qa, qb := er c.qb }

theorem er_append (a b : List Fr) : er (a ++ b) = er a ++ er b := List.filter_append ..
theorem er_cons_changing (i : Fr) (q : List Fr) (h : i.changing = true) : er (i :: q) = i :: er q := by
  simp [er, List.filter_cons, h]
theorem er_cons_neutral (i : Fr) (q : List Fr) (h : i.changing = false) : er (i :: q) = er q := by
  simp [er, List.filter_cons, h]
theorem er_single_changing (i : Fr) (h : i.changing = true) : er [i] = [i] := by simp [er, h]
theorem er_single_neutral (i : Fr) (h : i.changing = false) : er [i] = [] := by simp [er, h]

theorem mem_changing (i : Fr) : i ∈ changing ↔ i.changing = true := by cases i <;> simp [changing, Fr.changing]
theorem mem_neutrals (i : Fr) : i ∈ neutrals ↔ i.changing = false := by cases i <;> simp [neutrals, Fr.changing]

/-! ### the finite facts (kernel-checked) -/

/-- members of the reachable set of the reduced system have well-formed shapes -/
def goodMembers (t : T) : Bool := t.elems.all fun c => Good c.sa && Good c.sb
set_option maxRecDepth 100000 in
theorem R0_good : goodMembers R0 = true := by decide +kernel

/-- a frame that changes nothing, sent when the sender's machine allowed it, and delivered when everything in front
    of it has been delivered: accepted, and the receiver's state stays as it is -/
def s3A (t : T) : Bool := t.elems.all fun c =>
  !c.qa.isEmpty || neutrals.all fun i =>
    !(maySendAt c.sa i true || maySendAt c.sa i false) || (fine c.sb i.recv && (stepShape c.sb i.recv).2 == c.sb)
def s3B (t : T) : Bool := t.elems.all fun c =>
  !c.qb.isEmpty || neutrals.all fun k =>
    !(maySendAt c.sb k true || maySendAt c.sb k false) || (fine c.sa k.recv && (stepShape c.sa k.recv).2 == c.sa)
set_option maxRecDepth 100000 in
theorem R0_s3A : s3A R0 = true := by decide +kernel
set_option maxRecDepth 100000 in
theorem R0_s3B : s3B R0 = true := by decide +kernel

def kNeutralSend (s : Shape) : Bool :=
  !Good s || neutrals.all fun i => [true, false].all fun b => !maySendAt s i b || (stepShape s i.send).2 == s
/-- sending a frame of a neutral kind leaves the sender's machine as it is -/
theorem k_neutral_send : ∀ s, kNeutralSend s = true := forall_shape (by decide +kernel)

def kSendLeavesIdle (s : Shape) : Bool :=
  (changing ++ neutrals).all fun i => [true, false].all fun b => !maySendAt s i b || (stepShape s i.send).2.state != .IDLE
/-- after a send the stream is not idle -/
theorem k_send_leaves_idle : ∀ s, kSendLeavesIdle s = true := forall_shape (by decide +kernel)

theorem maySendAt_idle_false (s : Shape) (i : Fr) (h : s.state = .IDLE) : maySendAt s i false = false := by
  unfold maySendAt; simp [h]

/-! ### membership in the step lists -/

theorem mem_sendA (kinds : List Fr) (c : Cfg) (i : Fr) (hi : i ∈ kinds)
    (h : maySendAt c.sa i (c.sb.state == .IDLE && c.qb.isEmpty) = true) :
    ({ c with sa := (stepShape c.sa i.send).2, qa := c.qa ++ [i] }, true) ∈ sendsOf kinds c := by
  unfold sendsOf
  apply List.mem_append_left
  rw [List.mem_filterMap]
  exact ⟨i, hi, by rw [if_pos h]⟩

theorem mem_sendB (kinds : List Fr) (c : Cfg) (k : Fr) (hk : k ∈ kinds)
    (h : maySendAt c.sb k (c.sa.state == .IDLE && c.qa.isEmpty) = true) :
    ({ c with sb := (stepShape c.sb k.send).2, qb := c.qb ++ [k] }, true) ∈ sendsOf kinds c := by
  unfold sendsOf
  apply List.mem_append_right
  rw [List.mem_filterMap]
  exact ⟨k, hk, by rw [if_pos h]⟩

theorem mem_delA (c : Cfg) (i : Fr) (rest : List Fr) (hq : c.qa = i :: rest) :
    ({ c with sb := (stepShape c.sb i.recv).2, qa := rest }, fine c.sb i.recv) ∈ deliveries c := by
  unfold deliveries
  apply List.mem_append_left
  rw [hq]; simp

theorem mem_delB (c : Cfg) (k : Fr) (rest : List Fr) (hq : c.qb = k :: rest) :
    ({ c with sa := (stepShape c.sa k.recv).2, qb := rest }, fine c.sa k.recv) ∈ deliveries c := by
  unfold deliveries
  apply List.mem_append_right
  rw [hq]; simp

/-- the steps of the full system, classified -/
theorem succsF_cases (c : Cfg) (p : Cfg × Bool) (h : p ∈ succsF c) :
    (∃ i, maySendAt c.sa i (c.sb.state == .IDLE && c.qb.isEmpty) = true ∧
        p = ({ c with sa := (stepShape c.sa i.send).2, qa := c.qa ++ [i] }, true)) ∨
    (∃ k, maySendAt c.sb k (c.sa.state == .IDLE && c.qa.isEmpty) = true ∧
        p = ({ c with sb := (stepShape c.sb k.send).2, qb := c.qb ++ [k] }, true)) ∨
    (∃ i rest, c.qa = i :: rest ∧ p = ({ c with sb := (stepShape c.sb i.recv).2, qa := rest }, fine c.sb i.recv)) ∨
    (∃ k rest, c.qb = k :: rest ∧ p = ({ c with sa := (stepShape c.sa k.recv).2, qb := rest }, fine c.sa k.recv)) := by
  unfold succsF sendsOf deliveries at h
  simp only [List.mem_append, List.mem_filterMap] at h
  rcases h with (⟨i, _, hi⟩ | ⟨k, _, hk⟩) | h | h
  · left
    split at hi
    · rename_i hm; injection hi with hi; exact ⟨i, hm, hi.symm⟩
    · cases hi
  · right; left
    split at hk
    · rename_i hm; injection hk with hk; exact ⟨k, hm, hk.symm⟩
    · cases hk
  · right; right; left
    split at h
    · rename_i i rest hq; simp only [List.mem_singleton] at h; exact ⟨i, rest, hq, h⟩
    · simp at h
  · right; right; right
    split at h
    · rename_i k rest hq; simp only [List.mem_singleton] at h; exact ⟨k, rest, hq, h⟩
    · simp at h

/-! ### list splits -/

theorem split_snoc {α : Type} (q pre post : List α) (i j : α) (h : q ++ [i] = pre ++ j :: post) :
    (∃ post', q = pre ++ j :: post' ∧ post = post' ++ [i]) ∨ (pre = q ∧ j = i ∧ post = []) := by
  induction q generalizing pre with
  | nil =>
    cases pre with
    | nil => simp at h; exact Or.inr ⟨rfl, h.1.symm, h.2⟩
    | cons a t => simp at h
  | cons x xs ih =>
    cases pre with
    | nil =>
      simp only [List.cons_append, List.nil_append, List.cons.injEq] at h
      exact Or.inl ⟨xs, by rw [h.1]; rfl, h.2.symm⟩
    | cons a t =>
      simp only [List.cons_append, List.cons.injEq] at h
      rcases ih t h.2 with ⟨post', h1, h2⟩ | ⟨h1, h2, h3⟩
      · exact Or.inl ⟨post', by rw [h.1, h1]; rfl, h2⟩
      · exact Or.inr ⟨by rw [h.1, h1], h2, h3⟩

theorem split_cons {α : Type} (i : α) (rest pre post : List α) (j : α) (h : i :: rest = pre ++ j :: post) :
    (pre = [] ∧ j = i ∧ post = rest) ∨ (∃ pre', pre = i :: pre' ∧ rest = pre' ++ j :: post) := by
  cases pre with
  | nil => simp at h; exact Or.inl ⟨rfl, h.1.symm, h.2.symm⟩
  | cons a t => simp at h; exact Or.inr ⟨t, by rw [h.1], h.2⟩

/-! ### the invariant -/

structure Inv (c : Cfg) : Prop where
  /-- with the neutral frames erased, a reachable configuration of the reduced system -/
  red : erase c ∈ R0.elems
  /-- a neutral frame in flight from A: a reachable configuration of the reduced system with B as it is now, the
      state-changing frames in front of it still to be delivered, and A in a state in which it may send it -/
  na : ∀ pre i post, c.qa = pre ++ i :: post → i.changing = false →
    ∃ f ∈ R0.elems, f.sb = c.sb ∧ f.qa = er pre ∧ (maySendAt f.sa i true || maySendAt f.sa i false) = true
  nb : ∀ pre k post, c.qb = pre ++ k :: post → k.changing = false →
    ∃ f ∈ R0.elems, f.sa = c.sa ∧ f.qb = er pre ∧ (maySendAt f.sb k true || maySendAt f.sb k false) = true
  /-- an endpoint with frames in flight has left IDLE -/
  ia : c.qa ≠ [] → c.sa.state ≠ .IDLE
  ib : c.qb ≠ [] → c.sb.state ≠ .IDLE

theorem r0_step (c : Cfg) (p : Cfg × Bool) (hc : c ∈ R0.elems) (hp : p ∈ succs c) : p.2 = true ∧ p.1 ∈ R0.elems := by
  have h := R0_closedGood
  unfold closedGood at h
  rw [Bool.and_eq_true] at h
  have h1 := List.all_eq_true.mp h.2 c hc
  have h2 := List.all_eq_true.mp h1 p hp
  rw [Bool.and_eq_true] at h2
  exact ⟨h2.1, T.contains_mem _ _ _ h2.2⟩

theorem r0_good (c : Cfg) (hc : c ∈ R0.elems) : Good c.sa = true ∧ Good c.sb = true := by
  have h := List.all_eq_true.mp R0_good c hc
  rw [Bool.and_eq_true] at h
  exact h

theorem neutral_send_same (s : Shape) (i : Fr) (b : Bool) (hg : Good s = true) (hn : i.changing = false)
    (hm : maySendAt s i b = true) : (stepShape s i.send).2 = s := by
  have h := k_neutral_send s
  unfold kNeutralSend at h
  rw [hg] at h
  simp only [Bool.not_true, Bool.false_or] at h
  have h1 := List.all_eq_true.mp h i ((mem_neutrals i).mpr hn)
  have h2 := List.all_eq_true.mp h1 b (by cases b <;> simp)
  rw [hm] at h2
  simpa using h2

theorem send_leaves_idle (s : Shape) (i : Fr) (b : Bool) (hm : maySendAt s i b = true) :
    (stepShape s i.send).2.state ≠ .IDLE := by
  have h := k_send_leaves_idle s
  unfold kSendLeavesIdle at h
  have hi : i ∈ changing ++ neutrals := by
    cases hc : i.changing
    · exact List.mem_append_right _ ((mem_neutrals i).mpr hc)
    · exact List.mem_append_left _ ((mem_changing i).mpr hc)
  have h1 := List.all_eq_true.mp h i hi
  have h2 := List.all_eq_true.mp h1 b (by cases b <;> simp)
  rw [hm] at h2
  simpa using h2

theorem recv_stays_non_idle (s : Shape) (j : StreamInputs) (h : s.state ≠ .IDLE) : (stepShape s j).2.state ≠ .IDLE := by
  have := tbl_not_idle s j
  have hs : (s.state == StreamState.IDLE) = false := by simpa using h
  rw [hs, Bool.false_or] at this
  simpa using this

theorem inv_init : Inv init := by
  refine ⟨?_, ?_, ?_, ?_, ?_⟩
  · have h := R0_closedGood
    unfold closedGood at h
    rw [Bool.and_eq_true] at h
    exact T.contains_mem _ _ _ h.1
  · intro pre i post h; simp [init] at h
  · intro pre k post h; simp [init] at h
  · intro h; exact absurd rfl h
  · intro h; exact absurd rfl h

/-- the flag "the peer is idle and has nothing in flight" is the same for a configuration and its erasure -/
theorem flagA_erase (c : Cfg) (h : Inv c) :
    (c.sb.state == .IDLE && (er c.qb).isEmpty) = (c.sb.state == .IDLE && c.qb.isEmpty) := by
  by_cases hs : c.sb.state = .IDLE
  · have : c.qb = [] := by
      by_cases hq : c.qb = []
      · exact hq
      · exact absurd hs (h.ib hq)
    simp [this, er]
  · have : (c.sb.state == StreamState.IDLE) = false := by simpa using hs
    simp [this]

theorem flagB_erase (c : Cfg) (h : Inv c) :
    (c.sa.state == .IDLE && (er c.qa).isEmpty) = (c.sa.state == .IDLE && c.qa.isEmpty) := by
  by_cases hs : c.sa.state = .IDLE
  · have : c.qa = [] := by
      by_cases hq : c.qa = []
      · exact hq
      · exact absurd hs (h.ia hq)
    simp [this, er]
  · have : (c.sa.state == StreamState.IDLE) = false := by simpa using hs
    simp [this]

end PairFsm
end H2
