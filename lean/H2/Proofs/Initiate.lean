/-
  `H2Connection.initiate_connection` and `initiate_upgrade_connection` at connection level: what they write, which
  exceptions they raise, and that the invariants (WF, stream table in order) hold afterwards whether they return or
  raise.  With these two every public call has a connection-level theorem.
-/
import H2.Proofs.PushStream
import H2.Proofs.HandlerKeeps
namespace H2
open H2.Gen H2.Conn

/-! ### `initiate_connection` -/

/-- the SETTINGS frame built from the local settings' current values can always be serialised -/
theorem localSettings_serialize (c : Conn) (h : LS32 c.localSettings) :
    ∃ b, (Frame.settings false c.localSettings.items).serialize? = some b :=
  (settings_serialize c.localSettings.items (ls32_items _ h)).1

theorem body_of_serialize (f : Frame) (b : Bytes) (h : f.serialize? = some b) : ∃ body, f.body? = some body := by
  unfold Frame.serialize? at h
  cases hb : f.body? with
  | none => rw [hb] at h; simp at h
  | some body => exact ⟨body, rfl⟩

def InitiateOk (c : Conn) : Unit → Conn → Prop :=
  fun _ c' => c'.hp = c.hp ∧ Kept c c' ∧ c'.sent = c.sent ++ [Frame.settings false c.localSettings.items] ∧
    c'.preambleSent = true

/-- **`H2Connection.initiate_connection`**, any state satisfying the invariants: it writes the SETTINGS frame of the
    current local settings (never a StructError), or the connection state machine refuses and nothing is written -/
theorem api_initiateConnection (c : Conn) (hwf : WF c) (hso : SO c) :
    wp initiateConnection (InitiateOk c) (SendHeadersErr c) c := by
  unfold initiateConnection settingsFrameOfLocal InitiateOk SendHeadersErr
  wps
  apply g_connInput _ 0 false c c (G.refl 0 hso hwf)
  · intro c1 g1
    wps
    obtain ⟨b, hb⟩ := localSettings_serialize c1 (by rw [g1.ls]; exact hwf.1.ls32)
    rw [hb]
    simp only
    wps
    have k := g1.kept
    refine ⟨g1.hp, ⟨k.so, k.fb, k.ls, k.rs, k.mof, k.cfg, k.ni⟩, ?_, trivial⟩
    show c1.sent ++ [Frame.settings false c1.localSettings.items] = _
    rw [g1.sent, g1.ls]
  · intro c1 g1
    exact ⟨allowed_pErr, by unfold OS; rw [g1.out, g1.sent], g1.hp, g1.kept⟩

/-! ### `initiate_upgrade_connection` -/

/-- the new stream object takes UPGRADE_CLIENT / UPGRADE_SERVER and leaves IDLE -/
def freshUpgradeOk (cl : Bool) : Bool :=
  match stepShape ({} : Shape) (if cl then .UPGRADE_CLIENT else .UPGRADE_SERVER) with
  | (.ok _, sh) => sh.state != .IDLE
  | _ => false
theorem tbl_freshUpgrade : ∀ cl, freshUpgradeOk cl = true := by decide +kernel

theorem upgrade_fresh (mo ow iw : Int) (cl : Bool) :
    wp (Stream.upgrade cl)
      (fun _ st' => st'.sm.state ≠ .IDLE ∧ st'.ident = (freshStream 1 mo ow iw).ident)
      (fun _ _ => False) (freshStream 1 mo ow iw) := by
  unfold Stream.upgrade
  wps
  have hs : ((freshStream 1 mo ow iw).sid != 1) = false := rfl
  rw [hs]
  simp only [Bool.false_eq_true, if_false]
  try wps
  rw [wp_processInput_eq]
  have h := tbl_freshUpgrade cl
  unfold freshUpgradeOk at h
  have e : (freshStream 1 mo ow iw).sm.sh = ({} : Shape) := rfl
  rw [e]
  cases hstep : stepShape ({} : Shape) (if cl then .UPGRADE_CLIENT else .UPGRADE_SERVER) with
  | mk r sh =>
    rw [hstep] at h
    cases r with
    | proto => simp at h
    | streamClosed w => simp at h
    | ok evs =>
      simp only at h ⊢
      try wps
      refine ⟨?_, rfl⟩
      show sh.state ≠ .IDLE
      simpa using h

/-- `_begin_new_stream` inside a call that tracks `G`: it raises an h2 exception with nothing changed, or registers a
    fresh stream object under `sid` and leaves every other entry of the table alone -/
theorem g_beginNewStream {Q : Unit → Conn → Prop} {E : Exc → Conn → Prop} (sid : Int) (odd : Bool) (c0 c : Conn)
    (h : G sid false c0 c) (hls : SettingsOk c0.localSettings) (hrs : SettingsOk c0.remoteSettings)
    (hq : ∀ c', G sid true c0 c' → (∃ ow iw, c'.streams.lookup sid = some (freshStream sid c.maxOutFrame ow iw)) →
      (∀ k, k ≠ sid → c'.streams.lookup k = c.streams.lookup k) → Q () c')
    (he : ∀ e, Allowed e → E e c) : wp (beginNewStream sid odd) Q E c := by
  unfold beginNewStream
  wps
  with_reducible apply ite_intro
  · intro _; exact he _ (allowed_h2 _ _ _ _)
  intro hlow
  with_reducible apply ite_intro
  · intro _; exact he _ allowed_pErr
  intro _
  with_reducible apply ite_intro
  · intro _; exact he _ allowed_pErr
  intro hhigh
  apply g_createStream sid _ c0 c h hls hrs ?_ (fun c' g _ hf ho => hq c' g hf ho)
  have h1 := h.so.2.1
  have h2 := h.so.2.2
  unfold HIGHEST_ALLOWED_STREAM_ID at hhigh
  constructor
  · by_cases ho : streamIdIsOutbound c sid = true
    · simp only [ho, if_true] at hlow; omega
    · simp only [ho, Bool.false_eq_true, if_false] at hlow; omega
  · omega

/-- the invariants whether the call returns or raises; a raising call has written nothing -/
def UpgradeOk (c : Conn) : Option Bytes → Conn → Prop :=
  fun _ c' => WF c' ∧ SO c' ∧ c'.fb = c.fb
def UpgradeErr (c : Conn) : Exc → Conn → Prop :=
  fun e c' => Allowed e ∧ OS c' = OS c ∧ WF c' ∧ SO c' ∧ c'.fb = c.fb

theorem allowed_of_plain {e : Exc} (h : Plain e) : Allowed e := by
  cases e with
  | h2 _ _ _ _ => trivial
  | py k => exact h.1.elim

theorem os_of_k3 {c c' : Conn} (h : c'.k3 = c.k3) : OS c' = OS c ∧ c'.fb = c.fb := by
  unfold Conn.k3 at h
  unfold OS
  have h1 := congrArg Prod.fst h
  have h2 := congrArg (fun x => x.2.1) h
  have h3 := congrArg (fun x => x.2.2) h
  simp only at h1 h2 h3
  exact ⟨by rw [h1, h2], h3⟩

attribute [local irreducible] prepareForSending

macro "wps_at" h:ident : tactic => `(tactic| simp only [wp_bind, wp_pure, wp_Mpure, wp_raise, wp_getS, wp_modifyS, wp_ite,
  wp_liftExcept, wp_tryCatch, wp_zoom] at $h:ident)

set_option maxRecDepth 20000 in
/-- the part of `initiate_upgrade_connection` after the HTTP2-Settings value has been applied -/
theorem api_upgradeRest (c0 c : Conn) (cl : Bool) (hwf : WF c) (hso : SO c) (hos : OS c = OS c0) (hfb : c.fb = c0.fb) :
    wp (do
        connInput (if cl then .SEND_HEADERS else .RECV_HEADERS)
        beginNewStream 1 true
        withStream 1 (Stream.upgrade cl)
        initiateConnection
        if cl then do
          let f ← settingsFrameOfLocal
          match f.body? with
          | none => raise (.py .StructError)
          | some b => pure (some (b64Encode b))
        else pure none) (UpgradeOk c0) (UpgradeErr c0) c := by
  unfold UpgradeOk UpgradeErr
  wps
  have g00 := G.refl 1 hso hwf
  have gos : ∀ cr c', G 1 cr c c' → OS c' = OS c0 := fun cr c' g => by rw [← hos]; unfold OS; rw [g.out, g.sent]
  have gerr : ∀ c', G 1 false c c' → WF c' ∧ SO c' ∧ c'.fb = c0.fb := by
    intro c' g
    have k := g.kept
    exact ⟨⟨⟨by rw [k.ls]; exact hwf.1.ls, by rw [k.rs]; exact hwf.1.rs, by rw [k.mof]; exact hwf.1.mof,
      by rw [g.hp]; exact hwf.1.dec, by rw [k.ls]; exact hwf.1.ls32⟩, k.ni⟩, k.so, by rw [k.fb]; exact hfb⟩
  apply g_connInput _ 1 false c c g00
  · intro c1 g1
    try wps
    apply g_beginNewStream 1 true c c1 g1 hwf.1.ls hwf.1.rs
    · intro c2 g2 hfresh hother
      obtain ⟨ow, iw, hfresh⟩ := hfresh
      try wps
      rw [wp_withStream, hfresh]
      simp only
      apply wp_mono (upgrade_fresh c1.maxOutFrame ow iw cl)
      · intro _ st' ⟨hni, hid⟩
        try wps
        -- the state `initiate_connection` starts from satisfies the invariants again
        have hso3 : SO (setStream c2 1 st') := so_setStream c2 1 _ st' g2.so hfresh hid
        have hwf3 : WF (setStream c2 1 st') := by
          refine ⟨⟨by show SettingsOk c2.localSettings; rw [g2.ls]; exact hwf.1.ls,
            by show SettingsOk c2.remoteSettings; rw [g2.rs]; exact hwf.1.rs,
            by show 16384 ≤ c2.maxOutFrame; rw [g2.mof]; exact hwf.1.mof,
            by show DecOk c2.hp; rw [g2.hp]; exact hwf.1.dec,
            by show LS32 c2.localSettings; rw [g2.ls]; exact hwf.1.ls32⟩, ?_⟩
          intro hcl e he hi
          rcases mem_setStream c2 1 st' e he with h1 | ⟨h1, hk1⟩
          · subst h1; exact hni hi
          · exact hk1 (g2.idle hcl e h1 hi).1
        have hinit := api_initiateConnection (setStream c2 1 st') hwf3 hso3
        have hos3 : OS (setStream c2 1 st') = OS c0 := by rw [← gos _ c2 g2]; rfl
        have hfb3 : (setStream c2 1 st').fb = c0.fb := by show c2.fb = c0.fb; rw [g2.fb]; exact hfb
        apply wp_mono hinit
        · intro _ c4 ⟨hhp, k, hsent, _⟩
          have hwf4 : WF c4 := ⟨⟨by rw [k.ls]; exact hwf3.1.ls, by rw [k.rs]; exact hwf3.1.rs, by rw [k.mof]; exact hwf3.1.mof,
            by rw [hhp]; exact hwf3.1.dec, by rw [k.ls]; exact hwf3.1.ls32⟩, k.ni⟩
          try wps
          cases cl with
          | false =>
            simp only [Bool.false_eq_true, if_false]
            try wps
            exact ⟨hwf4, k.so, by rw [k.fb]; exact hfb3⟩
          | true =>
            simp only [if_true]
            unfold settingsFrameOfLocal
            try wps
            obtain ⟨b, hb⟩ := localSettings_serialize c4 hwf4.1.ls32
            obtain ⟨body, hbody⟩ := body_of_serialize _ _ hb
            rw [hbody]
            simp only
            try wps
            exact ⟨hwf4, k.so, by rw [k.fb]; exact hfb3⟩
        · intro e c4 ⟨hal, hos4, hhp, k⟩
          have hwf4 : WF c4 := ⟨⟨by rw [k.ls]; exact hwf3.1.ls, by rw [k.rs]; exact hwf3.1.rs, by rw [k.mof]; exact hwf3.1.mof,
            by rw [hhp]; exact hwf3.1.dec, by rw [k.ls]; exact hwf3.1.ls32⟩, k.ni⟩
          exact ⟨hal, by rw [hos4]; exact hos3, hwf4, k.so, by rw [k.fb]; exact hfb3⟩
      · intro e st' hf; exact hf.elim
    · intro e hal; exact ⟨hal, gos _ c1 g1, gerr c1 g1⟩
  · intro c1 g1; exact ⟨allowed_pErr, gos _ c1 g1, gerr c1 g1⟩

set_option maxRecDepth 20000 in
/-- **`H2Connection.initiate_upgrade_connection`**, any state satisfying the invariants, any HTTP2-Settings value that
    is base64 (what `urlsafe_b64decode` does with other input — binascii.Error, a ValueError, or silently dropping
    characters — is not modelled): it returns, or it raises an h2 exception and then nothing has been written; either
    way the invariants hold afterwards -/
theorem api_initiateUpgrade (hdr : Option Bytes) (c : Conn) (hwf : WF c) (hso : SO c)
    (hb64 : ∀ h, hdr = some h → (b64Decode h).isSome = true) :
    wp (initiateUpgradeConnection (fun items => do let _ ← receiveSettingsFrame false items; pure ()) hdr)
      (UpgradeOk c) (UpgradeErr c) c := by
  have rest : ∀ c1, WF c1 → SO c1 → OS c1 = OS c → c1.fb = c.fb →
      wp (do
        connInput (if c.cfg.client then .SEND_HEADERS else .RECV_HEADERS)
        beginNewStream 1 true
        withStream 1 (Stream.upgrade c.cfg.client)
        initiateConnection
        if c.cfg.client then do
          let f ← settingsFrameOfLocal
          match f.body? with
          | none => raise (.py .StructError)
          | some b => pure (some (b64Encode b))
        else pure none) (UpgradeOk c) (UpgradeErr c) c1 :=
    fun c1 h1 h2 h3 h4 => api_upgradeRest c c1 c.cfg.client h1 h2 h3 h4
  have rest0 := rest c hwf hso rfl rfl
  have withItems : ∀ items : List (Int × Int),
      wp (do
        (do let _ ← receiveSettingsFrame false items; pure ())
        connInput (if c.cfg.client then .SEND_HEADERS else .RECV_HEADERS)
        beginNewStream 1 true
        withStream 1 (Stream.upgrade c.cfg.client)
        initiateConnection
        if c.cfg.client then do
          let f ← settingsFrameOfLocal
          match f.body? with
          | none => raise (.py .StructError)
          | some b => pure (some (b64Encode b))
        else pure none) (UpgradeOk c) (UpgradeErr c) c := by
    intro items
    wps
    have hall := wp_and (wp_and (settings_user items c hwf) (so_settings false items c hso)) (pk_settings false items c)
    apply wp_mono hall
    · intro _ c1 ⟨⟨hw1, hs1⟩, hk1⟩
      wps
      obtain ⟨ho, hf⟩ := os_of_k3 hk1
      have := rest c1 hw1 hs1 ho hf
      wps_at this
      exact this
    · intro e c1 ⟨⟨⟨hp, hw1⟩, hs1⟩, hk1⟩
      obtain ⟨ho, hf⟩ := os_of_k3 hk1
      exact ⟨allowed_of_plain hp, ho, hw1, hs1, hf⟩
  unfold initiateUpgradeConnection
  wps
  cases hcl : c.cfg.client with
  | true =>
    simp only [if_true]
    try wps
    rw [hcl] at rest0
    simp only [if_true] at rest0
    wps_at rest0
    exact rest0
  | false =>
    simp only [Bool.false_eq_true, if_false]
    rw [hcl] at rest0 withItems
    simp only [Bool.false_eq_true, if_false] at rest0 withItems
    wps_at rest0
    wps_at withItems
    cases hdr with
    | none => simp only; try wps; exact rest0
    | some h =>
      cases h with
      | nil => simp only; try wps; exact rest0
      | cons x xs =>
        simp only
        have hd := hb64 (x :: xs) rfl
        cases hdec : b64Decode (x :: xs) with
        | none => rw [hdec] at hd; simp at hd
        | some body =>
          simp only
          cases hparse : parseBody { length := body.length, type := 4, flags := 0, sid := 0 } body with
          | error pe => simp only; try wps; exact ⟨allowed_pErr, rfl, hwf, hso, rfl⟩
          | ok pf =>
            obtain ⟨fr, fcl⟩ := pf
            cases fr <;> simp only <;> try wps
            all_goals first
              | exact ⟨allowed_pErr, rfl, hwf, hso, rfl⟩
              | exact withItems _

end H2
