/-
  The high-water marks never go down: stream ids are never handed out twice, and an id the peer has used stays used.
  (`GE lo li`: the marks are at least `lo` / `li`; lemma-per-primitive scheme as in Proofs/ClosedCap.  The one place
  that lowers a mark — `send_headers` taking a refused request back — lowers it to what it was when the call began.)
-/
import H2.Proofs.ClosedCap
namespace H2
open H2.Gen H2.Conn

/-- the marks are at least `lo` (outbound) and `li` (inbound) -/
def GE (lo li : Int) (c : Conn) : Prop := lo ≤ c.highestOut ∧ li ≤ c.highestIn

variable {lo li : Int}

section
variable {α : Type} {Q : α → Conn → Prop} {E : Exc → Conn → Prop}

theorem pg_connInput {Q : Unit → Conn → Prop} (i : ConnectionInputs) (c : Conn) (h : (GE lo li) c)
    (hq : ∀ c', (GE lo li) c' → Q () c') (he : ∀ e c', (GE lo li) c' → E e c') : wp (connInput i) Q E c := by
  unfold wp connInput
  cases connTable c.cstate i with
  | none => exact he _ _ h
  | some t => exact hq _ h

theorem pg_withStream (sid : Int) (m : M Stream α) (c : Conn) (h : (GE lo li) c)
    (hq : ∀ a c', (GE lo li) c' → Q a c') (he : ∀ e c', (GE lo li) c' → E e c') : wp (withStream sid m) Q E c := by
  rw [wp_withStream]
  cases c.streams.lookup sid with
  | none => exact he _ _ h
  | some st => exact wp_havoc (fun a s' => hq a _ h) (fun e s' => he e _ h)

theorem pg_getStreamById {Q : Unit → Conn → Prop} (sid : Int) (c : Conn) (h : (GE lo li) c)
    (hq : ∀ c', (GE lo li) c' → Q () c') (he : ∀ e c', (GE lo li) c' → E e c') : wp (getStreamById sid) Q E c := by
  rw [wp_getStreamById_eq]
  repeat' split
  all_goals first | exact hq c h | exact he _ c h

theorem pg_openStreams {Q : Int → Conn → Prop} (r : Int) (c : Conn) (h : (GE lo li) c)
    (hq : ∀ a c', (GE lo li) c' → Q a c') : wp (openStreams r) Q E c := by
  simp only [wp, openStreams]; exact hq _ _ h

theorem pg_onConnWM {Q : Option Int → Conn → Prop} (f : WindowManager → WRes) (c : Conn) (h : (GE lo li) c)
    (hq : ∀ a c', (GE lo li) c' → Q a c') (he : ∀ e c', (GE lo li) c' → E e c') : wp (onConnWM f) Q E c := by
  rw [wp_onConnWM]
  cases f c.inWM with
  | mk r w => cases r <;> first | exact hq _ _ h | exact he _ _ h

theorem pg_decodeHeaders {Q : List Header → Conn → Prop} (b : Bytes) (c : Conn) (h : (GE lo li) c)
    (hq : ∀ a c', (GE lo li) c' → Q a c') (he : ∀ e c', (GE lo li) c' → E e c') : wp (decodeHeaders b) Q E c := by
  unfold decodeHeaders
  wps
  apply wp_havoc
  · intro r hp'
    cases r <;> wps <;> first | exact hq _ _ h | exact he _ _ h
  · intro e hp'; exact he _ _ h

theorem pg_fcc {Q : Unit → Conn → Prop} (o n : Int) (c : Conn) (h : (GE lo li) c)
    (hq : ∀ c', (GE lo li) c' → Q () c') (he : ∀ e c', (GE lo li) c' → E e c') :
    wp (flowControlChangeFromSettings o n) Q E c := by
  unfold wp flowControlChangeFromSettings
  simp only
  cases flowControlChangeFromSettings.go (n - o) [] c.streams with
  | mk r ss => cases r <;> first | exact hq _ h | exact he _ _ h

theorem pg_ifcc {Q : Unit → Conn → Prop} (o n : Int) (c : Conn) (h : (GE lo li) c)
    (hq : ∀ c', (GE lo li) c' → Q () c') (he : ∀ e c', (GE lo li) c' → E e c') :
    wp (inboundFlowControlChangeFromSettings o n) Q E c := by
  unfold wp inboundFlowControlChangeFromSettings
  simp only
  cases inboundFlowControlChangeFromSettings.go (n - o) [] c.streams with
  | mk r ss => cases r <;> first | exact hq _ h | exact he _ _ h

theorem pg_putStream {Q : Unit → Conn → Prop} (sid : Int) (st : Stream) (c : Conn) (h : (GE lo li) c)
    (hq : ∀ c', (GE lo li) c' → Q () c') : wp (putStream sid st) Q E c := by
  rw [wp_putStream]
  apply hq
  unfold putStream modifyS; simp only
  split <;> exact h

end

theorem localOtherChanges_ge (ch : List (Int × Option Int × Int)) (c : Conn) (h : (GE lo li) c) : (GE lo li) (localOtherChanges ch c) := by
  unfold localOtherChanges; repeat' split
  all_goals exact h
theorem remoteOtherChanges_ge (ch : List (Int × Option Int × Int)) (c : Conn) (h : (GE lo li) c) : (GE lo li) (remoteOtherChanges ch c) := by
  unfold remoteOtherChanges; repeat' split
  all_goals exact h

/-- close goals of the form `… .outWin = s0` / continue through a method that never writes frames -/
macro "pg_auto" : tactic => `(tactic|
  repeat' (first
    | assumption
    | (apply localOtherChanges_ge; assumption)
    | (apply remoteOtherChanges_ge; assumption)
    | (apply pg_connInput _ _ (by assumption))
    | (apply pg_withStream _ _ _ (by assumption))
    | (apply pg_getStreamById _ _ (by assumption))
    | (apply pg_openStreams _ _ (by assumption))
    | (apply pg_onConnWM _ _ (by assumption))
    | (apply pg_decodeHeaders _ _ (by assumption))
    | (apply pg_fcc _ _ _ (by assumption))
    | (apply pg_ifcc _ _ _ (by assumption))
    | (apply pg_putStream _ _ _ (by assumption))
    | (intro _)
    | wps
    | split))

abbrev PG (lo li : Int) (m : CM α) (c : Conn) : Prop := (GE lo li) c → wp m (fun _ c' => (GE lo li) c') (fun _ c' => (GE lo li) c') c

theorem pg_ping (a : Bool) (p : Bytes) (c : Conn) : PG lo li (receivePingFrame a p) c := by
  intro h
  unfold receivePingFrame; pg_auto
theorem pg_priority (sid : Int) (p : Prio) (c : Conn) : PG lo li (receivePriorityFrame sid p) c := by
  intro h
  unfold receivePriorityFrame; pg_auto


theorem pg_goaway (l k : Int) (x : Bytes) (c : Conn) : PG lo li (receiveGoawayFrame l k x) c := by
  intro h
  unfold receiveGoawayFrame clearOutboundDataBuffer; pg_auto
theorem pg_rst (sid code : Int) (c : Conn) : PG lo li (receiveRstStreamFrame sid code) c := by
  intro h
  unfold receiveRstStreamFrame; pg_auto
theorem pg_altsvc (sid : Int) (o f : Bytes) (c : Conn) : PG lo li (receiveAltSvcFrame sid o f) c := by
  intro h
  unfold receiveAltSvcFrame; pg_auto
theorem pg_cont (sid : Int) (c : Conn) : PG lo li (receiveNakedContinuation sid) c := by
  intro h
  unfold receiveNakedContinuation; pg_auto
theorem pg_data (sid : Int) (p : Bytes) (es : Bool) (fcl : Int) (c : Conn) : PG lo li (receiveDataFrame sid p es fcl) c := by
  intro h
  unfold receiveDataFrame; pg_auto
theorem pg_settings (ack : Bool) (items : List (Int × Int)) (c : Conn) : PG lo li (receiveSettingsFrame ack items) c := by
  intro h
  unfold receiveSettingsFrame localSettingsAcked acknowledgeSettings localWindowChange remoteWindowChange
  pg_auto


theorem pg_use {α : Type} {Q : α → Conn → Prop} {E : Exc → Conn → Prop} {m : CM α} (hm : ∀ c, PG lo li m c) (c : Conn)
    (h : (GE lo li) c) (hq : ∀ a c', (GE lo li) c' → Q a c') (he : ∀ e c', (GE lo li) c' → E e c') :
    wp m Q E c :=
  wp_mono (hm c h) (fun a c' h' => hq a c' h') (fun e c' h' => he e c' h')

theorem putStream_marks' (c : Conn) (sid : Int) (st : Stream) :
    (putStream sid st c).2.highestIn = c.highestIn ∧ (putStream sid st c).2.highestOut = c.highestOut := by
  unfold putStream modifyS; simp only; split <;> exact ⟨rfl, rfl⟩

theorem ge_createStream {Q : Unit → Conn → Prop} {E : Exc → Conn → Prop} (sid : Int) (ob : Bool) (c : Conn) (h : GE lo li c)
    (hs : (if ob then c.highestOut else c.highestIn) < sid)
    (hq : ∀ c', GE lo li c' → Q () c') (he : ∀ e c', GE lo li c' → E e c') :
    wp (createStream sid ob) Q E c := by
  unfold createStream optInt?
  wps
  cases c.localSettings.initialWindowSize with
  | none => simp only; wps; exact he _ _ h
  | some iw =>
    simp only
    wps
    cases c.remoteSettings.initialWindowSize with
    | none => simp only; wps; exact he _ _ h
    | some ow =>
      simp only
      wps
      cases WindowManager.init iw with
      | error e => simp only; wps; exact he _ _ h
      | ok wm =>
        simp only
        wps
        rw [wp_putStream]
        wps
        obtain ⟨f1, f2⟩ := putStream_marks' c sid { sm := { sid := sid }, maxOutFrame := c.maxOutFrame, outWin := ow, inWM := wm }
        apply hq
        unfold GE at h ⊢
        cases ob
        · simp only [Bool.false_eq_true, if_false] at hs ⊢
          exact ⟨by rw [f2]; exact h.1, by show li ≤ sid; omega⟩
        · simp only [if_true] at hs ⊢
          exact ⟨by show lo ≤ sid; omega, by rw [f1]; exact h.2⟩

theorem pg_beginNewStream (sid : Int) (odd : Bool) (c : Conn) : PG lo li (beginNewStream sid odd) c := by
  intro h
  unfold beginNewStream
  wps
  with_reducible apply ite_intro
  · intro _; exact h
  intro hlow
  with_reducible apply ite_intro
  · intro _; exact h
  intro _
  with_reducible apply ite_intro
  · intro _; exact h
  intro _
  apply ge_createStream sid _ c h ?_ (fun _ h' => h') (fun _ _ h' => h')
  omega

theorem pg_getOrCreateStream (sid : Int) (odd : Bool) (c : Conn) : PG lo li (getOrCreateStream sid odd) c := by
  intro h
  unfold getOrCreateStream
  repeat' (first | assumption | (apply pg_use (pg_beginNewStream _ _) _ (by assumption)) | (intro _) | wps | split)

theorem pg_refuse (p : Int) (c : Conn) : PG lo li (refusePushedStream p) c := by
  intro h
  have e : (refusePushedStream p c).2 = (if (!streamIdIsOutbound c p && decide (p > c.highestIn)) = true then
      ({ c with highestIn := p, closedStreams := closedInsert c.closedStreams p (some .SEND_RST_STREAM) } : Conn) else c) := rfl
  have hc : GE lo li (refusePushedStream p c).2 := by
    rw [e]
    split
    · rename_i hcond
      simp only [Bool.and_eq_true, decide_eq_true_eq] at hcond
      unfold GE at h ⊢
      exact ⟨h.1, by show li ≤ p; omega⟩
    · exact h
  unfold wp
  cases hr : refusePushedStream p c with
  | mk r c' =>
    rw [hr] at hc
    cases r <;> exact hc

macro "pg_auto2" : tactic => `(tactic|
  repeat' (first
    | assumption
    | (apply pg_use (pg_getOrCreateStream _ _) _ (by assumption))
    | (apply pg_use (pg_beginNewStream _ _) _ (by assumption))
    | (apply pg_use (pg_priority _ _) _ (by assumption))
    | (apply pg_use (pg_refuse _) _ (by assumption))
    | (apply pg_connInput _ _ (by assumption))
    | (apply pg_withStream _ _ _ (by assumption))
    | (apply pg_getStreamById _ _ (by assumption))
    | (apply pg_openStreams _ _ (by assumption))
    | (apply pg_decodeHeaders _ _ (by assumption))
    | (intro _)
    | wps
    | split))

theorem pg_headersRest (sid : Int) (b : Bytes) (es : Bool) (pr : Option Prio) (c : Conn) : PG lo li (receiveHeadersRest sid b es pr) c := by
  intro h
  unfold receiveHeadersRest
  pg_auto2

theorem pg_headers (sid : Int) (b : Bytes) (es : Bool) (pr : Option Prio) (c : Conn) : PG lo li (receiveHeadersFrame sid b es pr) c := by
  intro h
  unfold receiveHeadersFrame openInboundStreams
  repeat' (first
    | assumption
    | (apply pg_use (pg_headersRest _ _ _ _) _ (by assumption))
    | (apply pg_openStreams _ _ (by assumption))
    | (intro _)
    | wps
    | split)

theorem pg_pushKnown (sid p : Int) (hs : List Header) (c : Conn) : PG lo li (receivePushPromiseKnown sid p hs) c := by
  intro h
  unfold receivePushPromiseKnown openInboundStreams
  pg_auto2

theorem pg_pushUnknown (sid p : Int) (c : Conn) : PG lo li (receivePushPromiseUnknown sid p) c := by
  intro h
  unfold receivePushPromiseUnknown
  pg_auto2

theorem pg_push (sid p : Int) (b : Bytes) (c : Conn) : PG lo li (receivePushPromiseFrame sid p b) c := by
  intro h
  unfold receivePushPromiseFrame
  repeat' (first
    | assumption
    | (apply pg_use (pg_pushKnown _ _ _) _ (by assumption))
    | (apply pg_use (pg_pushUnknown _ _) _ (by assumption))
    | (apply pg_connInput _ _ (by assumption))
    | (apply pg_getStreamById _ _ (by assumption))
    | (apply pg_decodeHeaders _ _ (by assumption))
    | (intro _)
    | wps
    | split)


theorem pg_windowUpdate (sid incr : Int) (c : Conn) : PG lo li (receiveWindowUpdateFrame sid incr) c := by
  intro h
  unfold receiveWindowUpdateFrame; pg_auto

theorem pg_dispatch (rf : RFrame) (c : Conn) : PG lo li (dispatch rf) c := by
  unfold dispatch
  split
  · exact pg_headers _ _ _ _ c
  · exact pg_push _ _ _ c
  · exact pg_settings _ _ c
  · exact pg_data _ _ _ _ c
  · exact pg_windowUpdate _ _ c
  · exact pg_ping _ _ c
  · exact pg_rst _ _ c
  · exact pg_priority _ _ c
  · exact pg_goaway _ _ _ c
  · exact pg_cont _ c
  · exact pg_altsvc _ _ _ c
  · intro h; wps; exact h

theorem pg_prepare {Q : Unit → Conn → Prop} {E : Exc → Conn → Prop} (fs : List Frame) (c : Conn) (h : (GE lo li) c)
    (hq : ∀ c', (GE lo li) c' → Q () c') (he : ∀ e c', (GE lo li) c' → E e c') : wp (prepareForSending fs) Q E c := by
  unfold prepareForSending
  wps
  split
  · exact hq c h
  · cases fs.mapM Frame.serialize? with
    | none => exact he _ c h
    | some bs =>
      simp only
      wps
      split
      · exact hq _ h
      · exact he _ _ h

theorem pg_withStreamHp {α : Type} {Q : α → Conn → Prop} {E : Exc → Conn → Prop} (sid : Int) (m : SH α) (c : Conn) (h : (GE lo li) c)
    (hq : ∀ a c', (GE lo li) c' → Q a c') (he : ∀ e c', (GE lo li) c' → E e c') : wp (withStreamHp sid m) Q E c := by
  rw [wp_withStreamHp]
  cases c.streams.lookup sid with
  | none => exact he _ _ h
  | some st => exact wp_havoc (fun a s' => hq a _ h) (fun e s' => he e _ h)

/-- **`receive_data` keeps the memory of closed streams within its cap**, whatever the bytes -/
theorem stable_GE : Stable (GE lo li) where
  fb := fun _ _ h => h
  connInput := fun i c h => by apply pg_connInput _ _ h <;> (intros; assumption)
  prepare := fun fs c h => by apply pg_prepare _ _ h <;> (intros; assumption)
  dispatch := fun rf c h => pg_dispatch rf c h

theorem receiveData_ge (d : Bytes) (c : Conn) (h : (GE lo li) c) : (GE lo li) (receiveData d c).2 := stable_receiveData stable_GE d c h

/-! ### the public calls -/

macro "pg_api" : tactic => `(tactic|
  repeat' (first
    | assumption
    | (apply pg_connInput _ _ (by assumption))
    | (apply pg_withStream _ _ _ (by assumption))
    | (apply pg_withStreamHp _ _ _ (by assumption))
    | (apply pg_getStreamById _ _ (by assumption))
    | (apply pg_openStreams _ _ (by assumption))
    | (apply pg_onConnWM _ _ (by assumption))
    | (apply pg_prepare _ _ (by assumption))
    | (apply pg_use (pg_getOrCreateStream _ _) _ (by assumption))
    | (apply pg_use (pg_beginNewStream _ _) _ (by assumption))
    | (apply pg_use (pg_settings _ _) _ (by assumption))
    | (with_reducible apply ite_intro)
    | (intro _)
    | wps
    | split))

theorem pg_apiPing (d : Bytes) (c : Conn) : PG lo li (ping d) c := by
  intro h; unfold ping; pg_api
theorem pg_apiResetStream (sid code : Int) (c : Conn) : PG lo li (resetStream sid code) c := by
  intro h; unfold resetStream; pg_api
theorem pg_apiEndStream (sid : Int) (c : Conn) : PG lo li (endStream sid) c := by
  intro h; unfold endStream; pg_api
set_option maxRecDepth 100000 in
theorem pg_apiIncrementWindow (n : Int) (sid : Option Int) (c : Conn) : PG lo li (incrementFlowControlWindow n sid) c := by
  intro h; unfold incrementFlowControlWindow; pg_api
theorem pg_apiCloseConnection (code : Int) (extra : Option Bytes) (last : Option Int) (c : Conn) :
    PG lo li (closeConnection code extra last) c := by
  intro h; unfold closeConnection; pg_api
theorem pg_apiUpdateSettings (items : List (Int × Int)) (c : Conn) : PG lo li (updateSettings items) c := by
  intro h; unfold updateSettings; pg_api
set_option maxRecDepth 100000 in
theorem pg_apiAltsvc (f : Bytes) (o : Option Bytes) (sid : Option Int) (c : Conn) :
    PG lo li (advertiseAlternativeService f o sid) c := by
  intro h
  unfold advertiseAlternativeService
  cases o with
  | none =>
    cases sid with
    | none => wps; simp only [Option.isSome_none, Bool.and_self, Bool.false_eq_true, if_false, Option.isNone_none, if_true]; exact h
    | some s =>
      wps
      simp only [Option.isSome_none, Bool.false_and, Bool.false_eq_true, if_false, Option.isNone_none, Option.isNone_some,
        Bool.and_false]
      pg_api
  | some ov =>
    wps
    cases sid with
    | some s => simp only [Option.isSome_some, Bool.and_self, if_true]; exact h
    | none =>
      simp only [Option.isSome_some, Option.isSome_none, Bool.and_false, Bool.false_eq_true, if_false, Option.isNone_some,
        Bool.false_and]
      with_reducible apply ite_intro
      · intro _; exact h
      intro hx; clear hx
      with_reducible apply ite_intro
      · intro _; exact h
      intro hx; clear hx
      with_reducible apply ite_intro
      · intro _; exact h
      intro hx; clear hx
      apply pg_connInput _ _ h
      · intro c1 h1
        wps
        generalize [Frame.altsvc 0 ov f] = fs
        apply pg_prepare _ _ h1
        · intro _ h2; exact h2
        · intro _ _ h2; exact h2
      · intro _ _ h2; exact h2
theorem pg_apiPrioritize (sid : Int) (w d : Option Int) (e : Option Bool) (c : Conn) : PG lo li (prioritize sid w d e) c := by
  intro h; unfold prioritize; pg_api
theorem pg_apiAckData (size sid : Int) (c : Conn) : PG lo li (acknowledgeReceivedData size sid) c := by
  intro h; unfold acknowledgeReceivedData ackCredit; pg_api
theorem pg_apiDataToSend (n : Option Int) (c : Conn) : PG lo li (dataToSend n) c := by
  intro h; unfold dataToSend; pg_api
theorem pg_apiClearOut (c : Conn) : PG lo li clearOutboundDataBuffer c := by
  intro h; unfold clearOutboundDataBuffer; pg_api
theorem pg_apiLocalWindow (sid : Int) (c : Conn) : PG lo li (localFlowControlWindow sid) c := by
  intro h; unfold localFlowControlWindow; pg_api
theorem pg_apiRemoteWindow (sid : Int) (c : Conn) : PG lo li (remoteFlowControlWindow sid) c := by
  intro h; unfold remoteFlowControlWindow; pg_api
theorem pg_apiNextStreamId (c : Conn) : PG lo li getNextAvailableStreamId c := by
  intro h; unfold getNextAvailableStreamId; pg_api
theorem pg_apiOpenOut (c : Conn) : PG lo li openOutboundStreams c := by
  intro h; unfold openOutboundStreams; pg_api
theorem pg_apiOpenIn (c : Conn) : PG lo li openInboundStreams c := by
  intro h; unfold openInboundStreams; pg_api
theorem pg_apiSendData (sid : Int) (d : Bytes) (es : Bool) (pad : Option Int) (c : Conn) : PG lo li (sendData sid d es pad) c := by
  intro h; unfold sendData sendDataCore localFlowControlWindow; pg_api
theorem pg_apiSendHeaders (sid : Int) (hs : List Header) (es : Bool) (pw pd : Option Int) (pe : Option Bool) (c : Conn) :
    PG lo li (sendHeaders sid hs es pw pd pe) c := by
  intro h; unfold sendHeaders sendHeadersTail addPriority openOutboundStreams; pg_api
  -- the restoring branch: the mark goes back to what it was when the call began
  all_goals (
    have hc' := ‹GE lo li _›
    exact ⟨h.1, hc'.2⟩)
theorem pg_apiPushStream (sid p : Int) (hs : List Header) (c : Conn) : PG lo li (pushStream sid p hs) c := by
  intro h; unfold pushStream; pg_api
theorem pg_apiInitiate (c : Conn) : PG lo li initiateConnection c := by
  intro h; unfold initiateConnection settingsFrameOfLocal; pg_api
theorem pg_apiUpgrade (hdr : Option Bytes) (c : Conn) :
    PG lo li (initiateUpgradeConnection (fun items => do let _ ← receiveSettingsFrame false items; pure ()) hdr) c := by
  intro h
  unfold initiateUpgradeConnection settingsFrameOfLocal
  repeat' (first
    | assumption
    | (apply pg_use (pg_apiInitiate) _ (by assumption))
    | (apply pg_connInput _ _ (by assumption))
    | (apply pg_withStream _ _ _ (by assumption))
    | (apply pg_use (pg_beginNewStream _ _) _ (by assumption))
    | (apply pg_use (pg_settings _ _) _ (by assumption))
    | (intro _)
    | wps
    | split)

end H2
