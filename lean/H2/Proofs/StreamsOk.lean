/-
  The stream table stays in order: every stream object is filed under its own id, ids are positive 31-bit numbers, every
  per-stream copy of the peer's MAX_FRAME_SIZE equals the connection's, and the two high-water marks are not negative.
  `KeepsId` (no stream method changes a stream's id or its frame-size copy) is proved for every stream method; `SO` is
  proved stable under every frame handler, hence (Proofs/Stable) under `receive_data` for every byte string, and under
  the public calls C29 covers.
-/
import H2.Proofs.ApiWF
import H2.Proofs.Stable
namespace H2
open H2.Gen H2.Conn

/-! ### stream methods keep the stream's identity and frame-size limit -/

/-- what no stream method changes: the stream id and the per-stream copy of the peer's MAX_FRAME_SIZE -/
def Stream.ident (st : Stream) : Int × Int := (st.sm.sid, st.maxOutFrame)

def KeepsId {α : Type} (m : M Stream α) : Prop :=
  ∀ st, wp m (fun _ st' => st'.ident = st.ident) (fun _ st' => st'.ident = st.ident) st

theorem kid_bind {α β : Type} (m : M Stream α) (k : α → M Stream β) (hm : KeepsId m) (hk : ∀ a, KeepsId (k a)) :
    KeepsId (m >>= k) := by
  intro st
  rw [wp_bind]
  refine wp_mono (hm st) ?_ (fun _ _ h => h)
  intro a st' h'
  exact wp_mono (hk a st') (fun _ _ h => h.trans h') (fun _ _ h => h.trans h')

theorem kid_pure {α : Type} (a : α) : KeepsId (pure a : M Stream α) := fun _ => rfl
theorem kid_raise {α : Type} (e : Exc) : KeepsId (raise e : M Stream α) := fun _ => rfl
theorem kid_getS : KeepsId (getS : M Stream Stream) := fun _ => rfl
theorem kid_liftExcept {α : Type} (r : Except Exc α) : KeepsId (liftExcept r : M Stream α) := by
  intro st; rw [wp_liftExcept]; cases r <;> rfl
theorem kid_ite {α : Type} (c : Prop) [Decidable c] (a b : M Stream α) (ha : KeepsId a) (hb : KeepsId b) :
    KeepsId (if c then a else b) := by split <;> assumption
theorem kid_onWM (f : WindowManager → WRes) : KeepsId (onWM f) := by
  intro st
  unfold wp onWM
  cases f st.inWM with
  | mk r w => cases r <;> rfl
theorem kid_modify (f : Stream → Stream) (hf : ∀ s, (f s).ident = s.ident) : KeepsId (modifyS f) := fun st => hf st
theorem kid_processInput (i : StreamInputs) : KeepsId (processInput i) := by
  intro st
  rw [wp_processInput_eq]
  cases stepShape st.sm.sh i with
  | mk r sh => cases r <;> rfl

macro "kid_auto" : tactic => `(tactic|
  repeat' (first
    | (with_reducible exact kid_processInput _)
    | (with_reducible exact kid_pure _)
    | (with_reducible exact kid_raise _)
    | (with_reducible exact kid_getS)
    | (with_reducible exact kid_onWM _)
    | (with_reducible exact kid_liftExcept _)
    | (with_reducible apply kid_modify; intro _; rfl)
    | (with_reducible apply kid_bind)
    | (with_reducible apply kid_ite)
    | (with_reducible assumption)
    | (wps; first | rfl | trivial)
    | rfl
    | split
    | (intro _)))

theorem kid_buildHdrFlags (evs : List SEv) : KeepsId (buildHdrFlags evs) := by unfold buildHdrFlags; kid_auto
theorem kid_initCL (hs : List Header) : KeepsId (Stream.initializeContentLength hs) := by
  unfold Stream.initializeContentLength; kid_auto
theorem kid_trackCL (n : Int) (es : Bool) : KeepsId (Stream.trackContentLength n es) := by
  unfold Stream.trackContentLength; kid_auto
theorem kid_resetStream (code : Int) : KeepsId (Stream.resetStream code) := by unfold Stream.resetStream; kid_auto

macro "kid_auto2" : tactic => `(tactic|
  repeat' (first
    | (with_reducible exact kid_buildHdrFlags _)
    | (with_reducible exact kid_initCL _)
    | (with_reducible exact kid_trackCL _ _)
    | (with_reducible exact kid_resetStream _)
    | (with_reducible exact kid_processInput _)
    | (with_reducible exact kid_pure _)
    | (with_reducible exact kid_raise _)
    | (with_reducible exact kid_getS)
    | (with_reducible exact kid_onWM _)
    | (with_reducible exact kid_liftExcept _)
    | (with_reducible apply kid_modify; intro _; rfl)
    | (with_reducible apply kid_bind)
    | (with_reducible apply kid_ite)
    | (with_reducible assumption)
    | (wps; first | rfl | trivial)
    | rfl
    | split
    | (intro _)))

theorem kid_receiveHeaders (cfg : Config) (hs : List Header) (es : Bool) : KeepsId (Stream.receiveHeaders cfg hs es) := by
  unfold Stream.receiveHeaders; kid_auto2
theorem kid_receiveData (d : Bytes) (es : Bool) (fcl : Int) : KeepsId (Stream.receiveData d es fcl) := by
  unfold Stream.receiveData; kid_auto2
theorem kid_pushInBand (cfg : Config) (p : Int) (hs : List Header) : KeepsId (Stream.receivePushPromiseInBand cfg p hs) := by
  unfold Stream.receivePushPromiseInBand; kid_auto2
theorem kid_remotelyPushed (hs : List Header) : KeepsId (Stream.remotelyPushed hs) := by
  unfold Stream.remotelyPushed; kid_auto2
theorem kid_receiveWindowUpdate (n : Int) : KeepsId (Stream.receiveWindowUpdate n) := by
  unfold Stream.receiveWindowUpdate; kid_auto2
theorem kid_streamReset (code : Int) : KeepsId (Stream.streamReset code) := by unfold Stream.streamReset; kid_auto2
theorem kid_receiveAltSvc (o f : Bytes) : KeepsId (Stream.receiveAltSvc o f) := by unfold Stream.receiveAltSvc; kid_auto2
theorem kid_inboundFCC (d : Int) : KeepsId (Stream.inboundFlowControlChange d) := by
  unfold Stream.inboundFlowControlChange; kid_auto2
theorem kid_sendData (d : Bytes) (es : Bool) (pad : Option Int) : KeepsId (Stream.sendData d es pad) := by
  unfold Stream.sendData; kid_auto2
theorem kid_endStream : KeepsId Stream.endStream := by unfold Stream.endStream; kid_auto2
theorem kid_altSvc (f : Bytes) : KeepsId (Stream.advertiseAltSvc f) := by unfold Stream.advertiseAltSvc; kid_auto2
theorem kid_incWindow (n : Int) : KeepsId (Stream.increaseFlowControlWindow n) := by
  unfold Stream.increaseFlowControlWindow; kid_auto2
theorem kid_ackData (n : Int) : KeepsId (Stream.acknowledgeReceivedData n) := by
  unfold Stream.acknowledgeReceivedData; kid_auto2
theorem kid_locallyPushed : KeepsId Stream.locallyPushed := by unfold Stream.locallyPushed; kid_auto2
theorem kid_upgrade (cl : Bool) : KeepsId (Stream.upgrade cl) := by unfold Stream.upgrade; kid_auto2

/-! ### the stream table: every entry is filed under its own id, ids are legal, frame-size copies are current -/

def StreamOk (mo : Int) (e : Int × Stream) : Prop :=
  e.2.sm.sid = e.1 ∧ 0 < e.1 ∧ e.1 ≤ 2147483647 ∧ e.2.maxOutFrame = mo

def SO (c : Conn) : Prop := (∀ e ∈ c.streams, StreamOk c.maxOutFrame e) ∧ 0 ≤ c.highestIn ∧ 0 ≤ c.highestOut

section
variable {α : Type} {Q : α → Conn → Prop} {E : Exc → Conn → Prop}

theorem so_connInput {Q : Unit → Conn → Prop} (i : ConnectionInputs) (c : Conn) (h : SO c)
    (hq : ∀ c', SO c' → Q () c') (he : ∀ e c', SO c' → E e c') : wp (connInput i) Q E c := by
  unfold wp connInput
  cases connTable c.cstate i with
  | none => exact he _ _ h
  | some t => exact hq _ h

theorem so_setStream (c : Conn) (sid : Int) (st st' : Stream) (h : SO c) (hl : c.streams.lookup sid = some st)
    (hid : st'.ident = st.ident) : SO (setStream c sid st') := by
  refine ⟨?_, h.2.1, h.2.2⟩
  intro e he
  simp only [setStream, List.mem_map] at he
  obtain ⟨e0, he0, heq⟩ := he
  split at heq
  · rename_i hk
    subst heq
    have hk' : e0.1 = sid := by simpa using hk
    have h0 := h.1 _ (lookup_mem _ _ _ hl)
    have hid1 : st'.sm.sid = st.sm.sid := congrArg Prod.fst hid
    have hid2 : st'.maxOutFrame = st.maxOutFrame := congrArg Prod.snd hid
    exact ⟨by rw [hid1]; exact h0.1, h0.2.1, h0.2.2.1, by rw [hid2]; exact h0.2.2.2⟩
  · subst heq; exact h.1 _ he0

theorem so_withStream (sid : Int) (m : M Stream α) (c : Conn) (h : SO c) (hm : KeepsId m)
    (hq : ∀ a c', SO c' → Q a c') (he : ∀ e c', SO c' → E e c') : wp (withStream sid m) Q E c := by
  rw [wp_withStream]
  cases hl : c.streams.lookup sid with
  | none => exact he _ _ h
  | some st =>
    simp only
    refine wp_mono (hm st) ?_ ?_
    · intro a st' hid; exact hq a _ (so_setStream c sid st st' h hl hid)
    · intro e st' hid; exact he e _ (so_setStream c sid st st' h hl hid)

theorem so_getStreamById {Q : Unit → Conn → Prop} (sid : Int) (c : Conn) (h : SO c)
    (hq : ∀ c', SO c' → Q () c') (he : ∀ e c', SO c' → E e c') : wp (getStreamById sid) Q E c := by
  rw [wp_getStreamById_eq]
  repeat' split
  all_goals first | exact hq c h | exact he _ c h

theorem so_openStreams {Q : Int → Conn → Prop} (r : Int) (c : Conn) (h : SO c)
    (hq : ∀ a c', SO c' → Q a c') : wp (openStreams r) Q E c := by
  simp only [wp, openStreams]
  apply hq
  exact ⟨fun e he => h.1 e (List.mem_filter.mp he).1, h.2.1, h.2.2⟩

theorem so_onConnWM {Q : Option Int → Conn → Prop} (f : WindowManager → WRes) (c : Conn) (h : SO c)
    (hq : ∀ a c', SO c' → Q a c') (he : ∀ e c', SO c' → E e c') : wp (onConnWM f) Q E c := by
  rw [wp_onConnWM]
  cases f c.inWM with
  | mk r w => cases r <;> first | exact hq _ _ h | exact he _ _ h

theorem so_decodeHeaders {Q : List Header → Conn → Prop} (b : Bytes) (c : Conn) (h : SO c)
    (hq : ∀ a c', SO c' → Q a c') (he : ∀ e c', SO c' → E e c') : wp (decodeHeaders b) Q E c := by
  unfold decodeHeaders
  wps
  apply wp_havoc
  · intro r hp'
    cases r <;> wps <;> first | exact hq _ _ h | exact he _ _ h
  · intro e hp'; exact he _ _ h

theorem so_prepare {Q : Unit → Conn → Prop} (fs : List Frame) (c : Conn) (h : SO c)
    (hq : ∀ c', SO c' → Q () c') (he : ∀ e c', SO c' → E e c') : wp (prepareForSending fs) Q E c := by
  unfold prepareForSending
  wps
  split
  · exact hq c h
  · cases fs.mapM Frame.serialize? with
    | none => exact he _ c h
    | some bs =>
      simp only
      wps
      split
      · exact hq _ h
      · exact he _ _ h

/-- the two "all streams" loops only touch windows -/
theorem fcc_go_so (delta : Int) (mo : Int) (done rest : List (Int × Stream))
    (hd : ∀ e ∈ done, StreamOk mo e) (hr : ∀ e ∈ rest, StreamOk mo e) :
    ∀ e ∈ (flowControlChangeFromSettings.go delta done rest).2, StreamOk mo e := by
  induction rest generalizing done with
  | nil => simpa [flowControlChangeFromSettings.go] using hd
  | cons x t ih =>
    obtain ⟨k, st⟩ := x
    unfold flowControlChangeFromSettings.go
    cases guard_increment_window st.outWin delta with
    | ok w =>
      simp only
      apply ih
      · intro e he
        rcases List.mem_append.mp he with h1 | h1
        · exact hd e h1
        · simp only [List.mem_singleton] at h1; subst h1
          exact hr (k, st) List.mem_cons_self
      · intro e he; exact hr e (List.mem_cons_of_mem _ he)
    | error e =>
      simp only
      intro e' he'
      rcases List.mem_append.mp he' with h1 | h1
      · exact hd e' h1
      · exact hr e' h1

theorem ifcc_go_so (delta : Int) (mo : Int) (done rest : List (Int × Stream))
    (hd : ∀ e ∈ done, StreamOk mo e) (hr : ∀ e ∈ rest, StreamOk mo e) :
    ∀ e ∈ (inboundFlowControlChangeFromSettings.go delta done rest).2, StreamOk mo e := by
  induction rest generalizing done with
  | nil => simpa [inboundFlowControlChangeFromSettings.go] using hd
  | cons x t ih =>
    obtain ⟨k, st⟩ := x
    unfold inboundFlowControlChangeFromSettings.go
    have hid := kid_inboundFCC delta st
    unfold wp at hid
    have hx := hr (k, st) List.mem_cons_self
    cases hm : Stream.inboundFlowControlChange delta st with
    | mk r st' =>
      rw [hm] at hid
      have hid' : st'.ident = st.ident := by cases r <;> exact hid
      have hx' : StreamOk mo (k, st') :=
        ⟨by rw [show st'.sm.sid = st.sm.sid from congrArg Prod.fst hid']; exact hx.1, hx.2.1, hx.2.2.1,
         by rw [show st'.maxOutFrame = st.maxOutFrame from congrArg Prod.snd hid']; exact hx.2.2.2⟩
      cases r with
      | ok u =>
        simp only
        apply ih
        · intro e he
          rcases List.mem_append.mp he with h1 | h1
          · exact hd e h1
          · simp only [List.mem_singleton] at h1; subst h1; exact hx'
        · intro e he; exact hr e (List.mem_cons_of_mem _ he)
      | error e =>
        simp only
        intro e' he'
        rcases List.mem_append.mp he' with h1 | h1
        · exact hd e' h1
        · rcases List.mem_cons.mp h1 with h2 | h2
          · subst h2; exact hx'
          · exact hr e' (List.mem_cons_of_mem _ h2)

theorem so_fcc {Q : Unit → Conn → Prop} (o n : Int) (c : Conn) (h : SO c)
    (hq : ∀ c', SO c' → Q () c') (he : ∀ e c', SO c' → E e c') : wp (flowControlChangeFromSettings o n) Q E c := by
  unfold wp flowControlChangeFromSettings
  simp only
  have := fcc_go_so (n - o) c.maxOutFrame [] c.streams (fun _ hh => by cases hh) h.1
  cases hg : flowControlChangeFromSettings.go (n - o) [] c.streams with
  | mk r ss =>
    rw [hg] at this
    cases r <;> first | exact hq _ ⟨this, h.2.1, h.2.2⟩ | exact he _ _ ⟨this, h.2.1, h.2.2⟩

theorem so_ifcc {Q : Unit → Conn → Prop} (o n : Int) (c : Conn) (h : SO c)
    (hq : ∀ c', SO c' → Q () c') (he : ∀ e c', SO c' → E e c') : wp (inboundFlowControlChangeFromSettings o n) Q E c := by
  unfold wp inboundFlowControlChangeFromSettings
  simp only
  have := ifcc_go_so (n - o) c.maxOutFrame [] c.streams (fun _ hh => by cases hh) h.1
  cases hg : inboundFlowControlChangeFromSettings.go (n - o) [] c.streams with
  | mk r ss =>
    rw [hg] at this
    cases r <;> first | exact hq _ ⟨this, h.2.1, h.2.2⟩ | exact he _ _ ⟨this, h.2.1, h.2.2⟩

end

/-! ### creating streams -/

theorem so_putStream (c : Conn) (sid : Int) (st : Stream) (h : SO c) (hst : StreamOk c.maxOutFrame (sid, st)) :
    SO (putStream sid st c).2 := by
  unfold putStream modifyS
  simp only
  split
  · refine ⟨?_, h.2.1, h.2.2⟩
    intro e he
    simp only [List.mem_map] at he
    obtain ⟨e0, he0, heq⟩ := he
    split at heq
    · subst heq; exact hst
    · subst heq; exact h.1 _ he0
  · refine ⟨?_, h.2.1, h.2.2⟩
    intro e he
    rcases List.mem_append.mp he with h1 | h1
    · exact h.1 e h1
    · simp only [List.mem_singleton] at h1; subst h1; exact hst

theorem putStream_fields (c : Conn) (sid : Int) (st : Stream) :
    (putStream sid st c).2.maxOutFrame = c.maxOutFrame ∧ (putStream sid st c).2.highestIn = c.highestIn ∧
    (putStream sid st c).2.highestOut = c.highestOut := by
  unfold putStream modifyS; simp only; split <;> exact ⟨rfl, rfl, rfl⟩

theorem so_createStream {Q : Unit → Conn → Prop} {E : Exc → Conn → Prop} (sid : Int) (ob : Bool) (c : Conn) (h : SO c)
    (hs : 0 < sid ∧ sid ≤ 2147483647)
    (hq : ∀ c', SO c' → Q () c') (he : ∀ e c', SO c' → E e c') : wp (createStream sid ob) Q E c := by
  unfold createStream optInt?
  wps
  cases c.localSettings.initialWindowSize with
  | none => simp only; wps; exact he _ _ h
  | some iw =>
    simp only
    wps
    cases c.remoteSettings.initialWindowSize with
    | none => simp only; wps; exact he _ _ h
    | some ow =>
      simp only
      wps
      cases WindowManager.init iw with
      | error e => simp only; wps; exact he _ _ h
      | ok wm =>
        simp only
        wps
        rw [wp_putStream]
        wps
        have hp := so_putStream c sid { sm := { sid := sid }, maxOutFrame := c.maxOutFrame, outWin := ow, inWM := wm } h
          ⟨rfl, hs.1, hs.2, rfl⟩
        obtain ⟨f1, f2, f3⟩ := putStream_fields c sid { sm := { sid := sid }, maxOutFrame := c.maxOutFrame, outWin := ow, inWM := wm }
        apply hq
        cases ob
        · simp only [Bool.false_eq_true, if_false]
          exact ⟨hp.1, by show 0 ≤ sid; omega, hp.2.2⟩
        · simp only [if_true]
          exact ⟨hp.1, hp.2.1, by show 0 ≤ sid; omega⟩

theorem so_beginNewStream {Q : Unit → Conn → Prop} {E : Exc → Conn → Prop} (sid : Int) (odd : Bool) (c : Conn) (h : SO c)
    (hq : ∀ c', SO c' → Q () c') (he : ∀ e c', SO c' → E e c') : wp (beginNewStream sid odd) Q E c := by
  unfold beginNewStream
  wps
  with_reducible apply ite_intro
  · intro _; exact he _ _ h
  intro hlow
  with_reducible apply ite_intro
  · intro _; exact he _ _ h
  intro _
  with_reducible apply ite_intro
  · intro _; exact he _ _ h
  intro hhigh
  apply so_createStream sid _ c h ?_ hq he
  have h1 := h.2.1
  have h2 := h.2.2
  unfold HIGHEST_ALLOWED_STREAM_ID at hhigh
  constructor
  · by_cases ho : streamIdIsOutbound c sid = true
    · simp only [ho, if_true] at hlow; omega
    · simp only [ho, Bool.false_eq_true, if_false] at hlow; omega
  · omega

theorem so_getOrCreateStream {Q : Unit → Conn → Prop} {E : Exc → Conn → Prop} (sid : Int) (odd : Bool) (c : Conn) (h : SO c)
    (hq : ∀ c', SO c' → Q () c') (he : ∀ e c', SO c' → E e c') : wp (getOrCreateStream sid odd) Q E c := by
  unfold getOrCreateStream
  wps
  with_reducible apply ite_intro
  · intro _; exact hq c h
  · intro _; exact so_beginNewStream sid odd c h hq he

theorem so_refuse {Q : Frame → Conn → Prop} {E : Exc → Conn → Prop} (p : Int) (c : Conn) (h : SO c)
    (hq : ∀ a c', SO c' → Q a c') : wp (refusePushedStream p) Q E c := by
  unfold refusePushedStream
  wps
  apply hq
  split
  · rename_i hc
    simp only [Bool.and_eq_true, decide_eq_true_eq] at hc
    exact ⟨h.1, by show 0 ≤ p; have := h.2.1; omega, h.2.2⟩
  · exact h

/-! ### settings -/

theorem so_localOther (ch : List (Int × Option Int × Int)) (c : Conn) (h : SO c) : SO (localOtherChanges ch c) := by
  unfold localOtherChanges
  cases findChange ch SettingCodes.MAX_HEADER_LIST_SIZE <;> cases findChange ch SettingCodes.MAX_FRAME_SIZE <;>
    cases findChange ch SettingCodes.HEADER_TABLE_SIZE <;> exact h

theorem so_remoteOther (ch : List (Int × Option Int × Int)) (c : Conn) (h : SO c) : SO (remoteOtherChanges ch c) := by
  have step1 : ∀ c0 : Conn, SO c0 → SO (match findChange ch SettingCodes.HEADER_TABLE_SIZE with
      | some (_, new) => if new != c0.encTableSize then
          { c0 with encTableSize := new, hp := { c0.hp with encLog := c0.hp.encLog ++ [EncEv.resize new] } } else c0
      | none => c0) := by
    intro c0 h0
    cases findChange ch SettingCodes.HEADER_TABLE_SIZE with
    | none => exact h0
    | some p => simp only; split <;> exact h0
  unfold remoteOtherChanges
  have h1 := step1 c h
  simp only
  cases findChange ch SettingCodes.MAX_FRAME_SIZE with
  | none => exact h1
  | some p =>
    obtain ⟨o, new⟩ := p
    simp only
    refine ⟨?_, h1.2.1, h1.2.2⟩
    intro e he
    simp only [List.mem_map] at he
    obtain ⟨e0, he0, heq⟩ := he
    subst heq
    have := h1.1 e0 he0
    exact ⟨this.1, this.2.1, this.2.2.1, rfl⟩

/-! ### the frame handlers -/

macro "so_auto" : tactic => `(tactic|
  repeat' (first
    | (with_reducible assumption)
    | (with_reducible (apply so_connInput _ _ (by with_reducible assumption)))
    | (with_reducible (apply so_withStream _ _ _ (by with_reducible assumption) (by first
          | exact kid_receiveHeaders _ _ _ | exact kid_receiveData _ _ _ | exact kid_pushInBand _ _ _
          | exact kid_remotelyPushed _ | exact kid_receiveWindowUpdate _ | exact kid_streamReset _
          | exact kid_receiveAltSvc _ _ | exact kid_processInput _ | exact kid_sendData _ _ _ | exact kid_endStream
          | exact kid_altSvc _ | exact kid_incWindow _ | exact kid_resetStream _ | exact kid_ackData _
          | exact kid_locallyPushed | exact kid_upgrade _)))
    | (with_reducible (apply so_getStreamById _ _ (by with_reducible assumption)))
    | (with_reducible (apply so_openStreams _ _ (by with_reducible assumption)))
    | (with_reducible (apply so_onConnWM _ _ (by with_reducible assumption)))
    | (with_reducible (apply so_decodeHeaders _ _ (by with_reducible assumption)))
    | (with_reducible (apply so_prepare _ _ (by with_reducible assumption)))
    | (with_reducible (apply so_fcc _ _ _ (by with_reducible assumption)))
    | (with_reducible (apply so_ifcc _ _ _ (by with_reducible assumption)))
    | (with_reducible (apply so_beginNewStream _ _ _ (by with_reducible assumption)))
    | (with_reducible (apply so_getOrCreateStream _ _ _ (by with_reducible assumption)))
    | (with_reducible (apply so_refuse _ _ (by with_reducible assumption)))
    | (with_reducible apply ite_intro)
    | wps
    | (intro _)
    | split
    | assumption))

abbrev KeepsSO {α : Type} (m : CM α) (c : Conn) : Prop := SO c → wp m (fun _ c' => SO c') (fun _ c' => SO c') c

theorem so_ping (a : Bool) (p : Bytes) (c : Conn) : KeepsSO (receivePingFrame a p) c := by
  intro h; unfold receivePingFrame; so_auto
theorem so_priority (sid : Int) (p : Prio) (c : Conn) : KeepsSO (receivePriorityFrame sid p) c := by
  intro h; unfold receivePriorityFrame; so_auto
theorem so_goaway (l k : Int) (x : Bytes) (c : Conn) : KeepsSO (receiveGoawayFrame l k x) c := by
  intro h; unfold receiveGoawayFrame clearOutboundDataBuffer; so_auto
theorem so_cont (sid : Int) (c : Conn) : KeepsSO (receiveNakedContinuation sid) c := by
  intro h; unfold receiveNakedContinuation; so_auto
theorem so_rst (sid code : Int) (c : Conn) : KeepsSO (receiveRstStreamFrame sid code) c := by
  intro h; unfold receiveRstStreamFrame; so_auto
theorem so_altsvcFrame (sid : Int) (o f : Bytes) (c : Conn) : KeepsSO (receiveAltSvcFrame sid o f) c := by
  intro h; unfold receiveAltSvcFrame; so_auto
theorem so_dataFrame (sid : Int) (p : Bytes) (es : Bool) (fcl : Int) (c : Conn) : KeepsSO (receiveDataFrame sid p es fcl) c := by
  intro h; unfold receiveDataFrame; so_auto

theorem so_use {α : Type} {Q : α → Conn → Prop} {E : Exc → Conn → Prop} {m : CM α} (hm : ∀ c, KeepsSO m c) (c : Conn)
    (h : SO c) (hq : ∀ a c', SO c' → Q a c') (he : ∀ e c', SO c' → E e c') : wp m Q E c :=
  wp_mono (hm c h) (fun a c' h' => hq a c' h') (fun e c' h' => he e c' h')

theorem so_windowUpdate (sid incr : Int) (c : Conn) : KeepsSO (receiveWindowUpdateFrame sid incr) c := by
  intro h; unfold receiveWindowUpdateFrame
  wps
  with_reducible apply so_connInput _ _ h
  · intro c1 h1
    wps
    with_reducible apply ite_intro
    · intro _; so_auto
    · intro _
      try wps
      cases guard_increment_window c1.outWin incr with
      | ok w => simp only; wps; exact h1
      | error e => simp only; wps; exact h1
  · intro _ _ h1; exact h1

theorem so_localAcked (c : Conn) : KeepsSO localSettingsAcked c := by
  intro h
  unfold localSettingsAcked localWindowChange
  wps
  have h1 : SO { c with localSettings := (Settings.acknowledge c.localSettings).2 } := h
  cases findChange (Settings.acknowledge c.localSettings).1 SettingCodes.INITIAL_WINDOW_SIZE with
  | none => simp only; wps; exact so_localOther _ _ h1
  | some p =>
    obtain ⟨old, new⟩ := p
    simp only
    cases old with
    | none => simp only; wps; exact h1
    | some o =>
      simp only
      apply so_ifcc _ _ _ h1
      · intro c2 h2; wps; exact so_localOther _ _ h2
      · intro _ _ h2; exact h2

theorem so_ackSettings (c : Conn) : KeepsSO acknowledgeSettings c := by
  intro h
  unfold acknowledgeSettings remoteWindowChange
  wps
  with_reducible apply so_connInput _ _ h
  · intro c1 h1
    wps
    have h2 : SO { c1 with remoteSettings := (Settings.acknowledge c1.remoteSettings).2 } := h1
    cases findChange (Settings.acknowledge c1.remoteSettings).1 SettingCodes.INITIAL_WINDOW_SIZE with
    | none => simp only; wps; exact so_remoteOther _ _ h2
    | some p =>
      obtain ⟨old, new⟩ := p
      simp only
      cases old with
      | none => simp only; wps; exact h2
      | some o =>
        simp only
        apply so_fcc _ _ _ h2
        · intro c3 h3; wps; exact so_remoteOther _ _ h3
        · intro _ _ h3; exact h3
  · intro _ _ h1; exact h1

theorem so_settings (ack : Bool) (items : List (Int × Int)) (c : Conn) : KeepsSO (receiveSettingsFrame ack items) c := by
  intro h
  unfold receiveSettingsFrame
  wps
  with_reducible apply so_connInput _ _ h
  · intro c1 h1
    wps
    with_reducible apply ite_intro
    · intro _
      try wps
      apply so_use so_localAcked c1 h1
      · intro _ c2 h2; wps; exact h2
      · intro _ _ h2; exact h2
    · intro _
      try wps
      cases Settings.update c1.remoteSettings items with
      | mk r s' =>
        have h2 : SO { c1 with remoteSettings := s' } := h1
        cases r with
        | error e => simp only; wps; exact h2
        | ok u =>
          simp only
          wps
          apply so_use so_ackSettings _ h2
          · intro _ c3 h3; wps; exact h3
          · intro _ _ h3; exact h3
  · intro _ _ h1; exact h1

macro "so_auto2" : tactic => `(tactic|
  repeat' (first
    | (with_reducible assumption)
    | (with_reducible (apply so_use (so_priority _ _) _ (by with_reducible assumption)))
    | (with_reducible (apply so_connInput _ _ (by with_reducible assumption)))
    | (with_reducible (apply so_withStream _ _ _ (by with_reducible assumption) (by first
          | exact kid_receiveHeaders _ _ _ | exact kid_receiveData _ _ _ | exact kid_pushInBand _ _ _
          | exact kid_remotelyPushed _ | exact kid_receiveWindowUpdate _ | exact kid_streamReset _
          | exact kid_receiveAltSvc _ _ | exact kid_processInput _)))
    | (with_reducible (apply so_getStreamById _ _ (by with_reducible assumption)))
    | (with_reducible (apply so_openStreams _ _ (by with_reducible assumption)))
    | (with_reducible (apply so_decodeHeaders _ _ (by with_reducible assumption)))
    | (with_reducible (apply so_beginNewStream _ _ _ (by with_reducible assumption)))
    | (with_reducible (apply so_getOrCreateStream _ _ _ (by with_reducible assumption)))
    | (with_reducible (apply so_refuse _ _ (by with_reducible assumption)))
    | (with_reducible apply ite_intro)
    | wps
    | (intro _)
    | split
    | assumption))

theorem so_headersRest (sid : Int) (b : Bytes) (es : Bool) (pr : Option Prio) (c : Conn) :
    KeepsSO (receiveHeadersRest sid b es pr) c := by
  intro h; unfold receiveHeadersRest; so_auto2

theorem so_headers (sid : Int) (b : Bytes) (es : Bool) (pr : Option Prio) (c : Conn) :
    KeepsSO (receiveHeadersFrame sid b es pr) c := by
  intro h; unfold receiveHeadersFrame openInboundStreams
  repeat' (first
    | (with_reducible assumption)
    | (with_reducible (apply so_use (so_headersRest _ _ _ _) _ (by with_reducible assumption)))
    | (with_reducible (apply so_openStreams _ _ (by with_reducible assumption)))
    | (with_reducible apply ite_intro)
    | wps
    | (intro _)
    | split)

theorem so_pushKnown (sid p : Int) (hs : List Header) (c : Conn) : KeepsSO (receivePushPromiseKnown sid p hs) c := by
  intro h; unfold receivePushPromiseKnown openInboundStreams; so_auto2

theorem so_pushUnknown (sid p : Int) (c : Conn) : KeepsSO (receivePushPromiseUnknown sid p) c := by
  intro h; unfold receivePushPromiseUnknown; so_auto2

theorem so_push (sid p : Int) (b : Bytes) (c : Conn) : KeepsSO (receivePushPromiseFrame sid p b) c := by
  intro h; unfold receivePushPromiseFrame
  repeat' (first
    | (with_reducible assumption)
    | (with_reducible (apply so_use (so_pushKnown _ _ _) _ (by with_reducible assumption)))
    | (with_reducible (apply so_use (so_pushUnknown _ _) _ (by with_reducible assumption)))
    | (with_reducible (apply so_connInput _ _ (by with_reducible assumption)))
    | (with_reducible (apply so_getStreamById _ _ (by with_reducible assumption)))
    | (with_reducible (apply so_decodeHeaders _ _ (by with_reducible assumption)))
    | (with_reducible apply ite_intro)
    | wps
    | (intro _)
    | split)

theorem so_dispatch (rf : RFrame) (c : Conn) : KeepsSO (dispatch rf) c := by
  unfold dispatch
  split
  · exact so_headers _ _ _ _ c
  · exact so_push _ _ _ c
  · exact so_settings _ _ c
  · exact so_dataFrame _ _ _ _ c
  · exact so_windowUpdate _ _ c
  · exact so_ping _ _ c
  · exact so_rst _ _ c
  · exact so_priority _ _ c
  · exact so_goaway _ _ _ c
  · exact so_cont _ c
  · exact so_altsvcFrame _ _ _ c
  · intro h; wps; exact h

/-- **`receive_data` keeps the stream table in order**, whatever the bytes -/
theorem stable_SO : Stable SO where
  fb := fun _ _ h => h
  connInput := fun i c h => so_connInput i c h (fun _ h' => h') (fun _ _ h' => h')
  prepare := fun fs c h => so_prepare fs c h (fun _ h' => h') (fun _ _ h' => h')
  dispatch := fun rf c h => so_dispatch rf c h

theorem receiveData_so (d : Bytes) (c : Conn) (h : SO c) : SO (receiveData d c).2 := stable_receiveData stable_SO d c h

theorem so_init (cfg : Config) : SO (Conn.init cfg) := by
  refine ⟨?_, ?_, ?_⟩
  · intro e he; cases hc : cfg.client <;> simp [Conn.init, hc] at he
  · cases hc : cfg.client <;> simp [Conn.init, hc]
  · cases hc : cfg.client <;> simp [Conn.init, hc]

/-! ### the covered public calls keep it too -/

attribute [local irreducible] prepareForSending

theorem so_apiPing (d : Bytes) (c : Conn) : KeepsSO (ping d) c := by intro h; unfold ping; wps; so_auto
theorem so_apiResetStream (sid code : Int) (c : Conn) : KeepsSO (resetStream sid code) c := by
  intro h; unfold resetStream; wps; so_auto
theorem so_apiEndStream (sid : Int) (c : Conn) : KeepsSO (endStream sid) c := by intro h; unfold endStream; wps; so_auto
theorem so_apiPrioritize (sid : Int) (w d : Option Int) (e : Option Bool) (c : Conn) : KeepsSO (prioritize sid w d e) c := by
  intro h; unfold prioritize; wps; so_auto
theorem so_apiDataToSend (n : Option Int) (c : Conn) : KeepsSO (dataToSend n) c := by
  intro h; unfold dataToSend; wps; cases n <;> (wps; exact h)
theorem so_apiClearOut (c : Conn) : KeepsSO clearOutboundDataBuffer c := by
  intro h; unfold clearOutboundDataBuffer; wps; exact h
theorem so_apiLocalWindow (sid : Int) (c : Conn) : KeepsSO (localFlowControlWindow sid) c := by
  intro h; unfold localFlowControlWindow; wps
  apply so_getStreamById _ _ h
  · intro c1 h1; wps; cases lookupStream c1 sid <;> exact h1
  · intro _ _ h1; exact h1
theorem so_apiRemoteWindow (sid : Int) (c : Conn) : KeepsSO (remoteFlowControlWindow sid) c := by
  intro h; unfold remoteFlowControlWindow; wps
  apply so_getStreamById _ _ h
  · intro c1 h1; wps; cases lookupStream c1 sid <;> exact h1
  · intro _ _ h1; exact h1
theorem so_apiNextStreamId (c : Conn) : KeepsSO getNextAvailableStreamId c := by
  intro h; unfold getNextAvailableStreamId; wps
  with_reducible apply ite_intro <;> (intro _; exact h)
theorem so_apiOpenOut (c : Conn) : KeepsSO openOutboundStreams c := by
  intro h; unfold openOutboundStreams; wps; exact so_openStreams _ _ h (fun _ _ h1 => h1)
theorem so_apiOpenIn (c : Conn) : KeepsSO openInboundStreams c := by
  intro h; unfold openInboundStreams; wps; exact so_openStreams _ _ h (fun _ _ h1 => h1)

theorem so_apiSendData (sid : Int) (d : Bytes) (es : Bool) (pad : Option Int) (c : Conn) :
    KeepsSO (sendData sid d es pad) c := by
  intro h
  have core : ∀ fs, wp (sendDataCore sid d es pad fs) (fun _ c' => SO c') (fun _ c' => SO c') c := by
    intro fs
    unfold sendDataCore localFlowControlWindow
    wps
    with_reducible apply so_getStreamById _ _ h
    · intro c1 h1
      wps
      cases lookupStream c1 sid with
      | none => exact h1
      | some st =>
        simp only
        wps
        with_reducible apply ite_intro
        · intro _; exact h1
        intro _
        with_reducible apply ite_intro
        · intro _; exact h1
        intro _
        with_reducible apply so_connInput _ _ h1
        · intro c2 h2
          wps
          with_reducible apply so_withStream _ _ _ h2 (kid_sendData d es pad)
          · intro fr c3 h3
            wps
            with_reducible apply so_prepare _ _ h3
            · intro c4 h4
              wps
              have h5 : SO { c4 with outWin := c4.outWin - fs } := h4
              with_reducible apply ite_intro
              · intro _; exact h5
              · intro _; exact h5
            · intro _ _ h4; exact h4
          · intro _ _ h3; exact h3
        · intro _ _ h2; exact h2
    · intro _ _ h1; exact h1
  unfold sendData
  cases pad with
  | none => exact core _
  | some p =>
    simp only
    wps
    with_reducible apply ite_intro
    · intro _; exact h
    · intro _; exact core _

theorem so_apiAckData (size sid : Int) (c : Conn) : KeepsSO (acknowledgeReceivedData size sid) c := by
  intro h
  have credit : ∀ present c1, SO c1 → wp (ackCredit present size sid) (fun _ c' => SO c') (fun _ c' => SO c') c1 := by
    intro present c1 h1
    unfold ackCredit
    wps
    with_reducible apply so_onConnWM _ _ h1
    · intro incr c2 h2
      wps
      cases present with
      | false =>
        simp only [Bool.false_eq_true, if_false]
        try wps
        with_reducible apply so_prepare _ _ h2
        · intro _ h3; exact h3
        · intro _ _ h3; exact h3
      | true =>
        simp only [if_true]
        cases lookupStream c2 sid with
        | none =>
          simp only
          wps
          with_reducible apply so_prepare _ _ h2
          · intro _ h3; exact h3
          · intro _ _ h3; exact h3
        | some st =>
          simp only
          wps
          with_reducible apply ite_intro
          · intro _
            with_reducible apply so_withStream _ _ _ h2 (kid_ackData size)
            · intro more c3 h3
              with_reducible apply so_prepare _ _ h3
              · intro _ h4; exact h4
              · intro _ _ h4; exact h4
            · intro _ _ h3; exact h3
          · intro _
            try wps
            with_reducible apply so_prepare _ _ h2
            · intro _ h3; exact h3
            · intro _ _ h3; exact h3
    · intro _ _ h2; exact h2
  unfold acknowledgeReceivedData
  wps
  with_reducible apply ite_intro
  · intro _; exact h
  intro _
  with_reducible apply ite_intro
  · intro _; exact h
  intro _
  have fin : ∀ present, (if (c.cstate == ConnectionState.CLOSED) = true then SO c
      else wp (ackCredit present size sid) (fun _ c' => SO c') (fun _ c' => SO c') c) := by
    intro present
    with_reducible apply ite_intro
    · intro _; exact h
    · intro _; exact credit present c h
  rw [wp_getStreamById_eq]
  with_reducible apply ite_intro
  · intro _; wps; exact fin true
  intro _
  have hns : ∀ s : Int, (Exc.isInstance (.h2 .NoSuchStreamError (ExcClass.NoSuchStreamError.classCode.map Int.ofNat) (some s) [])
      .StreamClosedError) = false := by
    intro s
    show ExcClass.isSub .NoSuchStreamError .StreamClosedError = false
    decide
  have hsc : ∀ s : Int, (Exc.isInstance (mkStreamClosed s) .StreamClosedError) = true := by
    intro s
    show ExcClass.isSub .StreamClosedError .StreamClosedError = true
    decide
  with_reducible apply ite_intro
  · intro _
    simp only [hns, Bool.false_eq_true, if_false]
    exact h
  · intro _
    simp only [hsc, if_true]
    try wps
    exact fin false

theorem so_apiUpdateSettings (items : List (Int × Int)) (c : Conn) : KeepsSO (updateSettings items) c := by
  intro h
  unfold updateSettings
  wps
  cases validateSettingsList items with
  | error e => exact h
  | ok u =>
    simp only
    try wps
    with_reducible apply ite_intro
    · intro _; exact h
    intro _
    with_reducible apply so_connInput _ _ h
    · intro c1 h1
      wps
      have k : SO { c1 with localSettings := (Settings.update c1.localSettings items).2 } := h1
      cases hU : Settings.update c1.localSettings items with
      | mk r s' =>
        rw [hU] at k
        cases r with
        | error e => simp only; wps; exact k
        | ok v =>
          simp only
          wps
          with_reducible apply so_prepare _ _ k
          · intro _ h3; exact h3
          · intro _ _ h3; exact h3
    · intro _ _ h2; exact h2

set_option maxRecDepth 100000 in
theorem so_apiIncrementWindow (n : Int) (sid : Option Int) (c : Conn) : KeepsSO (incrementFlowControlWindow n sid) c := by
  intro h; unfold incrementFlowControlWindow; so_auto

set_option maxRecDepth 4000 in
theorem so_apiCloseConnection (code : Int) (extra : Option Bytes) (last : Option Int) (c : Conn) :
    KeepsSO (closeConnection code extra last) c := by
  intro h; unfold closeConnection
  wps
  with_reducible apply ite_intro
  · intro _; exact h
  intro _
  with_reducible apply ite_intro
  · intro _; exact h
  intro _
  with_reducible apply ite_intro
  · intro _; exact h
  intro _
  with_reducible apply so_connInput _ _ h
  · intro c1 h1
    wps
    with_reducible apply so_prepare _ _ h1
    · intro _ h2; exact h2
    · intro _ _ h2; exact h2
  · intro _ _ h2; exact h2

set_option maxRecDepth 50000 in
theorem so_apiAltsvc (f : Bytes) (o : Option Bytes) (sid : Option Int) (c : Conn) :
    KeepsSO (advertiseAlternativeService f o sid) c := by
  intro h; unfold advertiseAlternativeService
  cases o with
  | none =>
    cases sid with
    | none => wps; simp only [Option.isSome_none, Bool.and_self, Bool.false_eq_true, if_false, Option.isNone_none, if_true]; exact h
    | some s =>
      wps
      simp only [Option.isSome_none, Bool.false_and, Bool.false_eq_true, if_false, Option.isNone_none, Option.isNone_some,
        Bool.and_false]
      so_auto
  | some ov =>
    wps
    cases sid with
    | some s => simp only [Option.isSome_some, Bool.and_self, if_true]; exact h
    | none =>
      simp only [Option.isSome_some, Option.isSome_none, Bool.and_false, Bool.false_eq_true, if_false, Option.isNone_some,
        Bool.false_and]
      with_reducible apply ite_intro
      · intro _; exact h
      intro hx; clear hx
      with_reducible apply ite_intro
      · intro _; exact h
      intro hx; clear hx
      with_reducible apply ite_intro
      · intro _; exact h
      intro hx; clear hx
      with_reducible apply so_connInput _ _ h
      · intro c1 h1
        wps
        generalize [Frame.altsvc 0 ov f] = fs
        with_reducible apply so_prepare _ _ h1
        · intro _ h2; exact h2
        · intro _ _ h2; exact h2
      · intro _ _ h2; exact h2

end H2
