/-
  `_build_headers_frames`: splitting an encoded header block into HEADERS / PUSH_PROMISE + CONTINUATION frames.
-/
import H2.Model.Stream
namespace H2
open H2.Gen

/-- the chunks put the block back together -/
theorem chunks_flatten (n : Nat) (hn : 0 < n) (fuel : Nat) (b : Bytes) (hf : b.length < fuel) :
    (chunks n fuel b).flatten = b := by
  induction fuel generalizing b with
  | zero => omega
  | succ fuel ih =>
    cases b with
    | nil => rfl
    | cons x t =>
      simp only [chunks, List.flatten_cons]
      rw [ih]
      · exact List.take_append_drop n (x :: t)
      · simp only [List.length_drop, List.length_cons] at hf ⊢; omega

/-- no chunk is longer than the frame size, and none is empty -/
theorem chunks_sizes (n : Nat) (hn : 0 < n) (fuel : Nat) (b : Bytes) :
    ∀ x ∈ chunks n fuel b, x.length ≤ n ∧ x ≠ [] := by
  induction fuel generalizing b with
  | zero => intro x hx; simp [chunks] at hx
  | succ fuel ih =>
    cases b with
    | nil => intro x hx; simp [chunks] at hx
    | cons y t =>
      intro x hx
      simp only [chunks, List.mem_cons] at hx
      rcases hx with hx | hx
      · subst hx
        refine ⟨by simp only [List.length_take]; omega, ?_⟩
        intro h
        have := congrArg List.length h
        simp only [List.length_take, List.length_cons, List.length_nil] at this
        omega
      · exact ih _ x hx

/-- the header-block fragment a frame carries -/
def Frame.fragment? : Frame → Option Bytes
  | .headers _ b _ _ _ _ => some b
  | .pushPromise _ _ b _ _ => some b
  | .continuation _ b _ => some b
  | _ => none

/-- END_HEADERS of a header-carrying frame -/
def Frame.endHeaders? : Frame → Option Bool
  | .headers _ _ _ eh _ _ => some eh
  | .pushPromise _ _ _ eh _ => some eh
  | .continuation _ _ eh => some eh
  | _ => none

/-- a well-formed header-block sequence: a first frame (HEADERS or PUSH_PROMISE), then CONTINUATION frames on the same
    stream, END_HEADERS on the last frame only -/
def ContiguousBlock (sid : Int) : List Frame → Prop
  | [] => False
  | f :: rest =>
    (match f with | .headers s .. => s = sid | .pushPromise s .. => s = sid | _ => False) ∧
    (∀ g ∈ rest, match g with | .continuation s _ _ => s = sid | _ => False) ∧
    (∀ g ∈ (f :: rest).dropLast, g.endHeaders? = some false) ∧
    ((f :: rest).getLast?.bind Frame.endHeaders? = some true)

theorem zipIdx_cont_fragments (sid : Int) (rest : List Bytes) (k m : Nat) :
    ((rest.zipIdx k).map fun (blk, i) => Frame.continuation sid blk (i + 1 == m)).filterMap Frame.fragment? = rest := by
  induction rest generalizing k with
  | nil => rfl
  | cons b t ih => simp only [List.zipIdx_cons, List.map_cons, List.filterMap_cons, Frame.fragment?, ih]

/-- the frames carry the blocks, in order -/
theorem mkHeaderFrames_fragments (first : Bytes → Bool → Frame) (sid : Int) (blocks : List Bytes)
    (hfirst : ∀ b eh, (first b eh).fragment? = some b) :
    (mkHeaderFrames first sid blocks).filterMap Frame.fragment? = blocks := by
  unfold mkHeaderFrames
  match blocks with
  | [] => rfl
  | [b] => simp [hfirst]
  | b :: c :: rest =>
    simp only [List.filterMap_cons, hfirst]
    rw [zipIdx_cont_fragments]

theorem mkHeaderFrames_length (first : Bytes → Bool → Frame) (sid : Int) (blocks : List Bytes) :
    (mkHeaderFrames first sid blocks).length = blocks.length := by
  unfold mkHeaderFrames
  match blocks with
  | [] => rfl
  | [b] => rfl
  | b :: c :: rest => simp

end H2
