/-
  Reference definitions of the straight-line integer parts of /repo/src/h2 that the model calls and the theorems are
  about: windows.py (class WindowManager), settings._validate_setting, utilities.guard_increment_window.

  This file is NOT regenerated.  tools/py2lean.py translates the current source into `H2/Gen/WindowsRaw.lean`
  (namespace `H2.GenRaw`, same structure type) on every run, and `H2/Gen/Bridge/*.lean` prove, on every run, that each
  regenerated function is equal to the definition here (`H2.Bridge.*_eq`; unfold both, split every `if`, arithmetic).
  A property whose theorems depend on one of these definitions (found by walking the constants its theorems use,
  `#gen_deps`, H2/Gen/Deps.lean) is only claimed when the corresponding bridge theorem checks.  That makes the tie
  insensitive to how windows.py spells its arithmetic (temporaries, `x += y`, `max(..)`, the order of disjoint `elif`
  branches) and sensitive to what it computes.
  (Text: the translator's output for the pinned commit plus the three defect repairs.)
-/
import H2.Gen.Tables
namespace H2.Gen

structure WindowManager where
  max_window_size : Int
  current_window_size : Int
  bytes_processed : Int
deriving DecidableEq, Repr, Inhabited

abbrev WRes := Except PyErr (Option Int) × WindowManager

def WindowManager.init (max_window_size : Int) : Except PyErr WindowManager :=
  if (decide (max_window_size ≤ (2147483647 : Int))) then .ok { max_window_size := max_window_size, current_window_size := max_window_size, bytes_processed := (0 : Int) } else .error .AssertionError

def WindowManager.window_consumed (s : WindowManager) (size : Int) : WRes :=
  let s := { s with current_window_size := (s.current_window_size - size) }
  if ((decide (size > (0 : Int))) && (decide (s.current_window_size < (0 : Int)))) then
    (.error (.h2 .FlowControlError), s)
  else
    (.ok none, s)

def WindowManager.window_opened (s : WindowManager) (size : Int) : WRes :=
  if (decide ((s.current_window_size + size) > (2147483647 : Int))) then
    (.error (.h2 .FlowControlError), s)
  else
    let s := { s with current_window_size := (s.current_window_size + size) }
    if (decide (s.current_window_size > s.max_window_size)) then
      let s := { s with max_window_size := s.current_window_size }
      (.ok none, s)
    else
      (.ok none, s)

def WindowManager.maybe_update_window (s : WindowManager) : WRes :=
  if (!decide (s.bytes_processed ≠ 0)) then
    (.ok none, s)
  else
    let max_increment : Int := (s.max_window_size - s.current_window_size)
    let increment : Int := (0 : Int)
    if ((decide (s.current_window_size = (0 : Int))) && (decide (s.bytes_processed > (min (1024 : Int) (s.max_window_size / (4 : Int)))))) then
      let increment : Int := (min s.bytes_processed max_increment)
      let s := { s with bytes_processed := (0 : Int) }
      let s := { s with current_window_size := (s.current_window_size + increment) }
      (.ok (some increment), s)
    else
      if (decide (s.bytes_processed ≥ (s.max_window_size / (2 : Int)))) then
        let increment : Int := (min s.bytes_processed max_increment)
        let s := { s with bytes_processed := (0 : Int) }
        let s := { s with current_window_size := (s.current_window_size + increment) }
        (.ok (some increment), s)
      else
        let s := { s with current_window_size := (s.current_window_size + increment) }
        (.ok (some increment), s)

def WindowManager.process_bytes (s : WindowManager) (size : Int) : WRes :=
  let s := { s with bytes_processed := (s.bytes_processed + size) }
  WindowManager.maybe_update_window s

def validate_setting (setting : Int) (value : Int) : Except PyErr Int :=
  if (decide (setting = (2 : Int))) then
    if (!(decide (value = (0 : Int)) || decide (value = (1 : Int)))) then
      .ok (1 : Int)
    else
      .ok (0 : Int)
  else
    if (decide (setting = (4 : Int))) then
      if (!(decide ((0 : Int) ≤ value) && decide (value ≤ (2147483647 : Int)))) then
        .ok (3 : Int)
      else
        .ok (0 : Int)
    else
      if (decide (setting = (5 : Int))) then
        if (!(decide ((16384 : Int) ≤ value) && decide (value ≤ (16777215 : Int)))) then
          .ok (1 : Int)
        else
          .ok (0 : Int)
      else
        if (decide (setting = (6 : Int))) then
          if (decide (value < (0 : Int))) then
            .ok (1 : Int)
          else
            .ok (0 : Int)
        else
          if (decide (setting = (8 : Int))) then
            if (!(decide (value = (0 : Int)) || decide (value = (1 : Int)))) then
              .ok (1 : Int)
            else
              .ok (0 : Int)
          else
            .ok (0 : Int)

def guard_increment_window (current : Int) (increment : Int) : Except PyErr Int :=
  let LARGEST_FLOW_CONTROL_WINDOW : Int := ((2147483648 : Int) - (1 : Int))
  let new_size : Int := (current + increment)
  if (decide (new_size > LARGEST_FLOW_CONTROL_WINDOW)) then
    .error (.h2 .FlowControlError)
  else
    .ok new_size

end H2.Gen
