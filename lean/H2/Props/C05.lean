/-
  C05 — automatic window management never deadlocks and never over-credits.

  All statements are about `H2.Gen.WindowManager`, which is *regenerated from
  /repo/src/h2/windows.py on every run* (tools/py2lean.py), and about
  `settingsDelta`, the model of H2Stream._inbound_flow_control_change_from_settings.
  A ghost ledger records what the application has received / acknowledged and
  what WINDOW_UPDATE increments were emitted.
-/
import H2.Model.Stream
import H2.Proofs.InWin
import H2.Proofs.History

namespace H2.C05
open H2 H2.Gen

/-- one step of a window manager's life under the automatic discipline -/
inductive WOp where
  | consumed (n : Int)        -- DATA with flow-controlled length n arrived (window_consumed)
  | processed (n : Int)       -- the application acknowledged n bytes (process_bytes)
  | setting (v : Int)         -- an acknowledged local INITIAL_WINDOW_SIZE change to v
deriving Repr

structure G where
  w : WindowManager
  iws : Int               -- the acknowledged INITIAL_WINDOW_SIZE in force
  outstanding : Int       -- received and not yet acknowledged
  acked : Int
  emitted : Int           -- sum of the increments returned by process_bytes (each becomes one WINDOW_UPDATE)
  held : Int              -- bytes acknowledged while the window was *not* credited back: acked - emitted
deriving Repr

def okVal : Except PyErr (Option Int) → Option (Option Int)
  | .ok v => some v
  | .error _ => none

/-- H2Stream._inbound_flow_control_change_from_settings on the window manager alone -/
def settingsDelta (w : WindowManager) (delta : Int) : Except PyErr (Option Int) × WindowManager :=
  let newMax := w.max_window_size + delta
  let r := w.window_opened delta
  match r.1 with
  | .ok v => (.ok v, { r.2 with max_window_size := newMax })
  | .error e => (.error e, r.2)

def stepG (g : G) : WOp → Option G
  | .consumed n => if 0 ≤ n then
      let r := g.w.window_consumed n
      (okVal r.1).map fun _ => { g with w := r.2, outstanding := g.outstanding + n }
    else none
  | .processed n => if 0 ≤ n ∧ n ≤ g.outstanding then
      let r := g.w.process_bytes n
      (okVal r.1).map fun v => { g with w := r.2, outstanding := g.outstanding - n, acked := g.acked + n,
                                        emitted := g.emitted + v.getD 0, held := g.held + n - v.getD 0 }
    else none
  | .setting v => if 0 ≤ v ∧ v ≤ 2147483647 then
      let r := settingsDelta g.w (v - g.iws)
      (okVal r.1).map fun _ => { g with w := r.2, iws := v }
    else none

def runG : G → List WOp → Option G
  | g, [] => some g
  | g, op :: ops => (stepG g op).bind fun g' => runG g' ops

def init (iws : Int) : G :=
  { w := { max_window_size := iws, current_window_size := iws, bytes_processed := 0 },
    iws := iws, outstanding := 0, acked := 0, emitted := 0, held := 0 }

/-- the invariant of the ledger -/
def WInv (g : G) : Prop :=
  g.w.max_window_size = g.iws ∧ 0 ≤ g.iws ∧ g.iws ≤ 2147483647 ∧
  0 ≤ g.w.bytes_processed ∧ 0 ≤ g.outstanding ∧
  g.emitted + g.w.bytes_processed = g.acked ∧
  g.w.current_window_size + g.w.bytes_processed + g.outstanding = g.w.max_window_size

theorem init_inv (iws : Int) (h0 : 0 ≤ iws) (h1 : iws ≤ 2147483647) : WInv (init iws) := by
  simp [WInv, init, h0, h1]

theorem inv_step (g : G) (op : WOp) (g' : G) (h : WInv g) (hs : stepG g op = some g') : WInv g' := by
  unfold WInv at *
  cases op <;>
    simp only [stepG, settingsDelta, WindowManager.window_consumed, WindowManager.process_bytes,
      WindowManager.maybe_update_window, WindowManager.window_opened] at hs <;>
    grind [okVal]

theorem inv_run (ops : List WOp) (g g' : G) (h : WInv g) (hr : runG g ops = some g') : WInv g' := by
  induction ops generalizing g with
  | nil => simp [runG] at hr; subst hr; exact h
  | cons op ops ih =>
    simp only [runG] at hr
    cases hs : stepG g op with
    | none => simp [hs] at hr
    | some g1 => simp [hs] at hr; exact ih g1 (inv_step g op g1 h hs) hr

/-- **C05, never over-credits**: for every history under the discipline, the WINDOW_UPDATE increments
    emitted never exceed the bytes acknowledged, and the advertised window never exceeds its maximum,
    which is the acknowledged INITIAL_WINDOW_SIZE (≤ 2^31-1). -/
theorem C05_no_overcredit (iws : Int) (h0 : 0 ≤ iws) (h1 : iws ≤ 2147483647) (ops : List WOp) (g : G)
    (hr : runG (init iws) ops = some g) :
    g.emitted ≤ g.acked ∧ g.w.current_window_size ≤ g.w.max_window_size ∧ g.w.max_window_size ≤ 2147483647 := by
  have h := inv_run ops (init iws) g (init_inv iws h0 h1) hr
  unfold WInv at h
  omega

/-- **C05, no stall (partial)**: whenever the last step is an acknowledgement that leaves nothing
    outstanding, the advertised window is positive (if its maximum is).  The restriction to histories
    *ending in an acknowledgement* is essential: see `C05_stall_after_shrink`. -/
theorem C05_no_stall_partial (g : G) (n : Int) (g' : G) (h : WInv g) (hs : stepG g (.processed n) = some g')
    (hall : g'.outstanding = 0) (hmax : 0 < g'.w.max_window_size) : 0 < g'.w.current_window_size := by
  unfold WInv at h
  simp only [stepG, WindowManager.process_bytes, WindowManager.maybe_update_window] at hs
  grind [okVal]

/-- lifted to whole histories -/
theorem C05_no_stall_histories_partial (iws : Int) (h0 : 0 ≤ iws) (h1 : iws ≤ 2147483647) (ops : List WOp) (n : Int) (g : G)
    (hr : runG (init iws) (ops ++ [.processed n]) = some g)
    (hall : g.outstanding = 0) (hmax : 0 < g.w.max_window_size) : 0 < g.w.current_window_size := by
  induction ops generalizing iws with
  | nil =>
    simp only [List.nil_append, runG] at hr
    cases hs : stepG (init iws) (.processed n) with
    | none => simp [hs] at hr
    | some g1 =>
      simp [hs] at hr; subst hr
      exact C05_no_stall_partial _ n _ (init_inv iws h0 h1) hs hall hmax
  | cons op ops _ =>
    -- general position: split the run at the last step
    have key : ∀ (l : List WOp) (a b : G), WInv a → runG a (l ++ [.processed n]) = some b →
        b.outstanding = 0 → 0 < b.w.max_window_size → 0 < b.w.current_window_size := by
      intro l
      induction l with
      | nil =>
        intro a b ha hb
        simp only [List.nil_append, runG] at hb
        cases hs : stepG a (.processed n) with
        | none => simp [hs] at hb
        | some g1 => simp [hs] at hb; subst hb; exact C05_no_stall_partial _ n _ ha hs
      | cons x l ih =>
        intro a b ha hb
        simp only [List.cons_append, runG] at hb
        cases hs : stepG a x with
        | none => simp [hs] at hb
        | some g1 => simp [hs] at hb; exact ih g1 b (inv_step a x g1 ha hs) hb
    exact key (op :: ops) (init iws) g (init_inv iws h0 h1) hr hall hmax

/-- The full statement of the no-stall clause is FALSE of the code as it is (known finding D19):
    49 bytes received and acknowledged (held below the half-window threshold), then the acknowledged
    INITIAL_WINDOW_SIZE shrinks from 100 to 40: everything is acknowledged, the maximum is 40 > 0,
    the advertised window is -9, and nothing will ever be emitted. -/
theorem C05_stall_after_shrink :
    (runG (init 100) [.consumed 49, .processed 49, .setting 40]).map
      (fun g => (g.outstanding, g.w.max_window_size, g.w.current_window_size)) = some (0, 40, -9) := by
  decide +kernel


/-! ### the connection's window, along every history of the whole connection -/

open H2.Conn in
theorem C05_calls_keep_conn_window : CallsKeep WI where
  initiate := fun c h => pw_apiInitiate c h
  upgrade := fun hdr c h => pw_apiUpgrade hdr c h
  sendHeaders := fun sid hs es pw pd pe c h => pw_apiSendHeaders sid hs es pw pd pe c h
  pushStream := fun sid p hs c h => pw_apiPushStream sid p hs c h
  sendData := fun sid d es pad c h => pw_apiSendData sid d es pad c h
  endStream := fun sid c h => pw_apiEndStream sid c h
  incrementWindow := fun i sid c h => pw_apiIncrementWindow i sid c h
  ping := fun d c h => pw_apiPing d c h
  resetStream := fun sid code c h => pw_apiResetStream sid code c h
  closeConnection := fun code extra last c h => pw_apiCloseConnection code extra last c h
  updateSettings := fun items c h => pw_apiUpdateSettings items c h
  altsvc := fun f o sid c h => pw_apiAltsvc f o sid c h
  prioritize := fun sid w d e c h => pw_apiPrioritize sid w d e c h
  ackData := fun size sid c h => pw_apiAckData size sid c h
  dataToSend := fun n c h => pw_apiDataToSend n c h
  clearOut := fun c h => pw_apiClearOut c h
  localWindow := fun sid c h => pw_apiLocalWindow sid c h
  remoteWindow := fun sid c h => pw_apiRemoteWindow sid c h
  nextStreamId := fun c h => pw_apiNextStreamId c h
  openOut := fun c h => pw_apiOpenOut c h
  openIn := fun c h => pw_apiOpenIn c h

/-- **the connection-level window never over-credits, in every reachable state** — with nothing assumed of the
    application (it may acknowledge too much, too little, or raise the window by hand): the window advertised to the
    peer never exceeds its maximum, and the maximum never exceeds 2^31-1.  The connection's window manager is only
    ever handed to `window_consumed` (with the length of a parsed DATA frame), `process_bytes` and `window_opened`, and
    each keeps the two inequalities whatever its argument -/
theorem C05_conn_window_every_history (cfg : Config) (c : Conn) (h : C29.Reachable cfg c) :
    c.inWM.current_window_size ≤ c.inWM.max_window_size ∧ c.inWM.max_window_size ≤ 2147483647 := by
  refine every_history C05_calls_keep_conn_window receiveData_wi (fun _ _ h => h) cfg ?_ c h
  cases hc : cfg.client <;> simp [WI, WMI, Conn.init, hc, client_init_in_window, server_init_in_window]

/-- non-vacuity: a non-trivial history satisfying the hypotheses of the theorems -/
example : (runG (init 65535) [.consumed 40000, .processed 30000, .processed 10000]).map
      (fun g => (g.outstanding, g.emitted, g.w.current_window_size)) = some (0, 40000, 65535) := by
  decide +kernel

end H2.C05
