/-
  H2Stream: every method, statement order as in stream.py (after the fix:
  commits).  HPACK is an abstract dependency: `Hp` carries what was fed to the
  encoder (a ghost log) and, for the executable driver, the bytes the real
  encoder produced (an oracle the theorems quantify over).
-/
import H2.Model.Frame
import H2.Model.Headers
import H2.Model.StreamFSM

namespace H2
open H2.Gen

structure Config where
  client : Bool
  valOut : Bool := true
  normOut : Bool := true
  valIn : Bool := true
  normIn : Bool := true
  enc : Encoding := .none
deriving Repr, DecidableEq, Inhabited

inductive EncEv where
  | block (hs : List Header)        -- one complete `Encoder.encode(hs)` call
  | resize (n : Int)                -- `encoder.header_table_size = n`
deriving Repr, DecidableEq, Inhabited

inductive DecRes where
  | ok (hs : List Header)
  | oversized                        -- OversizedHeaderListError
  | hpackError                       -- HPACKError / IndexError / TypeError / UnicodeDecodeError
  | py (name : String)               -- anything else escaping the decoder
deriving Repr, DecidableEq, Inhabited

/-- abstract HPACK context of one connection -/
structure Hp where
  encLog : List EncEv := []
  decLog : List Bytes := []          -- header blocks handed to the decoder, in order
  encOracle : List Bytes := []
  decOracle : List DecRes := []
  oracleMiss : Bool := false
deriving Repr, Inhabited

def Hp.encode (hs : List Header) : M Hp Bytes := fun hp =>
  let hp := { hp with encLog := hp.encLog ++ [EncEv.block hs] }
  match hp.encOracle with
  | b :: rest => (.ok b, { hp with encOracle := rest })
  | [] => (.ok [], { hp with oracleMiss := true })

def Hp.decode (block : Bytes) : M Hp DecRes := fun hp =>
  let hp := { hp with decLog := hp.decLog ++ [block] }
  match hp.decOracle with
  | r :: rest => (.ok r, { hp with decOracle := rest })
  | [] => (.ok .hpackError, { hp with oracleMiss := true })

structure Stream where
  sm : SM
  maxOutFrame : Int
  requestMethod : Option Bytes := none
  outWin : Int
  inWM : WindowManager
  expectedCL : Option Int := none
  actualCL : Int := 0
  authority : Option Bytes := none
deriving Repr, Inhabited

def Stream.sid (s : Stream) : Int := s.sm.sid
def Stream.isOpen (s : Stream) : Bool := streamOpen s.sm.state
def Stream.isClosed (s : Stream) : Bool := s.sm.state == .CLOSED

abbrev SM' := M Stream
/-- methods that also touch the HPACK context -/
abbrev SH := M (Stream × Hp)

def onSM {α} (m : M SM α) : M Stream α := zoom (·.sm) (fun s x => { s with sm := x }) m
def onStream {α} (m : M Stream α) : SH α := zoom (·.1) (fun s x => (x, s.2)) m
def onHp {α} (m : M Hp α) : SH α := zoom (·.2) (fun s x => (s.1, x)) m
def onWM (f : WindowManager → WRes) : M Stream (Option Int) := fun s =>
  match f s.inWM with
  | (.ok v, w) => (.ok v, { s with inWM := w })
  | (.error e, w) => (.error (ofPyErr e), { s with inWM := w })

def processInput (i : StreamInputs) : M Stream (List SEv) := onSM (SM.process i)

def protoErr' : Exc := mkExc .ProtocolError

/-- `_build_hdr_validation_flags(events)`; `events[0]` on an empty list is an IndexError -/
def buildHdrFlags (evs : List SEv) : M Stream HdrFlags := do
  let s ← getS
  match evs with
  | [] => raise (.py .IndexError)
  | e :: _ => pure {
      isClient := s.sm.client,
      isTrailer := e == .TrailersSent || e == .TrailersReceived,
      isResponse := e == .ResponseSent || e == .ResponseReceived || e == .InformationalResponseReceived,
      isPush := e == .PushedStreamReceived || e == .PushedRequestSent }

/-- `[encoded[i:i+n] for i in range(0, len(encoded), n)]` -/
def chunks (n : Nat) : Nat → Bytes → List Bytes
  | 0, _ => []
  | _+1, [] => []
  | fuel+1, b => b.take n :: chunks n fuel (b.drop n)

/-- `_build_headers_frames`: returns the header block fragments (first one for the
    HEADERS / PUSH_PROMISE frame, the rest for CONTINUATION frames) -/
def buildHeaderBlocks (cfg : Config) (headers : List Header) (fl : HdrFlags) (overhead : Int) : SH (List Bytes) := do
  let hs := if cfg.normOut then normalizeOutbound headers else headers
  let hs ← if cfg.valOut then liftExcept (validateOutbound hs fl) else pure hs
  let encoded ← onHp (Hp.encode hs)
  let s ← getS
  if s.1.maxOutFrame ≤ 0 then raise (.py .ValueError) else
  -- `[encoded[:first]] + [encoded[i:i+max] for i in range(first, len(encoded), max)]`
  let first := (s.1.maxOutFrame - overhead).toNat
  pure (encoded.take first :: chunks s.1.maxOutFrame.toNat (encoded.length + 1) (encoded.drop first))

def mkHeaderFrames (first : Bytes → Bool → Frame) (sid : Int) (blocks : List Bytes) : List Frame :=
  match blocks with
  | [] => []
  | [b] => [first b true]
  | b :: rest =>
    first b false :: (rest.zipIdx.map fun (blk, i) => Frame.continuation sid blk (i + 1 == rest.length))

/-- set END_STREAM on the first (HEADERS) frame -/
def setEndStream : List Frame → List Frame
  | .headers s b _ eh pad pr :: rest => .headers s b true eh pad pr :: rest
  | fs => fs

def Stream.upgrade (clientSide : Bool) : M Stream Unit := do
  let s ← getS
  if s.sid != 1 then raise (.py .AssertionError) else
  let _ ← processInput (if clientSide then .UPGRADE_CLIENT else .UPGRADE_SERVER)
  pure ()

/-- the part of `send_headers` inside its `try:` block: the trailers check, the validation flags and
    `_build_headers_frames` -/
def Stream.guardedHeaderBlocks (cfg : Config) (headers : List Header) (endStream priorityPresent : Bool)
    (events : List SEv) : SH (List Bytes) := do
  let s1 ← getS
  if s1.1.sm.trailersSent && !endStream then raise protoErr' else
  if s1.1.sid == 0 then raise (.py .InvalidDataError) else
  let fl ← onStream (buildHdrFlags events)
  buildHeaderBlocks cfg headers fl (if priorityPresent then 5 else 0)

/-- `sm.state, sm.headers_sent, sm.trailers_sent = saved` -/
def Stream.restoreSaved (saved : Shape) (t : Stream) : Stream :=
  { t with sm := { t.sm with sh := { t.sm.sh with
      state := saved.state, headersSent := saved.headersSent, trailersSent := saved.trailersSent } } }

/-- `send_headers` once it is decided whether the block is an informational response -/
def Stream.sendHeadersAs (input : StreamInputs) (cfg : Config) (headers : List Header) (endStream : Bool)
    (priorityPresent : Bool) : SH (List Frame) := do
  let s ← getS
  let events ← onStream (processInput input)
  -- `try: ... except Exception: sm.state, sm.headers_sent, sm.trailers_sent = saved; raise`:
  -- a refused header block leaves the stream state machine as it was
  let blocks ← tryCatch (Stream.guardedHeaderBlocks cfg headers endStream priorityPresent events)
    (fun _ => true)
    (fun e => do
      modifyS fun t => (t.1.restoreSaved s.1.sm.sh, t.2)
      raise e)
  let sid := s.1.sid
  let frames := mkHeaderFrames (fun b eh => Frame.headers sid b false eh none none) sid blocks
  let frames ← if endStream then do
      let _ ← onStream (processInput .SEND_END_STREAM)
      pure (setEndStream frames)
    else pure frames
  modifyS fun s =>
    let st := s.1
    let st := if st.sm.client == some true && st.authority.isNone
              then { st with authority := authorityFromHeaders headers } else st
    let st := if !st.sm.trailersSent then { st with requestMethod := extractMethodHeader headers } else st
    (st, s.2)
  pure frames

def Stream.sendHeaders (cfg : Config) (headers : List Header) (endStream : Bool) (priorityPresent : Bool := false) :
    SH (List Frame) := do
  let s ← getS
  let informational ← if s.1.sm.client != some true then liftExcept (isInformationalResponse headers) else pure false
  if informational && endStream then raise protoErr' else
  Stream.sendHeadersAs (if informational then StreamInputs.SEND_INFORMATIONAL_HEADERS else StreamInputs.SEND_HEADERS)
    cfg headers endStream priorityPresent

def Stream.pushStreamInBand (cfg : Config) (related : Int) (headers : List Header) : SH (List Frame) := do
  let events ← onStream (processInput .SEND_PUSH_PROMISE)
  let s ← getS
  if s.1.sid == 0 then raise (.py .InvalidDataError) else
  let fl ← onStream (buildHdrFlags events)
  let blocks ← buildHeaderBlocks cfg headers fl 4
  let sid := s.1.sid
  pure (mkHeaderFrames (fun b eh => Frame.pushPromise sid related b eh none) sid blocks)

def Stream.locallyPushed : M Stream (List Frame) := do
  let events ← processInput .SEND_PUSH_PROMISE
  if !events.isEmpty then raise (.py .AssertionError) else pure []

def Stream.sendData (data : Bytes) (endStream : Bool) (pad : Option Int) : M Stream (List Frame) := do
  let _ ← processInput .SEND_DATA
  if endStream then let _ ← processInput .SEND_END_STREAM
  let s ← getS
  let fcl : Int := data.length + (match pad with | some p => p + 1 | none => 0)
  modifyS (fun s => { s with outWin := s.outWin - fcl })
  if s.outWin - fcl < 0 then raise (.py .AssertionError) else
  pure [Frame.data s.sid data endStream pad]

def Stream.endStream : M Stream (List Frame) := do
  let _ ← processInput .SEND_END_STREAM
  let s ← getS
  pure [Frame.data s.sid [] true none]

def Stream.advertiseAltSvc (field : Bytes) : M Stream (List Frame) := do
  let _ ← processInput .SEND_ALTERNATIVE_SERVICE
  let s ← getS
  pure [Frame.altsvc s.sid [] field]

def Stream.increaseFlowControlWindow (incr : Int) : M Stream (List Frame) := do
  let _ ← processInput .SEND_WINDOW_UPDATE
  let _ ← onWM (·.window_opened incr)
  let s ← getS
  pure [Frame.windowUpdate s.sid incr]

/-- `_process_received_headers` -/
def processReceivedHeaders (cfg : Config) (headers : List Header) (fl : HdrFlags) : Except Exc (List Header) := do
  -- the block is validated as received; joining the cookie fields (which moves them to the end) comes after
  let hs ← if cfg.valIn then validateInbound headers fl else pure headers
  let hs := if cfg.normIn then combineCookies hs else hs
  decodeText cfg.enc hs

def Stream.receivePushPromiseInBand (cfg : Config) (promised : Int) (headers : List Header) :
    M Stream (List Frame × List Event) := do
  let events ← processInput .RECV_PUSH_PROMISE
  match events with
  | [] => raise (.py .IndexError)
  | _ =>
    let fl ← buildHdrFlags events
    let hs ← liftExcept (processReceivedHeaders cfg headers fl)
    let s ← getS
    pure ([], [Event.PushedStreamReceived (some promised) s.sid hs])

def Stream.remotelyPushed (pushedHeaders : List Header) : M Stream (List Frame × List Event) := do
  let _ ← processInput .RECV_PUSH_PROMISE
  modifyS fun s => { s with authority := authorityFromHeaders pushedHeaders }
  pure ([], [])

/-! #### Python's `int(b, 10)` -/

def isDigit (c : UInt8) : Bool := 48 ≤ c && c ≤ 57

/-- digits with single underscores between digits -/
def parseDigits : Bytes → Option Nat → Bool → Option Nat
  | [], acc, lastUnderscore => if lastUnderscore then none else acc
  | c :: rest, acc, lastUnderscore =>
    if isDigit c then parseDigits rest (some ((acc.getD 0) * 10 + (c.toNat - 48))) false
    else if c = 95 then (if acc.isNone || lastUnderscore then none else parseDigits rest acc true)
    else none

def pyParseInt (b : Bytes) : Option Int :=
  let b := stripWith isBytesWs b
  match b with
  | 43 :: rest => (parseDigits rest none false).map Int.ofNat
  | 45 :: rest => (parseDigits rest none false).map fun n => - Int.ofNat n
  | _ => (parseDigits b none false).map Int.ofNat

/-- `_initialize_content_length` -/
inductive CLDecision where
  | keep                -- leave `_expected_content_length` as it is
  | set (n : Int)
  | invalid             -- `int(v, 10)` failed: ProtocolError
deriving Repr, DecidableEq, Inhabited

/-- what `_initialize_content_length(headers)` decides, given the remembered request method -/
def contentLengthDecision (requestMethod : Option Bytes) (headers : List Header) : CLDecision :=
  if requestMethod == some (strBytes "HEAD") then .set 0 else
  let status := (headers.find? fun h => h.name == HStr.b (strBytes ":status")).map (·.value)
  let noBody : Option CLDecision := match status with
    | some v =>
      if v.startsWith [49] then some .keep
      else if v == HStr.b (strBytes "204") || v == HStr.b (strBytes "304") then some (.set 0)
      else none
    | none => none
  match noBody with
  | some d => d
  | none =>
    match headers.find? fun h => h.name == HStr.b (strBytes "content-length") with
    | none => .keep
    | some h =>
      match pyParseInt h.value.bs with
      | some n => .set n
      | none => .invalid

def Stream.initializeContentLength (headers : List Header) : M Stream Unit := do
  let s ← getS
  match contentLengthDecision s.requestMethod headers with
  | .keep => pure ()
  | .set n => modifyS fun s => { s with expectedCL := some n }
  | .invalid => raise protoErr'

/-- `_track_content_length` -/
def Stream.trackContentLength (length : Int) (endStream : Bool) : M Stream Unit := do
  modifyS fun s => { s with actualCL := s.actualCL + length }
  let s ← getS
  match s.expectedCL with
  | none => pure ()
  | some expected =>
    if expected < s.actualCL then raise (mkExc .InvalidBodyLengthError)
    else if endStream && expected != s.actualCL then raise (mkExc .InvalidBodyLengthError)
    else pure ()

def hdrEvent (kind : SEv) (sid : Int) (hs : List Header) (se : Bool) : Option Event :=
  match kind with
  | .RequestReceived => some (.Headers .request sid hs se false)
  | .ResponseReceived => some (.Headers .response sid hs se false)
  | .TrailersReceived => some (.Headers .trailers sid hs se false)
  | .InformationalResponseReceived => some (.Headers .informational sid hs se false)
  | _ => none

def Stream.receiveHeaders (cfg : Config) (headers : List Header) (endStream : Bool) :
    M Stream (List Frame × List Event) := do
  let informational ← liftExcept (isInformationalResponse headers)
  if informational && endStream then raise protoErr' else
  let events ← processInput (if informational then .RECV_INFORMATIONAL_HEADERS else .RECV_HEADERS)
  let esEvents ← if endStream then processInput .RECV_END_STREAM else pure []
  match events with
  | [] => raise (.py .IndexError)
  | e0 :: _ =>
    if endStream && esEvents.isEmpty then raise (.py .IndexError) else
    if e0 == .TrailersReceived then
      (if !endStream then raise protoErr' else pure ())
    else Stream.initializeContentLength headers
    if endStream then Stream.trackContentLength 0 true
    let fl ← buildHdrFlags events
    let hs ← liftExcept (processReceivedHeaders cfg headers fl)
    let s ← getS
    match hdrEvent e0 s.sid hs endStream with
    | none => raise (.py .AttributeError)
    | some ev => pure ([], ev :: (if endStream then [Event.StreamEnded s.sid] else []))

def Stream.receiveData (data : Bytes) (endStream : Bool) (fcl : Int) : M Stream (List Frame × List Event) := do
  let events ← processInput .RECV_DATA
  let _ ← onWM (·.window_consumed fcl)
  Stream.trackContentLength data.length endStream
  let esEvents ← if endStream then processInput .RECV_END_STREAM else pure []
  match events with
  | [] => raise (.py .IndexError)
  | _ =>
    if endStream && esEvents.isEmpty then raise (.py .IndexError) else
    let s ← getS
    pure ([], Event.DataReceived s.sid data fcl endStream :: (if endStream then [Event.StreamEnded s.sid] else []))

def Stream.resetStream (code : Int) : M Stream (List Frame) := do
  let _ ← processInput .SEND_RST_STREAM
  let s ← getS
  pure [Frame.rstStream s.sid code]

def Stream.receiveWindowUpdate (incr : Int) : M Stream (List Frame × List Event) := do
  let events ← processInput .RECV_WINDOW_UPDATE
  let s ← getS
  if events.isEmpty then pure ([], []) else
  match guard_increment_window s.outWin incr with
  | .ok w => do
    modifyS (fun s => { s with outWin := w })
    pure ([], [Event.WindowUpdated s.sid (some incr)])
  | .error (.h2 c) =>
    if c.isSub .FlowControlError then do
      let frames ← Stream.resetStream ErrorCodes.FLOW_CONTROL_ERROR
      pure (frames, [Event.StreamReset s.sid (some ErrorCodes.FLOW_CONTROL_ERROR) false])
    else raise (mkExc c)
  | .error e => raise (ofPyErr e)

def Stream.receiveAltSvc (origin field : Bytes) : M Stream (List Frame × List Event) := do
  if !origin.isEmpty then pure ([], []) else
  let events ← processInput .RECV_ALTERNATIVE_SERVICE
  let s ← getS
  match events with
  | [] => pure ([], [])
  | e :: _ =>
    if e != .AlternativeServiceAvailable then raise (.py .AssertionError)
    else pure ([], [Event.AlternativeServiceAvailable s.authority (some field)])

def Stream.streamReset (code : Int) : M Stream (List Frame × List Event) := do
  let events ← processInput .RECV_RST_STREAM
  let s ← getS
  if events.isEmpty then pure ([], []) else pure ([], [Event.StreamReset s.sid (some code) true])

def Stream.acknowledgeReceivedData (size : Int) : M Stream (List Frame) := do
  let incr ← onWM (·.process_bytes size)
  let s ← getS
  match incr with
  | some n => if n != 0 then pure [Frame.windowUpdate s.sid n] else pure []
  | none => pure []

/-- `_inbound_flow_control_change_from_settings(delta)` -/
def Stream.inboundFlowControlChange (delta : Int) : M Stream Unit := do
  let s ← getS
  let newMax := s.inWM.max_window_size + delta
  let _ ← onWM (·.window_opened delta)
  modifyS fun s => { s with inWM := { s.inWM with max_window_size := newMax } }

end H2
