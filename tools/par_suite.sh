#!/bin/sh
# par_suite.sh [jobs] : every seeded mutant against the check of its own property and every behaviour-preserving rewrite
# of benign/ against the checks of its CHECKS file, <jobs> trials at a time (default 5), each in its own scratch world.
J=${1:-5}
cd /verif
( for d in seeded/*/; do s=$(basename $d); echo "seed $s ${s%%-*}"; done
  for d in benign/*/; do b=$(basename $d); echo "benign $b $(cat $d/CHECKS)"; done ) | xargs -P $J -L 1 sh tools/par_trial.sh
echo ALLDONE
