#!/bin/sh
# Build the framework from files on disk only (offline): regenerate the Lean files derived from /repo, build the
# model, the native driver and every property module (so that a check only re-checks what a change touches).
set -e
cd "$(dirname "$0")"
mkdir -p lean/H2/Gen evidence work
/venv/bin/python tools/gen_tables.py lean/H2/Gen/Tables.lean work/gen_summary.json
/venv/bin/python tools/py2lean.py lean/H2/Gen/WindowsRaw.lean
PROPS=$(/venv/bin/python -c "import json; print(' '.join(sorted(v['module'] for v in json.load(open('theorems.json')).values())))")
BRIDGES="H2.Gen.Deps H2.Gen.Bridge.Init H2.Gen.Bridge.WindowConsumed H2.Gen.Bridge.WindowOpened H2.Gen.Bridge.MaybeUpdateWindow H2.Gen.Bridge.ProcessBytes H2.Gen.Bridge.ValidateSetting H2.Gen.Bridge.GuardIncrementWindow"
cd lean && lake build H2 h2drv $PROPS $BRIDGES
