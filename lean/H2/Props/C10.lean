/-
  C10 — concurrent-stream limits are respected and enforced.
-/
import H2.Proofs.RecvEmits

namespace H2.C10
open H2 H2.Gen H2.Conn

/-- the streams that count: open or half-closed (the generated `STREAM_OPEN` table), of the given parity -/
def counted (r : Int) (e : Int × Stream) : Bool := e.2.isOpen && e.1 % 2 == r

/-- reserved, idle and closed streams never count; open and half-closed ones do (generated table) -/
theorem C10_what_counts :
    streamOpen .RESERVED_LOCAL = false ∧ streamOpen .RESERVED_REMOTE = false ∧ streamOpen .IDLE = false ∧
    streamOpen .CLOSED = false ∧ streamOpen .OPEN = true ∧ streamOpen .HALF_CLOSED_LOCAL = true ∧
    streamOpen .HALF_CLOSED_REMOTE = true := by decide

/-- **open_outbound_streams / open_inbound_streams** return exactly the number of such streams; the call only
    forgets closed streams (every counted stream stays, nothing is added) -/
theorem C10_count (r : Int) (c : Conn) :
    wp (openStreams r)
      (fun n c' => n = (c.streams.filter (counted r)).length ∧ c'.streams.filter (counted r) = c.streams.filter (counted r) ∧
        (∀ e ∈ c'.streams, e ∈ c.streams) ∧ c'.out = c.out ∧ c'.sent = c.sent ∧ c'.highestOut = c.highestOut ∧
        c'.highestIn = c.highestIn ∧ c'.cstate = c.cstate)
      (fun _ _ => False) c := by
  simp only [wp, openStreams]
  refine ⟨rfl, ?_, ?_, trivial, trivial, trivial, trivial, trivial⟩
  · rw [List.filter_filter]
    apply List.filter_congr
    intro e _
    unfold counted
    cases h : (e.2.isOpen && e.1 % 2 == r) <;> simp [h]
  · intro e he; exact (List.mem_filter.mp he).1

/-- **opening send**: a client's `send_headers` on a new stream id is refused with TooManyStreamsError, with nothing
    written and no stream created, when the streams it has open already reach the peer's MAX_CONCURRENT_STREAMS -/
theorem C10_out_refused (c : Conn) (sid : Int) (hs : List Header) (es : Bool) (hcl : c.cfg.client = true)
    (hnew : hasStream c sid = false)
    (hfull : ((c.streams.filter (counted 1)).length : Int) + 1 > c.remoteSettings.maxConcurrentStreams) :
    wp (sendHeaders sid hs es none none none) (fun _ _ => False)
      (fun e c' => e.isInstance .TooManyStreamsError = true ∧ c'.out = c.out ∧ c'.sent = c.sent ∧
        hasStream c' sid = false ∧ c'.highestOut = c.highestOut) c := by
  unfold sendHeaders sendHeadersTail addPriority openOutboundStreams
  wps
  simp only [Option.isSome_none, Bool.or_self, Bool.false_eq_true, if_false, hcl, Bool.not_true, hnew, if_true,
    Bool.not_false]
  refine wp_mono (C10_count 1 c) ?_ ?_
  · intro n c' h
    rw [h.1]
    simp only [hfull, if_true]
    wps
    refine ⟨rfl, h.2.2.2.1, h.2.2.2.2.1, ?_, h.2.2.2.2.2.1⟩
    unfold hasStream at hnew ⊢
    rw [Bool.eq_false_iff] at hnew ⊢
    intro hany
    apply hnew
    rw [List.any_eq_true] at hany ⊢
    obtain ⟨e, he, hk⟩ := hany
    exact ⟨e, h.2.2.1 e he, hk⟩
  · intro e c' h; exact h.elim

/-- **peer HEADERS that would open a stream**: refused with TooManyStreamsError (a PROTOCOL_ERROR connection error)
    when the streams the peer has open already reach the acknowledged local MAX_CONCURRENT_STREAMS; otherwise the
    frame goes on to the normal HEADERS processing (`receiveHeadersRest`), i.e. is not refused for this reason -/
theorem C10_in_limit (c : Conn) (sid : Int) (block : Bytes) (es : Bool) (prio : Option Prio)
    (hnew : hasStream c sid = false) (hin : streamIdIsOutbound c sid = false) (hhi : sid > c.highestIn) :
    let r : Int := if c.cfg.client then 0 else 1
    let n : Int := (c.streams.filter (counted r)).length
    (n + 1 > c.localSettings.maxConcurrentStreams →
      wp (receiveHeadersFrame sid block es prio) (fun _ _ => False)
        (fun e c' => e.isInstance .TooManyStreamsError = true ∧ hasStream c' sid = false ∧ c'.sent = c.sent) c) ∧
    (n + 1 ≤ c.localSettings.maxConcurrentStreams →
      ∃ c1, (∀ e ∈ c1.streams, e ∈ c.streams) ∧ c1.streams.filter (counted r) = c.streams.filter (counted r) ∧
        receiveHeadersFrame sid block es prio c = receiveHeadersRest sid block es prio c1) := by
  intro r n
  constructor
  · intro hfull
    unfold receiveHeadersFrame openInboundStreams
    wps
    simp only [hnew, hin, hhi, Bool.not_false, Bool.and_self, decide_true, if_true]
    refine wp_mono (C10_count r c) ?_ ?_
    · intro m c' h
      rw [h.1]
      simp only [n] at hfull
      simp only [hfull, if_true]
      wps
      refine ⟨rfl, ?_, h.2.2.2.2.1⟩
      unfold hasStream at hnew ⊢
      rw [Bool.eq_false_iff] at hnew ⊢
      intro hany
      apply hnew
      rw [List.any_eq_true] at hany ⊢
      obtain ⟨e, he, hk⟩ := hany
      exact ⟨e, h.2.2.1 e he, hk⟩
    · intro e c' h; exact h.elim
  · intro hroom
    have hc := C10_count r c
    unfold wp at hc
    cases ho : openStreams r c with
    | mk rr c1 =>
      rw [ho] at hc
      cases rr with
      | error e => exact hc.elim
      | ok m =>
        refine ⟨c1, hc.2.2.1, hc.2.1, ?_⟩
        unfold receiveHeadersFrame openInboundStreams
        simp only [bind, M.bind, getS, hnew, hin, hhi, Bool.not_false, Bool.and_self, decide_true, if_true]
        have hr : (if c.cfg.client = true then (0 : Int) else 1) = r := rfl
        rw [hr, ho]
        simp only
        have hm : ¬ (m + 1 > c.localSettings.maxConcurrentStreams) := by rw [hc.1]; simp only [n] at hroom; omega
        simp only [hm, if_false, pure, M.pure]

/-- **a HEADERS frame that does not open a stream is not counted**: for an id of this endpoint's own parity, or one at
    or below the highest id the peer has used (a stream that was closed and forgotten — say a response racing our
    RST_STREAM), the limit plays no part, however many streams are open (before the repair D48 such a frame raised
    TooManyStreamsError, a connection error, once the limit was reached) -/
theorem C10_closed_stream_not_counted (c : Conn) (sid : Int) (block : Bytes) (es : Bool) (prio : Option Prio)
    (hold : streamIdIsOutbound c sid = true ∨ sid ≤ c.highestIn) :
    receiveHeadersFrame sid block es prio c = receiveHeadersRest sid block es prio c := by
  unfold receiveHeadersFrame
  have hcond : (!hasStream c sid && !streamIdIsOutbound c sid && decide (sid > c.highestIn)) = false := by
    rcases hold with h | h
    · simp [h]
    · have : ¬ (sid > c.highestIn) := by omega
      simp [this]
  simp only [bind, M.bind, getS, hcond, Bool.false_eq_true, if_false, pure, M.pure]

/-- the limit is not enforced everywhere the RFC counts: a reserved (pushed) stream becomes half-closed — and is
    counted from then on — without any check (known finding D22).  Witness: RESERVED_LOCAL + SEND_HEADERS is a plain
    table transition into a counted state. -/
theorem C10_reserved_becomes_counted_witness :
    (stepShape { state := .RESERVED_LOCAL, client := some false, headersReceived := true } .SEND_HEADERS).2.state
      = .HALF_CLOSED_REMOTE ∧ streamOpen .HALF_CLOSED_REMOTE = true ∧ streamOpen .RESERVED_LOCAL = false := by decide

end H2.C10
