/-
  C02 — emitted bytes are well-formed HTTP/2 that encode exactly the calls.

  Proved of the model, for every frame / state / argument:
   * the 9-byte header that `serialize()` writes is read back by `parse_frame_header` as the frame's length, type, flags
     and stream id (`C02_header_roundtrip`);
   * `_prepare_for_sending` — the only writer after the preamble — returns only if every frame was serialisable and no
     payload exceeds the peer's current SETTINGS_MAX_FRAME_SIZE, and appends exactly the serialisations in order
     (`C02_written_frames_fit`); for the calls covered by C29 its AssertionError is unreachable (`C29_step_partial`);
   * the frames `_build_headers_frames` makes from the encoder's output form a contiguous header block: HEADERS or
     PUSH_PROMISE, then CONTINUATIONs on the same stream, END_HEADERS on the last only (`C02_header_block_contiguous`),
     they carry that output exactly and every fragment fits (C13 theorems, listed below);
   * `initiate_connection` writes the client preface (clients only) and one SETTINGS frame with the values in force
     (`C02_preamble`);
   * per call, exactly the frames it specifies: the theorems of C11 (SETTINGS), C23 (PRIORITY fields), C24 (ALTSVC),
     C26 (PING) listed below.  DATA / RST_STREAM / GOAWAY / WINDOW_UPDATE exactness and the body encodings of the other
     frame types are decided by the correspondence check and oracle_C02 (independent frame decoder harness/wire.py).
  Known finding D39 (setting identifiers above 255 are written modulo 256 by hyperframe) is part of the model
  (`Frame.body?` writes `be16 (mask8 id)`).
-/
import H2.Proofs.HeaderSend
import H2.Proofs.ApiOk
import H2.Props.C13
import H2.Props.C11
import H2.Props.C26
import H2.Props.C23
import H2.Props.C24
import H2.Props.C29
-- @also H2.C13.C13_stream_sendHeaders
-- @also H2.C13.C13_stream_pushStream
-- @also H2.C13.C13_fragments_fit
-- @also H2.C11.C11_update_settings
-- @also H2.C11.C11_settings_received
-- @also H2.C26.C26_send
-- @also H2.C26.C26_wire
-- @also H2.C23.C23_roundtrip
-- @also H2.C23.C23_defaults
-- @also H2.C24.C24_stream_frame
-- @also H2.C29.C29_step_partial
namespace H2.C02
open H2 H2.Gen H2.Conn

/-! ### the nine-byte frame header says what the frame is -/

theorem ofNat_toNat_lt (n : Nat) (h : n < 256) : (UInt8.ofNat n).toNat = n := by
  simp [UInt8.toNat_ofNat', Nat.mod_eq_of_lt h]

theorem ofNat_mod (n : Nat) : (UInt8.ofNat (n % 256)).toNat = n % 256 := ofNat_toNat_lt _ (Nat.mod_lt _ (by decide))

set_option maxRecDepth 100000 in
/-- **header round trip**: what `serialize()` writes in front of the body is read back by `parse_frame_header` as the
    frame's body length, type, flags and stream id -/
theorem C02_header_roundtrip (f : Frame) (bs body : Bytes) (hb : f.body? = some body) (hs : f.serialize? = some bs)
    (hlen : body.length < 16777216) (hsid : 0 ≤ f.sid ∧ f.sid < 2147483648)
    (hfl : f.flagByte < 256) (hassoc : assocOk f.typeCode.toNat f.sid.toNat = true) :
    bs = bs.take 9 ++ body ∧
    parseFrameHeader (bs.take 9) =
      .ok { length := body.length, type := f.typeCode.toNat, flags := f.flagByte, sid := f.sid.toNat } := by
  unfold Frame.serialize? at hs
  rw [hb] at hs
  simp only [Option.bind_eq_bind, Option.bind_some] at hs
  cases ht : u8? f.typeCode with
  | none => rw [ht] at hs; simp at hs
  | some t =>
    rw [ht] at hs
    simp only [Option.bind_some] at hs
    cases hf : u8? (f.flagByte : Int) with
    | none => rw [hf] at hs; simp at hs
    | some fl =>
      rw [hf] at hs
      simp only [Option.bind_some, pure, Option.some.injEq] at hs
      unfold u8? at ht hf
      split at ht
      · rename_i htr
        split at hf
        · rename_i hfr
          injection ht with ht
          injection hf with hf
          subst ht hf hs
          have hsid' : mask31 f.sid = f.sid.toNat := by unfold mask31; congr 1; omega
          rw [hsid']
          simp only [be16, be32, List.cons_append, List.nil_append, List.take_succ_cons, List.take_zero]
          refine ⟨trivial, ?_⟩
          unfold parseFrameHeader
          simp only [rd32, rd24]
          have a1 : (UInt8.ofNat (body.length / 256 % 65536 / 256 % 256)).toNat = body.length / 65536 := by
            rw [ofNat_mod (body.length / 256 % 65536 / 256)]; omega
          have a2 : (UInt8.ofNat (body.length / 256 % 65536 % 256)).toNat = body.length / 256 % 256 := by
            rw [ofNat_mod (body.length / 256 % 65536)]; omega
          have a3 : (UInt8.ofNat (body.length % 256)).toNat = body.length % 256 := ofNat_mod body.length
          have a4 : (UInt8.ofNat f.typeCode.toNat).toNat = f.typeCode.toNat := ofNat_toNat_lt _ (by omega)
          have a5 : (UInt8.ofNat (Int.toNat (f.flagByte : Int))).toNat = f.flagByte := by
            rw [Int.toNat_natCast]; exact ofNat_toNat_lt _ hfl
          have b1 := ofNat_mod (f.sid.toNat / 16777216)
          have b2 := ofNat_mod (f.sid.toNat / 65536)
          have b3 := ofNat_mod (f.sid.toNat / 256)
          have b4 := ofNat_mod f.sid.toNat
          simp only [a1, a2, a3, a4, a5, b1, b2, b3, b4]
          have e1 : (f.sid.toNat / 16777216 % 256 * 16777216 + f.sid.toNat / 65536 % 256 * 65536 + f.sid.toNat / 256 % 256 * 256 +
              f.sid.toNat % 256) % 2147483648 = f.sid.toNat := by omega
          have e2 : body.length / 65536 * 65536 + body.length / 256 % 256 * 256 + body.length % 256 = body.length := by omega
          rw [e1, e2, hassoc]
          rfl
        · cases hf
      · cases ht

/-! ### whatever is written fits the peer's MAX_FRAME_SIZE and is written whole -/

/-- **`_prepare_for_sending`** is the only writer of frames after the preamble (`Conn.sent` records what it wrote): if it
    returns, every frame was serialisable, fits the peer's current SETTINGS_MAX_FRAME_SIZE, and the bytes appended are
    exactly the frames' serialisations, in order -/
theorem C02_written_frames_fit (frames : List Frame) (c : Conn) :
    wp (prepareForSending frames)
      (fun _ c' => c'.sent = c.sent ++ frames ∧ (∀ f ∈ frames, (f.bodyLen : Int) ≤ c.maxOutFrame) ∧
          ∃ bs, frames.mapM Frame.serialize? = some bs ∧ c'.out = c.out ++ bs.foldl (· ++ ·) [])
      (fun _ _ => True) c := by
  unfold prepareForSending
  wps
  split
  · rename_i he
    have : frames = [] := by simpa using he
    subst this
    exact ⟨by simp, by simp, [], rfl, by simp⟩
  · cases hm : frames.mapM Frame.serialize? with
    | none => simp only; trivial
    | some bs =>
      simp only
      wps
      split
      · rename_i hall
        refine ⟨trivial, ?_, bs, rfl, rfl⟩
        intro f hf
        have := List.all_eq_true.mp hall f hf
        simpa using this
      · trivial

/-! ### header blocks are contiguous -/

/-- a header-block sequence as RFC 7540 section 4.3 wants it: HEADERS or PUSH_PROMISE first, then CONTINUATION frames
    on the same stream, END_HEADERS on the last frame and on no other -/
structure HeaderSeqOk (sid : Int) (frames : List Frame) : Prop where
  nonempty : frames ≠ []
  first : ∃ f, frames.head? = some f ∧ (match f with | .headers s .. => s = sid | .pushPromise s .. => s = sid | _ => False)
  rest : ∀ g ∈ frames.tail, ∃ b eh, g = Frame.continuation sid b eh
  endHeaders : ∀ i (h : i < frames.length), frames[i].endHeaders? = some (decide (i + 1 = frames.length))

theorem cont_getElem (sid : Int) (rest : List Bytes) (m : Nat) (i : Nat)
    (h : i < ((rest.zipIdx).map fun (blk, j) => Frame.continuation sid blk (j + 1 == m)).length) :
    ((rest.zipIdx).map fun (blk, j) => Frame.continuation sid blk (j + 1 == m))[i] =
      Frame.continuation sid (rest[i]'(by simpa using h)) (i + 1 == m) := by
  simp only [List.getElem_map, List.getElem_zipIdx, Nat.zero_add]

/-- **`_build_headers_frames`**: the frames built from a non-empty list of fragments form a contiguous header block -/
theorem C02_header_block_contiguous (first : Bytes → Bool → Frame) (sid : Int) (blocks : List Bytes) (hne : blocks ≠ [])
    (hfirst : ∀ b eh, (first b eh).endHeaders? = some eh ∧
      (match first b eh with | .headers s .. => s = sid | .pushPromise s .. => s = sid | _ => False)) :
    HeaderSeqOk sid (mkHeaderFrames first sid blocks) := by
  unfold mkHeaderFrames
  match blocks, hne with
  | [b], _ =>
    refine ⟨by simp, ⟨_, rfl, (hfirst b true).2⟩, by simp, ?_⟩
    intro i hi
    have : i = 0 := by simp at hi; omega
    subst this
    simp [(hfirst b true).1]
  | b :: c :: rest, _ =>
    refine ⟨by simp, ⟨_, rfl, (hfirst b false).2⟩, ?_, ?_⟩
    · intro g hg
      simp only [List.tail_cons, List.mem_map] at hg
      obtain ⟨⟨blk, j⟩, _, hg⟩ := hg
      exact ⟨blk, _, hg.symm⟩
    · intro i hi
      cases i with
      | zero =>
        simp only [List.getElem_cons_zero, (hfirst b false).1, List.length_cons, List.length_map, List.length_zipIdx]
        congr 1
      | succ k =>
        simp only [List.getElem_cons_succ]
        rw [cont_getElem]
        simp only [Frame.endHeaders?, List.length_cons, List.length_map, List.length_zipIdx]
        congr 1
        rw [Bool.eq_iff_iff]
        simp only [beq_iff_eq, decide_eq_true_eq]
        constructor <;> intro h <;> omega

/-! ### the connection preamble -/

/-- **`initiate_connection`**: the client preface (clients only, and only the first time) followed by one SETTINGS
    frame carrying the local settings in force; nothing else -/
theorem C02_preamble (c : Conn) :
    wp initiateConnection
      (fun _ c' => ∃ b, (Frame.settings false c.localSettings.items).serialize? = some b ∧
          c'.out = c.out ++ (if c.cfg.client && !c.preambleSent then Gen.preamble else []) ++ b ∧
          c'.sent = c.sent ++ [Frame.settings false c.localSettings.items])
      (fun _ c' => c'.out = c.out ∧ c'.sent = c.sent) c := by
  unfold initiateConnection settingsFrameOfLocal
  wps
  unfold wp connInput
  cases connTable c.cstate .SEND_SETTINGS with
  | none => exact ⟨rfl, rfl⟩
  | some t =>
    simp only
    show wp _ _ _ { c with cstate := t }
    wps
    cases hs : (Frame.settings false c.localSettings.items).serialize? with
    | none => simp only; wps; exact ⟨trivial, trivial⟩
    | some b => simp only; wps; exact ⟨b, rfl, rfl, trivial⟩

end H2.C02
