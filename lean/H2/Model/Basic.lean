/-
  Basic vocabulary of the hand-written model: bytes, header strings, events,
  exceptions, and the state+exception monad in which every method is written.

  The monad keeps the state when an exception is raised ("exceptions do not
  roll back"): `M σ α := σ → Except Exc α × σ`.
-/
import H2.Gen.Tables
import H2.Gen.Windows

namespace H2
open H2.Gen

abbrev Bytes := List UInt8

/-- A header name or value as the application passes it / as the library
    reports it: Python `bytes`, or Python `str` (held as its UTF-8 bytes).
    Equality is structural, as in Python (`b'a' != 'a'`). -/
structure HStr where
  isStr : Bool
  bs : Bytes
deriving DecidableEq, Repr, Inhabited

def HStr.b (bs : Bytes) : HStr := ⟨false, bs⟩
def HStr.s (bs : Bytes) : HStr := ⟨true, bs⟩

structure Header where
  name : HStr
  value : HStr
  ni : Bool            -- NeverIndexedHeaderTuple
deriving DecidableEq, Repr, Inhabited

/-- builtin / third-party exceptions that are *not* h2 exceptions -/
inductive PyExc where
  | KeyError | IndexError | AssertionError | TypeError | ValueError
  | UnicodeDecodeError | StructError | InvalidDataError | InvalidFrameError
  | AttributeError | Other (name : String)
deriving DecidableEq, Repr, Inhabited

def PyExc.name : PyExc → String
  | .KeyError => "KeyError" | .IndexError => "IndexError" | .AssertionError => "AssertionError"
  | .TypeError => "TypeError" | .ValueError => "ValueError" | .UnicodeDecodeError => "UnicodeDecodeError"
  | .StructError => "error" | .InvalidDataError => "InvalidDataError" | .InvalidFrameError => "InvalidFrameError"
  | .AttributeError => "AttributeError" | .Other n => n

inductive HdrKind where
  | request | response | trailers | informational
deriving DecidableEq, Repr, Inhabited

/-- Events as returned by `receive_data`.  `se` / `pu` say that the
    `stream_ended` / `priority_updated` attribute was set; the object they
    point to is the next `StreamEnded` / `PriorityUpdated` of the same list
    (see `Event.relIndex`). -/
inductive Event where
  | Headers (kind : HdrKind) (sid : Int) (headers : List Header) (se pu : Bool)
  | DataReceived (sid : Int) (data : Bytes) (fcl : Int) (se : Bool)
  | WindowUpdated (sid : Int) (delta : Option Int)
  | RemoteSettingsChanged (changes : List (Int × Option Int × Int))
  | SettingsAcknowledged (changes : List (Int × Option Int × Int))
  | PingReceived (d : Bytes)
  | PingAckReceived (d : Bytes)
  | StreamEnded (sid : Int)
  | StreamReset (sid : Int) (code : Option Int) (remote : Bool)
  | PushedStreamReceived (pushed : Option Int) (parent : Int) (headers : List Header)
  | PriorityUpdated (sid w dep : Int) (excl : Bool)
  | ConnectionTerminated (code last : Int) (extra : Option Bytes)
  | AlternativeServiceAvailable (origin : Option Bytes) (field : Option Bytes)
  | UnknownFrameReceived (type flags sid : Int) (body : Bytes)
deriving DecidableEq, Repr, Inhabited

def Event.sid? : Event → Option Int
  | .Headers _ s _ _ _ => some s
  | .DataReceived s _ _ _ => some s
  | .WindowUpdated s _ => some s
  | .StreamEnded s => some s
  | .StreamReset s _ _ => some s
  | .PushedStreamReceived _ p _ => some p
  | .PriorityUpdated s _ _ _ => some s
  | _ => none

/-- The exception value of the model. -/
inductive Exc where
  /-- an h2 exception: class, `error_code` attribute, `stream_id` attribute, attached `_events` -/
  | h2 (cls : ExcClass) (code : Option Int) (sid : Option Int) (events : List Event)
  | py (k : PyExc)
deriving Repr, Inhabited

/-- `isinstance(e, cls)` along the single-inheritance chain generated from h2.exceptions -/
def Gen.ExcClass.isSub (c : ExcClass) (anc : ExcClass) : Bool :=
  go 8 c
where
  go : Nat → ExcClass → Bool
    | 0, _ => false
    | n+1, c => if c = anc then true else match c.parent with
      | none => false
      | some p => go n p

def Exc.isInstance (e : Exc) (anc : ExcClass) : Bool :=
  match e with
  | .h2 c _ _ _ => c.isSub anc
  | .py _ => false

/-- raise `cls(...)` with the class-level error code -/
def mkExc (cls : ExcClass) (sid : Option Int := none) : Exc :=
  .h2 cls (cls.classCode.map Int.ofNat) sid []

def mkStreamClosed (sid : Int) (events : List Event := []) : Exc :=
  .h2 .StreamClosedError (some (Int.ofNat streamClosedErrorCode)) (some sid) events

def ofPyErr : PyErr → Exc
  | .h2 c => mkExc c
  | .AssertionError => .py .AssertionError

/-! ### state + exception monad, state survives a raise -/

abbrev M (σ : Type) (α : Type) := σ → Except Exc α × σ

@[inline] def M.pure {σ α} (a : α) : M σ α := fun s => (.ok a, s)

@[inline] def M.bind {σ α β} (m : M σ α) (f : α → M σ β) : M σ β := fun s =>
  match m s with
  | (.ok a, s') => f a s'
  | (.error e, s') => (.error e, s')

instance {σ} : Monad (M σ) where
  pure := M.pure
  bind := M.bind

def raise {σ α} (e : Exc) : M σ α := fun s => (.error e, s)
def getS {σ} : M σ σ := fun s => (.ok s, s)
def setS {σ} (s : σ) : M σ Unit := fun _ => (.ok (), s)
def modifyS {σ} (f : σ → σ) : M σ Unit := fun s => (.ok (), f s)

/-- `try m except <pred> as e: h e` (state changes made by `m` before the raise are kept) -/
def tryCatch {σ α} (m : M σ α) (pred : Exc → Bool) (h : Exc → M σ α) : M σ α := fun s =>
  match m s with
  | (.ok a, s') => (.ok a, s')
  | (.error e, s') => if pred e then h e s' else (.error e, s')

/-- run a computation on a component of the state -/
def zoom {σ τ α} (get : σ → τ) (set : σ → τ → σ) (m : M τ α) : M σ α := fun s =>
  match m (get s) with
  | (r, t') => (r, set s t')

def liftExcept {σ α} (r : Except Exc α) : M σ α := fun s => (r, s)

theorem ite_app {σ β : Type} {c : Prop} [Decidable c] (f g : σ → β) (s : σ) :
    (if c then f else g) s = if c then f s else g s := by split <;> rfl

/-! ### small byte helpers -/

def asciiLowerByte (c : UInt8) : UInt8 := if 65 ≤ c ∧ c ≤ 90 then c + 32 else c
def bytesLower (b : Bytes) : Bytes := b.map asciiLowerByte
def hasUpper (b : Bytes) : Bool := b.any fun c => 65 ≤ c && c ≤ 90

/-- bytes.strip(): ASCII whitespace -/
def isBytesWs (c : UInt8) : Bool := c = 32 || c = 9 || c = 10 || c = 13 || c = 11 || c = 12
/-- str.strip() restricted to ASCII code points -/
def isStrWs (c : UInt8) : Bool := isBytesWs c || c = 28 || c = 29 || c = 30 || c = 31

def stripWith (ws : UInt8 → Bool) (b : Bytes) : Bytes :=
  ((b.dropWhile ws).reverse.dropWhile ws).reverse

def HStr.strip (h : HStr) : HStr :=
  ⟨h.isStr, stripWith (if h.isStr then isStrWs else isBytesWs) h.bs⟩
def HStr.lower (h : HStr) : HStr := ⟨h.isStr, bytesLower h.bs⟩
def HStr.startsWith (h : HStr) (p : Bytes) : Bool := p.isPrefixOf h.bs
/-- `x in (b'lit', u'lit')` -/
def HStr.isLit (h : HStr) (lit : Bytes) : Bool := h.bs == lit
/-- `.encode('utf-8')` if str else itself -/
def HStr.toBytes (h : HStr) : Bytes := h.bs

def strBytes (s : String) : Bytes := s.toUTF8.toList

end H2
