/-
  C07 — received events per stream follow the HTTP message grammar for the role.

  Shape-level statements are decided over the regenerated transition table;
  the related-event statements are about the stream methods of the hand model.
-/
import H2.Proofs.Shapes
import H2.Proofs.Wp

namespace H2.C07
open H2 H2.Gen

/-- the events a state-machine step hands back (on a raise: the events attached to the exception) -/
def evs (sh : Shape) (i : StreamInputs) : List SEv :=
  match (stepShape sh i).1 with
  | .ok l => l
  | .streamClosed true => [.StreamReset]
  | _ => []

def isMessageEvent (e : SEv) : Bool :=
  e == .RequestReceived || e == .ResponseReceived || e == .InformationalResponseReceived || e == .DataReceived ||
  e == .TrailersReceived || e == .StreamEnded || e == .PushedStreamReceived

/-- **role**: a request is only ever reported on a stream whose role is "server side", responses,
    informational responses, trailers-of-a-response and pushes only on one whose role is "client side" -/
theorem C07_role : ∀ sh i, (!Good sh ||
    ((!(evs sh i).contains .RequestReceived || (stepShape sh i).2.client == some false) &&
     (!((evs sh i).contains .ResponseReceived || (evs sh i).contains .InformationalResponseReceived ||
        (evs sh i).contains .PushedStreamReceived) || (stepShape sh i).2.client == some true))) = true :=
  forall_shape_input (by decide +kernel)

/-- **order**: no DataReceived before the final headers; final headers at most once (a second header block is
    reported as trailers); no informational response after the final one; trailers only after headers, once -/
theorem C07_order : ∀ sh i, (!Good sh ||
    ((!(evs sh i).contains .DataReceived || sh.headersReceived) &&
     (!((evs sh i).contains .RequestReceived || (evs sh i).contains .ResponseReceived) || !sh.headersReceived) &&
     (!(evs sh i).contains .InformationalResponseReceived || !sh.headersReceived) &&
     (!(evs sh i).contains .TrailersReceived || (sh.headersReceived && !sh.trailersReceived)))) = true :=
  forall_shape_input (by decide +kernel)

/-- **after StreamEnded**: once the receive side is finished (half-closed(remote) or closed) no input yields a
    message event any more, and in particular no second StreamEnded -/
theorem C07_nothing_after_end : ∀ sh i, (!Good sh ||
    !(sh.state == .HALF_CLOSED_REMOTE || sh.state == .CLOSED) ||
    (evs sh i).all (fun e => !isMessageEvent e)) = true :=
  forall_shape_input (by decide +kernel)

/-- StreamEnded is produced exactly by a step that finishes the receive side -/
theorem C07_stream_ended_closes : ∀ sh i, (!Good sh || !(evs sh i).contains .StreamEnded ||
    ((stepShape sh i).2.state == .HALF_CLOSED_REMOTE || (stepShape sh i).2.state == .CLOSED)) = true :=
  forall_shape_input (by decide +kernel)

/-- **at most one StreamReset, and nothing after it**: a StreamReset event always leaves the stream CLOSED, and a
    CLOSED stream never produces any stream event again (PriorityUpdated is a connection-level event) -/
theorem C07_reset_is_final : ∀ sh i, (!Good sh ||
    ((!(evs sh i).contains .StreamReset || (stepShape sh i).2.state == .CLOSED) &&
     (sh.state != .CLOSED || (evs sh i).isEmpty) &&
     (sh.state != .CLOSED || (stepShape sh i).2.state == .CLOSED))) = true :=
  forall_shape_input (by decide +kernel)

/-! ### related events -/

/-- In the list returned for one HEADERS or DATA frame, an event that says "stream ended" is immediately
    followed by the StreamEnded of the same stream, and one that says "priority updated" is followed by a
    PriorityUpdated of that stream: related-event fields always point *later* into the same list. -/
def relatedOK : List Event → Bool
  | [] => true
  | .Headers k sid _ se pu :: rest =>
    (!se || rest.head? == some (.StreamEnded sid)) &&
    (!pu || rest.any (fun e => match e with | .PriorityUpdated s _ _ _ => s == sid | _ => false)) &&
    (k != .trailers || se) && relatedOK rest
  | .DataReceived sid _ _ se :: rest => (!se || rest.head? == some (.StreamEnded sid)) && relatedOK rest
  | _ :: rest => relatedOK rest

theorem C07_related_data (data : Bytes) (es : Bool) (fcl : Int) (st : Stream) :
    wp (Stream.receiveData data es fcl) (fun r _ => relatedOK r.2 = true) (fun _ _ => True) st := by
  simp only [Stream.receiveData]
  repeat' (first
    | trivial
    | (simp_all [relatedOK]; done)
    | wps
    | split
    | (apply wp_havoc <;> intros))

theorem relatedOK_hdr_end (k : SEv) (sid : Int) (hs : List Header) (ev : Event)
    (h : hdrEvent k sid hs true = some ev) : relatedOK [ev, Event.StreamEnded sid] = true := by
  cases k <;> simp [hdrEvent] at h <;> subst h <;> simp [relatedOK]

theorem relatedOK_hdr_noend (k : SEv) (sid : Int) (hs : List Header) (ev : Event)
    (h : hdrEvent k sid hs false = some ev) (hk : (k == SEv.TrailersReceived) = false) : relatedOK [ev] = true := by
  cases k <;> simp [hdrEvent] at h hk <;> subst h <;> simp [relatedOK]

theorem C07_related_headers (cfg : Config) (hs : List Header) (es : Bool) (st : Stream) :
    wp (Stream.receiveHeaders cfg hs es) (fun r _ => relatedOK r.2 = true) (fun _ _ => True) st := by
  cases es <;> simp only [Stream.receiveHeaders]
  all_goals repeat' (first
    | trivial
    | (simp_all [relatedOK, hdrEvent]; done)
    | (apply relatedOK_hdr_end; assumption)
    | (apply relatedOK_hdr_noend <;> first | assumption | (simp_all; done))
    | wps
    | split
    | (apply wp_havoc <;> intros))

/-- non-vacuity -/
example : evs { state := .OPEN, client := some false, headersReceived := true } .RECV_DATA = [.DataReceived] ∧
    evs {} .RECV_HEADERS = [.RequestReceived] := by decide

end H2.C07
