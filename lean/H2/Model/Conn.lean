/-
  H2Connection: every public method, `receive_data`, the frame dispatch —
  statement order as in connection.py (after the fix: commits), Python crashes
  as explicit `.py` results, state surviving raises.
-/
import H2.Model.Stream
import H2.Model.Settings
import H2.Model.FrameBuffer

namespace H2
open H2.Gen

structure Conn where
  cfg : Config
  cstate : ConnectionState := .IDLE
  streams : List (Int × Stream) := []              -- dict, insertion order
  highestIn : Int := 0
  highestOut : Int := 0
  localSettings : Settings
  remoteSettings : Settings
  outWin : Int
  maxOutFrame : Int
  maxInFrame : Int
  fb : FrameBuffer
  out : Bytes := []                                 -- _data_to_send
  closedStreams : List (Int × Option StreamClosedBy) := []   -- SizeLimitDict, oldest first
  inWM : WindowManager
  hp : Hp := {}
  decMaxHeaderList : Int                            -- decoder.max_header_list_size
  decMaxTableSize : Int := 4096                     -- decoder.max_allowed_table_size
  encTableSize : Int := 4096                        -- encoder.header_table_size
  /-- history variable (not part of the implementation's state, never read by the model): every frame object that was
      serialised into `_data_to_send`, in order -/
  sent : List Frame := []
  /-- `_preamble_sent`: initiate_connection has written the connection preamble -/
  preambleSent : Bool := false
deriving Repr, Inhabited

abbrev CM := M Conn

namespace Conn

def init (cfg : Config) : Conn :=
  let (ls, rs, ow, iw, mo, mi, mh) :=
    if cfg.client then (client_local_settings, client_remote_settings, client_init_out_window,
                        client_init_in_window, client_init_max_out_frame, client_init_max_in_frame, client_init_max_header_list)
    else (server_local_settings, server_remote_settings, server_init_out_window,
          server_init_in_window, server_init_max_out_frame, server_init_max_in_frame, server_init_max_header_list)
  { cfg := cfg,
    localSettings := Settings.ofInit ls, remoteSettings := Settings.ofInit rs,
    outWin := ow, maxOutFrame := mo, maxInFrame := mi,
    fb := FrameBuffer.init (!cfg.client),
    inWM := { max_window_size := iw, current_window_size := iw, bytes_processed := 0 },
    decMaxHeaderList := mh }

/-! ### small helpers -/

def pErr : Exc := mkExc .ProtocolError

/-- `state_machine.process_input(input)` of the connection -/
def connInput (i : ConnectionInputs) : CM Unit := fun c =>
  match connTable c.cstate i with
  | some t => (.ok (), { c with cstate := t })
  | none => (.error pErr, { c with cstate := .CLOSED })

def lookupStream (c : Conn) (sid : Int) : Option Stream := c.streams.lookup sid
def hasStream (c : Conn) (sid : Int) : Bool := c.streams.any fun e => e.1 == sid

def putStream (sid : Int) (st : Stream) : CM Unit := modifyS fun c =>
  if c.streams.any (fun e => e.1 == sid) then
    { c with streams := c.streams.map fun e => if e.1 == sid then (sid, st) else e }
  else { c with streams := c.streams ++ [(sid, st)] }

/-- run a stream method on the stream object `sid` (mutated in place, also when it raises) -/
def withStream {α} (sid : Int) (m : M Stream α) : CM α := fun c =>
  match c.streams.lookup sid with
  | none => (.error (.py .KeyError), c)
  | some st =>
    match m st with
    | (r, st') => (r, { c with streams := c.streams.map fun e => if e.1 == sid then (sid, st') else e })

/-- the same for methods that use the HPACK context -/
def withStreamHp {α} (sid : Int) (m : SH α) : CM α := fun c =>
  match c.streams.lookup sid with
  | none => (.error (.py .KeyError), c)
  | some st =>
    match m (st, c.hp) with
    | (r, (st', hp')) =>
      (r, { c with streams := c.streams.map (fun e => if e.1 == sid then (sid, st') else e), hp := hp' })

/-- SizeLimitDict.__setitem__ -/
def closedInsert (l : List (Int × Option StreamClosedBy)) (k : Int) (v : Option StreamClosedBy) :
    List (Int × Option StreamClosedBy) :=
  let l := if l.any (fun e => e.1 == k) then l.map (fun e => if e.1 == k then (k, v) else e) else l ++ [(k, v)]
  l.drop (l.length - MAX_CLOSED_STREAMS.toNat)

/-- `_open_streams(remainder)`: counts, and moves closed streams to `_closed_streams` -/
def openStreams (remainder : Int) : CM Int := fun c =>
  let count := (c.streams.filter fun e => e.2.isOpen && e.1 % 2 == remainder).length
  let dead := c.streams.filter fun e => !(e.2.isOpen && e.1 % 2 == remainder) && e.2.isClosed
  let keep := c.streams.filter fun e => (e.2.isOpen && e.1 % 2 == remainder) || !e.2.isClosed
  let closed := dead.foldl (fun acc e => closedInsert acc e.1 e.2.sm.closedBy) c.closedStreams
  (.ok count, { c with streams := keep, closedStreams := closed })

def openOutboundStreams : CM Int := do
  let c ← getS
  openStreams (if c.cfg.client then 1 else 0)

def openInboundStreams : CM Int := do
  let c ← getS
  openStreams (if c.cfg.client then 0 else 1)

def streamIdIsOutbound (c : Conn) (sid : Int) : Bool := sid % 2 == (if c.cfg.client then 1 else 0)

def optInt? (o : Option Int) : CM Int :=
  match o with
  | some v => pure v
  | none => raise (.py .KeyError)

/-- the second half of `_begin_new_stream`: build the H2Stream object, register it, move the watermark -/
def createStream (sid : Int) (outbound : Bool) : CM Unit := do
  let c ← getS
  let iw ← optInt? c.localSettings.initialWindowSize
  let ow ← optInt? c.remoteSettings.initialWindowSize
  match WindowManager.init iw with
  | .error e => raise (ofPyErr e)
  | .ok wm =>
    let st : Stream := { sm := { sid := sid }, maxOutFrame := c.maxOutFrame, outWin := ow, inWM := wm }
    putStream sid st
    modifyS fun c => if outbound then { c with highestOut := sid } else { c with highestIn := sid }

/-- `_begin_new_stream(stream_id, allowed_ids)`; `allowedOdd` is AllowedStreamIDs.ODD -/
def beginNewStream (sid : Int) (allowedOdd : Bool) : CM Unit := do
  let c ← getS
  let outbound := streamIdIsOutbound c sid
  let highest := if outbound then c.highestOut else c.highestIn
  if sid ≤ highest then raise (.h2 .StreamIDTooLowError (ExcClass.StreamIDTooLowError.classCode.map Int.ofNat) (some sid) []) else
  if sid % 2 != (if allowedOdd then 1 else 0) then raise pErr else
  if sid > HIGHEST_ALLOWED_STREAM_ID then raise pErr else
  createStream sid outbound

/-- `_get_stream_by_id` (only checks presence / raises) -/
def getStreamById (sid : Int) : CM Unit := do
  let c ← getS
  if hasStream c sid then pure () else
  let highest := if streamIdIsOutbound c sid then c.highestOut else c.highestIn
  if sid > highest then raise (.h2 .NoSuchStreamError (ExcClass.NoSuchStreamError.classCode.map Int.ofNat) (some sid) [])
  else raise (mkStreamClosed sid)

def getOrCreateStream (sid : Int) (allowedOdd : Bool) : CM Unit := do
  let c ← getS
  if hasStream c sid then pure () else beginNewStream sid allowedOdd

/-- `_prepare_for_sending(frames)` -/
def prepareForSending (frames : List Frame) : CM Unit := do
  if frames.isEmpty then pure () else
  match frames.mapM Frame.serialize? with
  | none => raise (.py .StructError)
  | some bs =>
    modifyS fun c => { c with out := c.out ++ bs.foldl (· ++ ·) [], sent := c.sent ++ frames }
    let c ← getS
    if frames.all fun f => (f.bodyLen : Int) ≤ c.maxOutFrame then pure () else raise (.py .AssertionError)

def streamClosedBy (c : Conn) (sid : Int) : Option StreamClosedBy :=
  match c.streams.lookup sid with
  | some st => st.sm.closedBy
  | none => match c.closedStreams.lookup sid with
    | some v => v
    | none => none

def closedByReset (c : Conn) (sid : Int) : Bool :=
  let b := streamClosedBy c sid
  b == some .RECV_RST_STREAM || b == some .SEND_RST_STREAM
def closedByEnd (c : Conn) (sid : Int) : Bool :=
  let b := streamClosedBy c sid
  b == some .RECV_END_STREAM || b == some .SEND_END_STREAM

/-- `_check_priority` -/
def checkPriority (sid : Int) (weight depends : Option Int) : Except Exc Unit :=
  if !(1 ≤ sid && sid ≤ HIGHEST_ALLOWED_STREAM_ID) then .error pErr else
  if (match depends with | some d => !(0 ≤ d && d ≤ HIGHEST_ALLOWED_STREAM_ID) | none => false) then .error pErr else
  if depends == some sid then .error pErr else
  match weight with
  | some w => if w > 256 || w < 1 then .error pErr else .ok ()
  | none => .ok ()

/-- `_add_frame_priority`: the priority fields put on the frame -/
def framePriority (sid : Int) (weight depends : Option Int) (excl : Option Bool) : Except Exc Prio := do
  checkPriority sid weight depends
  pure { weight := (match weight with | some w => w - 1 | none => 15), dependsOn := depends.getD 0,
         exclusive := excl.getD false }

/-! ### public API -/

def settingsFrameOfLocal : CM Frame := do
  let c ← getS
  pure (Frame.settings false c.localSettings.items)

def initiateConnection : CM Unit := do
  connInput .SEND_SETTINGS
  let c ← getS
  let pre := if c.cfg.client && !c.preambleSent then Gen.preamble else []
  let f ← settingsFrameOfLocal
  match f.serialize? with
  | none => raise (.py .StructError)
  | some b => modifyS fun c => { c with out := c.out ++ pre ++ b, sent := c.sent ++ [f], preambleSent := true }

/-! #### base64 (urlsafe) for the h2c upgrade header -/

def b64Char (n : Nat) : UInt8 :=
  if n < 26 then UInt8.ofNat (65 + n) else if n < 52 then UInt8.ofNat (97 + n - 26)
  else if n < 62 then UInt8.ofNat (48 + n - 52) else if n = 62 then 45 else 95

def b64Encode : Bytes → Bytes
  | a :: b :: c :: rest =>
    let n := a.toNat * 65536 + b.toNat * 256 + c.toNat
    b64Char (n / 262144) :: b64Char (n / 4096 % 64) :: b64Char (n / 64 % 64) :: b64Char (n % 64) :: b64Encode rest
  | [a, b] =>
    let n := a.toNat * 65536 + b.toNat * 256
    [b64Char (n / 262144), b64Char (n / 4096 % 64), b64Char (n / 64 % 64), 61]
  | [a] =>
    let n := a.toNat * 65536
    [b64Char (n / 262144), b64Char (n / 4096 % 64), 61, 61]
  | [] => []

def b64Val (c : UInt8) : Option Nat :=
  let c := c.toNat
  if 65 ≤ c && c ≤ 90 then some (c - 65) else if 97 ≤ c && c ≤ 122 then some (c - 97 + 26)
  else if 48 ≤ c && c ≤ 57 then some (c - 48 + 52) else if c = 45 then some 62 else if c = 95 then some 63 else none

/-- `base64.urlsafe_b64decode` on *canonical* input (what `urlsafe_b64encode` produces: quads of
    alphabet characters, `=` padding only in the last quad).  `none` = input outside the modelled
    domain (CPython's lenient decoder is not modelled). -/
def b64Decode : Bytes → Option Bytes
  | [] => some []
  | [a, b, 61, 61] => do
    let a ← b64Val a; let b ← b64Val b
    pure [UInt8.ofNat ((a * 64 + b) / 16)]
  | [a, b, c, 61] => do
    let a ← b64Val a; let b ← b64Val b; let c ← b64Val c
    let n := (a * 64 + b) * 64 + c
    pure [UInt8.ofNat (n / 1024), UInt8.ofNat (n / 4 % 256)]
  | a :: b :: c :: d :: rest => do
    let a ← b64Val a; let b ← b64Val b; let c ← b64Val c; let d ← b64Val d
    let n := ((a * 64 + b) * 64 + c) * 64 + d
    let t ← b64Decode rest
    pure (UInt8.ofNat (n / 65536) :: UInt8.ofNat (n / 256 % 256) :: UInt8.ofNat (n % 256) :: t)
  | _ => none

end Conn
end H2
