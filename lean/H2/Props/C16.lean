/-
  C16 — Content-Length is enforced as RFC 7540 section 8.1.2.6 requires.
-/
import H2.Proofs.RecvEmits

namespace H2.C16
open H2 H2.Gen H2.Conn

/-! ### counting -/

/-- **`_track_content_length`** on a stream that expects `L` bytes and has seen `a`: `n` more payload bytes are accepted
    exactly when they do not overrun `L` and — if they end the stream — complete it; the count then is `a + n`.
    A refusal is InvalidBodyLengthError. -/
theorem C16_track (st : Stream) (L n : Int) (es : Bool) (h : st.expectedCL = some L) :
    wp (Stream.trackContentLength n es)
      (fun _ st' => st.actualCL + n ≤ L ∧ (es = true → st.actualCL + n = L) ∧ st'.actualCL = st.actualCL + n ∧
        st'.expectedCL = some L)
      (fun e _ => e.isInstance .InvalidBodyLengthError = true ∧
        (L < st.actualCL + n ∨ (es = true ∧ st.actualCL + n ≠ L))) st := by
  unfold Stream.trackContentLength
  wps
  simp only [h]
  by_cases h1 : L < st.actualCL + n
  · simp only [h1, if_true]; exact ⟨rfl, Or.inl trivial⟩
  · simp only [h1, if_false]
    by_cases h2 : (es && L != st.actualCL + n) = true
    · simp only [h2, if_true]
      refine ⟨rfl, Or.inr ?_⟩
      simp only [Bool.and_eq_true, bne_iff_ne, ne_eq] at h2
      exact ⟨h2.1, fun h3 => h2.2 h3.symm⟩
    · simp only [h2, Bool.false_eq_true, if_false]
      refine ⟨by omega, ?_, rfl, rfl⟩
      intro hes
      simp only [hes, Bool.true_and, bne_iff_ne, ne_eq, Decidable.not_not] at h2
      exact h2.symm

/-- without an expected length everything is accepted -/
theorem C16_track_unknown (st : Stream) (n : Int) (es : Bool) (h : st.expectedCL = none) :
    wp (Stream.trackContentLength n es) (fun _ st' => st'.actualCL = st.actualCL + n ∧ st'.expectedCL = none)
      (fun _ _ => False) st := by
  unfold Stream.trackContentLength
  wps
  simp only [h]
  exact ⟨rfl, rfl⟩

/-- a whole body: DATA payload lengths `ls` (the last frame, or an empty one, carrying END_STREAM) are accepted by
    an expectation of `L` exactly when they sum up to `L` — provided no prefix overruns, which the sum rules out for
    non-negative lengths -/
def feedAll (L : Int) : Int → List Int → Bool
  | a, [] => a == L
  | a, n :: rest => if L < a + n then false else feedAll L (a + n) rest

theorem C16_body_total (L : Int) (ls : List Int) (a : Int) (hpos : ∀ n ∈ ls, 0 ≤ n) :
    feedAll L a ls = (a + ls.sum == L) := by
  induction ls generalizing a with
  | nil => simp [feedAll]
  | cons n rest ih =>
    simp only [feedAll, List.sum_cons]
    have hn := hpos n (List.mem_cons_self ..)
    have hrest : ∀ m ∈ rest, 0 ≤ m := fun m hm => hpos m (List.mem_cons_of_mem _ hm)
    have hsum : 0 ≤ rest.sum := by
      clear ih
      induction rest with
      | nil => simp
      | cons m t iht =>
        simp only [List.sum_cons]
        have := hrest m (List.mem_cons_self ..)
        have := iht (fun x hx => hpos x (by
          rcases List.mem_cons.mp hx with h | h
          · subst h; exact List.mem_cons_self ..
          · exact List.mem_cons_of_mem _ (List.mem_cons_of_mem _ h))) (fun x hx => hrest x (List.mem_cons_of_mem _ hx))
        omega
    split
    · rename_i hlt
      have : ¬ (a + (n + rest.sum) = L) := by omega
      simp [this]
    · rw [ih (a + n) hrest]
      congr 1
      omega

/-! ### what is expected -/

/-- responses that are defined to have no content — to a HEAD request, 204, 304 — expect exactly 0 bytes whatever
    their content-length field says; 1xx responses set nothing -/
theorem C16_no_content (hs : List Header) :
    contentLengthDecision (some (strBytes "HEAD")) hs = .set 0 := by
  unfold contentLengthDecision; simp

theorem C16_status_204_304 (m : Option Bytes) (hs : List Header) (v : HStr) (hm : m ≠ some (strBytes "HEAD"))
    (hf : (hs.find? fun h => h.name == HStr.b (strBytes ":status")).map (·.value) = some v)
    (hv : v = HStr.b (strBytes "204") ∨ v = HStr.b (strBytes "304")) :
    contentLengthDecision m hs = .set 0 := by
  unfold contentLengthDecision
  have : (m == some (strBytes "HEAD")) = false := by simpa using hm
  simp only [this, Bool.false_eq_true, if_false, hf]
  have n1 : (HStr.b (strBytes "204")).startsWith [49] = false := by decide +kernel
  have n2 : (HStr.b (strBytes "304")).startsWith [49] = false := by decide +kernel
  rcases hv with hv | hv <;> subst hv
  · simp only [n1, Bool.false_eq_true, if_false]
    rw [if_pos (by decide +kernel)]
  · simp only [n2, Bool.false_eq_true, if_false]
    rw [if_pos (by decide +kernel)]

theorem C16_status_1xx (m : Option Bytes) (hs : List Header) (v : HStr) (hm : m ≠ some (strBytes "HEAD"))
    (hf : (hs.find? fun h => h.name == HStr.b (strBytes ":status")).map (·.value) = some v)
    (hv : v.startsWith [49] = true) :
    contentLengthDecision m hs = .keep := by
  unfold contentLengthDecision
  have : (m == some (strBytes "HEAD")) = false := by simpa using hm
  simp only [this, Bool.false_eq_true, if_false, hf, hv, if_true]

/-- the request method is remembered from the request header block and is not overwritten by request trailers, so a
    HEAD request that sent trailers is still a HEAD request when its response arrives -/
theorem C16_method_survives_trailers (st : Stream) (hs : List Header) (h : st.sm.trailersSent = true) :
    (if !st.sm.trailersSent then { st with requestMethod := extractMethodHeader hs } else st).requestMethod
      = st.requestMethod := by
  simp [h]

/-- padding does not count: whatever the flow-controlled length of the DATA frame, an accepted frame adds exactly
    its payload length to the body count -/
theorem C16_padding_excluded (d : Bytes) (es : Bool) (fcl : Int) (st : Stream) :
    wp (Stream.receiveData d es fcl) (fun _ st' => st'.actualCL = st.actualCL + d.length) (fun _ _ => True) st := by
  unfold Stream.receiveData Stream.trackContentLength
  wps
  apply wp_processInput_havoc
  · intro evs sh
    wps
    rw [wp_onWM]
    cases (WindowManager.window_consumed st.inWM fcl) with
    | mk r w =>
      cases r with
      | error e => trivial
      | ok v =>
        simp only
        wps
        repeat' (first | rfl | trivial | (intro _) | wps | split | (apply wp_processInput_havoc))
  · intro e sh; trivial

end H2.C16
