/-
  The connection's inbound window manager keeps `current_window_size ≤ max_window_size ≤ 2^31-1` along every history:
  the window the library advertises to the peer at connection level never exceeds its maximum, and that never exceeds
  what a WINDOW_UPDATE may grant (C05's "never over-credits", for the connection, with no discipline assumed of the
  application).  `_inbound_flow_control_window_manager` is only ever handed to three methods of WindowManager
  (`window_consumed`, `process_bytes`, `window_opened`), and each keeps the two inequalities whatever its argument.
  (Lemma-per-primitive scheme as in Proofs/ClosedCap.)
-/
import H2.Proofs.ClosedCap
namespace H2
open H2.Gen H2.Conn

/-- a window manager whose advertised window is within its maximum, and the maximum within 2^31-1 -/
def WMI (w : WindowManager) : Prop := w.current_window_size ≤ w.max_window_size ∧ w.max_window_size ≤ 2147483647

/-- the connection's inbound window manager is in order -/
def WI (c : Conn) : Prop := WMI c.inWM

theorem wmi_consumed (n : Int) (hn : 0 ≤ n) : ∀ w, WMI w → WMI (w.window_consumed n).2 := by
  intro w h
  unfold WMI at *
  simp only [WindowManager.window_consumed]
  split <;> simp only <;> omega

theorem wmi_maybe : ∀ w, WMI w → WMI (WindowManager.maybe_update_window w).2 := by
  intro w h
  unfold WMI at *
  simp only [WindowManager.maybe_update_window]
  repeat' split
  all_goals (simp only; omega)

theorem wmi_processed (n : Int) : ∀ w, WMI w → WMI (w.process_bytes n).2 := by
  intro w h
  simp only [WindowManager.process_bytes]
  exact wmi_maybe _ h

theorem wmi_opened (n : Int) : ∀ w, WMI w → WMI (w.window_opened n).2 := by
  intro w h
  unfold WMI at *
  simp only [WindowManager.window_opened]
  repeat' split
  all_goals (simp only [decide_eq_true_eq] at *; omega)

section
variable {α : Type} {Q : α → Conn → Prop} {E : Exc → Conn → Prop}

theorem pw_connInput {Q : Unit → Conn → Prop} (i : ConnectionInputs) (c : Conn) (h : WI c)
    (hq : ∀ c', WI c' → Q () c') (he : ∀ e c', WI c' → E e c') : wp (connInput i) Q E c := by
  unfold wp connInput
  cases connTable c.cstate i with
  | none => exact he _ _ h
  | some t => exact hq _ h

theorem pw_withStream (sid : Int) (m : M Stream α) (c : Conn) (h : WI c)
    (hq : ∀ a c', WI c' → Q a c') (he : ∀ e c', WI c' → E e c') : wp (withStream sid m) Q E c := by
  rw [wp_withStream]
  cases c.streams.lookup sid with
  | none => exact he _ _ h
  | some st => exact wp_havoc (fun a s' => hq a _ h) (fun e s' => he e _ h)

theorem pw_getStreamById {Q : Unit → Conn → Prop} (sid : Int) (c : Conn) (h : WI c)
    (hq : ∀ c', WI c' → Q () c') (he : ∀ e c', WI c' → E e c') : wp (getStreamById sid) Q E c := by
  rw [wp_getStreamById_eq]
  repeat' split
  all_goals first | exact hq c h | exact he _ c h

theorem pw_openStreams {Q : Int → Conn → Prop} (r : Int) (c : Conn) (h : WI c)
    (hq : ∀ a c', WI c' → Q a c') : wp (openStreams r) Q E c := by
  simp only [wp, openStreams]; exact hq _ _ h

theorem pw_onConnWM {Q : Option Int → Conn → Prop} (f : WindowManager → WRes) (c : Conn) (h : WI c)
    (hf : ∀ w, WMI w → WMI (f w).2)
    (hq : ∀ a c', WI c' → Q a c') (he : ∀ e c', WI c' → E e c') : wp (onConnWM f) Q E c := by
  rw [wp_onConnWM]
  have := hf c.inWM h
  cases hfc : f c.inWM with
  | mk r w =>
    rw [hfc] at this
    cases r <;> first | exact hq _ _ this | exact he _ _ this

theorem pw_decodeHeaders {Q : List Header → Conn → Prop} (b : Bytes) (c : Conn) (h : WI c)
    (hq : ∀ a c', WI c' → Q a c') (he : ∀ e c', WI c' → E e c') : wp (decodeHeaders b) Q E c := by
  unfold decodeHeaders
  wps
  apply wp_havoc
  · intro r hp'
    cases r <;> wps <;> first | exact hq _ _ h | exact he _ _ h
  · intro e hp'; exact he _ _ h

theorem pw_fcc {Q : Unit → Conn → Prop} (o n : Int) (c : Conn) (h : WI c)
    (hq : ∀ c', WI c' → Q () c') (he : ∀ e c', WI c' → E e c') :
    wp (flowControlChangeFromSettings o n) Q E c := by
  unfold wp flowControlChangeFromSettings
  simp only
  cases flowControlChangeFromSettings.go (n - o) [] c.streams with
  | mk r ss => cases r <;> first | exact hq _ h | exact he _ _ h

theorem pw_ifcc {Q : Unit → Conn → Prop} (o n : Int) (c : Conn) (h : WI c)
    (hq : ∀ c', WI c' → Q () c') (he : ∀ e c', WI c' → E e c') :
    wp (inboundFlowControlChangeFromSettings o n) Q E c := by
  unfold wp inboundFlowControlChangeFromSettings
  simp only
  cases inboundFlowControlChangeFromSettings.go (n - o) [] c.streams with
  | mk r ss => cases r <;> first | exact hq _ h | exact he _ _ h

theorem pw_putStream {Q : Unit → Conn → Prop} (sid : Int) (st : Stream) (c : Conn) (h : WI c)
    (hq : ∀ c', WI c' → Q () c') : wp (putStream sid st) Q E c := by
  rw [wp_putStream]
  apply hq
  unfold putStream modifyS; simp only
  split <;> exact h

end

theorem localOtherChanges_wi (ch : List (Int × Option Int × Int)) (c : Conn) (h : WI c) : WI (localOtherChanges ch c) := by
  unfold localOtherChanges; repeat' split
  all_goals exact h
theorem remoteOtherChanges_wi (ch : List (Int × Option Int × Int)) (c : Conn) (h : WI c) : WI (remoteOtherChanges ch c) := by
  unfold remoteOtherChanges; repeat' split
  all_goals exact h

/-- close goals of the form `… .outWin = s0` / continue through a method that never writes frames -/
macro "pw_auto" : tactic => `(tactic|
  repeat' (first
    | assumption
    | (apply localOtherChanges_wi; assumption)
    | (apply remoteOtherChanges_wi; assumption)
    | (apply pw_connInput _ _ (by assumption))
    | (apply pw_withStream _ _ _ (by assumption))
    | (apply pw_getStreamById _ _ (by assumption))
    | (apply pw_openStreams _ _ (by assumption))
    | (apply pw_onConnWM _ _ (by assumption) (by first | exact wmi_consumed _ (by assumption) | exact wmi_processed _ | exact wmi_opened _))
    | (apply pw_decodeHeaders _ _ (by assumption))
    | (apply pw_fcc _ _ _ (by assumption))
    | (apply pw_ifcc _ _ _ (by assumption))
    | (apply pw_putStream _ _ _ (by assumption))
    | (intro _)
    | wps
    | split))

abbrev PW (m : CM α) (c : Conn) : Prop := WI c → wp m (fun _ c' => WI c') (fun _ c' => WI c') c

theorem pw_ping (a : Bool) (p : Bytes) (c : Conn) : PW (receivePingFrame a p) c := by
  intro h
  unfold receivePingFrame; pw_auto
theorem pw_priority (sid : Int) (p : Prio) (c : Conn) : PW (receivePriorityFrame sid p) c := by
  intro h
  unfold receivePriorityFrame; pw_auto


theorem pw_goaway (l k : Int) (x : Bytes) (c : Conn) : PW (receiveGoawayFrame l k x) c := by
  intro h
  unfold receiveGoawayFrame clearOutboundDataBuffer; pw_auto
theorem pw_rst (sid code : Int) (c : Conn) : PW (receiveRstStreamFrame sid code) c := by
  intro h
  unfold receiveRstStreamFrame; pw_auto
theorem pw_altsvc (sid : Int) (o f : Bytes) (c : Conn) : PW (receiveAltSvcFrame sid o f) c := by
  intro h
  unfold receiveAltSvcFrame; pw_auto
theorem pw_cont (sid : Int) (c : Conn) : PW (receiveNakedContinuation sid) c := by
  intro h
  unfold receiveNakedContinuation; pw_auto
theorem pw_data (sid : Int) (p : Bytes) (es : Bool) (fcl : Int) (hf : 0 ≤ fcl) (c : Conn) : PW (receiveDataFrame sid p es fcl) c := by
  intro h
  unfold receiveDataFrame; pw_auto
theorem pw_settings (ack : Bool) (items : List (Int × Int)) (c : Conn) : PW (receiveSettingsFrame ack items) c := by
  intro h
  unfold receiveSettingsFrame localSettingsAcked acknowledgeSettings localWindowChange remoteWindowChange
  pw_auto


theorem pw_use {α : Type} {Q : α → Conn → Prop} {E : Exc → Conn → Prop} {m : CM α} (hm : ∀ c, PW m c) (c : Conn)
    (h : WI c) (hq : ∀ a c', WI c' → Q a c') (he : ∀ e c', WI c' → E e c') :
    wp m Q E c :=
  wp_mono (hm c h) (fun a c' h' => hq a c' h') (fun e c' h' => he e c' h')

theorem pw_createStream (sid : Int) (ob : Bool) (c : Conn) : PW (createStream sid ob) c := by
  intro h
  unfold createStream optInt?
  pw_auto

theorem pw_beginNewStream (sid : Int) (odd : Bool) (c : Conn) : PW (beginNewStream sid odd) c := by
  intro h
  unfold beginNewStream
  repeat' (first | assumption | (apply pw_use (pw_createStream _ _) _ (by assumption)) | (intro _) | wps | split)

theorem pw_getOrCreateStream (sid : Int) (odd : Bool) (c : Conn) : PW (getOrCreateStream sid odd) c := by
  intro h
  unfold getOrCreateStream
  repeat' (first | assumption | (apply pw_use (pw_beginNewStream _ _) _ (by assumption)) | (intro _) | wps | split)

theorem pw_refuse (p : Int) (c : Conn) : PW (refusePushedStream p) c := by
  intro h
  have e : (refusePushedStream p c).2 = (if (!streamIdIsOutbound c p && decide (p > c.highestIn)) = true then
      ({ c with highestIn := p, closedStreams := closedInsert c.closedStreams p (some .SEND_RST_STREAM) } : Conn) else c) := rfl
  have hc : WI (refusePushedStream p c).2 := by
    rw [e]
    split <;> exact h
  unfold wp
  cases hr : refusePushedStream p c with
  | mk r c' =>
    rw [hr] at hc
    cases r <;> exact hc

macro "pw_auto2" : tactic => `(tactic|
  repeat' (first
    | assumption
    | (apply pw_use (pw_getOrCreateStream _ _) _ (by assumption))
    | (apply pw_use (pw_beginNewStream _ _) _ (by assumption))
    | (apply pw_use (pw_priority _ _) _ (by assumption))
    | (apply pw_use (pw_refuse _) _ (by assumption))
    | (apply pw_connInput _ _ (by assumption))
    | (apply pw_withStream _ _ _ (by assumption))
    | (apply pw_getStreamById _ _ (by assumption))
    | (apply pw_openStreams _ _ (by assumption))
    | (apply pw_decodeHeaders _ _ (by assumption))
    | (intro _)
    | wps
    | split))

theorem pw_headersRest (sid : Int) (b : Bytes) (es : Bool) (pr : Option Prio) (c : Conn) : PW (receiveHeadersRest sid b es pr) c := by
  intro h
  unfold receiveHeadersRest
  pw_auto2

theorem pw_headers (sid : Int) (b : Bytes) (es : Bool) (pr : Option Prio) (c : Conn) : PW (receiveHeadersFrame sid b es pr) c := by
  intro h
  unfold receiveHeadersFrame openInboundStreams
  repeat' (first
    | assumption
    | (apply pw_use (pw_headersRest _ _ _ _) _ (by assumption))
    | (apply pw_openStreams _ _ (by assumption))
    | (intro _)
    | wps
    | split)

theorem pw_pushKnown (sid p : Int) (hs : List Header) (c : Conn) : PW (receivePushPromiseKnown sid p hs) c := by
  intro h
  unfold receivePushPromiseKnown openInboundStreams
  pw_auto2

theorem pw_pushUnknown (sid p : Int) (c : Conn) : PW (receivePushPromiseUnknown sid p) c := by
  intro h
  unfold receivePushPromiseUnknown
  pw_auto2

theorem pw_push (sid p : Int) (b : Bytes) (c : Conn) : PW (receivePushPromiseFrame sid p b) c := by
  intro h
  unfold receivePushPromiseFrame
  repeat' (first
    | assumption
    | (apply pw_use (pw_pushKnown _ _ _) _ (by assumption))
    | (apply pw_use (pw_pushUnknown _ _) _ (by assumption))
    | (apply pw_connInput _ _ (by assumption))
    | (apply pw_getStreamById _ _ (by assumption))
    | (apply pw_decodeHeaders _ _ (by assumption))
    | (intro _)
    | wps
    | split)


theorem pw_windowUpdate (sid incr : Int) (c : Conn) : PW (receiveWindowUpdateFrame sid incr) c := by
  intro h
  unfold receiveWindowUpdateFrame; pw_auto

theorem pw_dispatch (rf : RFrame) (c : Conn) : PW (dispatch rf) c := by
  unfold dispatch
  split
  · exact pw_headers _ _ _ _ c
  · exact pw_push _ _ _ c
  · exact pw_settings _ _ c
  · exact pw_data _ _ _ _ (Int.natCast_nonneg _) c
  · exact pw_windowUpdate _ _ c
  · exact pw_ping _ _ c
  · exact pw_rst _ _ c
  · exact pw_priority _ _ c
  · exact pw_goaway _ _ _ c
  · exact pw_cont _ c
  · exact pw_altsvc _ _ _ c
  · intro h; wps; exact h

theorem pw_prepare {Q : Unit → Conn → Prop} {E : Exc → Conn → Prop} (fs : List Frame) (c : Conn) (h : WI c)
    (hq : ∀ c', WI c' → Q () c') (he : ∀ e c', WI c' → E e c') : wp (prepareForSending fs) Q E c := by
  unfold prepareForSending
  wps
  split
  · exact hq c h
  · cases fs.mapM Frame.serialize? with
    | none => exact he _ c h
    | some bs =>
      simp only
      wps
      split
      · exact hq _ h
      · exact he _ _ h

theorem pw_withStreamHp {α : Type} {Q : α → Conn → Prop} {E : Exc → Conn → Prop} (sid : Int) (m : SH α) (c : Conn) (h : WI c)
    (hq : ∀ a c', WI c' → Q a c') (he : ∀ e c', WI c' → E e c') : wp (withStreamHp sid m) Q E c := by
  rw [wp_withStreamHp]
  cases c.streams.lookup sid with
  | none => exact he _ _ h
  | some st => exact wp_havoc (fun a s' => hq a _ h) (fun e s' => he e _ h)

/-- **`receive_data` keeps the memory of closed streams within its cap**, whatever the bytes -/
theorem stable_WI : Stable WI where
  fb := fun _ _ h => h
  connInput := fun i c h => by apply pw_connInput _ _ h <;> (intros; assumption)
  prepare := fun fs c h => by apply pw_prepare _ _ h <;> (intros; assumption)
  dispatch := fun rf c h => pw_dispatch rf c h

theorem receiveData_wi (d : Bytes) (c : Conn) (h : WI c) : WI (receiveData d c).2 := stable_receiveData stable_WI d c h

/-! ### the public calls -/

macro "pw_api" : tactic => `(tactic|
  repeat' (first
    | assumption
    | (apply pw_connInput _ _ (by assumption))
    | (apply pw_withStream _ _ _ (by assumption))
    | (apply pw_withStreamHp _ _ _ (by assumption))
    | (apply pw_getStreamById _ _ (by assumption))
    | (apply pw_openStreams _ _ (by assumption))
    | (apply pw_onConnWM _ _ (by assumption) (by first | exact wmi_consumed _ (by assumption) | exact wmi_processed _ | exact wmi_opened _))
    | (apply pw_prepare _ _ (by assumption))
    | (apply pw_use (pw_getOrCreateStream _ _) _ (by assumption))
    | (apply pw_use (pw_beginNewStream _ _) _ (by assumption))
    | (apply pw_use (pw_settings _ _) _ (by assumption))
    | (with_reducible apply ite_intro)
    | (intro _)
    | wps
    | split))

theorem pw_apiPing (d : Bytes) (c : Conn) : PW (ping d) c := by
  intro h; unfold ping; pw_api
theorem pw_apiResetStream (sid code : Int) (c : Conn) : PW (resetStream sid code) c := by
  intro h; unfold resetStream; pw_api
theorem pw_apiEndStream (sid : Int) (c : Conn) : PW (endStream sid) c := by
  intro h; unfold endStream; pw_api
set_option maxRecDepth 100000 in
theorem pw_apiIncrementWindow (n : Int) (sid : Option Int) (c : Conn) : PW (incrementFlowControlWindow n sid) c := by
  intro h; unfold incrementFlowControlWindow; pw_api
theorem pw_apiCloseConnection (code : Int) (extra : Option Bytes) (last : Option Int) (c : Conn) :
    PW (closeConnection code extra last) c := by
  intro h; unfold closeConnection; pw_api
theorem pw_apiUpdateSettings (items : List (Int × Int)) (c : Conn) : PW (updateSettings items) c := by
  intro h; unfold updateSettings; pw_api
set_option maxRecDepth 100000 in
theorem pw_apiAltsvc (f : Bytes) (o : Option Bytes) (sid : Option Int) (c : Conn) :
    PW (advertiseAlternativeService f o sid) c := by
  intro h
  unfold advertiseAlternativeService
  cases o with
  | none =>
    cases sid with
    | none => wps; simp only [Option.isSome_none, Bool.and_self, Bool.false_eq_true, if_false, Option.isNone_none, if_true]; exact h
    | some s =>
      wps
      simp only [Option.isSome_none, Bool.false_and, Bool.false_eq_true, if_false, Option.isNone_none, Option.isNone_some,
        Bool.and_false]
      pw_api
  | some ov =>
    wps
    cases sid with
    | some s => simp only [Option.isSome_some, Bool.and_self, if_true]; exact h
    | none =>
      simp only [Option.isSome_some, Option.isSome_none, Bool.and_false, Bool.false_eq_true, if_false, Option.isNone_some,
        Bool.false_and]
      with_reducible apply ite_intro
      · intro _; exact h
      intro hx; clear hx
      with_reducible apply ite_intro
      · intro _; exact h
      intro hx; clear hx
      with_reducible apply ite_intro
      · intro _; exact h
      intro hx; clear hx
      apply pw_connInput _ _ h
      · intro c1 h1
        wps
        generalize [Frame.altsvc 0 ov f] = fs
        apply pw_prepare _ _ h1
        · intro _ h2; exact h2
        · intro _ _ h2; exact h2
      · intro _ _ h2; exact h2
theorem pw_apiPrioritize (sid : Int) (w d : Option Int) (e : Option Bool) (c : Conn) : PW (prioritize sid w d e) c := by
  intro h; unfold prioritize; pw_api
theorem pw_apiAckData (size sid : Int) (c : Conn) : PW (acknowledgeReceivedData size sid) c := by
  intro h; unfold acknowledgeReceivedData ackCredit; pw_api
theorem pw_apiDataToSend (n : Option Int) (c : Conn) : PW (dataToSend n) c := by
  intro h; unfold dataToSend; pw_api
theorem pw_apiClearOut (c : Conn) : PW clearOutboundDataBuffer c := by
  intro h; unfold clearOutboundDataBuffer; pw_api
theorem pw_apiLocalWindow (sid : Int) (c : Conn) : PW (localFlowControlWindow sid) c := by
  intro h; unfold localFlowControlWindow; pw_api
theorem pw_apiRemoteWindow (sid : Int) (c : Conn) : PW (remoteFlowControlWindow sid) c := by
  intro h; unfold remoteFlowControlWindow; pw_api
theorem pw_apiNextStreamId (c : Conn) : PW getNextAvailableStreamId c := by
  intro h; unfold getNextAvailableStreamId; pw_api
theorem pw_apiOpenOut (c : Conn) : PW openOutboundStreams c := by
  intro h; unfold openOutboundStreams; pw_api
theorem pw_apiOpenIn (c : Conn) : PW openInboundStreams c := by
  intro h; unfold openInboundStreams; pw_api
theorem pw_apiSendData (sid : Int) (d : Bytes) (es : Bool) (pad : Option Int) (c : Conn) : PW (sendData sid d es pad) c := by
  intro h; unfold sendData sendDataCore localFlowControlWindow; pw_api
theorem pw_apiSendHeaders (sid : Int) (hs : List Header) (es : Bool) (pw pd : Option Int) (pe : Option Bool) (c : Conn) :
    PW (sendHeaders sid hs es pw pd pe) c := by
  intro h; unfold sendHeaders sendHeadersTail addPriority openOutboundStreams; pw_api
theorem pw_apiPushStream (sid p : Int) (hs : List Header) (c : Conn) : PW (pushStream sid p hs) c := by
  intro h; unfold pushStream; pw_api
theorem pw_apiInitiate (c : Conn) : PW initiateConnection c := by
  intro h; unfold initiateConnection settingsFrameOfLocal; pw_api
theorem pw_apiUpgrade (hdr : Option Bytes) (c : Conn) :
    PW (initiateUpgradeConnection (fun items => do let _ ← receiveSettingsFrame false items; pure ()) hdr) c := by
  intro h
  unfold initiateUpgradeConnection settingsFrameOfLocal
  repeat' (first
    | assumption
    | (apply pw_use (pw_apiInitiate) _ (by assumption))
    | (apply pw_connInput _ _ (by assumption))
    | (apply pw_withStream _ _ _ (by assumption))
    | (apply pw_use (pw_beginNewStream _ _) _ (by assumption))
    | (apply pw_use (pw_settings _ _) _ (by assumption))
    | (intro _)
    | wps
    | split)

end H2
