/-
  C13 — header compression state stays synchronised across all calls.

  HPACK itself is not modelled: `Hp` records, in order, what the encoder is fed (`EncEv.block hs` for one complete
  `Encoder.encode(hs)` call, `EncEv.resize n` for `encoder.header_table_size = n`) and replays the real encoder's output.
  Synchronisation then is: (1) the encoder is fed only by calls that succeed, exactly once per call, with the
  normalised list; (2) the bytes it returned are exactly what the call's HEADERS/PUSH_PROMISE/CONTINUATION frames carry,
  in order; (3) a call that raises leaves the context untouched; (4) a peer HEADER_TABLE_SIZE change reaches the
  encoder once, when it is acknowledged.  (1)-(3) are proved at the level of `H2Stream.send_headers` and
  `push_stream_in_band` for every stream state, header list and configuration, and for `H2Connection.send_headers`
  and `H2Connection.push_stream` as a whole (`C29_send_headers`: priority fields, frame-size assertion included;
  `C29_push_stream`: the promised stream object, `locally_pushed`, the frames appended to the history carry exactly the
  encoder's output) in every state satisfying the connection invariant, hence (`C29_every_history`) along every
  history of covered calls, `send_headers`, `push_stream` and `receive_data`.
-/
import H2.Proofs.HeaderSend
import H2.Model.ConnRecv
import H2.Props.C29
-- the connection-level `send_headers` (priority fields, frame-size assertion): context untouched on every raise
-- @also H2.C29.C29_send_headers
-- @also H2.C29.C29_push_stream
-- @also H2.C29.C29_every_history

namespace H2.C13
open H2 H2.Gen H2.Conn

/-- **`H2Stream.send_headers`**, any stream state, header list, flags and configuration -/
theorem C13_stream_sendHeaders (cfg : Config) (headers : List Header) (es pp : Bool) (s : Stream × Hp)
    (hm : 5 < s.1.maxOutFrame) :
    wp (Stream.sendHeaders cfg headers es pp)
      (fun frames s' =>
        -- exactly one encode call, of the list the configuration prescribes
        s'.2 = s.2.afterEncode (outList cfg headers) ∧
        -- and its output is what the frames carry, in order
        (frames.filterMap Frame.fragment?).flatten = s.2.encoded (outList cfg headers) ∧
        frames.length = (frames.filterMap Frame.fragment?).length)
      -- a call that raises (validation, state, trailers without END_STREAM, …) leaves the context as it was
      (fun _ s' => s'.2 = s.2) s :=
  stream_sendHeaders_spec cfg headers es pp s hm

/-- **`H2Stream.push_stream_in_band`** -/
theorem C13_stream_pushStream (cfg : Config) (related : Int) (headers : List Header) (s : Stream × Hp)
    (hm : 5 < s.1.maxOutFrame) :
    wp (Stream.pushStreamInBand cfg related headers)
      (fun frames s' =>
        s'.2 = s.2.afterEncode (outList cfg headers) ∧
        (frames.filterMap Frame.fragment?).flatten = s.2.encoded (outList cfg headers) ∧
        frames.length = (frames.filterMap Frame.fragment?).length)
      (fun _ s' => s'.2 = s.2) s :=
  stream_pushInBand_spec cfg related headers s hm

/-- one `encode` call appends exactly one entry to the encoder's feed: the list itself -/
theorem C13_one_encode (hp : Hp) (hs : List Header) :
    (hp.afterEncode hs).encLog = hp.encLog ++ [EncEv.block hs] ∧ (hp.afterEncode hs).decLog = hp.decLog := by
  unfold Hp.afterEncode Hp.encode
  cases hp.encOracle <;> exact ⟨rfl, rfl⟩

/-- lifted to the connection: `withStreamHp` runs the stream method on the connection's one HPACK context -/
theorem C13_conn_partial {α : Type} (sid : Int) (m : SH α) (c : Conn) (hp' : Hp)
    (hspec : ∀ st, c.streams.lookup sid = some st →
      wp m (fun _ s' => s'.2 = hp') (fun _ s' => s'.2 = c.hp) (st, c.hp)) :
    wp (withStreamHp sid m) (fun _ c' => c'.hp = hp') (fun _ c' => c'.hp = c.hp) c := by
  unfold wp withStreamHp
  cases hl : c.streams.lookup sid with
  | none => rfl
  | some st =>
    simp only
    have := hspec st hl
    unfold wp at this
    cases hm : m (st, c.hp) with
    | mk r s' =>
      rw [hm] at this
      cases r <;> exact this

/-- **peer HEADER_TABLE_SIZE**: acknowledging a changed value tells the encoder once; any other acknowledged change
    leaves the compression context alone -/
theorem C13_table_size (changes : List (Int × Option Int × Int)) (c : Conn) :
    (remoteOtherChanges changes c).hp.encLog =
      (match findChange changes SettingCodes.HEADER_TABLE_SIZE with
       | some (_, new) => if new != c.encTableSize then c.hp.encLog ++ [EncEv.resize new] else c.hp.encLog
       | none => c.hp.encLog) ∧
    (remoteOtherChanges changes c).hp.decLog = c.hp.decLog := by
  unfold remoteOtherChanges
  cases findChange changes SettingCodes.HEADER_TABLE_SIZE with
  | none => simp only; split <;> exact ⟨rfl, rfl⟩
  | some p =>
    obtain ⟨o, new⟩ := p
    simp only
    by_cases h : (new != c.encTableSize) = true
    · simp only [h, if_true]; split <;> exact ⟨rfl, rfl⟩
    · simp only [h, if_false, Bool.false_eq_true]; split <;> exact ⟨rfl, rfl⟩

/-- the fragments fit: the first leaves room for the priority fields / promised stream id, the others fill a frame -/
theorem C13_fragments_fit (cfg : Config) (headers : List Header) (fl : HdrFlags) (ov : Int) (s : Stream × Hp)
    (hm : ov < s.1.maxOutFrame) (hov : 0 ≤ ov) :
    wp (buildHeaderBlocks cfg headers fl ov)
      (fun blocks _ => blocks ≠ [] ∧ (∀ b ∈ blocks.head?, (b.length : Int) + ov ≤ s.1.maxOutFrame) ∧
          (∀ b ∈ blocks.tail, (b.length : Int) ≤ s.1.maxOutFrame ∧ b ≠ []))
      (fun _ s' => s' = s) s :=
  wp_mono (buildHeaderBlocks_spec cfg headers fl ov s hm hov) (fun _ _ h => ⟨h.2.2.1, h.2.2.2.1, h.2.2.2.2⟩) (fun _ _ h => h)

end H2.C13
