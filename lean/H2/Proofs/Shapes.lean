/-
  Enumeration of the finite part of the stream state machine, so that
  statements over all (shape, input) pairs are decided by the kernel
  (`decide +kernel`) against the *generated* table.
-/
import H2.Model.StreamFSM

namespace H2
open H2.Gen

def optBoolAll : List (Option Bool) := [none, some true, some false]
def boolAll : List Bool := [false, true]
def closedByAll : List (Option StreamClosedBy) := none :: StreamClosedBy.all.map some

def Shape.all : List Shape :=
  StreamState.all.flatMap fun st =>
  optBoolAll.flatMap fun cl =>
  boolAll.flatMap fun hs =>
  boolAll.flatMap fun ts =>
  boolAll.flatMap fun hr =>
  boolAll.flatMap fun tr =>
  closedByAll.map fun cb =>
    { state := st, client := cl, headersSent := hs, trailersSent := ts, headersReceived := hr,
      trailersReceived := tr, closedBy := cb }

theorem StreamState.mem_all (s : StreamState) : s ∈ StreamState.all := by cases s <;> simp [StreamState.all]
theorem StreamInputs.mem_all (s : StreamInputs) : s ∈ StreamInputs.all := by cases s <;> simp [StreamInputs.all]
theorem StreamClosedBy.mem_all (s : StreamClosedBy) : s ∈ StreamClosedBy.all := by cases s <;> simp [StreamClosedBy.all]
theorem optBool_mem (b : Option Bool) : b ∈ optBoolAll := by
  rcases b with _ | b
  · simp [optBoolAll]
  · cases b <;> simp [optBoolAll]
theorem bool_mem (b : Bool) : b ∈ boolAll := by cases b <;> simp [boolAll]
theorem closedBy_mem (b : Option StreamClosedBy) : b ∈ closedByAll := by
  rcases b with _ | b
  · simp [closedByAll]
  · simp [closedByAll, StreamClosedBy.mem_all]

theorem Shape.mem_all (s : Shape) : s ∈ Shape.all := by
  obtain ⟨st, cl, hs, ts, hr, tr, cb⟩ := s
  simp only [Shape.all, List.mem_flatMap, List.mem_map]
  exact ⟨st, StreamState.mem_all st, cl, optBool_mem cl, hs, bool_mem hs, ts, bool_mem ts, hr, bool_mem hr,
    tr, bool_mem tr, cb, closedBy_mem cb, rfl⟩

/-- lifting: a Boolean check over the enumerated space holds for every shape and input -/
theorem forall_shape_input {P : Shape → StreamInputs → Bool}
    (h : (Shape.all.all fun s => StreamInputs.all.all fun i => P s i) = true) : ∀ s i, P s i = true := by
  intro s i
  rw [List.all_eq_true] at h
  have := h s (Shape.mem_all s)
  rw [List.all_eq_true] at this
  exact this i (StreamInputs.mem_all i)

theorem forall_shape {P : Shape → Bool} (h : (Shape.all.all P) = true) : ∀ s, P s = true := by
  intro s
  rw [List.all_eq_true] at h
  exact h s (Shape.mem_all s)

/-- the shapes the library can actually produce from a fresh stream: closed under `stepShape`.
    (client role fixed by the first event; trailers only after headers; reserved states as the
    push side effects leave them; closed_by only on CLOSED streams) -/
def Good (s : Shape) : Bool :=
  (s.state != .IDLE || (s.client == none && !s.headersSent && !s.trailersSent && !s.headersReceived
                          && !s.trailersReceived && s.closedBy == none)) &&
  (s.client != some true || s.headersSent) &&
  (s.client != some false || s.headersReceived) &&
  (!s.trailersSent || s.headersSent) && (!s.trailersReceived || s.headersReceived) &&
  (s.state != .RESERVED_LOCAL || (s.client == some false && !s.headersSent)) &&
  (s.state != .RESERVED_REMOTE || (s.client == some true && !s.headersReceived)) &&
  (s.closedBy == none || s.state == .CLOSED) &&
  (s.client != none || s.state == .IDLE || s.state == .CLOSED)

theorem good_init : Good {} = true := by decide

/-- `Good` is an invariant of the state machine, for every input (decided over the generated table) -/
theorem good_step : ∀ s i, (!Good s || Good (stepShape s i).2) = true :=
  forall_shape_input (by decide +kernel)

end H2
