/-
  C20 — frames racing a local stream reset never break the connection.

  Decided over the transition table regenerated from stream.py, plus the
  `_receive_frame` wrapper of the hand model.
-/
import H2.Proofs.Shapes
import H2.Proofs.Send

namespace H2.C20
open H2 H2.Gen H2.Conn

/-- the inputs a peer's in-flight frames on that stream turn into -/
def racing : List StreamInputs :=
  [.RECV_HEADERS, .RECV_INFORMATIONAL_HEADERS, .RECV_DATA, .RECV_END_STREAM, .RECV_WINDOW_UPDATE, .RECV_RST_STREAM,
   .RECV_PUSH_PROMISE, .RECV_ALTERNATIVE_SERVICE]

def locallyReset (sh : Shape) : Bool := sh.state == .CLOSED && sh.closedBy == some .SEND_RST_STREAM

/-- a local reset from any live state leaves exactly that shape -/
theorem C20_reset_shape : ∀ sh, (!Good sh || sh.state == .IDLE || sh.state == .CLOSED ||
    (match (stepShape sh .SEND_RST_STREAM) with
     | (.ok _, sh') => locallyReset sh'
     | _ => false)) = true :=
  forall_shape (by decide +kernel)

/-- **C20 (stream machine)**: on a stream the application has reset, every frame the peer may still have in flight is
    either ignored or answered by the "stream closed" signal (which `_receive_frame` turns into RST_STREAM) — never
    a ProtocolError, never an event, and the stream stays as it is -/
theorem C20_racing_frames : ∀ sh i, (!Good sh || !locallyReset sh || !racing.contains i ||
    (match stepShape sh i with
     | (.ok evs, sh') => evs.isEmpty && sh' == sh
     | (.streamClosed withEvent, sh') => !withEvent && sh' == sh
     | (.proto, _) => false)) = true :=
  forall_shape_input (by decide +kernel)

/-- the wrapper (`_receive_frame`): a StreamClosedError for a stream that was closed by reset is answered with
    exactly one RST_STREAM(STREAM_CLOSED) on that stream and the exception's events (none, by the theorem above);
    nothing is raised and the connection goes on -/
theorem C20_wrapper (c1 : Conn) (sid : Int)
    (hr : closedByReset c1 sid = true) (hopen : c1.cstate = .CLIENT_OPEN ∨ c1.cstate = .SERVER_OPEN)
    (hmax : 4 ≤ c1.maxOutFrame) :
    ∃ b, (Frame.rstStream sid (streamClosedErrorCode : Int)).serialize? = some b ∧
    wp (frameErrorHandler (mkStreamClosed sid []))
      (fun evs c2 => evs = [] ∧ c2 = { c1 with out := c1.out ++ b, sent := c1.sent ++ [Frame.rstStream sid (streamClosedErrorCode : Int)] })
      (fun _ _ => False) c1 := by
  obtain ⟨b, hb, hlen⟩ := rst_serialize sid (streamClosedErrorCode : Int) (by decide)
  refine ⟨b, hb, ?_⟩
  have htab : connTable c1.cstate .SEND_RST_STREAM = some c1.cstate := by
    rcases hopen with h | h <;> simp [h, connTable]
  simp only [frameErrorHandler, mkStreamClosed]
  have hsub : ExcClass.isSub .StreamClosedError .StreamClosedError = true := by decide
  simp only [hsub, if_true, Option.getD, Int.ofNat_eq_natCast]
  wps
  simp only [hr, if_true]
  rw [wp_connInput_ok _ _ _ htab]
  wps
  rw [wp_prepare_eq [Frame.rstStream sid (streamClosedErrorCode : Int)] _ [b] (by simp) (by simp [hb])
    (by simp only [List.all_cons, List.all_nil, Bool.and_true, hlen, decide_eq_true_eq]; omega)]
  cases c1; simp

/-- non-vacuity: an open request stream that is reset has the shape the theorem talks about, and DATA racing the
    reset gets the quiet "closed" signal -/
example : stepShape { state := .OPEN, client := some true, headersSent := true } .SEND_RST_STREAM =
      (.ok [], { state := .CLOSED, client := some true, headersSent := true, closedBy := some .SEND_RST_STREAM }) ∧
    (stepShape { state := .CLOSED, client := some true, headersSent := true, closedBy := some .SEND_RST_STREAM } .RECV_DATA).1
      = .streamClosed false := by decide

end H2.C20
