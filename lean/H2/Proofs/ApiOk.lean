/-
  Public calls (C29): a call returns, or raises an allowed exception (an h2 exception, or ValueError for a documented
  argument check) and then `_data_to_send` and the history of sent frames are what they were.
  `ApiOk m c` is that statement for the call `m` in state `c`; `Refused m c sid` says the call is refused by the
  stream lookup with exactly the exception `_get_stream_by_id` documents.
-/
import H2.Proofs.RecvEmits
namespace H2
open H2.Gen H2.Conn

/-! ### nothing is written before `_prepare_for_sending` -/

/-- the output buffer and the history of sent frames -/
def OS (c : Conn) : Bytes × List Frame := (c.out, c.sent)

section
variable {α : Type} {Q : α → Conn → Prop} {E : Exc → Conn → Prop}

theorem os_connInput {Q : Unit → Conn → Prop} (i : ConnectionInputs) (c : Conn) (s0) (h : OS c = s0)
    (hq : ∀ c', OS c' = s0 → c'.maxOutFrame = c.maxOutFrame → Q () c') (he : ∀ c', OS c' = s0 → E pErr c') :
    wp (connInput i) Q E c := by
  unfold wp connInput
  cases connTable c.cstate i with
  | none => exact he _ h
  | some t => exact hq _ h rfl

theorem os_withStream (sid : Int) (m : M Stream α) (c : Conn) (s0) (h : OS c = s0)
    (hq : ∀ a c', OS c' = s0 → c'.maxOutFrame = c.maxOutFrame → Q a c') (he : ∀ e c', OS c' = s0 → E e c') :
    wp (withStream sid m) Q E c := by
  rw [wp_withStream]
  cases c.streams.lookup sid with
  | none => exact he _ _ h
  | some st => exact wp_havoc (fun a s' => hq a _ h rfl) (fun e s' => he e _ h)

theorem os_getStreamById {Q : Unit → Conn → Prop} (sid : Int) (c : Conn) (s0) (h : OS c = s0)
    (hq : ∀ c', OS c' = s0 → c'.maxOutFrame = c.maxOutFrame → Q () c') (he : ∀ e c', OS c' = s0 → E e c') :
    wp (getStreamById sid) Q E c := by
  rw [wp_getStreamById_eq]
  repeat' split
  all_goals first | exact hq c h rfl | exact he _ c h

theorem os_onConnWM {Q : Option Int → Conn → Prop} (f : WindowManager → WRes) (c : Conn) (s0) (h : OS c = s0)
    (hf : ∀ e w', f c.inWM = (.error e, w') → e = .h2 .FlowControlError)
    (hq : ∀ a c', OS c' = s0 → c'.maxOutFrame = c.maxOutFrame → Q a c')
    (he : ∀ c', OS c' = s0 → E (ofPyErr (.h2 .FlowControlError)) c') :
    wp (onConnWM f) Q E c := by
  rw [wp_onConnWM]
  cases hfc : f c.inWM with
  | mk r w =>
    cases r with
    | ok v => exact hq _ _ h rfl
    | error e => rw [hf e w hfc]; exact he _ h

end


/-- the exceptions a public call may raise: h2 exceptions, and `ValueError` for documented argument checks -/
def Allowed (e : Exc) : Prop :=
  match e with
  | .h2 _ _ _ _ => True
  | .py k => k = .ValueError

theorem allowed_h2 (cls : ExcClass) (code : Option Int) (sid : Option Int) (evs : List Event) :
    Allowed (.h2 cls code sid evs) := trivial
theorem allowed_mkExc (cls : ExcClass) (sid : Option Int) : Allowed (mkExc cls sid) := trivial
theorem allowed_pErr : Allowed pErr := trivial
theorem allowed_streamClosed (sid : Int) (evs : List Event) : Allowed (mkStreamClosed sid evs) := trivial
theorem allowed_value : Allowed (.py .ValueError) := rfl

/-- `_prepare_for_sending` of frames that serialise and fit the peer's frame size limit never raises -/
theorem wp_prepare_never {Q : Unit → Conn → Prop} {E : Exc → Conn → Prop} (fs : List Frame) (c : Conn)
    (hf : ∀ f ∈ fs, (∃ b, f.serialize? = some b) ∧ (f.bodyLen : Int) ≤ c.maxOutFrame)
    (hq : ∀ c', c'.maxOutFrame = c.maxOutFrame → c'.outWin = c.outWin → Q () c') : wp (prepareForSending fs) Q E c := by
  unfold prepareForSending
  wps
  split
  · exact hq c rfl rfl
  · obtain ⟨bs, hbs⟩ := mapM_some Frame.serialize? fs (fun f hf' => (hf f hf').1)
    rw [hbs]
    wps
    have : (fs.all fun f => decide ((f.bodyLen : Int) ≤ c.maxOutFrame)) = true := by
      rw [List.all_eq_true]
      intro f hf'
      simpa using (hf f hf').2
    rw [if_pos this]
    exact hq _ rfl rfl

-- the unifier must not unfold `_prepare_for_sending` on concrete frames (it would evaluate their serialisation)
attribute [local irreducible] prepareForSending

/-- stream methods raise h2 exceptions only (no IndexError / AssertionError / KeyError) -/
def SAllowed {α} (R : α → Prop) (m : M Stream α) : Prop :=
  ∀ st, wp m (fun a _ => R a) (fun e _ => Allowed e) st

theorem wp_processInput_allowed {Q : List SEv → Stream → Prop} {E : Exc → Stream → Prop} (i : StreamInputs) (st : Stream)
    (hq : ∀ evs sh, Q evs { st with sm := { st.sm with sh := sh } })
    (he : ∀ e sh, Allowed e → E e { st with sm := { st.sm with sh := sh } }) :
    wp (processInput i) Q E st := by
  simp only [processInput, onSM, wp_zoom]
  unfold wp SM.process
  cases h : stepShape st.sm.sh i with
  | mk r sh =>
    cases r with
    | ok evs => simpa using hq evs sh
    | proto => simpa using he _ sh (allowed_mkExc _ _)
    | streamClosed w => simpa using he _ sh (allowed_streamClosed _ _)

theorem sallowed_resetStream (code : Int) :
    SAllowed (fun fs => ∃ sid, fs = [Frame.rstStream sid code]) (Stream.resetStream code) := by
  intro st
  unfold Stream.resetStream
  wps
  apply wp_processInput_allowed
  · intro evs sh; wps; exact ⟨_, rfl⟩
  · intro e sh h; exact h

theorem sallowed_endStream : SAllowed (fun fs => ∃ sid, fs = [Frame.data sid [] true none]) Stream.endStream := by
  intro st
  unfold Stream.endStream
  wps
  apply wp_processInput_allowed
  · intro evs sh; wps; exact ⟨_, rfl⟩
  · intro e sh h; exact h

theorem sallowed_altSvc (field : Bytes) :
    SAllowed (fun fs => ∃ sid, fs = [Frame.altsvc sid [] field]) (Stream.advertiseAltSvc field) := by
  intro st
  unfold Stream.advertiseAltSvc
  wps
  apply wp_processInput_allowed
  · intro evs sh; wps; exact ⟨_, rfl⟩
  · intro e sh h; exact h

theorem sallowed_incWindow (incr : Int) :
    SAllowed (fun fs => ∃ sid, fs = [Frame.windowUpdate sid incr]) (Stream.increaseFlowControlWindow incr) := by
  intro st
  unfold Stream.increaseFlowControlWindow
  wps
  apply wp_processInput_allowed
  · intro evs sh
    wps
    rw [wp_onWM]
    cases hw : WindowManager.window_opened st.inWM incr with
    | mk r w =>
      cases r with
      | ok v => simp only; wps; exact ⟨_, rfl⟩
      | error e => rw [wm_opened_err _ _ _ _ hw]; exact allowed_mkExc _ _
  · intro e sh h; exact h

theorem sallowed_ackData (size : Int) :
    SAllowed (fun fs => fs = [] ∨ ∃ sid n, fs = [Frame.windowUpdate sid n]) (Stream.acknowledgeReceivedData size) := by
  intro st
  unfold Stream.acknowledgeReceivedData
  wps
  rw [wp_onWM]
  obtain ⟨v, w, hp⟩ := wm_process_ok st.inWM size
  rw [hp]
  simp only
  wps
  cases v with
  | none => wps; exact Or.inl trivial
  | some n => simp only; split <;> wps <;> first | exact Or.inr ⟨_, _, rfl⟩ | exact Or.inl trivial

/-- run a stream method that raises only allowed exceptions; nothing is written, the frame size limit is untouched -/
theorem os_withStreamR {α} {Q : α → Conn → Prop} {E : Exc → Conn → Prop} (R : α → Prop) (sid : Int) (m : M Stream α)
    (c : Conn) (s0) (h : OS c = s0) (hex : hasStream c sid = true) (hm : SAllowed R m)
    (hq : ∀ a c', R a → OS c' = s0 → c'.maxOutFrame = c.maxOutFrame → Q a c')
    (he : ∀ e c', Allowed e → OS c' = s0 → E e c') : wp (withStream sid m) Q E c := by
  rw [wp_withStream]
  rw [hasStream_lookup] at hex
  cases hl : c.streams.lookup sid with
  | none => rw [hl] at hex; simp at hex
  | some st =>
    simp only
    refine wp_mono (hm st) ?_ ?_
    · intro a st' hr; exact hq a _ hr h rfl
    · intro e st' ha; exact he e _ ha h


/-! ### serialisation of the frames the calls build -/

theorem u8?_some (n : Int) (h0 : 0 ≤ n) (h1 : n < 256) : ∃ b, u8? n = some b ∧ b.length = 1 := by
  unfold u8?; rw [if_pos ⟨h0, h1⟩]; exact ⟨_, rfl, rfl⟩

theorem ser_of_body (f : Frame) (body : Bytes) (hb : f.body? = some body) (ht : 0 ≤ f.typeCode ∧ f.typeCode < 256)
    (hf : f.flagByte < 256) : (∃ b, f.serialize? = some b) ∧ f.bodyLen = body.length := by
  obtain ⟨t, ht', _⟩ := u8?_some f.typeCode ht.1 ht.2
  obtain ⟨fl, hfl, _⟩ := u8?_some (f.flagByte : Int) (by omega) (by omega)
  constructor
  · unfold Frame.serialize?
    rw [hb, ht', hfl]
    exact ⟨_, rfl⟩
  · unfold Frame.bodyLen; rw [hb]; rfl

theorem data_serialize (sid : Int) (d : Bytes) (es : Bool) (pad : Option Int)
    (hp : ∀ p, pad = some p → 0 ≤ p ∧ p ≤ 255) :
    (∃ b, (Frame.data sid d es pad).serialize? = some b) ∧
      ((Frame.data sid d es pad).bodyLen : Int) = d.length + (match pad with | some p => p + 1 | none => 0) := by
  cases pad with
  | none =>
    have := ser_of_body (Frame.data sid d es none) d (by simp [Frame.body?, zeros]) (by simp [Frame.typeCode]) (by cases es <;> simp [Frame.flagByte])
    exact ⟨this.1, by rw [this.2]; simp⟩
  | some p =>
    obtain ⟨h0, h1⟩ := hp p rfl
    obtain ⟨pb, hpb, hl⟩ := u8?_some p h0 (by omega)
    have := ser_of_body (Frame.data sid d es (some p)) (pb ++ d ++ zeros p)
      (by simp [Frame.body?, hpb]) (by simp [Frame.typeCode]) (by cases es <;> simp [Frame.flagByte])
    refine ⟨this.1, ?_⟩
    rw [this.2]
    simp [zeros, hl]
    omega

theorem settings_serialize (items : List (Int × Int)) (h : ∀ kv ∈ items, 0 ≤ kv.2 ∧ kv.2 < 4294967296) :
    (∃ b, (Frame.settings false items).serialize? = some b) ∧ (Frame.settings false items).bodyLen = 6 * items.length := by
  have key : ∀ acc : Bytes, ∃ body, items.foldlM (fun acc (kv : Int × Int) => do
      let v ← u32? kv.2
      pure (acc ++ be16 (mask8 kv.1) ++ v)) acc = some body ∧ body.length = acc.length + 6 * items.length := by
    induction items with
    | nil => intro acc; exact ⟨acc, rfl, by simp⟩
    | cons kv rest ih =>
      intro acc
      obtain ⟨b, hb, hl⟩ := u32?_some kv.2 (h kv (List.mem_cons_self ..)).1 (h kv (List.mem_cons_self ..)).2
      obtain ⟨body, h1, h2⟩ := ih (fun x hx => h x (List.mem_cons_of_mem _ hx)) (acc ++ be16 (mask8 kv.1) ++ b)
      refine ⟨body, ?_, ?_⟩
      · rw [List.foldlM_cons, hb]; exact h1
      · rw [h2]; simp [hl, be16]; omega
  obtain ⟨body, h1, h2⟩ := key []
  have := ser_of_body (Frame.settings false items) body h1 (by simp [Frame.typeCode]) (by simp [Frame.flagByte])
  exact ⟨this.1, by rw [this.2, h2]; simp⟩

theorem altsvc_serialize (sid : Int) (o f : Bytes) (h : o.length ≤ 65535) :
    (∃ b, (Frame.altsvc sid o f).serialize? = some b) ∧ (Frame.altsvc sid o f).bodyLen = 2 + o.length + f.length := by
  have hu : u16? (o.length : Int) = some (be16 o.length) := u16?_nat _ (by omega)
  have := ser_of_body (Frame.altsvc sid o f) (be16 o.length ++ o ++ f) (by simp [Frame.body?, hu]) (by simp [Frame.typeCode]) (by simp [Frame.flagByte])
  exact ⟨this.1, by rw [this.2]; simp [be16]; omega⟩

theorem priority_serialize (sid : Int) (p : Prio) (hd : 0 ≤ p.dependsOn ∧ p.dependsOn ≤ 2147483647)
    (hw : 0 ≤ p.weight ∧ p.weight ≤ 255) :
    (∃ b, (Frame.priority sid p).serialize? = some b) ∧ (Frame.priority sid p).bodyLen = 5 := by
  obtain ⟨a, ha, hla⟩ := u32?_some (p.dependsOn + (if p.exclusive then 2147483648 else 0))
    (by split <;> omega) (by split <;> omega)
  obtain ⟨b, hb, hlb⟩ := u8?_some p.weight hw.1 (by omega)
  have := ser_of_body (Frame.priority sid p) (a ++ b) (by simp [Frame.body?, prioBytes?, ha, hb]) (by simp [Frame.typeCode]) (by simp [Frame.flagByte])
  exact ⟨this.1, by rw [this.2]; simp [hla, hlb]⟩

/-! ### the public calls -/

/-- what C29 asks of a public call: it returns, or raises an allowed exception having written nothing -/
abbrev ApiOk {α : Type} (m : CM α) (c : Conn) : Prop :=
  wp m (fun _ _ => True) (fun e c' => Allowed e ∧ OS c' = OS c) c

theorem api_ping (d : Bytes) (c : Conn) (hm : 16384 ≤ c.maxOutFrame) : ApiOk (ping d) c := by
  unfold ApiOk ping
  wps
  split
  · exact ⟨allowed_value, trivial⟩
  · rename_i hlen
    have h8 : d.length = 8 := by simpa using hlen
    apply os_connInput _ _ _ rfl
    · intro c' hos hmax
      apply wp_prepare_never
      · intro f hf
        simp only [List.mem_singleton] at hf; subst hf
        obtain ⟨b, hb, hl⟩ := ping_serialize false d h8
        exact ⟨⟨b, hb⟩, by rw [hl, hmax]; omega⟩
      · intro _ _ _; trivial
    · intro c' hos; exact ⟨allowed_pErr, hos⟩

theorem api_resetStream (sid code : Int) (c : Conn) (hm : 16384 ≤ c.maxOutFrame) : ApiOk (resetStream sid code) c := by
  unfold ApiOk resetStream
  wps
  split
  · exact ⟨allowed_value, trivial⟩
  · rename_i hcode
    have hc : 0 ≤ code ∧ code < 4294967296 := by simp at hcode; omega
    apply os_connInput _ _ _ rfl
    · intro c1 hos1 hmax1
      try wps
      rw [wp_getStreamById_eq]
      repeat' split
      all_goals first
        | exact ⟨allowed_h2 _ _ _ _, hos1⟩
        | exact ⟨allowed_streamClosed _ _, hos1⟩
        | skip
      rename_i hex
      try wps
      apply os_withStreamR _ _ _ _ _ hos1 hex (sallowed_resetStream code)
      · intro fs c2 hr hos2 hmax2
        obtain ⟨s', hfs⟩ := hr
        subst hfs
        try wps
        apply wp_prepare_never
        · intro f hf
          simp only [List.mem_singleton] at hf; subst hf
          obtain ⟨b, hb, hl⟩ := rst_serialize s' code hc
          exact ⟨⟨b, hb⟩, by rw [hl, hmax2, hmax1]; omega⟩
        · intro _ _ _; trivial
      · intro e c2 ha hos2; exact ⟨ha, hos2⟩
    · intro c' hos; exact ⟨allowed_pErr, hos⟩

theorem api_endStream (sid : Int) (c : Conn) (hm : 16384 ≤ c.maxOutFrame) : ApiOk (endStream sid) c := by
  unfold ApiOk endStream
  wps
  apply os_connInput _ _ _ rfl
  · intro c1 hos1 hmax1
    try wps
    rw [wp_getStreamById_eq]
    repeat' split
    all_goals first
      | exact ⟨allowed_h2 _ _ _ _, hos1⟩
      | exact ⟨allowed_streamClosed _ _, hos1⟩
      | skip
    rename_i hex
    try wps
    apply os_withStreamR _ _ _ _ _ hos1 hex sallowed_endStream
    · intro fs c2 hr hos2 hmax2
      obtain ⟨s', hfs⟩ := hr
      subst hfs
      try wps
      apply wp_prepare_never
      · intro f hf
        simp only [List.mem_singleton] at hf; subst hf
        have := data_serialize s' [] true none (by intro p hp; cases hp)
        exact ⟨this.1, by rw [this.2, hmax2, hmax1]; simp; omega⟩
      · intro _ _ _; trivial
    · intro e c2 ha hos2; exact ⟨ha, hos2⟩
  · intro c' hos; exact ⟨allowed_pErr, hos⟩

theorem api_incrementWindow (incr : Int) (sid : Option Int) (c : Conn) (hm : 16384 ≤ c.maxOutFrame) :
    ApiOk (incrementFlowControlWindow incr sid) c := by
  unfold ApiOk incrementFlowControlWindow
  wps
  split
  · exact ⟨allowed_value, trivial⟩
  · apply os_connInput _ _ _ rfl
    · intro c1 hos1 hmax1
      try wps
      cases sid with
      | none =>
        simp only
        wps
        apply os_onConnWM _ _ _ hos1
        · intro e w' h; exact wm_opened_err _ _ _ _ h
        · intro v c2 hos2 hmax2
          try wps
          apply wp_prepare_never
          · intro f hf
            simp only [List.mem_singleton] at hf; subst hf
            obtain ⟨b, hb, hl⟩ := wu_serialize 0 incr
            exact ⟨⟨b, hb⟩, by rw [hl, hmax2, hmax1]; omega⟩
          · intro _ _ _; trivial
        · intro c2 hos2; exact ⟨allowed_mkExc _ _, hos2⟩
      | some sid =>
        simp only
        wps
        rw [wp_getStreamById_eq]
        repeat' split
        all_goals first
          | exact ⟨allowed_h2 _ _ _ _, hos1⟩
          | exact ⟨allowed_streamClosed _ _, hos1⟩
          | skip
        rename_i hex
        try wps
        apply os_withStreamR _ _ _ _ _ hos1 hex (sallowed_incWindow incr)
        · intro fs c2 hr hos2 hmax2
          obtain ⟨s', hfs⟩ := hr
          subst hfs
          try wps
          apply wp_prepare_never
          · intro f hf
            simp only [List.mem_singleton] at hf; subst hf
            obtain ⟨b, hb, hl⟩ := wu_serialize s' incr
            exact ⟨⟨b, hb⟩, by rw [hl, hmax2, hmax1]; omega⟩
          · intro _ _ _; trivial
        · intro e c2 ha hos2; exact ⟨ha, hos2⟩
    · intro c' hos; exact ⟨allowed_pErr, hos⟩

theorem api_closeConnection (code : Int) (extra : Option Bytes) (last : Option Int) (c : Conn) :
    ApiOk (closeConnection code extra last) c := by
  unfold ApiOk closeConnection
  wps
  by_cases hcode : (!(decide (0 ≤ code) && decide (code ≤ 4294967295))) = true
  · simp only [hcode, if_true]; exact ⟨allowed_value, trivial⟩
  · simp only [hcode, Bool.false_eq_true, if_false]
    have hc : 0 ≤ code ∧ code < 4294967296 := by simp at hcode; omega
    cases last with
    | none =>
      simp only [Bool.false_eq_true, if_false]
      try wps
      by_cases hsize : 8 + ((extra.getD []).length : Int) > c.maxOutFrame
      · simp only [hsize, if_true]; exact ⟨allowed_mkExc _ _, trivial⟩
      · simp only [hsize, if_false]
        apply os_connInput _ _ _ rfl
        · intro c1 hos1 hmax1
          try wps
          apply wp_prepare_never
          · intro f hf
            simp only [List.mem_singleton] at hf; subst hf
            obtain ⟨b, hb, hl⟩ := goaway_serialize ((none : Option Int).getD c1.highestIn) code (extra.getD []) hc
            refine ⟨⟨b, hb⟩, ?_⟩
            rw [hl, hmax1]
            simp at hsize ⊢
            omega
          · intro _ _ _; trivial
        · intro c' hos; exact ⟨allowed_pErr, hos⟩
    | some l =>
      simp only
      by_cases hl0 : (!(decide (0 ≤ l) && decide (l ≤ HIGHEST_ALLOWED_STREAM_ID))) = true
      · simp only [hl0, if_true]; exact ⟨allowed_value, trivial⟩
      · simp only [hl0, Bool.false_eq_true, if_false]
        try wps
        by_cases hsize : 8 + ((extra.getD []).length : Int) > c.maxOutFrame
        · simp only [hsize, if_true]; exact ⟨allowed_mkExc _ _, trivial⟩
        · simp only [hsize, if_false]
          apply os_connInput _ _ _ rfl
          · intro c1 hos1 hmax1
            try wps
            apply wp_prepare_never
            · intro f hf
              simp only [List.mem_singleton] at hf; subst hf
              obtain ⟨b, hb, hl⟩ := goaway_serialize ((some l).getD c1.highestIn) code (extra.getD []) hc
              refine ⟨⟨b, hb⟩, ?_⟩
              rw [hl, hmax1]
              simp at hsize ⊢
              omega
            · intro _ _ _; trivial
          · intro c' hos; exact ⟨allowed_pErr, hos⟩

theorem validateSettingsList_cons (k v : Int) (rest : List (Int × Int)) (h : validateSettingsList ((k, v) :: rest) = .ok ()) :
    (0 ≤ v ∧ v ≤ 4294967295) ∧ validateSettingsList rest = .ok () := by
  unfold validateSettingsList at h
  obtain ⟨code, hv, _, _⟩ := validate_setting_ok k v
  rw [hv] at h
  simp only at h
  by_cases hr : (decide (0 ≤ k) && decide (k ≤ 65535) && decide (0 ≤ v) && decide (v ≤ 4294967295)) = true
  · simp only [hr, Bool.not_true, Bool.and_false, Bool.false_eq_true, if_false] at h
    split at h
    · simp at h
    · simp only [Bool.and_eq_true, decide_eq_true_eq] at hr
      exact ⟨⟨hr.1.2, hr.2⟩, h⟩
  · have hr' : (decide (0 ≤ k) && decide (k ≤ 65535) && decide (0 ≤ v) && decide (v ≤ 4294967295)) = false := by
      simpa using hr
    simp only [hr', Bool.not_false, Bool.and_true] at h
    by_cases hc0 : code = 0
    · subst hc0
      simp [ErrorCodes.PROTOCOL_ERROR] at h
    · have : (code == 0) = false := by simp [hc0]
      simp [this, hc0] at h

theorem validateSettingsList_ok (items : List (Int × Int)) (h : validateSettingsList items = .ok ()) :
    ∀ kv ∈ items, 0 ≤ kv.2 ∧ kv.2 < 4294967296 := by
  induction items with
  | nil => intro kv hkv; simp at hkv
  | cons x xs ih =>
    obtain ⟨k, v⟩ := x
    obtain ⟨hr, hrest⟩ := validateSettingsList_cons k v xs h
    intro kv hkv
    rcases List.mem_cons.mp hkv with h1 | h1
    · subst h1; exact ⟨hr.1, by omega⟩
    · exact ih hrest kv h1

theorem validateSettingsList_err (items : List (Int × Int)) (e : Exc) (h : validateSettingsList items = .error e) :
    Allowed e := by
  induction items with
  | nil => simp [validateSettingsList] at h
  | cons x xs ih =>
    obtain ⟨k, v⟩ := x
    unfold validateSettingsList at h
    obtain ⟨code, hv, _, _⟩ := validate_setting_ok k v
    rw [hv] at h
    simp only at h
    repeat' split at h
    all_goals first
      | (injection h with h; subst h; exact allowed_h2 _ _ _ _)
      | exact ih h

theorem settingsUpdate_err (s : Settings) (items : List (Int × Int)) (e : Exc)
    (h : (Settings.update s items).1 = .error e) : Allowed e := by
  induction items generalizing s with
  | nil => simp [Settings.update] at h
  | cons x xs ih =>
    obtain ⟨k, v⟩ := x
    unfold Settings.update at h
    cases hs : Settings.setItem s k v with
    | ok s' => rw [hs] at h; exact ih s' h
    | error e' =>
      rw [hs] at h
      simp only at h
      injection h with h; subst h
      unfold Settings.setItem at hs
      obtain ⟨code, hv, _, _⟩ := validate_setting_ok k v
      rw [hv] at hs
      simp only at hs
      split at hs
      · injection hs with hs; subst hs; exact allowed_h2 _ _ _ _
      · simp at hs

theorem api_updateSettings (items : List (Int × Int)) (c : Conn) : ApiOk (updateSettings items) c := by
  unfold ApiOk updateSettings
  wps
  cases hv : validateSettingsList items with
  | error e => exact ⟨validateSettingsList_err _ _ hv, trivial⟩
  | ok u =>
    simp only
    have hrange := validateSettingsList_ok items hv
    try wps
    split
    · exact ⟨allowed_mkExc _ _, trivial⟩
    · rename_i hsize
      apply os_connInput _ _ _ rfl
      · intro c1 hos1 hmax1
        try wps
        cases hu : Settings.update c1.localSettings items with
        | mk r s' =>
          cases r with
          | error e =>
            simp only
            wps
            exact ⟨settingsUpdate_err _ _ _ (by rw [hu]), hos1⟩
          | ok a =>
            simp only
            wps
            apply wp_prepare_never
            · intro f hf
              simp only [List.mem_singleton] at hf; subst hf
              have := settings_serialize items hrange
              refine ⟨this.1, ?_⟩
              rw [this.2]
              show ((6 * items.length : Nat) : Int) ≤ c1.maxOutFrame
              rw [hmax1]
              simp at hsize ⊢
              omega
            · intro _ _ _; trivial
      · intro c' hos; exact ⟨allowed_pErr, hos⟩

theorem altsvc_fits (sid : Int) (o field : Bytes) (c : Conn) (h : o.length ≤ 65535)
    (hs : (2 : Int) + ((o.length + field.length : Nat) : Int) ≤ c.maxOutFrame) :
    ∀ f ∈ [Frame.altsvc sid o field], (∃ b, f.serialize? = some b) ∧ (f.bodyLen : Int) ≤ c.maxOutFrame := by
  intro f hf
  have hf' : f = Frame.altsvc sid o field := by simpa using hf
  rw [hf']
  have h1 := (altsvc_serialize sid o field h).1
  have h2 := (altsvc_serialize sid o field h).2
  refine ⟨h1, ?_⟩
  have : ((Frame.altsvc sid o field).bodyLen : Int) = ((2 + o.length + field.length : Nat) : Int) := by rw [h2]
  rw [this]
  have e : ((2 + o.length + field.length : Nat) : Int) = 2 + ((o.length + field.length : Nat) : Int) := by
    omega
  rw [e]; exact hs

theorem prep_altsvc {E : Exc → Conn → Prop} (sid : Int) (o field : Bytes) (c : Conn) (h : o.length ≤ 65535)
    (hs : (2 : Int) + ((o.length + field.length : Nat) : Int) ≤ c.maxOutFrame) :
    wp (prepareForSending [Frame.altsvc sid o field]) (fun _ _ => True) E c := by
  exact wp_prepare_never [Frame.altsvc sid o field] c (altsvc_fits sid o field c h hs) (fun _ _ _ => trivial)

set_option maxRecDepth 50000 in
theorem api_altsvc (field : Bytes) (origin : Option Bytes) (sid : Option Int) (c : Conn) :
    ApiOk (advertiseAlternativeService field origin sid) c := by
  unfold ApiOk advertiseAlternativeService
  cases origin with
  | none =>
    cases sid with
    | none => wps; simp only [Option.isSome_none, Bool.and_self, Bool.false_eq_true, if_false, Option.isNone_none, if_true]
              exact ⟨allowed_value, trivial⟩
    | some sid =>
      wps
      simp only [Option.isSome_none, Bool.false_and, Bool.false_eq_true, if_false, Option.isNone_none, Option.isNone_some,
        Bool.and_false, Option.getD_none, List.length_nil, Nat.zero_add]
      by_cases hcl : c.cfg.client = true
      · simp only [hcl, if_true]; exact ⟨allowed_pErr, trivial⟩
      · simp only [hcl, Bool.false_eq_true, if_false]
        by_cases hsize : 2 + ((field.length : Nat) : Int) > c.maxOutFrame
        · simp only [hsize, if_true]; exact ⟨allowed_mkExc _ _, trivial⟩
        · simp only [hsize, if_false]
          apply os_connInput _ _ _ rfl
          · intro c1 hos1 hmax1
            try wps
            rw [wp_getStreamById_eq]
            repeat' split
            all_goals first
              | exact ⟨allowed_h2 _ _ _ _, hos1⟩
              | exact ⟨allowed_streamClosed _ _, hos1⟩
              | skip
            rename_i hex
            try wps
            apply os_withStreamR _ _ _ _ _ hos1 hex (sallowed_altSvc field)
            · intro fs c2 hr hos2 hmax2
              obtain ⟨s', hfs⟩ := hr
              subst hfs
              try wps
              exact prep_altsvc s' [] field c2 (by simp) (by rw [hmax2, hmax1]; simp at hsize ⊢; omega)
            · intro e c2 ha hos2; exact ⟨ha, hos2⟩
          · intro c' hos; exact ⟨allowed_pErr, hos⟩
  | some o =>
    cases sid with
    | some sid => wps; simp only [Option.isSome_some, Bool.and_self, if_true]; exact ⟨allowed_value, trivial⟩
    | none =>
      wps
      simp only [Option.isSome_some, Option.isSome_none, Bool.and_false, Bool.false_eq_true, if_false, Option.isNone_some,
        Bool.false_and, Option.getD_some]
      by_cases hcl : c.cfg.client = true
      · simp only [hcl, if_true]; exact ⟨allowed_pErr, trivial⟩
      · simp only [hcl, Bool.false_eq_true, if_false]
        by_cases horig : decide (o.length > 65535) = true
        · simp only [horig, if_true]; exact ⟨allowed_value, trivial⟩
        · simp only [horig, Bool.false_eq_true, if_false]
          by_cases hsize : 2 + (((o.length + field.length : Nat)) : Int) > c.maxOutFrame
          · simp only [hsize, if_true]; exact ⟨allowed_mkExc _ _, trivial⟩
          · simp only [hsize, if_false]
            apply os_connInput _ _ _ rfl
            · intro c1 hos1 hmax1
              try wps
              have hlen : o.length ≤ 65535 := by simpa using horig
              exact prep_altsvc 0 o field c1 hlen (by rw [hmax1]; omega)
            · intro c' hos; exact ⟨allowed_pErr, hos⟩

theorem checkPriority_ok (sid : Int) (w d : Option Int) (h : checkPriority sid w d = .ok ()) :
    (∀ dv, d = some dv → 0 ≤ dv ∧ dv ≤ 2147483647) ∧ (∀ wv, w = some wv → 1 ≤ wv ∧ wv ≤ 256) := by
  unfold checkPriority at h
  simp only [HIGHEST_ALLOWED_STREAM_ID] at h
  rcases d with _ | x <;> rcases w with _ | y <;> grind

theorem checkPriority_err (sid : Int) (w d : Option Int) (x : Exc) (h : checkPriority sid w d = .error x) : x = pErr := by
  unfold checkPriority at h
  repeat' split at h
  all_goals first
    | (injection h with h; exact h.symm)
    | (simp at h; done)

theorem framePriority_ok (sid : Int) (w d : Option Int) (e : Option Bool) (p : Prio)
    (h : framePriority sid w d e = .ok p) : (0 ≤ p.dependsOn ∧ p.dependsOn ≤ 2147483647) ∧ (0 ≤ p.weight ∧ p.weight ≤ 255) := by
  unfold framePriority at h
  cases hc : checkPriority sid w d with
  | error x => rw [hc] at h; simp [bind, Except.bind] at h
  | ok u =>
    rw [hc] at h
    simp only [bind, Except.bind, pure, Except.pure, Except.ok.injEq] at h
    subst h
    obtain ⟨h1, h2⟩ := checkPriority_ok sid w d hc
    constructor
    · cases d with
      | none => simp
      | some dv => simpa using h1 dv rfl
    · cases w with
      | none => simp
      | some wv => have := h2 wv rfl; simp; omega

theorem framePriority_err (sid : Int) (w d : Option Int) (e : Option Bool) (x : Exc)
    (h : framePriority sid w d e = .error x) : Allowed x := by
  unfold framePriority at h
  cases hc : checkPriority sid w d with
  | error y =>
    rw [hc] at h
    simp only [bind, Except.bind] at h
    injection h with h; subst h
    rw [checkPriority_err _ _ _ _ hc]; exact allowed_pErr
  | ok u => rw [hc] at h; simp [bind, Except.bind, pure, Except.pure] at h

theorem api_prioritize (sid : Int) (w d : Option Int) (e : Option Bool) (c : Conn) (hm : 16384 ≤ c.maxOutFrame) :
    ApiOk (prioritize sid w d e) c := by
  unfold ApiOk prioritize
  wps
  split
  · exact ⟨allowed_mkExc _ _, trivial⟩
  · apply os_connInput _ _ _ rfl
    · intro c1 hos1 hmax1
      try wps
      cases hp : framePriority sid w d e with
      | error x => exact ⟨framePriority_err _ _ _ _ _ hp, hos1⟩
      | ok p =>
        simp only
        try wps
        have hpr := framePriority_ok _ _ _ _ _ hp
        apply wp_prepare_never
        · intro f hf
          simp only [List.mem_singleton] at hf; subst hf
          have := priority_serialize sid p hpr.1 hpr.2
          exact ⟨this.1, by rw [this.2, hmax1]; omega⟩
        · intro _ _ _; trivial
    · intro c' hos; exact ⟨allowed_pErr, hos⟩

theorem wu_fits (sid n : Int) (c : Conn) (hm : 16384 ≤ c.maxOutFrame) :
    (∃ b, (Frame.windowUpdate sid n).serialize? = some b) ∧ ((Frame.windowUpdate sid n).bodyLen : Int) ≤ c.maxOutFrame := by
  obtain ⟨b, hb, hl⟩ := wu_serialize sid n
  exact ⟨⟨b, hb⟩, by rw [hl]; omega⟩

set_option maxRecDepth 50000 in
theorem api_ackCredit (present : Bool) (size sid : Int) (c c1 : Conn) (hm : 16384 ≤ c.maxOutFrame)
    (hos1 : OS c1 = OS c) (hmax1 : c1.maxOutFrame = c.maxOutFrame) (hpres : present = true → hasStream c1 sid = true) :
    wp (ackCredit present size sid) (fun _ _ => True) (fun e c' => Allowed e ∧ OS c' = OS c) c1 := by
  unfold ackCredit
  wps
  obtain ⟨v, w, hpb⟩ := wm_process_ok c1.inWM size
  rw [wp_onConnWM, hpb]
  simp only
  wps
  have hfr : ∀ f ∈ (match v with | some n => if n != 0 then [Frame.windowUpdate 0 n] else [] | none => []),
      (∃ b, f.serialize? = some b) ∧ ((f.bodyLen : Int) ≤ c.maxOutFrame) := by
    intro f hf
    cases v with
    | none => simp at hf
    | some n =>
      simp only at hf
      split at hf
      · simp only [List.mem_singleton] at hf; subst hf; exact wu_fits 0 n c hm
      · simp at hf
  have fin : ∀ (more : List Frame) (c2 : Conn), c2.maxOutFrame = c.maxOutFrame →
      (more = [] ∨ ∃ s n, more = [Frame.windowUpdate s n]) →
      wp (prepareForSending ((match v with | some n => if n != 0 then [Frame.windowUpdate 0 n] else [] | none => []) ++ more))
        (fun _ _ => True) (fun e c' => Allowed e ∧ OS c' = OS c) c2 := by
    intro more c2 hmax2 hmore
    apply wp_prepare_never
    · intro f hf
      rw [List.mem_append] at hf
      rcases hf with hf | hf
      · have := hfr f hf; exact ⟨this.1, by rw [hmax2]; exact this.2⟩
      · rcases hmore with hmore | ⟨s', n', hmore⟩
        · subst hmore; simp at hf
        · subst hmore; simp only [List.mem_singleton] at hf; subst hf
          have := wu_fits s' n' c hm
          exact ⟨this.1, by rw [hmax2]; exact this.2⟩
    · intro _ _ _; trivial
  cases present with
  | false => simp only [Bool.false_eq_true, if_false]; (try wps); exact fin [] _ hmax1 (Or.inl rfl)
  | true =>
    simp only [if_true]
    have hex := hpres rfl
    unfold lookupStream
    cases hl : ({ c1 with inWM := w } : Conn).streams.lookup sid with
    | none => simp only; (try wps); exact fin [] _ hmax1 (Or.inl rfl)
    | some st =>
      simp only
      split
      · wps
        apply os_withStreamR _ _ _ _ _ (by exact hos1) (by exact hex) (sallowed_ackData size)
        · intro more c2 hr hos2 hmax2
          (try wps)
          exact fin more c2 (by rw [hmax2]; exact hmax1) hr
        · intro e c2 ha hos2; exact ⟨ha, hos2⟩
      · (try wps); exact fin [] _ hmax1 (Or.inl rfl)

set_option maxRecDepth 50000 in
theorem api_ackData (size sid : Int) (c : Conn) (hm : 16384 ≤ c.maxOutFrame) : ApiOk (acknowledgeReceivedData size sid) c := by
  unfold ApiOk acknowledgeReceivedData
  wps
  by_cases h1 : sid ≤ 0
  · simp only [h1, if_true]; exact ⟨allowed_value, trivial⟩
  · simp only [h1, if_false]
    by_cases h2 : size < 0
    · simp only [h2, if_true]; exact ⟨allowed_value, trivial⟩
    · simp only [h2, if_false]
      try wps
      have fin : ∀ present, (present = true → hasStream c sid = true) →
          (if (c.cstate == ConnectionState.CLOSED) = true then True
           else wp (ackCredit present size sid) (fun _ _ => True) (fun e c' => Allowed e ∧ OS c' = OS c) c) := by
        intro present hpres
        by_cases h3 : (c.cstate == .CLOSED) = true
        · simp only [h3, if_true]
        · simp only [h3, Bool.false_eq_true, if_false]
          exact api_ackCredit present size sid c c hm rfl rfl hpres
      rw [wp_getStreamById_eq]
      by_cases hex : hasStream c sid = true
      · simp only [hex, if_true]
        wps
        exact fin true (fun _ => hex)
      · simp only [hex, Bool.false_eq_true, if_false]
        by_cases hhigh : sid > (if streamIdIsOutbound c sid then c.highestOut else c.highestIn)
        · simp only [hhigh, if_true]
          have hns : (Exc.isInstance (.h2 .NoSuchStreamError (ExcClass.NoSuchStreamError.classCode.map Int.ofNat) (some sid) [])
              .StreamClosedError) = false := by
            show ExcClass.isSub .NoSuchStreamError .StreamClosedError = false
            decide
          simp only [hns, Bool.false_eq_true, if_false]
          exact ⟨allowed_h2 _ _ _ _, trivial⟩
        · simp only [hhigh, if_false]
          have hsc : (Exc.isInstance (mkStreamClosed sid) .StreamClosedError) = true := by
            show ExcClass.isSub .StreamClosedError .StreamClosedError = true
            decide
          simp only [hsc, if_true]
          try wps
          exact fin false (fun h => by cases h)

/-- the flow-controlled length of a DATA frame: payload plus padding plus the pad-length byte -/
def fclOf (data : Bytes) (pad : Option Int) : Int :=
  match pad with
  | some p => data.length + (p + 1)
  | none => data.length

/-- `H2Stream.send_data` within the stream's window: the one DATA frame, or an h2 exception -/
theorem sallowed_sendData (data : Bytes) (es : Bool) (pad : Option Int) (st : Stream)
    (hw : fclOf data pad ≤ st.outWin) :
    wp (Stream.sendData data es pad) (fun fs _ => ∃ sid, fs = [Frame.data sid data es pad]) (fun e _ => Allowed e) st := by
  unfold Stream.sendData
  wps
  cases pad <;> simp only [fclOf] at hw <;> (
    apply wp_processInput_allowed
    · intro evs sh
      cases es with
      | false =>
        simp only [Bool.false_eq_true, if_false]
        wps
        rw [if_neg (by omega)]
        (try wps)
        exact ⟨_, rfl⟩
      | true =>
        simp only [if_true]
        wps
        apply wp_processInput_allowed
        · intro evs2 sh2
          wps
          rw [if_neg (by omega)]
          (try wps)
          exact ⟨_, rfl⟩
        · intro e sh2 h; exact h
    · intro e sh h; exact h)

theorem data_fits (sid : Int) (data : Bytes) (es : Bool) (pad : Option Int) (c : Conn)
    (hp : ∀ p, pad = some p → 0 ≤ p ∧ p ≤ 255) (hs : fclOf data pad ≤ c.maxOutFrame) :
    ∀ f ∈ [Frame.data sid data es pad], (∃ b, f.serialize? = some b) ∧ (f.bodyLen : Int) ≤ c.maxOutFrame := by
  intro f hf
  have hf' : f = Frame.data sid data es pad := by simpa using hf
  rw [hf']
  have := data_serialize sid data es pad hp
  refine ⟨this.1, ?_⟩
  rw [this.2]
  cases pad <;> simp only [fclOf] at hs ⊢ <;> omega

set_option maxRecDepth 50000 in
theorem api_sendDataCore (sid : Int) (data : Bytes) (es : Bool) (pad : Option Int) (c : Conn)
    (hp : ∀ p, pad = some p → 0 ≤ p ∧ p ≤ 255) : ApiOk (sendDataCore sid data es pad (fclOf data pad)) c := by
  unfold ApiOk sendDataCore localFlowControlWindow
  wps
  rw [wp_getStreamById_eq]
  by_cases hex : hasStream c sid = true
  · simp only [hex, if_true]
    wps
    have hlk := hex
    rw [hasStream_lookup] at hlk
    unfold lookupStream
    cases hl : c.streams.lookup sid with
    | none => rw [hl] at hlk; simp at hlk
    | some st =>
      simp only
      wps
      by_cases h1 : fclOf data pad > min c.outWin st.outWin
      · simp only [h1, if_true]; exact ⟨allowed_mkExc _ _, trivial⟩
      · simp only [h1, if_false]
        by_cases h2 : fclOf data pad > c.maxOutFrame
        · simp only [h2, if_true]; exact ⟨allowed_mkExc _ _, trivial⟩
        · simp only [h2, if_false]
          cases ht : connTable c.cstate .SEND_DATA with
          | none => rw [wp_connInput_err _ _ ht]; exact ⟨allowed_pErr, rfl⟩
          | some t =>
            rw [wp_connInput_ok _ _ _ ht]
            wps
            rw [wp_withStream]
            simp only [hl]
            refine wp_mono (sallowed_sendData data es pad st (by omega)) ?_ ?_
            · intro frames st' hr
              obtain ⟨s', hfr⟩ := hr
              subst hfr
              wps
              apply wp_prepare_never
              · exact data_fits s' data es pad _ hp (by show fclOf data pad ≤ c.maxOutFrame; omega)
              · intro c2 hmax2 hout2
                wps
                rw [if_neg (by
                  simp only [hout2, setStream_outWin]
                  show ¬ (c.outWin - fclOf data pad < 0)
                  omega)]
                trivial
            · intro e st' ha; exact ⟨ha, rfl⟩
  · simp only [hex, Bool.false_eq_true, if_false]
    repeat' split
    all_goals first | exact ⟨allowed_h2 _ _ _ _, trivial⟩ | exact ⟨allowed_streamClosed _ _, trivial⟩

theorem api_sendData (sid : Int) (data : Bytes) (es : Bool) (pad : Option Int) (c : Conn) :
    ApiOk (sendData sid data es pad) c := by
  cases pad with
  | none => exact api_sendDataCore sid data es none c (fun p hp => by cases hp)
  | some p =>
    unfold sendData
    simp only
    by_cases hp : (decide (p < 0) || decide (p > 255)) = true
    · simp only [hp, if_true]; exact ⟨allowed_value, rfl⟩
    · simp only [hp, Bool.false_eq_true, if_false]
      have := api_sendDataCore sid data es (some p) c (fun q hq => by injection hq with hq; subst hq; simp at hp; omega)
      simpa only [fclOf, Int.add_assoc] using this

/-! ### the read-only queries and the buffer calls -/

theorem lookup_of_hasStream (c : Conn) (sid : Int) (h : hasStream c sid = true) : ∃ st, lookupStream c sid = some st := by
  rw [hasStream_lookup] at h
  unfold lookupStream
  cases hl : c.streams.lookup sid with
  | none => rw [hl] at h; cases h
  | some st => exact ⟨st, rfl⟩

theorem api_localWindow (sid : Int) (c : Conn) : ApiOk (localFlowControlWindow sid) c := by
  unfold ApiOk localFlowControlWindow
  wps
  rw [wp_getStreamById_eq]
  by_cases hs : hasStream c sid = true
  · rw [if_pos hs]
    wps
    obtain ⟨st, hst⟩ := lookup_of_hasStream c sid hs
    rw [hst]; trivial
  · rw [if_neg hs]
    repeat' split
    all_goals exact ⟨trivial, rfl⟩

theorem api_remoteWindow (sid : Int) (c : Conn) : ApiOk (remoteFlowControlWindow sid) c := by
  unfold ApiOk remoteFlowControlWindow
  wps
  rw [wp_getStreamById_eq]
  by_cases hs : hasStream c sid = true
  · rw [if_pos hs]
    wps
    obtain ⟨st, hst⟩ := lookup_of_hasStream c sid hs
    rw [hst]; trivial
  · rw [if_neg hs]
    repeat' split
    all_goals exact ⟨trivial, rfl⟩

theorem api_nextStreamId (c : Conn) : ApiOk getNextAvailableStreamId c := by
  unfold ApiOk getNextAvailableStreamId
  wps
  repeat' split
  all_goals first | trivial | exact ⟨trivial, rfl⟩

theorem openStreams_total (r : Int) (c : Conn) : ∃ n c', openStreams r c = (.ok n, c') := by
  unfold openStreams
  exact ⟨_, _, rfl⟩

theorem api_openOut (c : Conn) : ApiOk openOutboundStreams c := by
  unfold ApiOk openOutboundStreams
  wps
  obtain ⟨n, c', h⟩ := openStreams_total (if c.cfg.client then 1 else 0) c
  unfold wp; rw [h]; trivial

theorem api_openIn (c : Conn) : ApiOk openInboundStreams c := by
  unfold ApiOk openInboundStreams
  wps
  obtain ⟨n, c', h⟩ := openStreams_total (if c.cfg.client then 0 else 1) c
  unfold wp; rw [h]; trivial

theorem api_dataToSend (n : Option Int) (c : Conn) : ApiOk (dataToSend n) c := by
  unfold ApiOk dataToSend
  wps
  cases n <;> (wps; try trivial)

theorem api_clearOut (c : Conn) : ApiOk clearOutboundDataBuffer c := by
  unfold ApiOk clearOutboundDataBuffer
  wps

/-! ### the stream lookup: closed-and-forgotten versus never used -/

/-- what `_get_stream_by_id` raises for an id that is not in the stream table -/
def lookupExc (c : Conn) (sid : Int) : Exc :=
  if sid > (if streamIdIsOutbound c sid then c.highestOut else c.highestIn)
  then .h2 .NoSuchStreamError (ExcClass.NoSuchStreamError.classCode.map Int.ofNat) (some sid) []
  else mkStreamClosed sid

/-- a call refused by the lookup: raises exactly `lookupExc`, writes nothing -/
abbrev Refused {α : Type} (m : CM α) (c : Conn) (sid : Int) : Prop :=
  wp m (fun _ _ => False) (fun e c' => e = lookupExc c sid ∧ OS c' = OS c) c

theorem refused_getStreamById (c : Conn) (sid : Int) (h : hasStream c sid = false) (c0 : Conn)
    (hx : lookupExc c sid = lookupExc c0 sid) (ho : OS c = OS c0) :
    wp (getStreamById sid) (fun _ _ => False) (fun e c' => e = lookupExc c0 sid ∧ OS c' = OS c0) c := by
  rw [wp_getStreamById_eq, h]
  simp only [Bool.false_eq_true, if_false]
  rw [← hx]
  unfold lookupExc
  by_cases hgt : sid > (if streamIdIsOutbound c sid then c.highestOut else c.highestIn)
  · simp only [if_pos hgt]; exact ⟨trivial, ho⟩
  · simp only [if_neg hgt]; exact ⟨trivial, ho⟩

theorem lookupExc_cstate (c : Conn) (t : ConnectionState) (sid : Int) :
    lookupExc { c with cstate := t } sid = lookupExc c sid := rfl

theorem refused_endStream (c : Conn) (sid : Int) (h : hasStream c sid = false) (t : ConnectionState)
    (hc : connTable c.cstate .SEND_DATA = some t) : Refused (endStream sid) c sid := by
  unfold Refused endStream
  wps
  rw [wp_connInput_ok c _ t hc]
  wps
  apply wp_mono (refused_getStreamById { c with cstate := t } sid h c (lookupExc_cstate c t sid) rfl)
  · intro _ _ hf; exact hf.elim
  · intro e s he; exact he

theorem refused_resetStream (c : Conn) (sid code : Int) (h : hasStream c sid = false) (t : ConnectionState)
    (hcode : 0 ≤ code ∧ code ≤ 4294967295)
    (hc : connTable c.cstate .SEND_RST_STREAM = some t) : Refused (resetStream sid code) c sid := by
  unfold Refused resetStream
  wps
  have : (!(decide (0 ≤ code) && decide (code ≤ 4294967295))) = false := by simp [hcode.1, hcode.2]
  rw [this]
  try simp only [Bool.false_eq_true, if_false]
  try wps
  rw [wp_connInput_ok c _ t hc]
  wps
  apply wp_mono (refused_getStreamById { c with cstate := t } sid h c (lookupExc_cstate c t sid) rfl)
  · intro _ _ hf; exact hf.elim
  · intro e s he; exact he

theorem refused_incrementWindow (c : Conn) (sid incr : Int) (h : hasStream c sid = false) (t : ConnectionState)
    (hi : 1 ≤ incr ∧ incr ≤ MAX_WINDOW_INCREMENT)
    (hc : connTable c.cstate .SEND_WINDOW_UPDATE = some t) : Refused (incrementFlowControlWindow incr (some sid)) c sid := by
  unfold Refused incrementFlowControlWindow
  wps
  have : (!(decide (1 ≤ incr) && decide (incr ≤ MAX_WINDOW_INCREMENT))) = false := by simp [hi.1, hi.2]
  rw [this]
  try simp only [Bool.false_eq_true, if_false]
  try wps
  rw [wp_connInput_ok c _ t hc]
  wps
  apply wp_mono (refused_getStreamById { c with cstate := t } sid h c (lookupExc_cstate c t sid) rfl)
  · intro _ _ hf; exact hf.elim
  · intro e s he; exact he

theorem refused_sendData (c : Conn) (sid : Int) (data : Bytes) (es : Bool) (pad : Option Int)
    (h : hasStream c sid = false) (hp : ∀ p, pad = some p → 0 ≤ p ∧ p ≤ 255) :
    Refused (sendData sid data es pad) c sid := by
  have core : ∀ fs, Refused (sendDataCore sid data es pad fs) c sid := by
    intro fs
    unfold Refused sendDataCore localFlowControlWindow
    wps
    apply wp_mono (refused_getStreamById c sid h c rfl rfl)
    · intro _ _ hf; exact hf.elim
    · intro e s he; exact he
  cases pad with
  | none => exact core _
  | some p =>
    unfold Refused sendData
    simp only
    have := hp p rfl
    have hpp : (decide (p < 0) || decide (p > 255)) = false := by simp; omega
    rw [hpp]
    simp only [Bool.false_eq_true, if_false]
    exact core _

theorem refused_localWindow (c : Conn) (sid : Int) (h : hasStream c sid = false) :
    Refused (localFlowControlWindow sid) c sid := by
  unfold Refused localFlowControlWindow
  wps
  apply wp_mono (refused_getStreamById c sid h c rfl rfl)
  · intro _ _ hf; exact hf.elim
  · intro e s he; exact he

end H2
