/-
  The two stream state machines of one stream, connected by two FIFO queues of unbounded length.

  Each side may, at any time, send a frame its own machine accepts (`PairFsm.maySend`: not the known finding D17b), and
  the frame at the head of either queue may be delivered at any time.  `Reach` is the set of configurations reachable
  from two idle machines and empty queues.  THEOREM (`reduced_never_refused`): with the frame kinds that change a
  stream's state (HEADERS, END_STREAM, RST_STREAM, and the PUSH_PROMISE that opens a promised stream) — any number of them in flight in both directions, any interleaving
  — no delivery is ever a connection error.

  Method: the reachable set is finite although the queues are not bounded a priori (a few thousand configurations for the table
  of the pinned stream.py).  It is computed by a breadth-first search inside Lean (`R0`), stored in a search tree, and
  the kernel checks (`decide +kernel`, ≈ 40 s) that it contains the initial configuration, is closed under every step,
  and that every delivery from a member is graceful; `Reach ⊆ R0` then is a two-line induction.  The table is
  regenerated from stream.py on every run, so the search and the check are redone whenever it changes.

  The five frame kinds that never change a stream's state when accepted (DATA, WINDOW_UPDATE, PUSH_PROMISE on the
  parent, 1xx HEADERS, ALTSVC: `neutral_kinds`) are not in this system; PairReachFull / PairReachMain add them
  (`full_never_refused`).
-/
import H2.Proofs.PairFsm
namespace H2
open H2.Gen
namespace PairFsm

/-- the frames of one stream, by what they do to the stream's state machines.  A PUSH_PROMISE is two things: on the
    promised stream it is what opens it (idle → reserved), on the parent stream it changes nothing -/
inductive Fr where
  | headers | rst | endStream | pushOpen                          -- change the stream's state
  | data | windowUpdate | pushParent | info | altsvc              -- never do (`neutral_kinds`)
deriving DecidableEq, Repr

/-- the input the sender's machine takes -/
def Fr.send : Fr → StreamInputs
  | .headers => .SEND_HEADERS | .rst => .SEND_RST_STREAM | .endStream => .SEND_END_STREAM
  | .pushOpen => .SEND_PUSH_PROMISE | .pushParent => .SEND_PUSH_PROMISE
  | .data => .SEND_DATA | .windowUpdate => .SEND_WINDOW_UPDATE | .info => .SEND_INFORMATIONAL_HEADERS
  | .altsvc => .SEND_ALTERNATIVE_SERVICE
/-- the input the receiver's machine takes -/
def Fr.recv : Fr → StreamInputs
  | .headers => .RECV_HEADERS | .rst => .RECV_RST_STREAM | .endStream => .RECV_END_STREAM
  | .pushOpen => .RECV_PUSH_PROMISE | .pushParent => .RECV_PUSH_PROMISE
  | .data => .RECV_DATA | .windowUpdate => .RECV_WINDOW_UPDATE | .info => .RECV_INFORMATIONAL_HEADERS
  | .altsvc => .RECV_ALTERNATIVE_SERVICE

def Fr.changing : Fr → Bool
  | .headers | .rst | .endStream | .pushOpen => true
  | _ => false

/-- the frames that change a stream's state -/
def changing : List Fr := [.headers, .rst, .endStream, .pushOpen]
def neutrals : List Fr := [.data, .windowUpdate, .pushParent, .info, .altsvc]

structure Cfg where
  sa : Shape
  sb : Shape
  qa : List Fr      -- sent by A, not yet delivered to B (oldest first)
  qb : List Fr
deriving DecidableEq

/-- `maySend`, plus: an idle stream is opened by one side only, while the other side is idle and has nothing in
    flight (stream ids are partitioned between the two endpoints) -/
def maySendAt (s : Shape) (f : Fr) (peerIdle : Bool) : Bool :=
  isOk (stepShape s f.send).1 && (s.state != .IDLE || peerIdle) &&
  !((f == .data || f == .endStream) && s.client == some false && !s.headersSent) &&
  -- the promised stream is opened by the PUSH_PROMISE; on a stream that exists it is a frame on the parent
  (f != .pushOpen || s.state == .IDLE) && (f != .pushParent || s.state != .IDLE)

/-- the steps of the two-machine system from `c`, each with a flag: was it fine (a delivery is fine when it is not a
    connection error) -/
def sendsOf (kinds : List Fr) (c : Cfg) : List (Cfg × Bool) :=
  (kinds.filterMap fun i =>
    if maySendAt c.sa i (c.sb.state == .IDLE && c.qb.isEmpty)
    then some ({ c with sa := (stepShape c.sa i.send).2, qa := c.qa ++ [i] }, true) else none) ++
  (kinds.filterMap fun k =>
    if maySendAt c.sb k (c.sa.state == .IDLE && c.qa.isEmpty)
    then some ({ c with sb := (stepShape c.sb k.send).2, qb := c.qb ++ [k] }, true) else none)

def deliveries (c : Cfg) : List (Cfg × Bool) :=
  (match c.qa with
   | i :: rest => [({ c with sb := (stepShape c.sb i.recv).2, qa := rest }, fine c.sb i.recv)]
   | [] => []) ++
  (match c.qb with
   | k :: rest => [({ c with sa := (stepShape c.sa k.recv).2, qb := rest }, fine c.sa k.recv)]
   | [] => [])

def succs (c : Cfg) : List (Cfg × Bool) := sendsOf changing c ++ deliveries c

def init : Cfg := { sa := {}, sb := {}, qa := [], qb := [] }

/-- reachable configurations -/
inductive Reach : Cfg → Prop
  | init : Reach init
  | step (c c' : Cfg) (ok : Bool) : Reach c → (c', ok) ∈ succs c → Reach c'

/-! ### a search tree of configurations, keyed by a numeric code (the code only orders the tree: membership compares
    the configurations themselves) -/

inductive T where
  | leaf
  | node (l : T) (k : Nat) (c : Cfg) (r : T)

def T.contains : T → Nat → Cfg → Bool
  | .leaf, _, _ => false
  | .node l k c r, x, d => if x == k then decide (c = d) else if x < k then l.contains x d else r.contains x d

def T.insert : T → Nat → Cfg → T
  | .leaf, x, d => .node .leaf x d .leaf
  | .node l k c r, x, d =>
    if x == k then .node l k c r else if x < k then .node (l.insert x d) k c r else .node l k c (r.insert x d)

def T.elems : T → List Cfg
  | .leaf => []
  | .node l _ c r => l.elems ++ c :: r.elems

theorem T.contains_mem (t : T) (x : Nat) (d : Cfg) (h : t.contains x d = true) : d ∈ t.elems := by
  induction t with
  | leaf => simp [T.contains] at h
  | node l k c r ihl ihr =>
    simp only [T.contains] at h
    simp only [T.elems, List.mem_append, List.mem_cons]
    split at h
    · right; left; exact (of_decide_eq_true h).symm
    · split at h
      · left; exact ihl h
      · right; right; exact ihr h

def stCode : StreamState → Nat
  | .IDLE => 0 | .RESERVED_LOCAL => 1 | .RESERVED_REMOTE => 2 | .OPEN => 3 | .HALF_CLOSED_LOCAL => 4
  | .HALF_CLOSED_REMOTE => 5 | .CLOSED => 6
def cbCode : Option StreamClosedBy → Nat
  | none => 0 | some .SEND_END_STREAM => 1 | some .RECV_END_STREAM => 2 | some .SEND_RST_STREAM => 3
  | some .RECV_RST_STREAM => 4
def clCode : Option Bool → Nat
  | none => 0 | some true => 1 | some false => 2
def b2n (b : Bool) : Nat := if b then 1 else 0
def shCode (s : Shape) : Nat :=
  (((((stCode s.state * 3 + clCode s.client) * 2 + b2n s.headersSent) * 2 + b2n s.trailersSent) * 2
    + b2n s.headersReceived) * 2 + b2n s.trailersReceived) * 5 + cbCode s.closedBy
def frCode : Fr → Nat
  | .headers => 1 | .rst => 2 | .endStream => 3 | .pushOpen => 4 | .data => 5 | .windowUpdate => 6 | .pushParent => 7
  | .info => 8 | .altsvc => 9
def qCode (q : List Fr) : Nat := q.foldl (fun acc i => acc * 10 + frCode i) 1
def code (c : Cfg) : Nat := ((shCode c.sa * 1680 + shCode c.sb) * 100000000 + qCode c.qa) * 100000000 + qCode c.qb

/-- breadth-first search: `fuel` rounds from `frontier`, `seen` is what has been found so far -/
def bfs : Nat → List Cfg → T → T
  | 0, _, seen => seen
  | fuel+1, frontier, seen =>
    match frontier with
    | [] => seen
    | _ =>
      let (next, seen') := frontier.foldl (fun (acc : List Cfg × T) c =>
        (succs c).foldl (fun (acc : List Cfg × T) (p : Cfg × Bool) =>
          if acc.2.contains (code p.1) p.1 then acc else (p.1 :: acc.1, acc.2.insert (code p.1) p.1)) acc) ([], seen)
      bfs fuel next seen'

/-- what the search finds from the initial configuration -/
def R0 : T := bfs 64 [init] (T.leaf.insert (code init) init)

/-- `t` contains the start, is closed under every step, and every step from a member is fine -/
def closedGood (t : T) : Bool :=
  t.contains (code init) init &&
  t.elems.all fun c => (succs c).all fun p => p.2 && t.contains (code p.1) p.1

set_option maxRecDepth 100000 in
/-- the kernel runs the search and checks the result (≈ 40 s) -/
theorem R0_closedGood : closedGood R0 = true := by decide +kernel

theorem reach_in_R0 (c : Cfg) (h : Reach c) : c ∈ R0.elems := by
  have hc := R0_closedGood
  unfold closedGood at hc
  rw [Bool.and_eq_true] at hc
  induction h with
  | init => exact T.contains_mem _ _ _ hc.1
  | step c c' ok _ hs ih =>
    have h1 := List.all_eq_true.mp hc.2 c ih
    have h2 := List.all_eq_true.mp h1 (c', ok) hs
    rw [Bool.and_eq_true] at h2
    exact T.contains_mem _ _ _ h2.2

/-- **no delivery is ever refused**: in every reachable configuration of the two-machine system — any number of
    state-changing frames in flight in both directions — every possible step is fine; for a delivery that means the
    receiving machine accepts the frame, or the stream is already closed on that side and the frame is dealt with
    quietly (`fine`): never a connection error, never a stream error on a live stream -/
theorem reduced_never_refused (c : Cfg) (h : Reach c) : ∀ p ∈ succs c, p.2 = true := by
  intro p hp
  have hc := R0_closedGood
  unfold closedGood at hc
  rw [Bool.and_eq_true] at hc
  have h1 := List.all_eq_true.mp hc.2 c (reach_in_R0 c h)
  have h2 := List.all_eq_true.mp h1 p hp
  rw [Bool.and_eq_true] at h2
  exact h2.1

/-- spelled out for the delivery of A's oldest frame in flight -/
theorem reduced_delivery_fine (c : Cfg) (h : Reach c) (i : Fr) (rest : List Fr)
    (hq : c.qa = i :: rest) : fine c.sb i.recv = true := by
  have := reduced_never_refused c h ({ c with sb := (stepShape c.sb i.recv).2, qa := rest }, fine c.sb i.recv) (by
    unfold succs deliveries
    simp only [hq, List.mem_append, List.mem_singleton]
    right; left; trivial)
  exact this

/-! ### the other five frame kinds never change a stream's state -/

def neutralKinds : List StreamInputs :=
  [.SEND_DATA, .SEND_WINDOW_UPDATE, .SEND_PUSH_PROMISE, .SEND_INFORMATIONAL_HEADERS, .SEND_ALTERNATIVE_SERVICE]

def neutralOk (s : Shape) (i : StreamInputs) : Bool :=
  !Good s || s.state == .IDLE || !neutralKinds.contains i ||
  ((!isOk (stepShape s i).1 || (stepShape s i).2 == s) &&
   (match recvOf i with
    | some j => !fine s j || (stepShape s j).2 == s
    | none => true))

/-- sending or accepting DATA, WINDOW_UPDATE, PUSH_PROMISE (on the parent), informational HEADERS or ALTSVC leaves the
    stream's state exactly as it was -/
theorem neutral_kinds : ∀ s i, neutralOk s i = true := forall_shape_input (by decide +kernel)

/-- non-vacuity: the search finds a configuration with frames in flight both ways (request sent and ended by the
    client, nothing delivered yet) -/
example : Reach { sa := { state := .HALF_CLOSED_LOCAL, client := some true, headersSent := true }, sb := {},
                  qa := [.headers, .endStream], qb := [] } := by
  have h1 : Reach { sa := { state := .OPEN, client := some true, headersSent := true }, sb := {},
                    qa := [.headers], qb := [] } :=
    Reach.step init _ true Reach.init (by decide)
  exact Reach.step _ _ true h1 (by decide)

end PairFsm
end H2
