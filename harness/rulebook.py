"""RFC 7540 section 8.1.2 as a rule book, written from the RFC and the property texts (C14/C15) without looking at
h2/utilities.py: the independent yardstick of the header oracles.  Header lists are lists of (name, value) bytes pairs.
kind: 'request' | 'push' | 'response' | 'informational' | 'trailers'."""

WS = b'\t\n\x0b\x0c\r '
CONNECTION_SPECIFIC = (b'connection', b'proxy-connection', b'keep-alive', b'transfer-encoding', b'upgrade')
REQUEST_PSEUDO = (b':method', b':scheme', b':authority', b':path', b':protocol')
RESPONSE_PSEUDO = (b':status',)


def field_problem(n, v):
    if len(n) == 0:
        return 'empty-name'
    if any(0x41 <= c <= 0x5a for c in n):
        return 'uppercase-name'
    if n[:1] in [bytes([c]) for c in WS] or n[-1:] in [bytes([c]) for c in WS]:
        return 'name-whitespace'
    if len(v) and (v[0] in WS or v[-1] in WS):
        return 'value-whitespace'
    if n in CONNECTION_SPECIFIC:
        return 'connection-specific'
    if n == b'te' and v.lower() != b'trailers':
        return 'te'
    return None


def block_problem(hs, kind):
    """None when the block is conformant for its kind, else the name of the first rule it breaks"""
    for n, v in hs:
        p = field_problem(n, v)
        if p:
            return p
    seen = []
    regular = False
    for n, v in hs:
        if n[:1] == b':':
            if regular:
                return 'pseudo-after-regular'
            if n in seen:
                return 'pseudo-twice'
            if n not in REQUEST_PSEUDO + RESPONSE_PSEUDO:
                return 'unknown-pseudo'
            seen.append(n)
        else:
            regular = True
    if kind == 'trailers':
        return 'pseudo-in-trailers' if seen else None
    if kind in ('response', 'informational'):
        if b':status' not in seen:
            return 'no-status'
        if any(n in REQUEST_PSEUDO for n in seen):
            return 'request-pseudo-in-response'
        return None
    # request / pushed request
    for need in (b':method', b':scheme', b':path'):
        if need not in seen:
            return 'missing' + need.decode()
    if b':status' in seen:
        return 'status-in-request'
    method = [v for n, v in hs if n == b':method'][-1]
    if b':protocol' in seen and method != b'CONNECT':
        return 'protocol-without-connect'
    auth = [v for n, v in hs if n == b':authority']
    host = [v for n, v in hs if n == b'host']
    if not auth and not host:
        return 'no-authority-no-host'
    if auth and host and auth[-1] != host[-1]:
        return 'authority-host-disagree'
    if [v for n, v in hs if n == b':path'][-1] == b'':
        return 'empty-path'
    return None


def join_cookies(hs):
    """RFC 7540 8.1.2.5 as the library documents it: all cookie fields become one trailing field"""
    cookies = [v for n, v in hs if n == b'cookie']
    rest = [(n, v) for n, v in hs if n != b'cookie']
    return rest + ([(b'cookie', b'; '.join(cookies))] if cookies else [])


# --------------------------------------------------------------------------------------------------------------------
# outbound (C14)
# --------------------------------------------------------------------------------------------------------------------
SENSITIVE = (b'authorization', b'proxy-authorization')


def to_bytes(x):
    return x if isinstance(x, bytes) else x.encode('utf-8')


def normalise_out(headers):
    """what 'lowercase, trimmed names and trimmed values, no connection-specific fields' means for a list of
    (name, value) pairs of bytes or str: -> list of (name bytes, value bytes, must_be_never_indexed)"""
    out = []
    for n, v in headers:
        n2 = n.lower().strip()
        v2 = v.strip()
        nb, vb = to_bytes(n2), to_bytes(v2)
        if nb in CONNECTION_SPECIFIC:
            continue
        out.append((nb, vb, nb in SENSITIVE or (nb == b'cookie' and len(vb) < 20)))
    return out


def field_problem_out(n, v):
    """the per-field promises of normalisation"""
    if any(0x41 <= c <= 0x5a for c in n):
        return 'uppercase-name'
    if n and (n[0] in WS or n[-1] in WS):
        return 'name-whitespace'
    if v and (v[0] in WS or v[-1] in WS):
        return 'value-whitespace'
    if n in CONNECTION_SPECIFIC:
        return 'connection-specific'
    return None


def block_problem_out(hs, kind):
    """the promises of outbound validation: no empty field name (RFC 7230: a field name is a non-empty token; the peer
    must treat the block as malformed), TE, connection-specific fields, pseudo-header rules, :authority/Host, :path"""
    for n, v in hs:
        if len(n) == 0:
            return 'empty-name'
    for n, v in hs:
        if n in CONNECTION_SPECIFIC:
            return 'connection-specific'
        if n == b'te' and v.lower() != b'trailers':
            return 'te'
    seen = []
    regular = False
    for n, v in hs:
        if n[:1] == b':':
            if regular:
                return 'pseudo-after-regular'
            if n in seen:
                return 'pseudo-twice'
            if n not in REQUEST_PSEUDO + RESPONSE_PSEUDO:
                return 'unknown-pseudo'
            seen.append(n)
        else:
            regular = True
    if kind == 'trailers':
        return 'pseudo-in-trailers' if seen else None
    if kind in ('response', 'informational'):
        if b':status' not in seen:
            return 'no-status'
        if any(n in REQUEST_PSEUDO for n in seen):
            return 'request-pseudo-in-response'
        return None
    for need in (b':method', b':scheme', b':path'):
        if need not in seen:
            return 'missing' + need.decode()
    if b':status' in seen:
        return 'status-in-request'
    method = [v for n, v in hs if n == b':method'][-1]
    if b':protocol' in seen and method != b'CONNECT':
        return 'protocol-without-connect'
    auth = [v for n, v in hs if n == b':authority']
    host = [v for n, v in hs if n == b'host']
    if not auth and not host:
        return 'no-authority-no-host'
    if auth and host and auth[-1] != host[-1]:
        return 'authority-host-disagree'
    if [v for n, v in hs if n == b':path'][-1] == b'':
        return 'empty-path'
    return None
