/-
  H2StreamStateMachine: an interpreter of the *generated* transition table
  `Gen.streamTable`, with the side-effect functions written out by hand in
  the order of the source.

  The state is split into a finite *shape* (state, role, the four flags,
  closed-by) and the stream id, so that statements about the machine are
  decidable by enumeration (`decide +kernel` over 1 680 shapes × 19 inputs)
  and lift to every stream id by definition.
-/
import H2.Model.Basic

namespace H2
open H2.Gen

/-- the (internal and public) event objects the side-effect functions create -/
inductive SEv where
  | RequestSent | ResponseSent | TrailersSent | PushedRequestSent
  | RequestReceived | ResponseReceived | TrailersReceived | InformationalResponseReceived
  | DataReceived | WindowUpdated | StreamEnded | StreamReset | PushedStreamReceived
  | AlternativeServiceAvailable
deriving DecidableEq, Repr, Inhabited

structure Shape where
  state : StreamState := .IDLE
  client : Option Bool := none
  headersSent : Bool := false          -- None/False are both falsy; only truthiness is ever used
  trailersSent : Bool := false
  headersReceived : Bool := false
  trailersReceived : Bool := false
  closedBy : Option StreamClosedBy := none
deriving DecidableEq, Repr, Inhabited

structure SM where
  sid : Int
  sh : Shape := {}
deriving DecidableEq, Repr, Inhabited

def SM.state (sm : SM) : StreamState := sm.sh.state
def SM.client (sm : SM) : Option Bool := sm.sh.client
def SM.headersSent (sm : SM) : Bool := sm.sh.headersSent
def SM.trailersSent (sm : SM) : Bool := sm.sh.trailersSent
def SM.headersReceived (sm : SM) : Bool := sm.sh.headersReceived
def SM.trailersReceived (sm : SM) : Bool := sm.sh.trailersReceived
def SM.closedBy (sm : SM) : Option StreamClosedBy := sm.sh.closedBy

inductive EffRes where
  | ok (evs : List SEv)
  | proto                                 -- raise ProtocolError(...)
  | streamClosed (withResetEvent : Bool)  -- raise StreamClosedError(stream_id) [with a StreamReset event attached]
  | assertion                             -- AssertionError
deriving DecidableEq, Repr, Inhabited

/-- the side-effect functions; each returns the new flags and what it returned / raised -/
def runEffect (eff : SideEffect) (sm : Shape) : EffRes × Shape :=
  match eff with
  | .request_sent => (.ok [.RequestSent], { sm with client := some true, headersSent := true })
  | .response_sent =>
    if !sm.headersSent then
      if sm.client == some true || sm.client == none then (.proto, sm)
      else (.ok [.ResponseSent], { sm with headersSent := true })
    else if sm.trailersSent then (.assertion, sm)
    else (.ok [.TrailersSent], { sm with trailersSent := true })
  | .request_received =>
    if sm.headersReceived then (.assertion, sm)
    else if sm.trailersReceived then (.assertion, sm)
    else (.ok [.RequestReceived], { sm with client := some false, headersReceived := true })
  | .response_received =>
    if !sm.headersReceived then
      if sm.client != some true then (.assertion, sm)
      else (.ok [.ResponseReceived], { sm with headersReceived := true })
    else if sm.trailersReceived then (.assertion, sm)
    else (.ok [.TrailersReceived], { sm with trailersReceived := true })
  | .data_received => if !sm.headersReceived then (.proto, sm) else (.ok [.DataReceived], sm)
  | .window_updated => (.ok [.WindowUpdated], sm)
  | .stream_half_closed => (.ok [.StreamEnded], sm)
  | .stream_ended => (.ok [.StreamEnded], { sm with closedBy := some .RECV_END_STREAM })
  | .stream_reset => (.ok [.StreamReset], { sm with closedBy := some .RECV_RST_STREAM })
  | .send_new_pushed_stream =>
    if sm.client != none then (.assertion, sm)
    else (.ok [], { sm with client := some false, headersReceived := true })
  | .recv_new_pushed_stream =>
    if sm.client != none then (.assertion, sm)
    else (.ok [], { sm with client := some true, headersSent := true })
  | .send_push_promise => if sm.client == some true then (.proto, sm) else (.ok [.PushedRequestSent], sm)
  | .recv_push_promise => if sm.client != some true then (.proto, sm) else (.ok [.PushedStreamReceived], sm)
  | .send_end_stream => (.ok [], { sm with closedBy := some .SEND_END_STREAM })
  | .send_reset_stream => (.ok [], { sm with closedBy := some .SEND_RST_STREAM })
  | .reset_stream_on_error => (.streamClosed true, { sm with closedBy := some .SEND_RST_STREAM })
  | .recv_on_closed_stream => (.streamClosed false, sm)
  | .send_on_closed_stream => (.streamClosed false, sm)
  | .recv_push_on_closed_stream =>
    if sm.closedBy == none then (.assertion, sm)
    else if sm.closedBy == some .SEND_RST_STREAM then (.streamClosed false, sm)
    else (.proto, sm)
  | .send_push_on_closed_stream => (.proto, sm)
  | .send_informational_response => if sm.headersSent then (.proto, sm) else (.ok [.ResponseSent], sm)
  | .recv_informational_response =>
    if sm.headersReceived then (.proto, sm) else (.ok [.InformationalResponseReceived], sm)
  | .recv_alt_svc =>
    if sm.client == some false then (.ok [], sm)
    else if sm.headersReceived then (.ok [], sm)
    else (.ok [.AlternativeServiceAvailable], sm)
  | .send_alt_svc => if sm.headersSent then (.proto, sm) else (.ok [], sm)

/-- what `process_input` does, on the shape alone -/
inductive ProcRes where
  | ok (evs : List SEv)
  | proto                                 -- ProtocolError (invalid input, effect raised it, or an assert fired)
  | streamClosed (withResetEvent : Bool)
deriving DecidableEq, Repr, Inhabited

def stepShape (sh : Shape) (inp : StreamInputs) : ProcRes × Shape :=
  match streamTable sh.state inp with
  | none => (.proto, { sh with state := .CLOSED })
  | some (eff, tgt) =>
    let sh := { sh with state := tgt }
    match eff with
    | none => (.ok [], sh)
    | some e =>
      match runEffect e sh with
      | (.ok evs, sh) => (.ok evs, sh)
      | (.proto, sh) => (.proto, { sh with state := .CLOSED })
      | (.streamClosed w, sh) => (.streamClosed w, { sh with state := .CLOSED })
      | (.assertion, sh) => (.proto, { sh with state := .CLOSED })

/-- `process_input` -/
def SM.process (inp : StreamInputs) : M SM (List SEv) := fun sm =>
  match stepShape sm.sh inp with
  | (.ok evs, sh) => (.ok evs, { sm with sh := sh })
  | (.proto, sh) => (.error (mkExc .ProtocolError), { sm with sh := sh })
  | (.streamClosed withEv, sh) =>
    let evs := if withEv then [Event.StreamReset sm.sid (some ErrorCodes.STREAM_CLOSED) false] else []
    (.error (mkStreamClosed sm.sid evs), { sm with sh := sh })

end H2
