/-
  Well-formedness of the Settings objects (per-key deques) and what `update` / `acknowledge` keep of it.
-/
import H2.Proofs.RecvStream
namespace H2
open H2.Gen H2.Conn

/-! ### settings objects -/

def validB (k : Int) (x : Option Int) : Bool :=
  match x with
  | none => true
  | some v => match validate_setting k v with
    | .ok c => c == 0
    | _ => false

def headVal (l : List (Option Int)) : Option Int :=
  match l with
  | some v :: _ => some v
  | _ => none

/-- the keys whose current value the library reads with `[...]` (KeyError when missing) -/
def mustHave (k : Int) : Bool := k == (SettingCodes.INITIAL_WINDOW_SIZE : Nat) || k == (SettingCodes.ENABLE_PUSH : Nat)

/-- one key's deque: non-empty, pending values never `None`, every stored value passed `_validate_setting`,
    and a current value for the keys that must have one -/
def entryOk (e : Int × List (Option Int)) : Bool :=
  !e.2.isEmpty && e.2.tail.all (·.isSome) && e.2.all (validB e.1) && (!mustHave e.1 || (headVal e.2).isSome)

def hasKey (s : Settings) (k : Nat) : Bool := s.any fun e => e.1 == (k : Int)

/-- the settings object is well-formed -/
def SettingsOk (s : Settings) : Prop :=
  hasKey s SettingCodes.INITIAL_WINDOW_SIZE = true ∧ hasKey s SettingCodes.ENABLE_PUSH = true ∧ s.all entryOk = true

theorem validate_setting_ok (k v : Int) : ∃ c, validate_setting k v = .ok c ∧ 0 ≤ c ∧ c ≤ 3 := by
  unfold validate_setting
  repeat' split
  all_goals exact ⟨_, rfl, by decide, by decide⟩

theorem settingsOk_init_cl : SettingsOk (Settings.ofInit client_local_settings) := by unfold SettingsOk; decide
theorem settingsOk_init_cr : SettingsOk (Settings.ofInit client_remote_settings) := by unfold SettingsOk; decide
theorem settingsOk_init_sl : SettingsOk (Settings.ofInit server_local_settings) := by unfold SettingsOk; decide
theorem settingsOk_init_sr : SettingsOk (Settings.ofInit server_remote_settings) := by unfold SettingsOk; decide

theorem getItem?_nil (k : Int) : Settings.getItem? [] k = none := rfl

theorem getItem?_cons (a : Int) (l : List (Option Int)) (t : Settings) (k : Int) :
    Settings.getItem? ((a, l) :: t) k = if k = a then headVal l else Settings.getItem? t k := by
  unfold Settings.getItem?
  simp only [List.lookup]
  by_cases h : k = a
  · subst h; simp only [beq_self_eq_true, if_true]; unfold headVal
    cases l with
    | nil => rfl
    | cons x xs => cases x <;> rfl
  · have : (k == a) = false := by simp [h]
    simp only [this, h, if_false]

/-- a well-formed settings object has a current value for INITIAL_WINDOW_SIZE and ENABLE_PUSH -/
theorem getItem?_of_ok (s : Settings) (k : Int) (hm : mustHave k = true) (hk : (s.any fun e => e.1 == k) = true)
    (h : s.all entryOk = true) : ∃ v, Settings.getItem? s k = some v := by
  induction s with
  | nil => simp at hk
  | cons e t ih =>
    obtain ⟨a, l⟩ := e
    simp only [List.all_cons, Bool.and_eq_true, List.any_cons, Bool.or_eq_true] at h hk
    rw [getItem?_cons]
    by_cases hka : k = a
    · subst hka
      simp only [if_true]
      have h1 := h.1
      unfold entryOk at h1
      simp only [Bool.and_eq_true, hm, Bool.not_true, Bool.false_or] at h1
      exact Option.isSome_iff_exists.mp h1.2
    · simp only [hka, if_false]
      apply ih _ h.2
      rcases hk with hk | hk
      · exact absurd (by simpa using hk : a = k).symm hka
      · exact hk


theorem headVal_append (l : List (Option Int)) (x : Option Int) (h : l ≠ []) : headVal (l ++ [x]) = headVal l := by
  cases l with
  | nil => contradiction
  | cons a t => cases a <;> rfl

theorem entryOk_grow (a v : Int) (l : List (Option Int)) (h : entryOk (a, l) = true) (hv : validB a (some v) = true) :
    entryOk (a, l ++ [some v]) = true := by
  unfold entryOk at h ⊢
  simp only [Bool.and_eq_true] at h ⊢
  obtain ⟨⟨⟨h1, h2⟩, h3⟩, h4⟩ := h
  cases l with
  | nil => simp at h1
  | cons x xs =>
    simp only [List.cons_append, List.tail_cons, List.all_append, List.all_cons, List.all_nil, Bool.and_true,
      Bool.and_eq_true] at h2 h3 ⊢
    refine ⟨⟨⟨rfl, h2, rfl⟩, h3.1, h3.2, hv⟩, ?_⟩
    have : headVal (x :: (xs ++ [some v])) = headVal (x :: xs) := by cases x <;> rfl
    rw [this]; exact h4

theorem hasKey_append (s : Settings) (k v : Int) (j : Nat) (h : hasKey s j = true) :
    hasKey (Settings.append s k v) j = true := by
  unfold hasKey Settings.append at *
  split
  · rw [List.any_map]
    rw [List.any_eq_true] at h ⊢
    obtain ⟨e, he, hj⟩ := h
    refine ⟨e, he, ?_⟩
    simp only [Function.comp]
    split <;> exact hj
  · simp [List.any_append, h]

theorem settingsOk_append (s : Settings) (k v : Int) (h : SettingsOk s) (hv : validB k (some v) = true) :
    SettingsOk (Settings.append s k v) := by
  obtain ⟨h1, h2, h3⟩ := h
  refine ⟨hasKey_append _ _ _ _ h1, hasKey_append _ _ _ _ h2, ?_⟩
  unfold Settings.append
  split
  · rw [List.all_map]
    rw [List.all_eq_true] at h3 ⊢
    intro e he
    simp only [Function.comp]
    split
    · rename_i hk
      have hk' : e.1 = k := by simpa using hk
      obtain ⟨a, l⟩ := e
      simp only at hk'
      subst hk'
      exact entryOk_grow _ _ _ (h3 _ he) hv
    · exact h3 e he
  · rename_i hnot
    simp only [List.all_append, h3, List.all_cons, List.all_nil, Bool.and_true, Bool.true_and]
    -- a key that was missing is not one of the two that must be present
    have hm : mustHave k = false := by
      unfold mustHave
      unfold hasKey at h1 h2
      rw [Bool.or_eq_false_iff]
      constructor
      · apply Bool.eq_false_iff.mpr
        intro hk
        have hk' : k = (SettingCodes.INITIAL_WINDOW_SIZE : Nat) := by simpa using hk
        subst hk'
        exact hnot h1
      · apply Bool.eq_false_iff.mpr
        intro hk
        have hk' : k = (SettingCodes.ENABLE_PUSH : Nat) := by simpa using hk
        subst hk'
        exact hnot h2
    unfold entryOk
    simp only [List.isEmpty_cons, Bool.not_false, List.tail_cons, List.all_cons, List.all_nil, Bool.and_true,
      Option.isSome_some, Bool.true_and, hv, hm, Bool.or_true]
    rfl

/-- `Settings.__setitem__`: on success the object stays well-formed; a refusal is InvalidSettingsValueError with a
    PROTOCOL_ERROR / FLOW_CONTROL_ERROR code -/
theorem setItem_spec (s : Settings) (k v : Int) (h : SettingsOk s) :
    match Settings.setItem s k v with
    | .ok s' => SettingsOk s'
    | .error e => Plain e := by
  unfold Settings.setItem
  obtain ⟨c, hc, h0, h3⟩ := validate_setting_ok k v
  rw [hc]
  simp only
  by_cases hc0 : c = 0
  · subst hc0
    simp only [ne_eq, not_true_eq_false, if_false]
    apply settingsOk_append _ _ _ h
    unfold validB; simp only [hc]; rfl
  · simp only [ne_eq, hc0, not_false_eq_true, if_true]
    exact ⟨⟨by decide, c, rfl, h0, by omega⟩, rfl⟩

theorem update_spec (s : Settings) (items : List (Int × Int)) (h : SettingsOk s) :
    SettingsOk (Settings.update s items).2 ∧ ∀ e, (Settings.update s items).1 = .error e → Plain e := by
  induction items generalizing s with
  | nil => exact ⟨h, fun e he => by simp [Settings.update] at he⟩
  | cons kv rest ih =>
    obtain ⟨k, v⟩ := kv
    unfold Settings.update
    have hs := setItem_spec s k v h
    cases hsi : Settings.setItem s k v with
    | ok s' => rw [hsi] at hs; exact ih s' hs
    | error e =>
      rw [hsi] at hs
      exact ⟨h, fun e' he' => by injection he' with he'; subst he'; exact hs⟩


def popEntry (e : Int × List (Option Int)) : Int × List (Option Int) :=
  match e.2 with
  | _ :: rest@(_ :: _) => (e.1, rest)
  | _ => e

theorem acknowledge_snd (s : Settings) : (Settings.acknowledge s).2 = s.map popEntry := rfl

theorem popEntry_fst (e : Int × List (Option Int)) : (popEntry e).1 = e.1 := by
  unfold popEntry; split <;> rfl

theorem popEntry_ok (e : Int × List (Option Int)) (h : entryOk e = true) : entryOk (popEntry e) = true := by
  obtain ⟨k, l⟩ := e
  unfold popEntry
  split
  · rename_i x y r heq
    simp only at heq
    subst heq
    unfold entryOk at h ⊢
    simp only [Bool.and_eq_true, List.tail_cons, List.all_cons] at h ⊢
    obtain ⟨⟨⟨_, h2, h3⟩, _, h5, h6⟩, _⟩ := h
    refine ⟨⟨⟨rfl, h3⟩, h5, h6⟩, ?_⟩
    cases y with
    | none => simp at h2
    | some v => simp [headVal]
  · exact h

theorem acknowledge_ok (s : Settings) (h : SettingsOk s) : SettingsOk (Settings.acknowledge s).2 := by
  obtain ⟨h1, h2, h3⟩ := h
  rw [acknowledge_snd]
  refine ⟨?_, ?_, ?_⟩
  · unfold hasKey at *; rw [List.any_map]; simpa [Function.comp, popEntry_fst] using h1
  · unfold hasKey at *; rw [List.any_map]; simpa [Function.comp, popEntry_fst] using h2
  · rw [List.all_map]; rw [List.all_eq_true] at h3 ⊢
    intro e he; exact popEntry_ok e (h3 e he)

/-! ### every stored value fits a SETTINGS frame -/

def optU32 (o : Option Int) : Bool :=
  match o with
  | none => true
  | some v => decide (0 ≤ v) && decide (v ≤ 4294967295)

/-- every stored value (current or pending) fits the 32 bits a SETTINGS frame gives it; the local settings keep this
    (`update_settings` checks the range before it stores anything), so the frame `initiate_connection` builds from them
    can always be serialised -/
def LS32 (s : Settings) : Prop := (s.all fun e => e.2.all optU32) = true

theorem ls32_init_cl : LS32 (Settings.ofInit client_local_settings) := by unfold LS32; decide
theorem ls32_init_sl : LS32 (Settings.ofInit server_local_settings) := by unfold LS32; decide

theorem ls32_append (s : Settings) (k v : Int) (h : LS32 s) (hv : 0 ≤ v ∧ v ≤ 4294967295) : LS32 (Settings.append s k v) := by
  unfold LS32 Settings.append at *
  have hv' : optU32 (some v) = true := by simp [optU32, hv.1, hv.2]
  split
  · rw [List.all_map]
    rw [List.all_eq_true] at h ⊢
    intro e he
    have := h e he
    simp only [Function.comp]
    split
    · simp only [List.all_append, List.all_cons, List.all_nil, Bool.and_true, Bool.and_eq_true]
      exact ⟨this, hv'⟩
    · exact this
  · rw [List.all_append, h]
    simp [optU32, hv.1, hv.2]

theorem ls32_setItem (s : Settings) (k v : Int) (h : LS32 s) (hv : 0 ≤ v ∧ v ≤ 4294967295) (s' : Settings)
    (hs : Settings.setItem s k v = .ok s') : LS32 s' := by
  unfold Settings.setItem at hs
  split at hs
  · split at hs
    · cases hs
    · injection hs with hs; subst hs; exact ls32_append s k v h hv
  · cases hs

theorem ls32_update (s : Settings) (items : List (Int × Int)) (h : LS32 s)
    (hi : ∀ kv ∈ items, 0 ≤ kv.2 ∧ kv.2 ≤ 4294967295) : LS32 (Settings.update s items).2 := by
  induction items generalizing s with
  | nil => exact h
  | cons kv rest ih =>
    obtain ⟨k, v⟩ := kv
    unfold Settings.update
    cases hsi : Settings.setItem s k v with
    | ok s' =>
      exact ih s' (ls32_setItem s k v h (hi (k, v) (List.mem_cons_self ..)) s' hsi)
        (fun x hx => hi x (List.mem_cons_of_mem _ hx))
    | error e => exact h

theorem ls32_items (s : Settings) (h : LS32 s) : ∀ kv ∈ Settings.items s, 0 ≤ kv.2 ∧ kv.2 < 4294967296 := by
  intro kv hkv
  unfold Settings.items at hkv
  simp only [List.mem_filterMap] at hkv
  obtain ⟨e, he, hm⟩ := hkv
  unfold LS32 at h
  rw [List.all_eq_true] at h
  have := h e he
  split at hm
  · rename_i v rest heq
    injection hm with hm
    subst hm
    rw [heq] at this
    simp only [List.all_cons, Bool.and_eq_true, optU32, decide_eq_true_eq] at this
    exact ⟨this.1.1, by have := this.1.2; show v < 4294967296; omega⟩
  · cases hm

theorem ls32_acknowledge (s : Settings) (h : LS32 s) : LS32 (Settings.acknowledge s).2 := by
  rw [acknowledge_snd]
  unfold LS32 at *
  rw [List.all_map]
  rw [List.all_eq_true] at h ⊢
  intro e he
  have := h e he
  simp only [Function.comp]
  unfold popEntry
  split
  · rename_i x y r heq
    rw [heq] at this
    simp only [List.all_cons, Bool.and_eq_true] at this ⊢
    exact this.2
  · exact this

/-- what `acknowledge()` reports: the new value passed validation; for a key that must have a current value the old
    value is not `None` -/
theorem acknowledge_changes (s : Settings) (h : s.all entryOk = true) (k : Int) (old : Option Int) (new : Int)
    (hm : (k, old, new) ∈ (Settings.acknowledge s).1) :
    validB k (some new) = true ∧ (mustHave k = true → old.isSome = true) := by
  simp only [Settings.acknowledge] at hm
  rw [List.mem_filterMap] at hm
  obtain ⟨e, he, hmatch⟩ := hm
  rw [List.all_eq_true] at h
  have hok := h e he
  obtain ⟨a, l⟩ := e
  simp only at hmatch
  split at hmatch
  · rename_i xl o n r
    injection hmatch with hmatch
    injection hmatch with e1 e2
    injection e2 with e2 e3
    subst e1 e2 e3
    unfold entryOk at hok
    simp only [Bool.and_eq_true, List.all_cons, List.tail_cons] at hok
    obtain ⟨⟨⟨_, _, _⟩, _, h5, _⟩, h7⟩ := hok
    refine ⟨h5, fun hmh => ?_⟩
    simp only [hmh, Bool.not_true, Bool.false_or] at h7
    cases o <;> simp_all [headVal]
  · simp at hmatch

theorem findChange_mem (changes : List (Int × Option Int × Int)) (k : Nat) (old : Option Int) (new : Int)
    (h : findChange changes k = some (old, new)) : ((k : Int), old, new) ∈ changes := by
  unfold findChange at h
  cases hf : changes.find? (fun e => e.1 == (k : Int)) with
  | none => rw [hf] at h; simp at h
  | some e =>
    rw [hf] at h
    simp only [Option.map_some, Option.some.injEq] at h
    have hmem := List.mem_of_find?_eq_some hf
    have hk := List.find?_some hf
    obtain ⟨a, b⟩ := e
    simp only at h hk
    have : a = (k : Int) := by simpa using hk
    subst this; subst h
    exact hmem

theorem validB_frame (v : Int) (h : validB (SettingCodes.MAX_FRAME_SIZE : Nat) (some v) = true) : 16384 ≤ v ∧ v ≤ 16777215 := by
  have hk : ((SettingCodes.MAX_FRAME_SIZE : Nat) : Int) = 5 := rfl
  rw [hk] at h
  by_cases hv : 16384 ≤ v ∧ v ≤ 16777215
  · exact hv
  · exfalso
    have h1 : validate_setting 5 v = .ok 1 := by
      unfold validate_setting
      have : (decide (16384 ≤ v) && decide (v ≤ 16777215)) = false := by
        rcases Classical.not_and_iff_not_or_not.mp hv with h | h <;> simp [h]
      simp [this]
    unfold validB at h
    simp only [h1] at h
    simp at h

theorem validB_iws (v : Int) (h : validB (SettingCodes.INITIAL_WINDOW_SIZE : Nat) (some v) = true) : 0 ≤ v ∧ v ≤ 2147483647 := by
  have hk : ((SettingCodes.INITIAL_WINDOW_SIZE : Nat) : Int) = 4 := rfl
  rw [hk] at h
  by_cases hv : 0 ≤ v ∧ v ≤ 2147483647
  · exact hv
  · exfalso
    have h1 : validate_setting 4 v = .ok 3 := by
      unfold validate_setting
      have : (decide (0 ≤ v) && decide (v ≤ 2147483647)) = false := by
        rcases Classical.not_and_iff_not_or_not.mp hv with h | h <;> simp [h]
      simp [this]
    unfold validB at h
    simp only [h1] at h
    simp at h

end H2
