#!/bin/sh
# par_clean.sh <tier> <seed> <pid> : one check of the unchanged /repo in a scratch copy of /verif (its own work/ and
# evidence/), so that several can run side by side without touching /verif's evidence.  Prints the result lines.
#   printf 'thorough 1 %s\n' C01 C02 ... | xargs -P 5 -L 1 sh tools/par_clean.sh
TIER=$1; SEED=$2; P=$3
W=$(mktemp -d /var/tmp/clean_${P}_XXXXXX)
(cd /verif && tar cf - --exclude=.git --exclude=work --exclude=evidence . ) | (cd $W && tar xf -)
mkdir -p $W/work $W/evidence
o=$(cd $W && VERIF_SEED=$SEED H2_SRC=/repo/src timeout 3600 ./check $P --tier $TIER 2>&1)
echo "$o" | grep -E "VIOLATION|-> " | sed "s#$W#/verif#; s/^/[$TIER seed $SEED] /" | cut -c1-260
echo "$o" | grep -q -- "-> " || echo "[$TIER seed $SEED] $P CRASHED: $(echo "$o" | tail -1 | cut -c1-160)"
echo "$o" | grep -q "VIOLATION" && cp -r $W/work/replay /var/tmp/clean_fail_${P}_$SEED 2>/dev/null
rm -rf $W
