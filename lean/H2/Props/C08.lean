/-
  C08 — the library refuses to emit messages that violate HTTP/2 message rules.

  Shape-level statements are decided over the transition table regenerated
  from stream.py; connection-level statements are about the hand model.
-/
import H2.Proofs.Shapes
import H2.Proofs.Closed
import H2.Proofs.StreamLemmas

namespace H2.C08
open H2 H2.Gen H2.Conn

abbrev accepted (sh : Shape) (i : StreamInputs) : Bool := okStep sh i

/-- a stream whose role is "client" never accepts SEND_PUSH_PROMISE, in any state -/
theorem C08_client_never_pushes : ∀ sh, (!Good sh || sh.client != some true || !accepted sh .SEND_PUSH_PROMISE) = true :=
  forall_shape (by decide +kernel)

/-- once trailers were sent, no further header block (final or informational) is accepted -/
theorem C08_no_headers_after_trailers : ∀ sh, (!Good sh || !sh.trailersSent ||
    (!accepted sh .SEND_HEADERS && !accepted sh .SEND_INFORMATIONAL_HEADERS)) = true :=
  forall_shape (by decide +kernel)

/-- informational responses are refused once the final response headers were sent -/
theorem C08_no_informational_after_final : ∀ sh, (!Good sh || !sh.headersSent ||
    !accepted sh .SEND_INFORMATIONAL_HEADERS) = true :=
  forall_shape (by decide +kernel)

/-- the send side of a stream never re-opens: after END_STREAM was sent (half-closed(local) or closed) no DATA,
    END_STREAM or header block is accepted, and *no input whatsoever* (in particular no received frame) takes the
    stream back to a state where it could send -/
theorem C08_send_side_stays_closed : ∀ sh i, (!Good sh ||
    !(sh.state == .HALF_CLOSED_LOCAL || sh.state == .CLOSED) ||
    (((stepShape sh i).2.state == .HALF_CLOSED_LOCAL || (stepShape sh i).2.state == .CLOSED) &&
     !accepted sh .SEND_DATA && !accepted sh .SEND_END_STREAM && !accepted sh .SEND_HEADERS &&
     !accepted sh .SEND_INFORMATIONAL_HEADERS)) = true :=
  forall_shape_input (by decide +kernel)

/-- trailers: a second final header block is only ever accepted as trailers, i.e. after `headersSent`
    the accepted SEND_HEADERS sets `trailersSent` (and the stream method then insists on END_STREAM) -/
theorem C08_second_headers_are_trailers : ∀ sh, (!Good sh || !sh.headersSent || !accepted sh .SEND_HEADERS ||
    (stepShape sh .SEND_HEADERS).2.trailersSent) = true :=
  forall_shape (by decide +kernel)

/-- **DATA / END_STREAM before the final headers (partial)**: on streams where this endpoint is the client, DATA and
    END_STREAM are accepted only after the request headers.  For the *server* role the statement is false of the
    unchanged tree (known finding D17b), see the witness below. -/
theorem C08_data_after_headers_partial : ∀ sh, (!Good sh || sh.client != some true ||
    !(accepted sh .SEND_DATA || accepted sh .SEND_END_STREAM) || sh.headersSent) = true :=
  forall_shape (by decide +kernel)

theorem C08_server_data_before_headers_witness :
    Good { state := .OPEN, client := some false, headersReceived := true } = true ∧
    accepted { state := .OPEN, client := some false, headersReceived := true } .SEND_DATA = true := by decide

/-! ### a refused `send_headers` does not count as headers sent (fix 3adcb20) -/

/-- the three fields `send_headers` saves before the transition and restores when the block is refused;
    an input the table itself refuses closes the stream (that is `process_input`'s documented reaction) -/
def frozen (a b : Shape) : Bool :=
  b.headersSent == a.headersSent && b.trailersSent == a.trailersSent && (b.state == a.state || b.state == .CLOSED)

theorem refused_transition_frozen : ∀ sh i, (okStep sh i ||
    !(i == .SEND_HEADERS || i == .SEND_INFORMATIONAL_HEADERS) || frozen sh (stepShape sh i).2) = true :=
  forall_shape_input (by decide +kernel)

/-- END_STREAM on the final header block is always accepted right after the block itself was -/
theorem end_stream_after_headers : ∀ sh,
    (!okStep sh .SEND_HEADERS || okStep (stepShape sh .SEND_HEADERS).2 .SEND_END_STREAM) = true :=
  forall_shape (by decide +kernel)

theorem sendHeadersAs_refused (input : StreamInputs) (cfg : Config) (hs : List Header) (es pp : Bool) (st : Stream × Hp)
    (hin : input = .SEND_HEADERS ∨ (input = .SEND_INFORMATIONAL_HEADERS ∧ es = false)) :
    wp (Stream.sendHeadersAs input cfg hs es pp) (fun _ _ => True)
      (fun _ t => frozen st.1.sm.sh t.1.sm.sh = true) st := by
  simp only [Stream.sendHeadersAs, onStream]
  wps
  apply wp_processInput_sharp
  · intro evs sh hstep
    wps
    refine wp_mono (guarded_frame cfg hs es pp evs _) ?_ ?_
    · intro blocks t ht
      split
      · -- END_STREAM follows: only on final headers, and the table accepts it there
        wps
        rw [ht]
        apply wp_processInput_sharp
        · intros; trivial
        · intro e sh2 hbad _
          exfalso
          have hE := end_stream_after_headers st.1.sm.sh
          rcases hin with h | ⟨_, h⟩
          · subst h
            simp only [okStep, hstep] at hE
            simp only [okStep] at hbad
            simp_all
          · simp_all
      · wps
    · intro e t _
      simp [frozen, Stream.restoreSaved]
  · intro e sh hbad hsh
    have hT := refused_transition_frozen st.1.sm.sh input
    rcases hin with h | ⟨h, _⟩ <;> subst h <;> simp_all

/-- **whenever `H2Stream.send_headers` raises** — informational with END_STREAM, a transition the table refuses,
    trailers without END_STREAM, header validation, the encoder, fragmentation — the stream's `headers_sent`
    and `trailers_sent` are what they were and its state is what it was (or CLOSED when the table refused the
    input): a refused header block never makes DATA / END_STREAM / trailers acceptable afterwards -/
theorem C08_refused_headers_leave_stream_state (cfg : Config) (hs : List Header) (es pp : Bool) (st : Stream × Hp) :
    wp (Stream.sendHeaders cfg hs es pp) (fun _ _ => True)
      (fun _ t => frozen st.1.sm.sh t.1.sm.sh = true) st := by
  have hrefl : frozen st.1.sm.sh st.1.sm.sh = true := by simp [frozen]
  simp only [Stream.sendHeaders]
  wps
  split
  · split
    · rename_i info _
      split
      · exact hrefl
      · apply sendHeadersAs_refused
        cases info <;> cases es <;> simp_all
    · exact hrefl
  · simp only [Bool.false_and, Bool.false_eq_true, if_false]
    exact sendHeadersAs_refused _ _ _ _ _ _ (Or.inl rfl)

/-- … and from an idle, reserved(local) or closed stream that did not move, DATA and END_STREAM are refused -/
theorem C08_no_data_from_unopened_states : ∀ sh, (!(sh.state == .IDLE || sh.state == .RESERVED_LOCAL ||
    sh.state == .RESERVED_REMOTE || sh.state == .CLOSED) ||
    (!accepted sh .SEND_DATA && !accepted sh .SEND_END_STREAM)) = true :=
  forall_shape (by decide +kernel)

/-- non-vacuity: response headers on a promised stream are accepted by the table (so the restore is what keeps
    the stream reserved when the block is then refused), and restoring really brings the state back -/
example : accepted { state := .RESERVED_LOCAL, client := some false, headersReceived := true } .SEND_HEADERS = true ∧
    (stepShape { state := .RESERVED_LOCAL, client := some false, headersReceived := true } .SEND_HEADERS).2.state
      = .HALF_CLOSED_REMOTE := by decide

/-! ### connection level -/

/-- a server cannot open a stream with HEADERS: `send_headers` on an id that is not a live stream raises and
    changes nothing -/
theorem C08_server_cannot_open (c : Conn) (sid : Int) hs es pw pd pe (hsrv : c.cfg.client = false)
    (hno : hasStream c sid = false) :
    wp (sendHeaders sid hs es pw pd pe) (fun _ _ => False) (fun _ c' => c' = c) c := by
  simp only [sendHeaders, sendHeadersTail, addPriority]
  wps
  simp only [hsrv, Bool.not_false, if_true, Bool.false_eq_true, if_false]
  repeat' (first | rfl | wps | split)
  all_goals (simp only [getStreamById]; wps; simp only [hno, Bool.false_eq_true, if_false]; repeat' (first | rfl | trivial | split))

/-- a server can never send PRIORITY -/
theorem C08_server_no_priority (c : Conn) (sid : Int) w d e (hsrv : c.cfg.client = false) :
    wp (prioritize sid w d e) (fun _ _ => False) (fun _ c' => c' = c) c := by
  simp only [prioritize]
  wps
  simp [hsrv]

/-- a client can never advertise alt-svc -/
theorem C08_client_no_altsvc (c : Conn) f o sid (hcl : c.cfg.client = true) :
    wp (advertiseAlternativeService f o sid) (fun _ _ => False) (fun _ c' => c' = c) c := by
  simp only [advertiseAlternativeService]
  wps
  repeat' (first | rfl | split)
  all_goals simp_all

/-- a client can never push: whatever the peer's ENABLE_PUSH, the connection state machine of a client
    (never SERVER_OPEN) has no SEND_PUSH_PROMISE transition -/
theorem C08_client_no_push (c : Conn) sid p hs (hst : c.cstate ≠ .SERVER_OPEN) :
    wp (pushStream sid p hs) (fun _ _ => False) (fun _ _ => True) c := by
  simp only [pushStream]
  wps
  have htab : connTable c.cstate .SEND_PUSH_PROMISE = none := by
    cases h : c.cstate <;> simp_all [connTable]
  repeat' (first | trivial | (simp only [wp, connInput, htab]; done) | wps | split)

/-- non-vacuity -/
example : accepted { state := .OPEN, client := some true, headersSent := true } .SEND_DATA = true ∧
    accepted { state := .HALF_CLOSED_LOCAL, client := some true, headersSent := true } .SEND_DATA = false := by decide

end H2.C08
