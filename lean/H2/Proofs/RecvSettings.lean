/-
  Receive path: the SETTINGS handler (peer settings applied and acknowledged; our settings acknowledged).
-/
import H2.Proofs.RecvHandlers
namespace H2
open H2.Gen H2.Conn

theorem notIdle_append {a b : List (Int × Stream)} : StreamsNotIdle (a ++ b) ↔ StreamsNotIdle a ∧ StreamsNotIdle b := by
  unfold StreamsNotIdle
  constructor
  · intro h; exact ⟨fun e he => h e (List.mem_append_left _ he), fun e he => h e (List.mem_append_right _ he)⟩
  · intro h e he; rw [List.mem_append] at he; rcases he with h1 | h1; exact h.1 e h1; exact h.2 e h1

theorem fcc_go_spec (delta : Int) (done rest : List (Int × Stream)) (h : StreamsNotIdle (done ++ rest)) :
    StreamsNotIdle (flowControlChangeFromSettings.go delta done rest).2 ∧
    ∀ e, (flowControlChangeFromSettings.go delta done rest).1 = .error e → Plain e := by
  induction rest generalizing done with
  | nil =>
    simp only [flowControlChangeFromSettings.go]
    exact ⟨by simpa using h, fun e he => by simp at he⟩
  | cons x xs ih =>
    obtain ⟨k, st⟩ := x
    simp only [flowControlChangeFromSettings.go]
    cases hg : guard_increment_window st.outWin delta with
    | ok w =>
      simp only
      apply ih
      rw [notIdle_append] at h ⊢
      rw [notIdle_append]
      refine ⟨⟨h.1, ?_⟩, fun e he => h.2 e (List.mem_cons_of_mem _ he)⟩
      intro e he; simp at he; subst he; exact h.2 (k, st) (List.mem_cons_self ..)
    | error e =>
      simp only
      refine ⟨h, fun e' he' => ?_⟩
      injection he' with he'; subst he'
      rw [giw_err _ _ _ hg]
      exact ⟨goodExc_ofPyErr_h2 _ (by decide), by decide⟩

theorem inboundFlowControlChange_spec (delta : Int) (st : Stream) :
    wp (Stream.inboundFlowControlChange delta) (fun _ st' => st'.sm = st.sm) (fun e st' => Plain e ∧ st'.sm = st.sm) st := by
  unfold Stream.inboundFlowControlChange
  wps
  apply wp_onWM_good
  · intro e w' h; exact wm_opened_err _ _ _ _ h
  · intro v w; wps
  · intro e w hp; exact ⟨hp, rfl⟩

theorem ifcc_go_spec (delta : Int) (done rest : List (Int × Stream)) (h : StreamsNotIdle (done ++ rest)) :
    StreamsNotIdle (inboundFlowControlChangeFromSettings.go delta done rest).2 ∧
    ∀ e, (inboundFlowControlChangeFromSettings.go delta done rest).1 = .error e → Plain e := by
  induction rest generalizing done with
  | nil =>
    simp only [inboundFlowControlChangeFromSettings.go]
    exact ⟨by simpa using h, fun e he => by simp at he⟩
  | cons x xs ih =>
    obtain ⟨k, st⟩ := x
    simp only [inboundFlowControlChangeFromSettings.go]
    have hs := inboundFlowControlChange_spec delta st
    unfold wp at hs
    cases hg : Stream.inboundFlowControlChange delta st with
    | mk r st' =>
      rw [hg] at hs
      have hst : st.sm.state ≠ .IDLE := by
        rw [notIdle_append] at h; exact h.2 (k, st) (List.mem_cons_self ..)
      cases r with
      | ok u =>
        simp only at hs ⊢
        apply ih
        rw [notIdle_append] at h ⊢
        rw [notIdle_append]
        refine ⟨⟨h.1, ?_⟩, fun e he => h.2 e (List.mem_cons_of_mem _ he)⟩
        intro e he; simp at he; subst he; show st'.sm.state ≠ _; rw [hs]; exact hst
      | error e =>
        simp only at hs ⊢
        refine ⟨?_, fun e' he' => by injection he' with he'; subst he'; exact hs.1⟩
        rw [notIdle_append] at h ⊢
        refine ⟨h.1, ?_⟩
        intro e1 he1
        rcases List.mem_cons.mp he1 with h1 | h1
        · subst h1; show st'.sm.state ≠ _; rw [hs.2]; exact hst
        · exact h.2 e1 (List.mem_cons_of_mem _ h1)


/-- `_flow_control_change_from_settings` on a live connection -/
theorem wp_fcc_live {Q : Unit → Conn → Prop} {E : Exc → Conn → Prop} (o n : Int) (c : Conn) (hl : Live c)
    (hq : ∀ ss, StreamsNotIdle ss → Q () { c with streams := ss })
    (he : ∀ e ss, Plain e → StreamsNotIdle ss → E e { c with streams := ss }) : wp (flowControlChangeFromSettings o n) Q E c := by
  unfold wp flowControlChangeFromSettings
  simp only
  have hs := fcc_go_spec (n - o) [] c.streams (by simpa using hl.2.2)
  cases hg : flowControlChangeFromSettings.go (n - o) [] c.streams with
  | mk r ss =>
    rw [hg] at hs
    cases r with
    | ok u => exact hq ss hs.1
    | error e => exact he e ss (hs.2 e rfl) hs.1

theorem wp_ifcc_live {Q : Unit → Conn → Prop} {E : Exc → Conn → Prop} (o n : Int) (c : Conn) (hl : Live c)
    (hq : ∀ ss, StreamsNotIdle ss → Q () { c with streams := ss })
    (he : ∀ e ss, Plain e → StreamsNotIdle ss → E e { c with streams := ss }) : wp (inboundFlowControlChangeFromSettings o n) Q E c := by
  unfold wp inboundFlowControlChangeFromSettings
  simp only
  have hs := ifcc_go_spec (n - o) [] c.streams (by simpa using hl.2.2)
  cases hg : inboundFlowControlChangeFromSettings.go (n - o) [] c.streams with
  | mk r ss =>
    rw [hg] at hs
    cases r with
    | ok u => exact hq ss hs.1
    | error e => exact he e ss (hs.2 e rfl) hs.1

/-- `_local_settings_acked` -/
theorem wp_localSettingsAcked {Q : List (Int × Option Int × Int) → Conn → Prop} {E : Exc → Conn → Prop} (c : Conn)
    (hl : Live c) (hq : ∀ a c', Live c' → Q a c') (he : ∀ e c', Plain e → WF c' → E e c') :
    wp localSettingsAcked Q E c := by
  unfold localSettingsAcked
  wps
  have hack := acknowledge_ok c.localSettings hl.1.ls
  have hack32 := ls32_acknowledge c.localSettings hl.1.ls32
  have hch := acknowledge_changes c.localSettings hl.1.ls.2.2
  generalize (Settings.acknowledge c.localSettings).1 = changes at *
  generalize (Settings.acknowledge c.localSettings).2 = ls' at *
  have hl1 : Live { c with localSettings := ls' } := ⟨⟨hack, hl.1.rs, hl.1.mof, hl.1.dec, hack32⟩, hl.2.1, hl.2.2⟩
  have fin : ∀ ss, StreamsNotIdle ss →
      Q changes (localOtherChanges changes { c with localSettings := ls', streams := ss }) := by
    intro ss hss
    apply hq
    unfold localOtherChanges
    repeat' split
    all_goals exact ⟨⟨hack, hl.1.rs, hl.1.mof, hl.1.dec, hack32⟩, hl.2.1, hss⟩
  unfold localWindowChange
  cases hf : findChange changes SettingCodes.INITIAL_WINDOW_SIZE with
  | none => wps; exact fin _ hl1.2.2
  | some on =>
    obtain ⟨old, new⟩ := on
    have hm := hch _ _ _ (findChange_mem _ _ _ _ hf)
    have hsome := hm.2 (by decide)
    cases old with
    | none => simp at hsome
    | some o =>
      simp only
      apply wp_ifcc_live _ _ _ hl1
      · intro ss hss; wps; exact fin ss hss
      · intro e ss hp hss; exact he _ _ hp ⟨⟨hack, hl.1.rs, hl.1.mof, hl.1.dec, hack32⟩, fun _ => hss⟩


theorem notIdle_mapMax {ss : List (Int × Stream)} (n : Int) (h : StreamsNotIdle ss) :
    StreamsNotIdle (ss.map fun e => (e.1, { e.2 with maxOutFrame := n })) := by
  intro e he
  simp only [List.mem_map] at he
  obtain ⟨e0, he0, heq⟩ := he
  subst heq
  exact h e0 he0

/-- `_acknowledge_settings` -/
theorem wp_acknowledgeSettings {Q : List Frame → Conn → Prop} {E : Exc → Conn → Prop} (c : Conn)
    (hl : Live c) (hq : ∀ fs c', Live c' → FramesOk fs → Q fs c') (he : ∀ e c', Plain e → WF c' → E e c') :
    wp acknowledgeSettings Q E c := by
  unfold acknowledgeSettings
  wps
  apply wp_connInput_live _ _ hl.wf (by unfold notGoaway; decide)
  · intro t hl0
    wps
    have hack := acknowledge_ok c.remoteSettings hl.1.rs
    have hch := acknowledge_changes c.remoteSettings hl.1.rs.2.2
    generalize (Settings.acknowledge c.remoteSettings).1 = changes at *
    generalize (Settings.acknowledge c.remoteSettings).2 = rs' at *
    have hl1 : Live { c with cstate := t, remoteSettings := rs' } :=
      ⟨⟨hl.1.ls, hack, hl.1.mof, hl.1.dec, hl.1.ls32⟩, hl0.2.1, hl.2.2⟩
    have fin : ∀ ss, StreamsNotIdle ss →
        Q [Frame.settings true []] (remoteOtherChanges changes { c with cstate := t, remoteSettings := rs', streams := ss }) := by
      intro ss hss
      apply hq _ _ _ (framesOk_one (f := Frame.settings true []) trivial)
      unfold remoteOtherChanges
      simp only
      cases hf : findChange changes SettingCodes.MAX_FRAME_SIZE with
      | none =>
        simp only
        repeat' split
        all_goals exact ⟨⟨hl.1.ls, hack, hl.1.mof, hl.1.dec, hl.1.ls32⟩, hl0.2.1, hss⟩
      | some on =>
        obtain ⟨old, new⟩ := on
        have hm := hch _ _ _ (findChange_mem _ _ _ _ hf)
        have hnew := (validB_frame new hm.1).1
        simp only
        repeat' split
        all_goals exact ⟨⟨hl.1.ls, hack, hnew, hl.1.dec, hl.1.ls32⟩, hl0.2.1, notIdle_mapMax new hss⟩
    unfold remoteWindowChange
    cases hf : findChange changes SettingCodes.INITIAL_WINDOW_SIZE with
    | none => wps; exact fin _ hl1.2.2
    | some on =>
      obtain ⟨old, new⟩ := on
      have hm := hch _ _ _ (findChange_mem _ _ _ _ hf)
      have hsome := hm.2 (by decide)
      cases old with
      | none => simp at hsome
      | some o =>
        simp only
        apply wp_fcc_live _ _ _ hl1
        · intro ss hss; wps; exact fin ss hss
        · intro e ss hp hss; exact he _ _ hp ⟨⟨hl.1.ls, hack, hl.1.mof, hl.1.dec, hl.1.ls32⟩, fun _ => hss⟩
  · intro h; exact he _ _ plain_pErr h

theorem hspec_settings (ack : Bool) (items : List (Int × Int)) (c : Conn) (hwf : WF c) :
    wp (receiveSettingsFrame ack items) HQ CE c := by
  unfold receiveSettingsFrame
  wps
  apply wp_connInput_live _ _ hwf (by unfold notGoaway; decide)
  · intro t hl
    split
    · wps
      apply wp_localSettingsAcked _ hl
      · intro a c' hl'; wps; exact ⟨hl'.wf, framesOk_nil⟩
      · intro e c' hp hw; exact CE_plain hp hw.1
    · wps
      have hu := update_spec c.remoteSettings items hl.1.rs
      cases hU : Settings.update c.remoteSettings items with
      | mk r s' =>
        rw [hU] at hu
        cases r with
        | error e =>
          simp only
          wps
          exact CE_plain (hu.2 e rfl) ⟨hl.1.ls, hu.1, hl.1.mof, hl.1.dec, hl.1.ls32⟩
        | ok u =>
          simp only
          wps
          apply wp_acknowledgeSettings
          · exact ⟨⟨hl.1.ls, hu.1, hl.1.mof, hl.1.dec, hl.1.ls32⟩, hl.2.1, hl.2.2⟩
          · intro fs c' hl' hfs; wps; exact ⟨hl'.wf, hfs⟩
          · intro e c' hp hw; exact CE_plain hp hw.1
  · intro h; exact CE_plain plain_pErr h.1

/-- `_receive_settings_frame` on a frame that is not an ACK, called from the application's side (the h2c upgrade hands
    it the decoded HTTP2-Settings): whether it returns or raises, the invariant holds afterwards, and what it raises is
    a protocol error with a proper code -/
theorem settings_user (items : List (Int × Int)) (c : Conn) (hwf : WF c) :
    wp (receiveSettingsFrame false items) (fun _ c' => WF c') (fun e c' => Plain e ∧ WF c') c := by
  unfold receiveSettingsFrame
  wps
  apply wp_connInput_live _ _ hwf (by unfold notGoaway; decide)
  · intro t hl
    simp only [Bool.false_eq_true, if_false]
    wps
    have hu := update_spec c.remoteSettings items hl.1.rs
    cases hU : Settings.update c.remoteSettings items with
    | mk r s' =>
      rw [hU] at hu
      cases r with
      | error e =>
        simp only
        wps
        exact ⟨hu.2 e rfl, ⟨hl.1.ls, hu.1, hl.1.mof, hl.1.dec, hl.1.ls32⟩, fun _ => hl.2.2⟩
      | ok u =>
        simp only
        wps
        apply wp_acknowledgeSettings
        · exact ⟨⟨hl.1.ls, hu.1, hl.1.mof, hl.1.dec, hl.1.ls32⟩, hl.2.1, hl.2.2⟩
        · intro fs c' hl' hfs; wps; exact hl'.wf
        · intro e c' hp hw; exact ⟨hp, hw⟩
  · intro h; exact ⟨plain_pErr, h⟩

end H2
