/-
  C29 — API misuse is reported only through documented exceptions and emits nothing.

  Proved for every state `c` with `16384 ≤ c.maxOutFrame` (part of the invariant `WF`, which `receive_data`
  preserves: C17) and every argument value, for the public calls
      send_data, end_stream, increment_flow_control_window, ping, reset_stream, close_connection,
      update_settings, advertise_alternative_service, prioritize, acknowledge_received_data,
      data_to_send, clear_outbound_data_buffer, local/remote_flow_control_window, get_next_available_stream_id,
      open_outbound_streams, open_inbound_streams:
  the call returns, or it raises an h2 exception or ValueError, and then the output buffer and the history of
  sent frames are unchanged (`C29_step_partial`).  In particular `_prepare_for_sending`'s AssertionError, the
  StructError of an unserialisable frame and the KeyError of a direct `self.streams[...]` index are unreachable
  in these calls.  The lookup clause is `C29_lookup_*`.

  NOT covered by a theorem (the `_partial` in the name): send_headers, push_stream, initiate_connection,
  initiate_upgrade_connection.  For those the property is decided by the correspondence check and oracle_C29 only.
-/
import H2.Proofs.ApiOk
import H2.Proofs.ApiWF
import H2.Props.C17

namespace H2.C29
open H2 H2.Gen H2.Conn

/-- the observable result of a call is a return value, an h2 exception, or ValueError -/
def ResAllowed : Res → Prop
  | .ok _ => True
  | .h2 _ _ _ => True
  | .py k => k = .ValueError

/-- the public calls the theorem below covers -/
def covered : Op → Bool
  | .sendData .. | .endStream .. | .incrementWindow .. | .ping .. | .resetStream .. | .closeConnection ..
  | .updateSettings .. | .altsvc .. | .prioritize .. | .ackData .. | .dataToSend .. | .clearOut | .query .. => true
  | .initiateConnection | .initiateUpgrade .. | .sendHeaders .. | .pushStream .. | .recv .. => false

/-- what C29 says about one step -/
def StepOk (c : Conn) (r : Conn × Obs) : Prop :=
  ResAllowed r.2.res ∧ (r.2.res.isOk = false → r.1.out = c.out ∧ r.1.sent = c.sent)

theorem obs_of_api {α : Type} (f : α → Val) (m : CM α) (c : Conn) (h : ApiOk m c) :
    StepOk c (match m c with | (r, c') => (c', { res := resOf f r })) := by
  unfold ApiOk wp at h
  cases hm : m c with
  | mk r c' =>
    rw [hm] at h
    cases r with
    | ok a => exact ⟨trivial, fun hf => by cases hf⟩
    | error e =>
      simp only at h
      obtain ⟨ha, hos⟩ := h
      have hos' : c'.out = c.out ∧ c'.sent = c.sent := by
        unfold OS at hos; exact ⟨congrArg Prod.fst hos, congrArg Prod.snd hos⟩
      cases e with
      | h2 cls code sid evs => exact ⟨trivial, fun _ => hos'⟩
      | py k => exact ⟨ha, fun _ => hos'⟩

/-- **C29 for the covered calls**: any state whose peer frame-size limit is legal, any arguments. -/
theorem C29_step_partial (c : Conn) (op : Op) (hcov : covered op = true) (hm : 16384 ≤ c.maxOutFrame) :
    StepOk c (step c op) := by
  cases op with
  | initiateConnection => cases hcov
  | initiateUpgrade _ => cases hcov
  | sendHeaders _ _ _ _ _ _ => cases hcov
  | pushStream _ _ _ => cases hcov
  | recv _ => cases hcov
  | sendData sid d es pad => exact obs_of_api _ _ c (api_sendData sid d es pad c)
  | endStream sid => exact obs_of_api _ _ c (api_endStream sid c hm)
  | incrementWindow i sid => exact obs_of_api _ _ c (api_incrementWindow i sid c hm)
  | ping d => exact obs_of_api _ _ c (api_ping d c hm)
  | resetStream sid code => exact obs_of_api _ _ c (api_resetStream sid code c hm)
  | closeConnection code extra last => exact obs_of_api _ _ c (api_closeConnection code extra last c)
  | updateSettings items => exact obs_of_api _ _ c (api_updateSettings items c)
  | altsvc f o sid => exact obs_of_api _ _ c (api_altsvc f o sid c)
  | prioritize sid w d e => exact obs_of_api _ _ c (api_prioritize sid w d e c hm)
  | ackData size sid => exact obs_of_api _ _ c (api_ackData size sid c hm)
  | dataToSend n => exact obs_of_api _ _ c (api_dataToSend n c)
  | clearOut => exact obs_of_api _ _ c (api_clearOut c)
  | query q =>
    cases q with
    | localWindow sid => exact obs_of_api _ _ c (api_localWindow sid c)
    | remoteWindow sid => exact obs_of_api _ _ c (api_remoteWindow sid c)
    | nextStreamId => exact obs_of_api _ _ c (api_nextStreamId c)
    | openOut => exact obs_of_api _ _ c (api_openOut c)
    | openIn => exact obs_of_api _ _ c (api_openIn c)
    | inboundWindow =>
      refine obs_of_api Val.int (do let c ← getS; pure c.inWM.current_window_size) c ?_
      unfold ApiOk; wps

/-- the hypothesis of `C29_step_partial` holds initially and after every `receive_data` call that starts in a
    well-formed state (so it is not vacuous, and not an assumption about the peer) -/
theorem C29_premise_after_recv (c : Conn) (data : Bytes) (h : WF c) (hb : HbOk c.fb.headersBuffer) :
    16384 ≤ (receiveData data c).2.maxOutFrame := by
  have := receiveData_ok data c h hb
  cases hr : receiveData data c with
  | mk r c' =>
    rw [hr] at this
    cases r with
    | ok a => exact this.1.1.mof
    | error e => exact this.2.1.1.mof

/-! ### the premise is an invariant of every history of covered calls and `receive_data` -/

theorem inv_of_keeps {α : Type} (f : α → Val) (m : CM α) (c : Conn) (hk : ApiKeeps m c) (h : C17.Inv c) :
    C17.Inv (match m c with | (r, c') => (c', ({ res := resOf f r } : Obs))).1 := by
  have := hk c.fb ⟨h.1, rfl⟩
  unfold wp at this
  cases hm : m c with
  | mk r c' =>
    rw [hm] at this
    have k : KW c.fb c' := by cases r <;> exact this
    exact ⟨k.1, by rw [k.2]; exact h.2⟩

/-- **every covered call preserves the invariant** (whether it returns or raises) -/
theorem C29_covered_call_keeps_invariant (c : Conn) (op : Op) (hcov : covered op = true) (h : C17.Inv c) :
    C17.Inv (step c op).1 := by
  cases op with
  | initiateConnection => cases hcov
  | initiateUpgrade _ => cases hcov
  | sendHeaders _ _ _ _ _ _ => cases hcov
  | pushStream _ _ _ => cases hcov
  | recv _ => cases hcov
  | sendData sid d es pad => exact inv_of_keeps _ _ c (keeps_apiSendData sid d es pad c) h
  | endStream sid => exact inv_of_keeps _ _ c (keeps_apiEndStream sid c) h
  | incrementWindow i sid => exact inv_of_keeps _ _ c (keeps_apiIncrementWindow i sid c) h
  | ping d => exact inv_of_keeps _ _ c (keeps_ping d c) h
  | resetStream sid code => exact inv_of_keeps _ _ c (keeps_apiResetStream sid code c) h
  | closeConnection code extra last => exact inv_of_keeps _ _ c (keeps_apiCloseConnection code extra last c) h
  | updateSettings items => exact inv_of_keeps _ _ c (keeps_apiUpdateSettings items c) h
  | altsvc f o sid => exact inv_of_keeps _ _ c (keeps_apiAltsvc f o sid c) h
  | prioritize sid w d e => exact inv_of_keeps _ _ c (keeps_apiPrioritize sid w d e c) h
  | ackData size sid => exact inv_of_keeps _ _ c (keeps_apiAckData size sid c) h
  | dataToSend n => exact inv_of_keeps _ _ c (keeps_apiDataToSend n c) h
  | clearOut => exact inv_of_keeps _ _ c (keeps_apiClearOut c) h
  | query q =>
    cases q with
    | localWindow sid => exact inv_of_keeps _ _ c (keeps_apiLocalWindow sid c) h
    | remoteWindow sid => exact inv_of_keeps _ _ c (keeps_apiRemoteWindow sid c) h
    | nextStreamId => exact inv_of_keeps _ _ c (keeps_apiNextStreamId c) h
    | openOut => exact inv_of_keeps _ _ c (keeps_apiOpenOut c) h
    | openIn => exact inv_of_keeps _ _ c (keeps_apiOpenIn c) h
    | inboundWindow =>
      refine inv_of_keeps Val.int (do let c ← getS; pure c.inWM.current_window_size) c ?_ h
      intro fb0 hk; wps; exact hk

/-- the states reachable from a fresh connection by covered calls and `receive_data` calls (each with whatever
    well-typed results the HPACK decoder produces for it) -/
inductive Reachable (cfg : Config) : Conn → Prop
  | init : Reachable cfg (Conn.init cfg)
  | call (c : Conn) (op : Op) : Reachable cfg c → covered op = true → Reachable cfg (step c op).1
  | recv (c : Conn) (d : Bytes) (dec : List DecRes) : Reachable cfg c → C17.DecResOk dec →
      Reachable cfg (step (C17.feed c [] dec) (.recv d)).1

theorem C29_reachable_invariant (cfg : Config) (c : Conn) (h : Reachable cfg c) : C17.Inv c := by
  induction h with
  | init => exact C17.C17_init cfg
  | call c op _ hcov ih => exact C29_covered_call_keeps_invariant c op hcov ih
  | recv c d dec _ hd ih => exact (C17.C17_step _ d (C17.C17_feed c [] dec ih hd)).2.2

/-- **C29 and C17 along every such history**: in every reachable state a covered call returns or raises an allowed
    exception having written nothing, and `receive_data` never ends in a Python-level exception -/
theorem C29_every_history (cfg : Config) (c : Conn) (h : Reachable cfg c) :
    (∀ op, covered op = true → StepOk c (step c op)) ∧
    (∀ d dec, C17.DecResOk dec → ∀ k, (step (C17.feed c [] dec) (.recv d)).2.res ≠ .py k) := by
  have hi := C29_reachable_invariant cfg c h
  exact ⟨fun op hcov => C29_step_partial c op hcov hi.1.1.mof,
         fun d dec hd => (C17.C17_step _ d (C17.C17_feed c [] dec hi hd)).1⟩

/-! ### the lookup clause: closed-and-forgotten → StreamClosedError, never-used higher id → NoSuchStreamError -/

/-- `lookupExc` is NoSuchStreamError exactly for ids above the highest id used on that side, else StreamClosedError -/
theorem C29_lookup_kinds (c : Conn) (sid : Int) :
    (sid > (if streamIdIsOutbound c sid then c.highestOut else c.highestIn) →
        (lookupExc c sid).isInstance .NoSuchStreamError = true ∧ (lookupExc c sid).isInstance .StreamClosedError = false) ∧
    (¬ sid > (if streamIdIsOutbound c sid then c.highestOut else c.highestIn) →
        (lookupExc c sid).isInstance .StreamClosedError = true) := by
  unfold lookupExc
  constructor
  · intro h; rw [if_pos h]; exact ⟨rfl, rfl⟩
  · intro h; rw [if_neg h]; rfl

/-- calls that act on an existing stream, on an id that is not in the table, when the connection state admits the
    call and the arguments pass their range checks: exactly `lookupExc`, nothing written -/
theorem C29_lookup_endStream (c : Conn) (sid : Int) (h : hasStream c sid = false) (t : ConnectionState)
    (hc : connTable c.cstate .SEND_DATA = some t) : Refused (endStream sid) c sid :=
  refused_endStream c sid h t hc

theorem C29_lookup_resetStream (c : Conn) (sid code : Int) (h : hasStream c sid = false) (t : ConnectionState)
    (hcode : 0 ≤ code ∧ code ≤ 4294967295) (hc : connTable c.cstate .SEND_RST_STREAM = some t) :
    Refused (resetStream sid code) c sid :=
  refused_resetStream c sid code h t hcode hc

theorem C29_lookup_incrementWindow (c : Conn) (sid incr : Int) (h : hasStream c sid = false) (t : ConnectionState)
    (hi : 1 ≤ incr ∧ incr ≤ MAX_WINDOW_INCREMENT) (hc : connTable c.cstate .SEND_WINDOW_UPDATE = some t) :
    Refused (incrementFlowControlWindow incr (some sid)) c sid :=
  refused_incrementWindow c sid incr h t hi hc

theorem C29_lookup_sendData (c : Conn) (sid : Int) (data : Bytes) (es : Bool) (pad : Option Int)
    (h : hasStream c sid = false) (hp : ∀ p, pad = some p → 0 ≤ p ∧ p ≤ 255) :
    Refused (sendData sid data es pad) c sid :=
  refused_sendData c sid data es pad h hp

theorem C29_lookup_localWindow (c : Conn) (sid : Int) (h : hasStream c sid = false) :
    Refused (localFlowControlWindow sid) c sid :=
  refused_localWindow c sid h

/-- only `acknowledge_received_data` ignores a forgotten stream: with a legal size it returns normally -/
theorem C29_ackData_forgotten (c : Conn) (size sid : Int) (hm : 16384 ≤ c.maxOutFrame) :
    ApiOk (acknowledgeReceivedData size sid) c := api_ackData size sid c hm

/-- non-vacuity: the initial client state meets the premises, and stream 7 is a never-used higher id there -/
example : 16384 ≤ (Conn.init { client := true }).maxOutFrame ∧ hasStream (Conn.init { client := true }) 7 = false ∧
    (lookupExc (Conn.init { client := true }) 7).isInstance .NoSuchStreamError = true := by decide

end H2.C29
