/-
  A stream's outbound flow-control window never exceeds 2^31-1 (RFC 7540 section 6.9.1) through any H2Stream method:
  two methods write it — `send_data` (takes the flow-controlled length off) and `receive_window_update` (through the
  regenerated `guard_increment_window`; an overflow resets the stream and leaves the window alone) — and every other
  method leaves it as it is (`KeepsOW`, the scheme of `KeepsId` in Proofs/StreamsOk with the field substituted).
  The settings path (`_flow_control_change_from_settings`) goes through the same guard, and a new stream starts with
  the peer's INITIAL_WINDOW_SIZE, which `_validate_setting` keeps within 2^31-1.
-/
import H2.Proofs.StreamsOk
namespace H2
open H2.Gen H2.Conn

/-- the window is a window -/
def SWk (st : Stream) : Prop := st.outWin ≤ 2147483647

def KeepsOW {α : Type} (m : M Stream α) : Prop :=
  ∀ st, wp m (fun _ st' => st'.outWin = st.outWin) (fun _ st' => st'.outWin = st.outWin) st

theorem kow_bind {α β : Type} (m : M Stream α) (k : α → M Stream β) (hm : KeepsOW m) (hk : ∀ a, KeepsOW (k a)) :
    KeepsOW (m >>= k) := by
  intro st
  rw [wp_bind]
  refine wp_mono (hm st) ?_ (fun _ _ h => h)
  intro a st' h'
  exact wp_mono (hk a st') (fun _ _ h => h.trans h') (fun _ _ h => h.trans h')

theorem kow_pure {α : Type} (a : α) : KeepsOW (pure a : M Stream α) := fun _ => rfl
theorem kow_raise {α : Type} (e : Exc) : KeepsOW (raise e : M Stream α) := fun _ => rfl
theorem kow_getS : KeepsOW (getS : M Stream Stream) := fun _ => rfl
theorem kow_liftExcept {α : Type} (r : Except Exc α) : KeepsOW (liftExcept r : M Stream α) := by
  intro st; rw [wp_liftExcept]; cases r <;> rfl
theorem kow_ite {α : Type} (c : Prop) [Decidable c] (a b : M Stream α) (ha : KeepsOW a) (hb : KeepsOW b) :
    KeepsOW (if c then a else b) := by split <;> assumption
theorem kow_onWM (f : WindowManager → WRes) : KeepsOW (onWM f) := by
  intro st
  unfold wp onWM
  cases f st.inWM with
  | mk r w => cases r <;> rfl
theorem kow_modify (f : Stream → Stream) (hf : ∀ s, (f s).outWin = s.outWin) : KeepsOW (modifyS f) := fun st => hf st
theorem kow_processInput (i : StreamInputs) : KeepsOW (processInput i) := by
  intro st
  rw [wp_processInput_eq]
  cases stepShape st.sm.sh i with
  | mk r sh => cases r <;> rfl

macro "kow_auto" : tactic => `(tactic|
  repeat' (first
    | (with_reducible exact kow_processInput _)
    | (with_reducible exact kow_pure _)
    | (with_reducible exact kow_raise _)
    | (with_reducible exact kow_getS)
    | (with_reducible exact kow_onWM _)
    | (with_reducible exact kow_liftExcept _)
    | (with_reducible apply kow_modify; intro _; rfl)
    | (with_reducible apply kow_bind)
    | (with_reducible apply kow_ite)
    | (with_reducible assumption)
    | (wps; first | rfl | trivial)
    | rfl
    | split
    | (intro _)))

theorem kow_buildHdrFlags (evs : List SEv) : KeepsOW (buildHdrFlags evs) := by unfold buildHdrFlags; kow_auto
theorem kow_initCL (hs : List Header) : KeepsOW (Stream.initializeContentLength hs) := by
  unfold Stream.initializeContentLength; kow_auto
theorem kow_trackCL (n : Int) (es : Bool) : KeepsOW (Stream.trackContentLength n es) := by
  unfold Stream.trackContentLength; kow_auto
theorem kow_resetStream (code : Int) : KeepsOW (Stream.resetStream code) := by unfold Stream.resetStream; kow_auto

macro "kow_auto2" : tactic => `(tactic|
  repeat' (first
    | (with_reducible exact kow_buildHdrFlags _)
    | (with_reducible exact kow_initCL _)
    | (with_reducible exact kow_trackCL _ _)
    | (with_reducible exact kow_resetStream _)
    | (with_reducible exact kow_processInput _)
    | (with_reducible exact kow_pure _)
    | (with_reducible exact kow_raise _)
    | (with_reducible exact kow_getS)
    | (with_reducible exact kow_onWM _)
    | (with_reducible exact kow_liftExcept _)
    | (with_reducible apply kow_modify; intro _; rfl)
    | (with_reducible apply kow_bind)
    | (with_reducible apply kow_ite)
    | (with_reducible assumption)
    | (wps; first | rfl | trivial)
    | rfl
    | split
    | (intro _)))

theorem kow_receiveHeaders (cfg : Config) (hs : List Header) (es : Bool) : KeepsOW (Stream.receiveHeaders cfg hs es) := by
  unfold Stream.receiveHeaders; kow_auto2
theorem kow_receiveData (d : Bytes) (es : Bool) (fcl : Int) : KeepsOW (Stream.receiveData d es fcl) := by
  unfold Stream.receiveData; kow_auto2
theorem kow_pushInBand (cfg : Config) (p : Int) (hs : List Header) : KeepsOW (Stream.receivePushPromiseInBand cfg p hs) := by
  unfold Stream.receivePushPromiseInBand; kow_auto2
theorem kow_remotelyPushed (hs : List Header) : KeepsOW (Stream.remotelyPushed hs) := by
  unfold Stream.remotelyPushed; kow_auto2
theorem kow_streamReset (code : Int) : KeepsOW (Stream.streamReset code) := by unfold Stream.streamReset; kow_auto2
theorem kow_receiveAltSvc (o f : Bytes) : KeepsOW (Stream.receiveAltSvc o f) := by unfold Stream.receiveAltSvc; kow_auto2
theorem kow_inboundFCC (d : Int) : KeepsOW (Stream.inboundFlowControlChange d) := by
  unfold Stream.inboundFlowControlChange; kow_auto2
theorem kow_endStream : KeepsOW Stream.endStream := by unfold Stream.endStream; kow_auto2
theorem kow_altSvc (f : Bytes) : KeepsOW (Stream.advertiseAltSvc f) := by unfold Stream.advertiseAltSvc; kow_auto2
theorem kow_incWindow (n : Int) : KeepsOW (Stream.increaseFlowControlWindow n) := by
  unfold Stream.increaseFlowControlWindow; kow_auto2
theorem kow_ackData (n : Int) : KeepsOW (Stream.acknowledgeReceivedData n) := by
  unfold Stream.acknowledgeReceivedData; kow_auto2
theorem kow_locallyPushed : KeepsOW Stream.locallyPushed := by unfold Stream.locallyPushed; kow_auto2
theorem kow_upgrade (cl : Bool) : KeepsOW (Stream.upgrade cl) := by unfold Stream.upgrade; kow_auto2


/-- a stream method keeps the bound -/
def KeepsLe {α : Type} (m : M Stream α) : Prop := ∀ st, SWk st → wp m (fun _ st' => SWk st') (fun _ st' => SWk st') st

theorem keepsLe_of_ow {α : Type} {m : M Stream α} (h : KeepsOW m) : KeepsLe m := by
  intro st hs
  exact wp_mono (h st) (fun _ st' h' => by unfold SWk; rw [h']; exact hs) (fun _ st' h' => by unfold SWk; rw [h']; exact hs)

theorem sendData_tail (fcl : Int) (hf : 0 ≤ fcl) (st2 : Stream) (h2 : SWk st2) :
    (if st2.outWin - fcl < 0 then SWk { st2 with outWin := st2.outWin - fcl } else SWk { st2 with outWin := st2.outWin - fcl }) := by
  unfold SWk at h2 ⊢
  split <;> (show st2.outWin - fcl ≤ _; omega)

theorem kle_sendData (d : Bytes) (es : Bool) (pad : Option Int) (hp : ∀ p, pad = some p → 0 ≤ p) :
    KeepsLe (Stream.sendData d es pad) := by
  intro st hs
  unfold Stream.sendData
  wps
  refine wp_mono (kow_processInput _ st) ?_ (fun _ st' h' => by unfold SWk; rw [h']; exact hs)
  intro _ st1 h1
  have hs1 : SWk st1 := by unfold SWk; rw [h1]; exact hs
  cases pad with
  | none =>
    simp only
    by_cases hes : es = true
    · simp only [hes, if_true]
      wps
      refine wp_mono (kow_processInput _ st1) ?_ (fun _ st' h' => by unfold SWk; rw [h']; exact hs1)
      intro _ st2 h2
      wps
      exact sendData_tail _ (by omega) st2 (by unfold SWk; rw [h2]; exact hs1)
    · simp only [hes, Bool.false_eq_true, if_false]
      wps
      exact sendData_tail _ (by omega) st1 hs1
  | some p =>
    have hp0 := hp p rfl
    simp only
    by_cases hes : es = true
    · simp only [hes, if_true]
      wps
      refine wp_mono (kow_processInput _ st1) ?_ (fun _ st' h' => by unfold SWk; rw [h']; exact hs1)
      intro _ st2 h2
      wps
      exact sendData_tail _ (by omega) st2 (by unfold SWk; rw [h2]; exact hs1)
    · simp only [hes, Bool.false_eq_true, if_false]
      wps
      exact sendData_tail _ (by omega) st1 hs1

theorem kle_receiveWindowUpdate (n : Int) : KeepsLe (Stream.receiveWindowUpdate n) := by
  intro st hs
  unfold Stream.receiveWindowUpdate
  wps
  refine wp_mono (kow_processInput _ st) ?_ (fun _ st' h' => by unfold SWk; rw [h']; exact hs)
  intro evs st1 h1
  have hs1 : SWk st1 := by unfold SWk; rw [h1]; exact hs
  wps
  split
  · exact hs1
  · have hg : guard_increment_window st1.outWin n =
        if st1.outWin + n > 2147483647 then .error (.h2 .FlowControlError) else .ok (st1.outWin + n) := by
      unfold guard_increment_window; simp
    rw [hg]
    by_cases hgt : st1.outWin + n > 2147483647
    · simp only [hgt, if_true]
      split
      · wps
        refine wp_mono (keepsLe_of_ow (kow_resetStream _) st1 hs1) ?_ (fun _ _ h' => h')
        intro _ st2 h2; wps; exact h2
      · wps; exact hs1
    · simp only [hgt, if_false]
      wps
      unfold SWk; show st1.outWin + n ≤ _; omega

/-- `_flow_control_change_from_settings`: every stream's window moves through the guard, so the bound survives (also
    when the loop stops at an overflow: the streams already moved stay moved, the rest are untouched) -/
theorem fcc_go_bound (delta : Int) (done rest : List (Int × Stream))
    (hd : ∀ e ∈ done, SWk e.2) (hr : ∀ e ∈ rest, SWk e.2) :
    ∀ e ∈ (flowControlChangeFromSettings.go delta done rest).2, SWk e.2 := by
  induction rest generalizing done with
  | nil => simpa [flowControlChangeFromSettings.go] using hd
  | cons x t ih =>
    obtain ⟨k, st⟩ := x
    unfold flowControlChangeFromSettings.go
    have hg : guard_increment_window st.outWin delta =
        if st.outWin + delta > 2147483647 then .error (.h2 .FlowControlError) else .ok (st.outWin + delta) := by
      unfold guard_increment_window; simp
    rw [hg]
    by_cases hgt : st.outWin + delta > 2147483647
    · simp only [hgt, if_true]
      intro e' he'
      rcases List.mem_append.mp he' with h1 | h1
      · exact hd e' h1
      · exact hr e' h1
    · simp only [hgt, if_false]
      apply ih
      · intro e he
        rcases List.mem_append.mp he with h1 | h1
        · exact hd e h1
        · simp only [List.mem_singleton] at h1; subst h1
          unfold SWk; show st.outWin + delta ≤ _; omega
      · intro e he; exact hr e (List.mem_cons_of_mem _ he)

theorem fcc_bound (o n : Int) (c : Conn) (h : ∀ e ∈ c.streams, SWk e.2) :
    ∀ e ∈ (flowControlChangeFromSettings o n c).2.streams, SWk e.2 := by
  have := fcc_go_bound (n - o) [] c.streams (fun _ hh => by cases hh) h
  unfold flowControlChangeFromSettings
  simp only
  cases hg : flowControlChangeFromSettings.go (n - o) [] c.streams with
  | mk r ss =>
    rw [hg] at this
    exact this

end H2
