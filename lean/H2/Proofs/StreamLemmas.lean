/-
  wp lemmas for the building blocks of stream-level methods.
-/
import H2.Proofs.Send

namespace H2
open H2.Gen H2.Conn

/-- `process_input` only touches the shape of the state machine (never the stream id or anything else) -/
theorem wp_processInput {Q : List SEv → Stream → Prop} {E : Exc → Stream → Prop} (i : StreamInputs) (st : Stream)
    (hq : ∀ evs sh, (stepShape st.sm.sh i) = (.ok evs, sh) → Q evs { st with sm := { st.sm with sh := sh } })
    (he : ∀ e sh, (stepShape st.sm.sh i).2 = sh → (stepShape st.sm.sh i).1 ≠ .ok [] ∨ True →
            E e { st with sm := { st.sm with sh := sh } }) :
    wp (processInput i) Q E st := by
  simp only [processInput, onSM, wp_zoom]
  unfold wp SM.process
  cases h : stepShape st.sm.sh i with
  | mk r sh =>
    cases r with
    | ok evs => simpa using hq evs sh h
    | proto => simpa using he _ sh (by simp [h]) (Or.inr trivial)
    | streamClosed w => simpa using he _ sh (by simp [h]) (Or.inr trivial)

/-- coarser: whatever `process_input` does, it leaves everything but `sm.sh` alone -/
theorem wp_processInput_havoc {Q : List SEv → Stream → Prop} {E : Exc → Stream → Prop} (i : StreamInputs) (st : Stream)
    (hq : ∀ evs sh, Q evs { st with sm := { st.sm with sh := sh } })
    (he : ∀ e sh, E e { st with sm := { st.sm with sh := sh } }) :
    wp (processInput i) Q E st :=
  wp_processInput i st (fun evs sh _ => hq evs sh) (fun e sh _ _ => he e sh)

/-- does the stream state machine accept input `i` in shape `sh` -/
def okStep (sh : Shape) (i : StreamInputs) : Bool :=
  match (stepShape sh i).1 with
  | .ok _ => true
  | _ => false

/-- sharper than `wp_processInput`: the error branch knows that the table refused the input -/
theorem wp_processInput_sharp {Q : List SEv → Stream → Prop} {E : Exc → Stream → Prop} (i : StreamInputs) (st : Stream)
    (hq : ∀ evs sh, stepShape st.sm.sh i = (.ok evs, sh) → Q evs { st with sm := { st.sm with sh := sh } })
    (he : ∀ e sh, okStep st.sm.sh i = false → (stepShape st.sm.sh i).2 = sh →
            E e { st with sm := { st.sm with sh := sh } }) :
    wp (processInput i) Q E st := by
  simp only [processInput, onSM, wp_zoom]
  unfold wp SM.process
  cases h : stepShape st.sm.sh i with
  | mk r sh =>
    cases r with
    | ok evs => simpa using hq evs sh h
    | proto => simpa using he _ sh (by simp [okStep, h]) (by simp [h])
    | streamClosed w => simpa using he _ sh (by simp [okStep, h]) (by simp [h])

/-- the `try:` block of `send_headers` (validation, HPACK encoding, fragmentation) never touches the stream
    object: it only reads it and moves the HPACK context -/
theorem guarded_frame (cfg : Config) (hs : List Header) (es pp : Bool) (evs : List SEv) (s : Stream × Hp) :
    wp (Stream.guardedHeaderBlocks cfg hs es pp evs) (fun _ t => t.1 = s.1) (fun _ t => t.1 = s.1) s := by
  simp only [Stream.guardedHeaderBlocks, buildHdrFlags, buildHeaderBlocks, onStream, onHp]
  wps
  repeat' (first | rfl | (apply wp_havoc <;> intros <;> first | rfl | trivial) | wps | split | intro _)

/-- a generated WindowManager method applied to the stream's inbound window -/
theorem wp_onWM {Q : Option Int → Stream → Prop} {E : Exc → Stream → Prop} (f : WindowManager → WRes) (st : Stream) :
    wp (onWM f) Q E st =
      (match f st.inWM with
       | (.ok v, w) => Q v { st with inWM := w }
       | (.error e, w) => E (ofPyErr e) { st with inWM := w }) := by
  unfold wp onWM
  cases f st.inWM with
  | mk r w => cases r <;> rfl

theorem wp_onConnWM {Q : Option Int → Conn → Prop} {E : Exc → Conn → Prop} (f : WindowManager → WRes) (c : Conn) :
    wp (onConnWM f) Q E c =
      (match f c.inWM with
       | (.ok v, w) => Q v { c with inWM := w }
       | (.error e, w) => E (ofPyErr e) { c with inWM := w }) := by
  unfold wp onConnWM
  cases f c.inWM with
  | mk r w => cases r <;> rfl

/-- replace the stream stored under `sid` -/
def setStream (c : Conn) (sid : Int) (st : Stream) : Conn :=
  { c with streams := c.streams.map fun e => if e.1 == sid then (sid, st) else e }

theorem wp_withStream {α} {Q : α → Conn → Prop} {E : Exc → Conn → Prop} (sid : Int) (m : M Stream α) (c : Conn) :
    wp (withStream sid m) Q E c =
      (match c.streams.lookup sid with
       | none => E (.py .KeyError) c
       | some st => wp m (fun a st' => Q a (setStream c sid st')) (fun e st' => E e (setStream c sid st')) st) := by
  unfold wp withStream setStream
  cases c.streams.lookup sid with
  | none => rfl
  | some st =>
    simp only
    cases m st with
    | mk r st' => cases r <;> rfl

theorem setStream_out (c : Conn) (sid : Int) (st : Stream) : (setStream c sid st).out = c.out := rfl
theorem setStream_cstate (c : Conn) (sid : Int) (st : Stream) : (setStream c sid st).cstate = c.cstate := rfl
theorem setStream_outWin (c : Conn) (sid : Int) (st : Stream) : (setStream c sid st).outWin = c.outWin := rfl
theorem setStream_inWM (c : Conn) (sid : Int) (st : Stream) : (setStream c sid st).inWM = c.inWM := rfl
theorem setStream_maxOut (c : Conn) (sid : Int) (st : Stream) : (setStream c sid st).maxOutFrame = c.maxOutFrame := rfl

/-- `_get_stream_by_id` as an equation -/
theorem wp_getStreamById_eq {Q : Unit → Conn → Prop} {E : Exc → Conn → Prop} (sid : Int) (c : Conn) :
    wp (getStreamById sid) Q E c =
      (if hasStream c sid then Q () c
       else if sid > (if streamIdIsOutbound c sid then c.highestOut else c.highestIn)
         then E (.h2 .NoSuchStreamError (ExcClass.NoSuchStreamError.classCode.map Int.ofNat) (some sid) []) c
         else E (mkStreamClosed sid) c) := by
  simp only [getStreamById]
  wps

theorem hasStream_lookup (c : Conn) (sid : Int) : hasStream c sid = (c.streams.lookup sid).isSome := by
  unfold hasStream
  induction c.streams with
  | nil => rfl
  | cons e t ih =>
    obtain ⟨k, v⟩ := e
    simp only [List.any_cons, List.lookup]
    by_cases h : sid = k
    · subst h; simp
    · have : (k == sid) = false := by simp; omega
      have h2 : (sid == k) = false := by simp [h]
      simp [this, h2, ih]

end H2
