/-
  The memory of closed streams (`_closed_streams`, a SizeLimitDict) never holds more than MAX_CLOSED_STREAMS entries.
  Two things write it: `_open_streams` (moves the closed streams of the table into it) and `_refuse_pushed_stream`;
  both go through `closedInsert`, which cuts the list to the cap.  Everything else leaves it alone.
  (Lemma-per-primitive scheme of `PS` in Proofs/RecvEmits, for the predicate `CC` instead of an equality.)
-/
import H2.Proofs.RecvEmits
import H2.Proofs.Stable
import H2.Proofs.Initiate
import H2.Proofs.PushStream
namespace H2
open H2.Gen H2.Conn

/-- the memory of closed streams is within its cap -/
def CC (c : Conn) : Prop := c.closedStreams.length ≤ MAX_CLOSED_STREAMS.toNat

theorem cc_drop_cap {α} (l : List α) (N : Nat) : (l.drop (l.length - N)).length ≤ N := by
  simp only [List.length_drop]; omega

theorem cc_foldl_cap {α β} (f : List α → β → List α) (N : Nat) (hf : ∀ acc e, (f acc e).length ≤ N) (dead : List β)
    (l : List α) (h : l.length ≤ N) : (dead.foldl f l).length ≤ N := by
  induction dead generalizing l with
  | nil => exact h
  | cons e t ih => exact ih _ (hf _ _)

theorem cc_closedInsert (l : List (Int × Option StreamClosedBy)) (k : Int) (v : Option StreamClosedBy) :
    (closedInsert l k v).length ≤ MAX_CLOSED_STREAMS.toNat := by
  unfold closedInsert
  exact cc_drop_cap _ _

theorem cc_openStreams (r : Int) (c : Conn) (h : CC c) : CC (openStreams r c).2 := by
  unfold openStreams CC
  exact cc_foldl_cap (fun acc (e : Int × Stream) => closedInsert acc e.1 e.2.sm.closedBy) MAX_CLOSED_STREAMS.toNat
    (fun acc e => cc_closedInsert acc e.1 e.2.sm.closedBy) _ _ h

section
variable {α : Type} {Q : α → Conn → Prop} {E : Exc → Conn → Prop}

theorem pc_connInput {Q : Unit → Conn → Prop} (i : ConnectionInputs) (c : Conn) (h : CC c)
    (hq : ∀ c', CC c' → Q () c') (he : ∀ e c', CC c' → E e c') : wp (connInput i) Q E c := by
  unfold wp connInput
  cases connTable c.cstate i with
  | none => exact he _ _ h
  | some t => exact hq _ h

theorem pc_withStream (sid : Int) (m : M Stream α) (c : Conn) (h : CC c)
    (hq : ∀ a c', CC c' → Q a c') (he : ∀ e c', CC c' → E e c') : wp (withStream sid m) Q E c := by
  rw [wp_withStream]
  cases c.streams.lookup sid with
  | none => exact he _ _ h
  | some st => exact wp_havoc (fun a s' => hq a _ h) (fun e s' => he e _ h)

theorem pc_getStreamById {Q : Unit → Conn → Prop} (sid : Int) (c : Conn) (h : CC c)
    (hq : ∀ c', CC c' → Q () c') (he : ∀ e c', CC c' → E e c') : wp (getStreamById sid) Q E c := by
  rw [wp_getStreamById_eq]
  repeat' split
  all_goals first | exact hq c h | exact he _ c h

theorem pc_openStreams {Q : Int → Conn → Prop} (r : Int) (c : Conn) (h : CC c)
    (hq : ∀ a c', CC c' → Q a c') : wp (openStreams r) Q E c := by
  have := cc_openStreams r c h
  simp only [wp]
  exact hq _ _ this

theorem pc_onConnWM {Q : Option Int → Conn → Prop} (f : WindowManager → WRes) (c : Conn) (h : CC c)
    (hq : ∀ a c', CC c' → Q a c') (he : ∀ e c', CC c' → E e c') : wp (onConnWM f) Q E c := by
  rw [wp_onConnWM]
  cases f c.inWM with
  | mk r w => cases r <;> first | exact hq _ _ h | exact he _ _ h

theorem pc_decodeHeaders {Q : List Header → Conn → Prop} (b : Bytes) (c : Conn) (h : CC c)
    (hq : ∀ a c', CC c' → Q a c') (he : ∀ e c', CC c' → E e c') : wp (decodeHeaders b) Q E c := by
  unfold decodeHeaders
  wps
  apply wp_havoc
  · intro r hp'
    cases r <;> wps <;> first | exact hq _ _ h | exact he _ _ h
  · intro e hp'; exact he _ _ h

theorem pc_fcc {Q : Unit → Conn → Prop} (o n : Int) (c : Conn) (h : CC c)
    (hq : ∀ c', CC c' → Q () c') (he : ∀ e c', CC c' → E e c') :
    wp (flowControlChangeFromSettings o n) Q E c := by
  unfold wp flowControlChangeFromSettings
  simp only
  cases flowControlChangeFromSettings.go (n - o) [] c.streams with
  | mk r ss => cases r <;> first | exact hq _ h | exact he _ _ h

theorem pc_ifcc {Q : Unit → Conn → Prop} (o n : Int) (c : Conn) (h : CC c)
    (hq : ∀ c', CC c' → Q () c') (he : ∀ e c', CC c' → E e c') :
    wp (inboundFlowControlChangeFromSettings o n) Q E c := by
  unfold wp inboundFlowControlChangeFromSettings
  simp only
  cases inboundFlowControlChangeFromSettings.go (n - o) [] c.streams with
  | mk r ss => cases r <;> first | exact hq _ h | exact he _ _ h

theorem pc_putStream {Q : Unit → Conn → Prop} (sid : Int) (st : Stream) (c : Conn) (h : CC c)
    (hq : ∀ c', CC c' → Q () c') : wp (putStream sid st) Q E c := by
  rw [wp_putStream]
  apply hq
  unfold putStream modifyS; simp only
  split <;> exact h

end

theorem localOtherChanges_cc (ch : List (Int × Option Int × Int)) (c : Conn) (h : CC c) : CC (localOtherChanges ch c) := by
  unfold localOtherChanges; repeat' split
  all_goals exact h
theorem remoteOtherChanges_cc (ch : List (Int × Option Int × Int)) (c : Conn) (h : CC c) : CC (remoteOtherChanges ch c) := by
  unfold remoteOtherChanges; repeat' split
  all_goals exact h

/-- close goals of the form `… .outWin = s0` / continue through a method that never writes frames -/
macro "pc_auto" : tactic => `(tactic|
  repeat' (first
    | assumption
    | (apply localOtherChanges_cc; assumption)
    | (apply remoteOtherChanges_cc; assumption)
    | (apply pc_connInput _ _ (by assumption))
    | (apply pc_withStream _ _ _ (by assumption))
    | (apply pc_getStreamById _ _ (by assumption))
    | (apply pc_openStreams _ _ (by assumption))
    | (apply pc_onConnWM _ _ (by assumption))
    | (apply pc_decodeHeaders _ _ (by assumption))
    | (apply pc_fcc _ _ _ (by assumption))
    | (apply pc_ifcc _ _ _ (by assumption))
    | (apply pc_putStream _ _ _ (by assumption))
    | (intro _)
    | wps
    | split))

abbrev PC (m : CM α) (c : Conn) : Prop := CC c → wp m (fun _ c' => CC c') (fun _ c' => CC c') c

theorem pc_ping (a : Bool) (p : Bytes) (c : Conn) : PC (receivePingFrame a p) c := by
  intro h
  unfold receivePingFrame; pc_auto
theorem pc_priority (sid : Int) (p : Prio) (c : Conn) : PC (receivePriorityFrame sid p) c := by
  intro h
  unfold receivePriorityFrame; pc_auto


theorem pc_goaway (l k : Int) (x : Bytes) (c : Conn) : PC (receiveGoawayFrame l k x) c := by
  intro h
  unfold receiveGoawayFrame clearOutboundDataBuffer; pc_auto
theorem pc_rst (sid code : Int) (c : Conn) : PC (receiveRstStreamFrame sid code) c := by
  intro h
  unfold receiveRstStreamFrame; pc_auto
theorem pc_altsvc (sid : Int) (o f : Bytes) (c : Conn) : PC (receiveAltSvcFrame sid o f) c := by
  intro h
  unfold receiveAltSvcFrame; pc_auto
theorem pc_cont (sid : Int) (c : Conn) : PC (receiveNakedContinuation sid) c := by
  intro h
  unfold receiveNakedContinuation; pc_auto
theorem pc_data (sid : Int) (p : Bytes) (es : Bool) (fcl : Int) (c : Conn) : PC (receiveDataFrame sid p es fcl) c := by
  intro h
  unfold receiveDataFrame; pc_auto
theorem pc_settings (ack : Bool) (items : List (Int × Int)) (c : Conn) : PC (receiveSettingsFrame ack items) c := by
  intro h
  unfold receiveSettingsFrame localSettingsAcked acknowledgeSettings localWindowChange remoteWindowChange
  pc_auto


theorem pc_use {α : Type} {Q : α → Conn → Prop} {E : Exc → Conn → Prop} {m : CM α} (hm : ∀ c, PC m c) (c : Conn)
    (h : CC c) (hq : ∀ a c', CC c' → Q a c') (he : ∀ e c', CC c' → E e c') :
    wp m Q E c :=
  wp_mono (hm c h) (fun a c' h' => hq a c' h') (fun e c' h' => he e c' h')

theorem pc_createStream (sid : Int) (ob : Bool) (c : Conn) : PC (createStream sid ob) c := by
  intro h
  unfold createStream optInt?
  pc_auto

theorem pc_beginNewStream (sid : Int) (odd : Bool) (c : Conn) : PC (beginNewStream sid odd) c := by
  intro h
  unfold beginNewStream
  repeat' (first | assumption | (apply pc_use (pc_createStream _ _) _ (by assumption)) | (intro _) | wps | split)

theorem pc_getOrCreateStream (sid : Int) (odd : Bool) (c : Conn) : PC (getOrCreateStream sid odd) c := by
  intro h
  unfold getOrCreateStream
  repeat' (first | assumption | (apply pc_use (pc_beginNewStream _ _) _ (by assumption)) | (intro _) | wps | split)

theorem pc_refuse (p : Int) (c : Conn) : PC (refusePushedStream p) c := by
  intro h
  have e : (refusePushedStream p c).2 = (if (!streamIdIsOutbound c p && decide (p > c.highestIn)) = true then
      ({ c with highestIn := p, closedStreams := closedInsert c.closedStreams p (some .SEND_RST_STREAM) } : Conn) else c) := rfl
  have hc : CC (refusePushedStream p c).2 := by
    rw [e]
    split
    · unfold CC; dsimp only; exact cc_closedInsert c.closedStreams p (some .SEND_RST_STREAM)
    · exact h
  unfold wp
  cases hr : refusePushedStream p c with
  | mk r c' =>
    rw [hr] at hc
    cases r <;> exact hc

macro "pc_auto2" : tactic => `(tactic|
  repeat' (first
    | assumption
    | (apply pc_use (pc_getOrCreateStream _ _) _ (by assumption))
    | (apply pc_use (pc_beginNewStream _ _) _ (by assumption))
    | (apply pc_use (pc_priority _ _) _ (by assumption))
    | (apply pc_use (pc_refuse _) _ (by assumption))
    | (apply pc_connInput _ _ (by assumption))
    | (apply pc_withStream _ _ _ (by assumption))
    | (apply pc_getStreamById _ _ (by assumption))
    | (apply pc_openStreams _ _ (by assumption))
    | (apply pc_decodeHeaders _ _ (by assumption))
    | (intro _)
    | wps
    | split))

theorem pc_headersRest (sid : Int) (b : Bytes) (es : Bool) (pr : Option Prio) (c : Conn) : PC (receiveHeadersRest sid b es pr) c := by
  intro h
  unfold receiveHeadersRest
  pc_auto2

theorem pc_headers (sid : Int) (b : Bytes) (es : Bool) (pr : Option Prio) (c : Conn) : PC (receiveHeadersFrame sid b es pr) c := by
  intro h
  unfold receiveHeadersFrame openInboundStreams
  repeat' (first
    | assumption
    | (apply pc_use (pc_headersRest _ _ _ _) _ (by assumption))
    | (apply pc_openStreams _ _ (by assumption))
    | (intro _)
    | wps
    | split)

theorem pc_pushKnown (sid p : Int) (hs : List Header) (c : Conn) : PC (receivePushPromiseKnown sid p hs) c := by
  intro h
  unfold receivePushPromiseKnown openInboundStreams
  pc_auto2

theorem pc_pushUnknown (sid p : Int) (c : Conn) : PC (receivePushPromiseUnknown sid p) c := by
  intro h
  unfold receivePushPromiseUnknown
  pc_auto2

theorem pc_push (sid p : Int) (b : Bytes) (c : Conn) : PC (receivePushPromiseFrame sid p b) c := by
  intro h
  unfold receivePushPromiseFrame
  repeat' (first
    | assumption
    | (apply pc_use (pc_pushKnown _ _ _) _ (by assumption))
    | (apply pc_use (pc_pushUnknown _ _) _ (by assumption))
    | (apply pc_connInput _ _ (by assumption))
    | (apply pc_getStreamById _ _ (by assumption))
    | (apply pc_decodeHeaders _ _ (by assumption))
    | (intro _)
    | wps
    | split)


theorem pc_windowUpdate (sid incr : Int) (c : Conn) : PC (receiveWindowUpdateFrame sid incr) c := by
  intro h
  unfold receiveWindowUpdateFrame; pc_auto

theorem pc_dispatch (rf : RFrame) (c : Conn) : PC (dispatch rf) c := by
  unfold dispatch
  split
  · exact pc_headers _ _ _ _ c
  · exact pc_push _ _ _ c
  · exact pc_settings _ _ c
  · exact pc_data _ _ _ _ c
  · exact pc_windowUpdate _ _ c
  · exact pc_ping _ _ c
  · exact pc_rst _ _ c
  · exact pc_priority _ _ c
  · exact pc_goaway _ _ _ c
  · exact pc_cont _ c
  · exact pc_altsvc _ _ _ c
  · intro h; wps; exact h

theorem pc_prepare {Q : Unit → Conn → Prop} {E : Exc → Conn → Prop} (fs : List Frame) (c : Conn) (h : CC c)
    (hq : ∀ c', CC c' → Q () c') (he : ∀ e c', CC c' → E e c') : wp (prepareForSending fs) Q E c := by
  unfold prepareForSending
  wps
  split
  · exact hq c h
  · cases fs.mapM Frame.serialize? with
    | none => exact he _ c h
    | some bs =>
      simp only
      wps
      split
      · exact hq _ h
      · exact he _ _ h

theorem pc_withStreamHp {α : Type} {Q : α → Conn → Prop} {E : Exc → Conn → Prop} (sid : Int) (m : SH α) (c : Conn) (h : CC c)
    (hq : ∀ a c', CC c' → Q a c') (he : ∀ e c', CC c' → E e c') : wp (withStreamHp sid m) Q E c := by
  rw [wp_withStreamHp]
  cases c.streams.lookup sid with
  | none => exact he _ _ h
  | some st => exact wp_havoc (fun a s' => hq a _ h) (fun e s' => he e _ h)

/-- **`receive_data` keeps the memory of closed streams within its cap**, whatever the bytes -/
theorem stable_CC : Stable CC where
  fb := fun _ _ h => h
  connInput := fun i c h => by apply pc_connInput _ _ h <;> (intros; assumption)
  prepare := fun fs c h => by apply pc_prepare _ _ h <;> (intros; assumption)
  dispatch := fun rf c h => pc_dispatch rf c h

theorem receiveData_cc (d : Bytes) (c : Conn) (h : CC c) : CC (receiveData d c).2 := stable_receiveData stable_CC d c h

/-! ### the public calls -/

macro "pc_api" : tactic => `(tactic|
  repeat' (first
    | assumption
    | (apply pc_connInput _ _ (by assumption))
    | (apply pc_withStream _ _ _ (by assumption))
    | (apply pc_withStreamHp _ _ _ (by assumption))
    | (apply pc_getStreamById _ _ (by assumption))
    | (apply pc_openStreams _ _ (by assumption))
    | (apply pc_onConnWM _ _ (by assumption))
    | (apply pc_prepare _ _ (by assumption))
    | (apply pc_use (pc_getOrCreateStream _ _) _ (by assumption))
    | (apply pc_use (pc_beginNewStream _ _) _ (by assumption))
    | (apply pc_use (pc_settings _ _) _ (by assumption))
    | (with_reducible apply ite_intro)
    | (intro _)
    | wps
    | split))

theorem pc_apiPing (d : Bytes) (c : Conn) : PC (ping d) c := by
  intro h; unfold ping; pc_api
theorem pc_apiResetStream (sid code : Int) (c : Conn) : PC (resetStream sid code) c := by
  intro h; unfold resetStream; pc_api
theorem pc_apiEndStream (sid : Int) (c : Conn) : PC (endStream sid) c := by
  intro h; unfold endStream; pc_api
set_option maxRecDepth 100000 in
theorem pc_apiIncrementWindow (n : Int) (sid : Option Int) (c : Conn) : PC (incrementFlowControlWindow n sid) c := by
  intro h; unfold incrementFlowControlWindow; pc_api
theorem pc_apiCloseConnection (code : Int) (extra : Option Bytes) (last : Option Int) (c : Conn) :
    PC (closeConnection code extra last) c := by
  intro h; unfold closeConnection; pc_api
theorem pc_apiUpdateSettings (items : List (Int × Int)) (c : Conn) : PC (updateSettings items) c := by
  intro h; unfold updateSettings; pc_api
set_option maxRecDepth 100000 in
theorem pc_apiAltsvc (f : Bytes) (o : Option Bytes) (sid : Option Int) (c : Conn) :
    PC (advertiseAlternativeService f o sid) c := by
  intro h
  unfold advertiseAlternativeService
  cases o with
  | none =>
    cases sid with
    | none => wps; simp only [Option.isSome_none, Bool.and_self, Bool.false_eq_true, if_false, Option.isNone_none, if_true]; exact h
    | some s =>
      wps
      simp only [Option.isSome_none, Bool.false_and, Bool.false_eq_true, if_false, Option.isNone_none, Option.isNone_some,
        Bool.and_false]
      pc_api
  | some ov =>
    wps
    cases sid with
    | some s => simp only [Option.isSome_some, Bool.and_self, if_true]; exact h
    | none =>
      simp only [Option.isSome_some, Option.isSome_none, Bool.and_false, Bool.false_eq_true, if_false, Option.isNone_some,
        Bool.false_and]
      with_reducible apply ite_intro
      · intro _; exact h
      intro hx; clear hx
      with_reducible apply ite_intro
      · intro _; exact h
      intro hx; clear hx
      with_reducible apply ite_intro
      · intro _; exact h
      intro hx; clear hx
      apply pc_connInput _ _ h
      · intro c1 h1
        wps
        generalize [Frame.altsvc 0 ov f] = fs
        apply pc_prepare _ _ h1
        · intro _ h2; exact h2
        · intro _ _ h2; exact h2
      · intro _ _ h2; exact h2
theorem pc_apiPrioritize (sid : Int) (w d : Option Int) (e : Option Bool) (c : Conn) : PC (prioritize sid w d e) c := by
  intro h; unfold prioritize; pc_api
theorem pc_apiAckData (size sid : Int) (c : Conn) : PC (acknowledgeReceivedData size sid) c := by
  intro h; unfold acknowledgeReceivedData ackCredit; pc_api
theorem pc_apiDataToSend (n : Option Int) (c : Conn) : PC (dataToSend n) c := by
  intro h; unfold dataToSend; pc_api
theorem pc_apiClearOut (c : Conn) : PC clearOutboundDataBuffer c := by
  intro h; unfold clearOutboundDataBuffer; pc_api
theorem pc_apiLocalWindow (sid : Int) (c : Conn) : PC (localFlowControlWindow sid) c := by
  intro h; unfold localFlowControlWindow; pc_api
theorem pc_apiRemoteWindow (sid : Int) (c : Conn) : PC (remoteFlowControlWindow sid) c := by
  intro h; unfold remoteFlowControlWindow; pc_api
theorem pc_apiNextStreamId (c : Conn) : PC getNextAvailableStreamId c := by
  intro h; unfold getNextAvailableStreamId; pc_api
theorem pc_apiOpenOut (c : Conn) : PC openOutboundStreams c := by
  intro h; unfold openOutboundStreams; pc_api
theorem pc_apiOpenIn (c : Conn) : PC openInboundStreams c := by
  intro h; unfold openInboundStreams; pc_api
theorem pc_apiSendData (sid : Int) (d : Bytes) (es : Bool) (pad : Option Int) (c : Conn) : PC (sendData sid d es pad) c := by
  intro h; unfold sendData sendDataCore localFlowControlWindow; pc_api
theorem pc_apiSendHeaders (sid : Int) (hs : List Header) (es : Bool) (pw pd : Option Int) (pe : Option Bool) (c : Conn) :
    PC (sendHeaders sid hs es pw pd pe) c := by
  intro h; unfold sendHeaders sendHeadersTail addPriority openOutboundStreams; pc_api
theorem pc_apiPushStream (sid p : Int) (hs : List Header) (c : Conn) : PC (pushStream sid p hs) c := by
  intro h; unfold pushStream; pc_api
theorem pc_apiInitiate (c : Conn) : PC initiateConnection c := by
  intro h; unfold initiateConnection settingsFrameOfLocal; pc_api
theorem pc_apiUpgrade (hdr : Option Bytes) (c : Conn) :
    PC (initiateUpgradeConnection (fun items => do let _ ← receiveSettingsFrame false items; pure ()) hdr) c := by
  intro h
  unfold initiateUpgradeConnection settingsFrameOfLocal
  repeat' (first
    | assumption
    | (apply pc_use (pc_apiInitiate) _ (by assumption))
    | (apply pc_connInput _ _ (by assumption))
    | (apply pc_withStream _ _ _ (by assumption))
    | (apply pc_use (pc_beginNewStream _ _) _ (by assumption))
    | (apply pc_use (pc_settings _ _) _ (by assumption))
    | (intro _)
    | wps
    | split)

end H2
