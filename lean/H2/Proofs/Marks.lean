/-
  The high-water marks of the stream ids stay in order along every history: `highest_outbound_stream_id` is 0 or an id
  of this endpoint's parity, never above 2^31-1; `highest_inbound_stream_id` is 0 or an id of the peer's parity.
  (So `get_next_available_stream_id` always answers with a fresh id of the right parity, or refuses: C09_next has its
  premise in every reachable state.)  Three places write the marks: `_begin_new_stream` (after its three checks),
  `_refuse_pushed_stream` (an id of the peer's parity above the mark) and the restoring branch of `send_headers`.
  (Lemma-per-primitive scheme as in Proofs/ClosedCap.)
-/
import H2.Proofs.ClosedCap
namespace H2
open H2.Gen H2.Conn

/-- the parity of the ids an endpoint opens: clients odd, servers even -/
def parOf (cl : Bool) : Int := if cl then 1 else 0

/-- the high-water marks are in order (for an endpoint whose role is `cl`, which never changes) -/
def MK (cl : Bool) (c : Conn) : Prop :=
  c.cfg.client = cl ∧
  (c.highestOut = 0 ∨ (c.highestOut % 2 = parOf cl ∧ 0 < c.highestOut)) ∧ c.highestOut ≤ 2147483647 ∧
  (c.highestIn = 0 ∨ (c.highestIn % 2 = 1 - parOf cl ∧ 0 < c.highestIn))

variable {cl : Bool}

section
variable {α : Type} {Q : α → Conn → Prop} {E : Exc → Conn → Prop}

theorem pm_connInput {Q : Unit → Conn → Prop} (i : ConnectionInputs) (c : Conn) (h : (MK cl) c)
    (hq : ∀ c', (MK cl) c' → Q () c') (he : ∀ e c', (MK cl) c' → E e c') : wp (connInput i) Q E c := by
  unfold wp connInput
  cases connTable c.cstate i with
  | none => exact he _ _ h
  | some t => exact hq _ h

theorem pm_withStream (sid : Int) (m : M Stream α) (c : Conn) (h : (MK cl) c)
    (hq : ∀ a c', (MK cl) c' → Q a c') (he : ∀ e c', (MK cl) c' → E e c') : wp (withStream sid m) Q E c := by
  rw [wp_withStream]
  cases c.streams.lookup sid with
  | none => exact he _ _ h
  | some st => exact wp_havoc (fun a s' => hq a _ h) (fun e s' => he e _ h)

theorem pm_getStreamById {Q : Unit → Conn → Prop} (sid : Int) (c : Conn) (h : (MK cl) c)
    (hq : ∀ c', (MK cl) c' → Q () c') (he : ∀ e c', (MK cl) c' → E e c') : wp (getStreamById sid) Q E c := by
  rw [wp_getStreamById_eq]
  repeat' split
  all_goals first | exact hq c h | exact he _ c h

theorem pm_openStreams {Q : Int → Conn → Prop} (r : Int) (c : Conn) (h : (MK cl) c)
    (hq : ∀ a c', (MK cl) c' → Q a c') : wp (openStreams r) Q E c := by
  simp only [wp, openStreams]; exact hq _ _ h

theorem pm_onConnWM {Q : Option Int → Conn → Prop} (f : WindowManager → WRes) (c : Conn) (h : (MK cl) c)
    (hq : ∀ a c', (MK cl) c' → Q a c') (he : ∀ e c', (MK cl) c' → E e c') : wp (onConnWM f) Q E c := by
  rw [wp_onConnWM]
  cases f c.inWM with
  | mk r w => cases r <;> first | exact hq _ _ h | exact he _ _ h

theorem pm_decodeHeaders {Q : List Header → Conn → Prop} (b : Bytes) (c : Conn) (h : (MK cl) c)
    (hq : ∀ a c', (MK cl) c' → Q a c') (he : ∀ e c', (MK cl) c' → E e c') : wp (decodeHeaders b) Q E c := by
  unfold decodeHeaders
  wps
  apply wp_havoc
  · intro r hp'
    cases r <;> wps <;> first | exact hq _ _ h | exact he _ _ h
  · intro e hp'; exact he _ _ h

theorem pm_fcc {Q : Unit → Conn → Prop} (o n : Int) (c : Conn) (h : (MK cl) c)
    (hq : ∀ c', (MK cl) c' → Q () c') (he : ∀ e c', (MK cl) c' → E e c') :
    wp (flowControlChangeFromSettings o n) Q E c := by
  unfold wp flowControlChangeFromSettings
  simp only
  cases flowControlChangeFromSettings.go (n - o) [] c.streams with
  | mk r ss => cases r <;> first | exact hq _ h | exact he _ _ h

theorem pm_ifcc {Q : Unit → Conn → Prop} (o n : Int) (c : Conn) (h : (MK cl) c)
    (hq : ∀ c', (MK cl) c' → Q () c') (he : ∀ e c', (MK cl) c' → E e c') :
    wp (inboundFlowControlChangeFromSettings o n) Q E c := by
  unfold wp inboundFlowControlChangeFromSettings
  simp only
  cases inboundFlowControlChangeFromSettings.go (n - o) [] c.streams with
  | mk r ss => cases r <;> first | exact hq _ h | exact he _ _ h

theorem pm_putStream {Q : Unit → Conn → Prop} (sid : Int) (st : Stream) (c : Conn) (h : (MK cl) c)
    (hq : ∀ c', (MK cl) c' → Q () c') : wp (putStream sid st) Q E c := by
  rw [wp_putStream]
  apply hq
  unfold putStream modifyS; simp only
  split <;> exact h

end

theorem localOtherChanges_mk (ch : List (Int × Option Int × Int)) (c : Conn) (h : (MK cl) c) : (MK cl) (localOtherChanges ch c) := by
  unfold localOtherChanges; repeat' split
  all_goals exact h
theorem remoteOtherChanges_mk (ch : List (Int × Option Int × Int)) (c : Conn) (h : (MK cl) c) : (MK cl) (remoteOtherChanges ch c) := by
  unfold remoteOtherChanges; repeat' split
  all_goals exact h

/-- close goals of the form `… .outWin = s0` / continue through a method that never writes frames -/
macro "pm_auto" : tactic => `(tactic|
  repeat' (first
    | assumption
    | (apply localOtherChanges_mk; assumption)
    | (apply remoteOtherChanges_mk; assumption)
    | (apply pm_connInput _ _ (by assumption))
    | (apply pm_withStream _ _ _ (by assumption))
    | (apply pm_getStreamById _ _ (by assumption))
    | (apply pm_openStreams _ _ (by assumption))
    | (apply pm_onConnWM _ _ (by assumption))
    | (apply pm_decodeHeaders _ _ (by assumption))
    | (apply pm_fcc _ _ _ (by assumption))
    | (apply pm_ifcc _ _ _ (by assumption))
    | (apply pm_putStream _ _ _ (by assumption))
    | (intro _)
    | wps
    | split))

abbrev PM (cl : Bool) (m : CM α) (c : Conn) : Prop := (MK cl) c → wp m (fun _ c' => (MK cl) c') (fun _ c' => (MK cl) c') c

theorem pm_ping (a : Bool) (p : Bytes) (c : Conn) : PM cl (receivePingFrame a p) c := by
  intro h
  unfold receivePingFrame; pm_auto
theorem pm_priority (sid : Int) (p : Prio) (c : Conn) : PM cl (receivePriorityFrame sid p) c := by
  intro h
  unfold receivePriorityFrame; pm_auto


theorem pm_goaway (l k : Int) (x : Bytes) (c : Conn) : PM cl (receiveGoawayFrame l k x) c := by
  intro h
  unfold receiveGoawayFrame clearOutboundDataBuffer; pm_auto
theorem pm_rst (sid code : Int) (c : Conn) : PM cl (receiveRstStreamFrame sid code) c := by
  intro h
  unfold receiveRstStreamFrame; pm_auto
theorem pm_altsvc (sid : Int) (o f : Bytes) (c : Conn) : PM cl (receiveAltSvcFrame sid o f) c := by
  intro h
  unfold receiveAltSvcFrame; pm_auto
theorem pm_cont (sid : Int) (c : Conn) : PM cl (receiveNakedContinuation sid) c := by
  intro h
  unfold receiveNakedContinuation; pm_auto
theorem pm_data (sid : Int) (p : Bytes) (es : Bool) (fcl : Int) (c : Conn) : PM cl (receiveDataFrame sid p es fcl) c := by
  intro h
  unfold receiveDataFrame; pm_auto
theorem pm_settings (ack : Bool) (items : List (Int × Int)) (c : Conn) : PM cl (receiveSettingsFrame ack items) c := by
  intro h
  unfold receiveSettingsFrame localSettingsAcked acknowledgeSettings localWindowChange remoteWindowChange
  pm_auto


theorem pm_use {α : Type} {Q : α → Conn → Prop} {E : Exc → Conn → Prop} {m : CM α} (hm : ∀ c, PM cl m c) (c : Conn)
    (h : (MK cl) c) (hq : ∀ a c', (MK cl) c' → Q a c') (he : ∀ e c', (MK cl) c' → E e c') :
    wp m Q E c :=
  wp_mono (hm c h) (fun a c' h' => hq a c' h') (fun e c' h' => he e c' h')

theorem putStream_marks (c : Conn) (sid : Int) (st : Stream) :
    (putStream sid st c).2.cfg = c.cfg ∧ (putStream sid st c).2.highestIn = c.highestIn ∧
    (putStream sid st c).2.highestOut = c.highestOut := by
  unfold putStream modifyS; simp only; split <;> exact ⟨rfl, rfl, rfl⟩

theorem mk_createStream {Q : Unit → Conn → Prop} {E : Exc → Conn → Prop} (sid : Int) (c : Conn) (h : (MK cl) c)
    (hs : 0 < sid ∧ sid ≤ 2147483647)
    (hq : ∀ c', (MK cl) c' → Q () c') (he : ∀ e c', (MK cl) c' → E e c') :
    wp (createStream sid (streamIdIsOutbound c sid)) Q E c := by
  unfold createStream optInt?
  wps
  cases c.localSettings.initialWindowSize with
  | none => simp only; wps; exact he _ _ h
  | some iw =>
    simp only
    wps
    cases c.remoteSettings.initialWindowSize with
    | none => simp only; wps; exact he _ _ h
    | some ow =>
      simp only
      wps
      cases WindowManager.init iw with
      | error e => simp only; wps; exact he _ _ h
      | ok wm =>
        simp only
        wps
        rw [wp_putStream]
        wps
        obtain ⟨f0, f1, f2⟩ := putStream_marks c sid { sm := { sid := sid }, maxOutFrame := c.maxOutFrame, outWin := ow, inWM := wm }
        apply hq
        obtain ⟨hcl, hout, hmax, hin⟩ := h
        have hpar : ∀ ob : Bool, streamIdIsOutbound c sid = ob → sid % 2 = (if ob then parOf cl else 1 - parOf cl) := by
          intro ob hob
          unfold streamIdIsOutbound at hob
          rw [hcl] at hob
          unfold parOf
          cases cl <;> cases ob <;> simp only [if_true, if_false, Bool.false_eq_true, beq_iff_eq, beq_eq_false_iff_ne, ne_eq] at hob ⊢ <;> omega
        cases hob : streamIdIsOutbound c sid
        · simp only [Bool.false_eq_true, if_false]
          have := hpar false hob
          exact ⟨by rw [f0]; exact hcl, by rw [f2]; exact hout, by rw [f2]; exact hmax,
                 Or.inr ⟨by simpa using this, hs.1⟩⟩
        · simp only [if_true]
          have := hpar true hob
          exact ⟨by rw [f0]; exact hcl, Or.inr ⟨by simpa using this, hs.1⟩, hs.2, by rw [f1]; exact hin⟩

theorem pm_beginNewStream (sid : Int) (odd : Bool) (c : Conn) : PM cl (beginNewStream sid odd) c := by
  intro h
  unfold beginNewStream
  wps
  with_reducible apply ite_intro
  · intro _; exact h
  intro hlow
  with_reducible apply ite_intro
  · intro _; exact h
  intro _
  with_reducible apply ite_intro
  · intro _; exact h
  intro hhigh
  apply mk_createStream sid c h ?_ (fun _ h' => h') (fun _ _ h' => h')
  unfold HIGHEST_ALLOWED_STREAM_ID at hhigh
  have h0 : 0 ≤ c.highestOut ∧ 0 ≤ c.highestIn := by
    obtain ⟨_, hout, _, hin⟩ := h
    constructor
    · rcases hout with h1 | h1 <;> omega
    · rcases hin with h1 | h1 <;> omega
  constructor
  · by_cases ho : streamIdIsOutbound c sid = true
    · simp only [ho, if_true] at hlow; omega
    · simp only [ho, Bool.false_eq_true, if_false] at hlow; omega
  · omega

theorem pm_getOrCreateStream (sid : Int) (odd : Bool) (c : Conn) : PM cl (getOrCreateStream sid odd) c := by
  intro h
  unfold getOrCreateStream
  repeat' (first | assumption | (apply pm_use (pm_beginNewStream _ _) _ (by assumption)) | (intro _) | wps | split)

theorem pm_refuse (p : Int) (c : Conn) : PM cl (refusePushedStream p) c := by
  intro h
  have e : (refusePushedStream p c).2 = (if (!streamIdIsOutbound c p && decide (p > c.highestIn)) = true then
      ({ c with highestIn := p, closedStreams := closedInsert c.closedStreams p (some .SEND_RST_STREAM) } : Conn) else c) := rfl
  have hc : (MK cl) (refusePushedStream p c).2 := by
    rw [e]
    split
    · rename_i hcond
      simp only [Bool.and_eq_true, Bool.not_eq_true', decide_eq_true_eq] at hcond
      obtain ⟨hcl, hout, hmax, hin⟩ := h
      have hob := hcond.1
      unfold streamIdIsOutbound at hob
      rw [hcl] at hob
      have h0 : 0 ≤ c.highestIn := by rcases hin with h1 | h1 <;> omega
      refine ⟨hcl, hout, hmax, Or.inr ⟨?_, by show 0 < p; omega⟩⟩
      show p % 2 = _
      unfold parOf
      cases cl <;> simp only [if_true, if_false, Bool.false_eq_true, beq_eq_false_iff_ne, ne_eq] at hob ⊢ <;> omega
    · exact h
  unfold wp
  cases hr : refusePushedStream p c with
  | mk r c' =>
    rw [hr] at hc
    cases r <;> exact hc

macro "pm_auto2" : tactic => `(tactic|
  repeat' (first
    | assumption
    | (apply pm_use (pm_getOrCreateStream _ _) _ (by assumption))
    | (apply pm_use (pm_beginNewStream _ _) _ (by assumption))
    | (apply pm_use (pm_priority _ _) _ (by assumption))
    | (apply pm_use (pm_refuse _) _ (by assumption))
    | (apply pm_connInput _ _ (by assumption))
    | (apply pm_withStream _ _ _ (by assumption))
    | (apply pm_getStreamById _ _ (by assumption))
    | (apply pm_openStreams _ _ (by assumption))
    | (apply pm_decodeHeaders _ _ (by assumption))
    | (intro _)
    | wps
    | split))

theorem pm_headersRest (sid : Int) (b : Bytes) (es : Bool) (pr : Option Prio) (c : Conn) : PM cl (receiveHeadersRest sid b es pr) c := by
  intro h
  unfold receiveHeadersRest
  pm_auto2

theorem pm_headers (sid : Int) (b : Bytes) (es : Bool) (pr : Option Prio) (c : Conn) : PM cl (receiveHeadersFrame sid b es pr) c := by
  intro h
  unfold receiveHeadersFrame openInboundStreams
  repeat' (first
    | assumption
    | (apply pm_use (pm_headersRest _ _ _ _) _ (by assumption))
    | (apply pm_openStreams _ _ (by assumption))
    | (intro _)
    | wps
    | split)

theorem pm_pushKnown (sid p : Int) (hs : List Header) (c : Conn) : PM cl (receivePushPromiseKnown sid p hs) c := by
  intro h
  unfold receivePushPromiseKnown openInboundStreams
  pm_auto2

theorem pm_pushUnknown (sid p : Int) (c : Conn) : PM cl (receivePushPromiseUnknown sid p) c := by
  intro h
  unfold receivePushPromiseUnknown
  pm_auto2

theorem pm_push (sid p : Int) (b : Bytes) (c : Conn) : PM cl (receivePushPromiseFrame sid p b) c := by
  intro h
  unfold receivePushPromiseFrame
  repeat' (first
    | assumption
    | (apply pm_use (pm_pushKnown _ _ _) _ (by assumption))
    | (apply pm_use (pm_pushUnknown _ _) _ (by assumption))
    | (apply pm_connInput _ _ (by assumption))
    | (apply pm_getStreamById _ _ (by assumption))
    | (apply pm_decodeHeaders _ _ (by assumption))
    | (intro _)
    | wps
    | split)


theorem pm_windowUpdate (sid incr : Int) (c : Conn) : PM cl (receiveWindowUpdateFrame sid incr) c := by
  intro h
  unfold receiveWindowUpdateFrame; pm_auto

theorem pm_dispatch (rf : RFrame) (c : Conn) : PM cl (dispatch rf) c := by
  unfold dispatch
  split
  · exact pm_headers _ _ _ _ c
  · exact pm_push _ _ _ c
  · exact pm_settings _ _ c
  · exact pm_data _ _ _ _ c
  · exact pm_windowUpdate _ _ c
  · exact pm_ping _ _ c
  · exact pm_rst _ _ c
  · exact pm_priority _ _ c
  · exact pm_goaway _ _ _ c
  · exact pm_cont _ c
  · exact pm_altsvc _ _ _ c
  · intro h; wps; exact h

theorem pm_prepare {Q : Unit → Conn → Prop} {E : Exc → Conn → Prop} (fs : List Frame) (c : Conn) (h : (MK cl) c)
    (hq : ∀ c', (MK cl) c' → Q () c') (he : ∀ e c', (MK cl) c' → E e c') : wp (prepareForSending fs) Q E c := by
  unfold prepareForSending
  wps
  split
  · exact hq c h
  · cases fs.mapM Frame.serialize? with
    | none => exact he _ c h
    | some bs =>
      simp only
      wps
      split
      · exact hq _ h
      · exact he _ _ h

theorem pm_withStreamHp {α : Type} {Q : α → Conn → Prop} {E : Exc → Conn → Prop} (sid : Int) (m : SH α) (c : Conn) (h : (MK cl) c)
    (hq : ∀ a c', (MK cl) c' → Q a c') (he : ∀ e c', (MK cl) c' → E e c') : wp (withStreamHp sid m) Q E c := by
  rw [wp_withStreamHp]
  cases c.streams.lookup sid with
  | none => exact he _ _ h
  | some st => exact wp_havoc (fun a s' => hq a _ h) (fun e s' => he e _ h)

/-- **`receive_data` keeps the memory of closed streams within its cap**, whatever the bytes -/
theorem stable_MK : Stable (MK cl) where
  fb := fun _ _ h => h
  connInput := fun i c h => by apply pm_connInput _ _ h <;> (intros; assumption)
  prepare := fun fs c h => by apply pm_prepare _ _ h <;> (intros; assumption)
  dispatch := fun rf c h => pm_dispatch rf c h

theorem receiveData_mk (d : Bytes) (c : Conn) (h : (MK cl) c) : (MK cl) (receiveData d c).2 := stable_receiveData stable_MK d c h

/-! ### the public calls -/

macro "pm_api" : tactic => `(tactic|
  repeat' (first
    | assumption
    | (apply pm_connInput _ _ (by assumption))
    | (apply pm_withStream _ _ _ (by assumption))
    | (apply pm_withStreamHp _ _ _ (by assumption))
    | (apply pm_getStreamById _ _ (by assumption))
    | (apply pm_openStreams _ _ (by assumption))
    | (apply pm_onConnWM _ _ (by assumption))
    | (apply pm_prepare _ _ (by assumption))
    | (apply pm_use (pm_getOrCreateStream _ _) _ (by assumption))
    | (apply pm_use (pm_beginNewStream _ _) _ (by assumption))
    | (apply pm_use (pm_settings _ _) _ (by assumption))
    | (with_reducible apply ite_intro)
    | (intro _)
    | wps
    | split))

theorem pm_apiPing (d : Bytes) (c : Conn) : PM cl (ping d) c := by
  intro h; unfold ping; pm_api
theorem pm_apiResetStream (sid code : Int) (c : Conn) : PM cl (resetStream sid code) c := by
  intro h; unfold resetStream; pm_api
theorem pm_apiEndStream (sid : Int) (c : Conn) : PM cl (endStream sid) c := by
  intro h; unfold endStream; pm_api
set_option maxRecDepth 100000 in
theorem pm_apiIncrementWindow (n : Int) (sid : Option Int) (c : Conn) : PM cl (incrementFlowControlWindow n sid) c := by
  intro h; unfold incrementFlowControlWindow; pm_api
theorem pm_apiCloseConnection (code : Int) (extra : Option Bytes) (last : Option Int) (c : Conn) :
    PM cl (closeConnection code extra last) c := by
  intro h; unfold closeConnection; pm_api
theorem pm_apiUpdateSettings (items : List (Int × Int)) (c : Conn) : PM cl (updateSettings items) c := by
  intro h; unfold updateSettings; pm_api
set_option maxRecDepth 100000 in
theorem pm_apiAltsvc (f : Bytes) (o : Option Bytes) (sid : Option Int) (c : Conn) :
    PM cl (advertiseAlternativeService f o sid) c := by
  intro h
  unfold advertiseAlternativeService
  cases o with
  | none =>
    cases sid with
    | none => wps; simp only [Option.isSome_none, Bool.and_self, Bool.false_eq_true, if_false, Option.isNone_none, if_true]; exact h
    | some s =>
      wps
      simp only [Option.isSome_none, Bool.false_and, Bool.false_eq_true, if_false, Option.isNone_none, Option.isNone_some,
        Bool.and_false]
      pm_api
  | some ov =>
    wps
    cases sid with
    | some s => simp only [Option.isSome_some, Bool.and_self, if_true]; exact h
    | none =>
      simp only [Option.isSome_some, Option.isSome_none, Bool.and_false, Bool.false_eq_true, if_false, Option.isNone_some,
        Bool.false_and]
      with_reducible apply ite_intro
      · intro _; exact h
      intro hx; clear hx
      with_reducible apply ite_intro
      · intro _; exact h
      intro hx; clear hx
      with_reducible apply ite_intro
      · intro _; exact h
      intro hx; clear hx
      apply pm_connInput _ _ h
      · intro c1 h1
        wps
        generalize [Frame.altsvc 0 ov f] = fs
        apply pm_prepare _ _ h1
        · intro _ h2; exact h2
        · intro _ _ h2; exact h2
      · intro _ _ h2; exact h2
theorem pm_apiPrioritize (sid : Int) (w d : Option Int) (e : Option Bool) (c : Conn) : PM cl (prioritize sid w d e) c := by
  intro h; unfold prioritize; pm_api
theorem pm_apiAckData (size sid : Int) (c : Conn) : PM cl (acknowledgeReceivedData size sid) c := by
  intro h; unfold acknowledgeReceivedData ackCredit; pm_api
theorem pm_apiDataToSend (n : Option Int) (c : Conn) : PM cl (dataToSend n) c := by
  intro h; unfold dataToSend; pm_api
theorem pm_apiClearOut (c : Conn) : PM cl clearOutboundDataBuffer c := by
  intro h; unfold clearOutboundDataBuffer; pm_api
theorem pm_apiLocalWindow (sid : Int) (c : Conn) : PM cl (localFlowControlWindow sid) c := by
  intro h; unfold localFlowControlWindow; pm_api
theorem pm_apiRemoteWindow (sid : Int) (c : Conn) : PM cl (remoteFlowControlWindow sid) c := by
  intro h; unfold remoteFlowControlWindow; pm_api
theorem pm_apiNextStreamId (c : Conn) : PM cl getNextAvailableStreamId c := by
  intro h; unfold getNextAvailableStreamId; pm_api
theorem pm_apiOpenOut (c : Conn) : PM cl openOutboundStreams c := by
  intro h; unfold openOutboundStreams; pm_api
theorem pm_apiOpenIn (c : Conn) : PM cl openInboundStreams c := by
  intro h; unfold openInboundStreams; pm_api
theorem pm_apiSendData (sid : Int) (d : Bytes) (es : Bool) (pad : Option Int) (c : Conn) : PM cl (sendData sid d es pad) c := by
  intro h; unfold sendData sendDataCore localFlowControlWindow; pm_api
theorem pm_apiSendHeaders (sid : Int) (hs : List Header) (es : Bool) (pw pd : Option Int) (pe : Option Bool) (c : Conn) :
    PM cl (sendHeaders sid hs es pw pd pe) c := by
  intro h; unfold sendHeaders sendHeadersTail addPriority openOutboundStreams; pm_api
  -- the restoring branch: the mark goes back to what it was when the call began
  all_goals (
    have hc' := ‹MK cl _›
    exact ⟨hc'.1, h.2.1, h.2.2.1, hc'.2.2.2⟩)
theorem pm_apiPushStream (sid p : Int) (hs : List Header) (c : Conn) : PM cl (pushStream sid p hs) c := by
  intro h; unfold pushStream; pm_api
theorem pm_apiInitiate (c : Conn) : PM cl initiateConnection c := by
  intro h; unfold initiateConnection settingsFrameOfLocal; pm_api
theorem pm_apiUpgrade (hdr : Option Bytes) (c : Conn) :
    PM cl (initiateUpgradeConnection (fun items => do let _ ← receiveSettingsFrame false items; pure ()) hdr) c := by
  intro h
  unfold initiateUpgradeConnection settingsFrameOfLocal
  repeat' (first
    | assumption
    | (apply pm_use (pm_apiInitiate) _ (by assumption))
    | (apply pm_connInput _ _ (by assumption))
    | (apply pm_withStream _ _ _ (by assumption))
    | (apply pm_use (pm_beginNewStream _ _) _ (by assumption))
    | (apply pm_use (pm_settings _ _) _ (by assumption))
    | (intro _)
    | wps
    | split)

end H2
