/-
  C03 — outbound DATA never exceeds the peer's flow-control windows.

  `guard_increment_window` is regenerated from utilities.py on every run; `send_data` and the window bookkeeping
  are the hand model.
-/
import H2.Proofs.PairCredit
-- the credit equation of one window between two endpoints, everything in flight (arithmetic of windows.py + C03/C04/C11)
-- @also H2.PairCredit.data_never_overruns
import H2.Proofs.StreamLemmas
import H2.Proofs.SendHeaders
import H2.Proofs.OutWin
import H2.Proofs.StreamWin
import H2.Props.C29

namespace H2.C03
open H2 H2.Gen H2.Conn

/-- flow-controlled length of a `send_data` call: padding counts (pad length byte included) -/
def fcLen (data : Bytes) (pad : Option Int) : Int := data.length + (match pad with | some p => p + 1 | none => 0)

/-- **query**: `local_flow_control_window` reports the smaller of the connection and the stream window -/
theorem C03_query (c : Conn) (sid : Int) (st : Stream) (h : c.streams.lookup sid = some st) :
    wp (localFlowControlWindow sid) (fun v c' => v = min c.outWin st.outWin ∧ c' = c) (fun _ _ => False) c := by
  simp only [localFlowControlWindow]
  wps
  rw [wp_getStreamById_eq]
  have hs : hasStream c sid = true := by rw [hasStream_lookup, h]; rfl
  simp only [hs, if_true, lookupStream]
  wps
  simp only [h]
  wps
  simp

/-- **one byte more is refused, atomically**: a `send_data` whose flow-controlled length exceeds the reported window
    raises FlowControlError (code FLOW_CONTROL_ERROR), emits nothing and changes nothing -/
theorem C03_refuse (c : Conn) (sid : Int) (st : Stream) (data : Bytes) (es : Bool) (pad : Option Int)
    (h : c.streams.lookup sid = some st) (hpad : ∀ p, pad = some p → 0 ≤ p ∧ p ≤ 255)
    (hbig : fcLen data pad > min c.outWin st.outWin) :
    wp (sendData sid data es pad) (fun _ _ => False)
      (fun e c' => c' = c ∧ e.isInstance .FlowControlError = true) c := by
  have hs : hasStream c sid = true := by rw [hasStream_lookup, h]; rfl
  simp only [sendData, sendDataCore, localFlowControlWindow]
  rcases pad with _ | p
  · simp only [fcLen] at hbig
    wps
    rw [wp_getStreamById_eq]
    simp only [hs, if_true, lookupStream]
    wps
    simp only [h]
    wps
    have : (data.length : Int) + 0 > min c.outWin st.outWin := hbig
    have h2 : (data.length : Int) > min c.outWin st.outWin := by omega
    simp only [h2, if_true]
    exact ⟨trivial, by decide⟩
  · obtain ⟨hp0, hp1⟩ := hpad p rfl
    simp only [fcLen] at hbig
    have hnot : ¬ ((decide (p < 0) || decide (p > 255)) = true) := by simp; omega
    simp only [hnot, if_false]
    wps
    rw [wp_getStreamById_eq]
    simp only [hs, if_true, lookupStream]
    wps
    simp only [h]
    wps
    have h2 : (data.length : Int) + p + 1 > min c.outWin st.outWin := by omega
    simp only [h2, if_true]
    exact ⟨trivial, by decide⟩

/-- **what a `send_data` call does to the ledger**, any state, any arguments: if it returns, it has written exactly
    one DATA frame, its flow-controlled length fitted both windows, and the connection window went down by exactly that
    length; if it raises, it has written nothing and the connection window is what it was.  Either way the inbound
    window manager is untouched. -/
theorem C03_send_data_ledger (c : Conn) (sid : Int) (data : Bytes) (es : Bool) (pad : Option Int) :
    wp (sendData sid data es pad)
      (fun _ c' => (∃ fsid, c'.sent = c.sent ++ [Frame.data fsid data es pad]) ∧
          fclOf data pad ≤ c.outWin ∧ c'.outWin = c.outWin - fclOf data pad ∧ c'.inWM = c.inWM ∧
          (∀ st, c.streams.lookup sid = some st → fclOf data pad ≤ st.outWin))
      (fun _ c' => c'.sent = c.sent ∧ c'.outWin = c.outWin ∧ c'.inWM = c.inWM) c := by
  have core : ∀ (hp : ∀ p, pad = some p → 0 ≤ p ∧ p ≤ 255),
      wp (sendDataCore sid data es pad (fclOf data pad))
        (fun _ c' => (∃ fsid, c'.sent = c.sent ++ [Frame.data fsid data es pad]) ∧
            fclOf data pad ≤ c.outWin ∧ c'.outWin = c.outWin - fclOf data pad ∧ c'.inWM = c.inWM ∧
            (∀ st, c.streams.lookup sid = some st → fclOf data pad ≤ st.outWin))
        (fun _ c' => c'.sent = c.sent ∧ c'.outWin = c.outWin ∧ c'.inWM = c.inWM) c := by
    intro hp
    unfold sendDataCore localFlowControlWindow
    wps
    rw [wp_getStreamById_eq]
    by_cases hex : hasStream c sid = true
    · simp only [hex, if_true]
      wps
      have hlk := hex
      rw [hasStream_lookup] at hlk
      unfold lookupStream
      cases hl : c.streams.lookup sid with
      | none => rw [hl] at hlk; simp at hlk
      | some st =>
        simp only
        wps
        by_cases h1 : fclOf data pad > min c.outWin st.outWin
        · simp only [h1, if_true]; exact ⟨trivial, trivial, trivial⟩
        · simp only [h1, if_false]
          by_cases h2 : fclOf data pad > c.maxOutFrame
          · simp only [h2, if_true]; exact ⟨trivial, trivial, trivial⟩
          · simp only [h2, if_false]
            cases ht : connTable c.cstate .SEND_DATA with
            | none => rw [wp_connInput_err _ _ ht]; exact ⟨rfl, rfl, rfl⟩
            | some t =>
              rw [wp_connInput_ok _ _ _ ht]
              wps
              rw [wp_withStream]
              simp only [hl]
              refine wp_mono (sallowed_sendData data es pad st (by omega)) ?_ ?_
              · intro frames st' hr
                obtain ⟨s', hfr⟩ := hr
                subst hfr
                wps
                apply wp_prepare_fit
                · exact data_fits s' data es pad _ hp (by show fclOf data pad ≤ c.maxOutFrame; omega)
                · intro o
                  wps
                  rw [if_neg (by
                    show ¬ (c.outWin - fclOf data pad < 0)
                    omega)]
                  refine ⟨⟨s', rfl⟩, by omega, rfl, rfl, ?_⟩
                  intro st2 hst2
                  injection hst2 with hst2
                  subst hst2
                  omega
              · intro e st' _; exact ⟨rfl, rfl, rfl⟩
    · simp only [hex, Bool.false_eq_true, if_false]
      repeat' split
      all_goals first | exact ⟨rfl, rfl, rfl⟩ | exact ⟨trivial, trivial, trivial⟩
  cases pad with
  | none => exact core (fun p hp => by cases hp)
  | some p =>
    unfold sendData
    simp only
    by_cases hp : (decide (p < 0) || decide (p > 255)) = true
    · simp only [hp, if_true]; exact ⟨rfl, rfl, rfl⟩
    · simp only [hp, Bool.false_eq_true, if_false]
      have := core (fun q hq => by injection hq with hq; subst hq; simp at hp; omega)
      simpa only [fclOf, Int.add_assoc] using this

/-- the stream-level bookkeeping: whenever `H2Stream.send_data` returns, the stream window went down by exactly the
    flow-controlled length, the DATA frame carries exactly the call's data, END_STREAM and padding, and nothing but
    the state machine and that window changed -/
theorem C03_stream_send (st : Stream) (data : Bytes) (es : Bool) (pad : Option Int) :
    wp (Stream.sendData data es pad)
      (fun frames st' => frames = [Frame.data st.sm.sid data es pad] ∧ st'.outWin = st.outWin - fcLen data pad ∧
                         0 ≤ st'.outWin ∧ st'.inWM = st.inWM)
      (fun _ _ => True) st := by
  simp only [Stream.sendData]
  cases es
  · simp only [Bool.false_eq_true, if_false]
    wps
    apply wp_processInput_havoc
    · intro evs sh
      simp only [fcLen, Stream.sid]
      split <;> simp_all <;> omega
    · intros; trivial
  · simp only [if_true]
    wps
    apply wp_processInput_havoc
    · intro evs sh
      wps
      apply wp_processInput_havoc
      · intro evs2 sh2
        simp only [fcLen, Stream.sid]
        split <;> simp_all <;> omega
      · intros; trivial
    · intros; trivial

/-- **the generated window guard**: a WINDOW_UPDATE (or INITIAL_WINDOW_SIZE delta) is applied exactly, and refused
    with FlowControlError exactly when the sum would pass 2^31-1 -/
theorem C03_guard (cur incr : Int) :
    guard_increment_window cur incr =
      (if cur + incr > 2147483647 then .error (.h2 .FlowControlError) else .ok (cur + incr)) := by
  unfold guard_increment_window
  simp only [decide_eq_true_eq]
  split <;> split <;> first | rfl | omega

/-- a connection-level WINDOW_UPDATE adds exactly its increment to the connection window (negative windows after a
    settings decrease included) and touches nothing else -/
theorem C03_conn_window_update (c : Conn) (incr : Int) (hopen : c.cstate ≠ .CLOSED)
    (hfit : c.outWin + incr ≤ 2147483647) :
    wp (receiveWindowUpdateFrame 0 incr)
      (fun r c' => c' = { c with outWin := c.outWin + incr } ∧ r = ([], [Event.WindowUpdated 0 (some incr)]))
      (fun _ _ => False) c := by
  have htab : connTable c.cstate .RECV_WINDOW_UPDATE = some c.cstate := by
    cases h : c.cstate <;> simp_all [connTable]
  have hc : ({ c with cstate := c.cstate } : Conn) = c := by cases c; rfl
  simp only [receiveWindowUpdateFrame]
  wps
  rw [wp_connInput_ok _ _ _ htab, hc]
  simp only [bne_self_eq_false, Bool.false_eq_true, if_false]
  wps
  rw [C03_guard]
  have : ¬ (c.outWin + incr > 2147483647) := by omega
  simp only [this, if_false]
  wps
  simp

/-! ### along every history -/

theorem cw_of_run {α : Type} (f : α → Val) (m : CM α) (c : Conn)
    (hk : wp m (fun _ c' => CW c') (fun _ c' => CW c') c) :
    CW (match m c with | (r, c') => (c', ({ res := resOf f r } : Obs))).1 := by
  unfold wp at hk
  cases hm : m c with
  | mk r c' =>
    rw [hm] at hk
    cases r <;> exact hk

theorem cw_of_runU (m : CM Unit) (c : Conn) (hk : wp m (fun _ c' => CW c') (fun _ c' => CW c') c) : CW (runU m c).1 :=
  cw_of_run _ m c hk
theorem cw_of_runI (m : CM Int) (c : Conn) (hk : wp m (fun _ c' => CW c') (fun _ c' => CW c') c) : CW (runI m c).1 :=
  cw_of_run _ m c hk

/-- one public call keeps the connection's outbound window within `0 … 2^31-1`, whether it returns or raises -/
theorem C03_call_keeps_conn_window (c : Conn) (op : Op) (hop : ∀ d, op ≠ .recv d) (h : CW c) : CW (step c op).1 := by
  cases op with
  | recv d => exact absurd rfl (hop d)
  | initiateConnection =>
    show CW (runU (initiateConnection) c).1
    exact cw_of_runU _ c (cw_of_po (po_apiInitiate c) h)
  | initiateUpgrade hdr => exact cw_of_run _ _ c (cw_of_po (po_apiUpgrade hdr c) h)
  | sendHeaders sid hs es pw pd pe =>
    show CW (runU (sendHeaders sid hs es pw pd pe) c).1
    exact cw_of_runU _ c (cw_of_po (po_apiSendHeaders sid hs es pw pd pe c) h)
  | pushStream sid p hs =>
    show CW (runU (pushStream sid p hs) c).1
    exact cw_of_runU _ c (cw_of_po (po_apiPushStream sid p hs c) h)
  | sendData sid d es pad =>
    show CW (runU (sendData sid d es pad) c).1
    exact cw_of_runU _ c (cw_apiSendData sid d es pad c h)
  | endStream sid =>
    show CW (runU (endStream sid) c).1
    exact cw_of_runU _ c (cw_of_po (po_apiEndStream sid c) h)
  | incrementWindow i sid =>
    show CW (runU (incrementFlowControlWindow i sid) c).1
    exact cw_of_runU _ c (cw_of_po (po_apiIncrementWindow i sid c) h)
  | ping d =>
    show CW (runU (ping d) c).1
    exact cw_of_runU _ c (cw_of_po (po_apiPing d c) h)
  | resetStream sid code =>
    show CW (runU (resetStream sid code) c).1
    exact cw_of_runU _ c (cw_of_po (po_apiResetStream sid code c) h)
  | closeConnection code extra last =>
    show CW (runU (closeConnection code extra last) c).1
    exact cw_of_runU _ c (cw_of_po (po_apiCloseConnection code extra last c) h)
  | updateSettings items =>
    show CW (runU (updateSettings items) c).1
    exact cw_of_runU _ c (cw_of_po (po_apiUpdateSettings items c) h)
  | altsvc f o sid =>
    show CW (runU (advertiseAlternativeService f o sid) c).1
    exact cw_of_runU _ c (cw_of_po (po_apiAltsvc f o sid c) h)
  | prioritize sid w d e =>
    show CW (runU (prioritize sid w d e) c).1
    exact cw_of_runU _ c (cw_of_po (po_apiPrioritize sid w d e c) h)
  | ackData size sid =>
    show CW (runU (acknowledgeReceivedData size sid) c).1
    exact cw_of_runU _ c (cw_of_po (po_apiAckData size sid c) h)
  | dataToSend n => exact cw_of_run _ _ c (cw_of_po (po_apiDataToSend n c) h)
  | clearOut =>
    show CW (runU (clearOutboundDataBuffer) c).1
    exact cw_of_runU _ c (cw_of_po (po_apiClearOut c) h)
  | query q =>
    cases q with
    | localWindow sid => exact cw_of_runI _ c (cw_of_po (po_apiLocalWindow sid c) h)
    | remoteWindow sid => exact cw_of_runI _ c (cw_of_po (po_apiRemoteWindow sid c) h)
    | nextStreamId => exact cw_of_runI _ c (cw_of_po (po_apiNextStreamId c) h)
    | openOut => exact cw_of_runI _ c (cw_of_po (po_apiOpenOut c) h)
    | openIn => exact cw_of_runI _ c (cw_of_po (po_apiOpenIn c) h)
    | inboundWindow =>
      refine cw_of_runI (do let c ← getS; pure c.inWM.current_window_size) c ?_
      wps; exact h

/-- `receive_data` keeps it for every byte string (a WINDOW_UPDATE increment is at least 1 because the frame parser
    rejects the others; the sum is checked against 2^31-1 by the regenerated `guard_increment_window`) -/
theorem C03_recv_keeps_conn_window (c : Conn) (d : Bytes) (h : CW c) (hh : HbOk c.fb.headersBuffer) :
    CW (step c (.recv d)).1 := by
  have := receiveData_cw d c h hh
  simp only [step]
  cases hr : receiveData d c with
  | mk r c' =>
    rw [hr] at this
    cases r <;> exact this

/-- **the connection's outbound window never goes negative (and never passes 2^31-1)**, in every state reachable from a
    fresh connection by any public calls and any received bytes: whatever was sent so far was covered by the initial
    65535 octets plus the peer's WINDOW_UPDATE frames -/
theorem C03_conn_window_every_history (cfg : Config) (c : Conn) (h : C29.Reachable cfg c) :
    0 ≤ c.outWin ∧ c.outWin ≤ 2147483647 := by
  show CW c
  induction h with
  | init => cases hc : cfg.client <;> simp [CW, Conn.init, hc, client_init_out_window, server_init_out_window]
  | call c op hr hop ih =>
    refine C03_call_keeps_conn_window c op ?_ ih
    intro d hd; subst hd; exact hop
  | recv c d dec hr hd ih =>
    have hinv := C29.C29_reachable_invariant cfg c hr
    have hi := C17.C17_feed c [] dec hinv.1 hd
    exact C03_recv_keeps_conn_window (C17.feed c [] dec) d ih hi.2

/-! ### a stream's window never exceeds 2^31-1 (RFC 7540 section 6.9.1), method by method -/

/-- `H2Stream.send_data` (pad length not negative, which `H2Connection.send_data` checks first) keeps the bound -/
theorem C03_stream_send_data_keeps_bound (d : Bytes) (es : Bool) (pad : Option Int) (hp : ∀ p, pad = some p → 0 ≤ p) :
    KeepsLe (Stream.sendData d es pad) := kle_sendData d es pad hp

/-- `H2Stream.receive_window_update` keeps it: the sum goes through the regenerated guard, an overflow resets the stream
    and leaves the window alone -/
theorem C03_stream_window_update_keeps_bound (n : Int) : KeepsLe (Stream.receiveWindowUpdate n) := kle_receiveWindowUpdate n

/-- a change of the peer's INITIAL_WINDOW_SIZE keeps it for every stream of the table, also when the loop stops at an
    overflow -/
theorem C03_settings_delta_keeps_bound (o n : Int) (c : Conn) (h : ∀ e ∈ c.streams, SWk e.2) :
    ∀ e ∈ (flowControlChangeFromSettings o n c).2.streams, SWk e.2 := fcc_bound o n c h

/-- no other stream method writes the window at all -/
theorem C03_other_stream_methods_leave_window :
    (∀ cfg hs es, KeepsOW (Stream.receiveHeaders cfg hs es)) ∧ (∀ d es fcl, KeepsOW (Stream.receiveData d es fcl)) ∧
    (∀ cfg p hs, KeepsOW (Stream.receivePushPromiseInBand cfg p hs)) ∧ (∀ hs, KeepsOW (Stream.remotelyPushed hs)) ∧
    (∀ code, KeepsOW (Stream.streamReset code)) ∧ (∀ o f, KeepsOW (Stream.receiveAltSvc o f)) ∧
    (∀ d, KeepsOW (Stream.inboundFlowControlChange d)) ∧ KeepsOW Stream.endStream ∧ (∀ f, KeepsOW (Stream.advertiseAltSvc f)) ∧
    (∀ n, KeepsOW (Stream.increaseFlowControlWindow n)) ∧ (∀ n, KeepsOW (Stream.acknowledgeReceivedData n)) ∧
    KeepsOW Stream.locallyPushed ∧ (∀ cl, KeepsOW (Stream.upgrade cl)) ∧ (∀ code, KeepsOW (Stream.resetStream code)) :=
  ⟨kow_receiveHeaders, kow_receiveData, kow_pushInBand, kow_remotelyPushed, kow_streamReset, kow_receiveAltSvc, kow_inboundFCC,
   kow_endStream, kow_altSvc, kow_incWindow, kow_ackData, kow_locallyPushed, kow_upgrade, kow_resetStream⟩

/-- non-vacuity -/
example : fcLen [1, 2, 3] (some 5) = 9 ∧ fcLen [1, 2, 3] none = 3 := by decide

end H2.C03
