-- This module serves as the root of the `H2` library.
-- Import modules here that should be built as part of the library.
import H2.Basic
