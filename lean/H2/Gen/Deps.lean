/-
  `#gen_deps t₁ t₂ …`: for each theorem, which of the reference definitions of H2/Gen/Windows.lean occur among the
  constants its statement and proof depend on, transitively (the walk `#print axioms` does, restricted to this
  project's constants).  The check uses it to decide which bridge theorems a property needs.
-/
import Lean
import H2.Gen.Windows
open Lean Elab Command

namespace H2.Audit

def tracked : List Name :=
  [`H2.Gen.WindowManager.init, `H2.Gen.WindowManager.window_consumed, `H2.Gen.WindowManager.window_opened,
   `H2.Gen.WindowManager.maybe_update_window, `H2.Gen.WindowManager.process_bytes,
   `H2.Gen.validate_setting, `H2.Gen.guard_increment_window]

/-- constants of this project reachable from `root` -/
partial def reach (env : Environment) (todo : List Name) (seen : NameSet) : NameSet :=
  match todo with
  | [] => seen
  | n :: rest =>
    if seen.contains n then reach env rest seen
    else
      let seen := seen.insert n
      match env.find? n with
      | none => reach env rest seen
      | some ci =>
        let used := ci.type.getUsedConstants ++ (match ci.value? (allowOpaque := true) with
          | some v => v.getUsedConstants
          | none => #[])
        let next := used.toList.filter fun m => (`H2).isPrefixOf m && !seen.contains m
        reach env (next ++ rest) seen

elab "#gen_deps " ids:ident+ : command => do
  let env ← getEnv
  for id in ids do
    let n ← liftCoreM <| realizeGlobalConstNoOverloadWithInfo id
    let r := reach env [n] {}
    let found := tracked.filter r.contains
    logInfo m!"'{n}' uses generated: {found}"

end H2.Audit
