"""Directed generator for C01: a *conversation* between a client and a server built with the library.

Unlike the random pair programs (any call in any state), every call issued here is one the application may make in the
state its own endpoint is in — requests, bodies within the windows and the frame size, informational and final
responses, trailers, pushes with their responses, resets, pings, priority, alternative services, window updates,
acknowledgements of received data, settings changes — so nothing the known findings need (a refused call that closes a
stream, DATA before response headers, a body that contradicts its content-length, two SETTINGS frames in flight, …)
occurs, and the whole history is judged: every delivery must succeed and the receiver's events must reproduce the
sender's calls.  Deliveries move whole frames (k at a time, peeked from the sender's buffer) or arbitrary byte counts,
in either direction at arbitrary points, so frames cross in flight (resets against traffic, settings against traffic,
window updates against data).  A sprinkle of calls that must raise without effect (unknown stream, bad argument) keeps
"calls that raise contribute nothing" in the picture.
"""
import wire
from corr import Runner

METHODS = [b'GET', b'POST', b'PUT', b'DELETE', b'OPTIONS', b'PATCH']


class Conversation(object):
    def __init__(self, rng, model, kinds=None):
        self.rng = rng
        self.r = Runner(model)
        self.kinds = kinds if kinds is not None else {}
        rcv_enc = 'utf-8' if rng.random() < 0.25 else None
        self.cfg = {0: {'op': 'new', 'c': 0, 'client': True, 'vo': 1, 'no': 1, 'vi': 1, 'ni': int(rng.random() < 0.8),
                        'enc': rcv_enc if rng.random() < 0.5 else None},
                    1: {'op': 'new', 'c': 1, 'client': False, 'vo': 1, 'no': 1, 'vi': 1, 'ni': int(rng.random() < 0.8),
                        'enc': rcv_enc if rng.random() < 0.5 else None}}
        self.run(self.cfg[0])
        self.run(self.cfg[1])
        if rng.random() < 0.12:
            # h2c upgrade: the client's settings travel in the HTTP2-Settings header field
            obs = self.run({'op': 'initiate_upgrade', 'c': 0, 'settings_header': None})
            val = bytes.fromhex(obs['res'].split(' ')[1]) if obs['res'].startswith('ok ') and obs['res'] != 'ok -' else None
            self.run({'op': 'initiate_upgrade', 'c': 1, 'settings_header': val})
            self.upgraded = True
        else:
            self.run({'op': 'initiate_connection', 'c': 0})
            self.run({'op': 'initiate_connection', 'c': 1})
            self.upgraded = False
        # what the generator knows about each stream: phase of the request side and of the response side
        self.st = {}
        if self.upgraded:
            self.st[1] = {'req': 'ended', 'resp': None, 'cl': None, 'left': None, 'pushed': False, 'dead': False, 'head': False}
        self.settings_in_flight = {0: 1, 1: 1}       # the initial SETTINGS frames
        self.table_size = {0: 4096, 1: 4096}         # HEADER_TABLE_SIZE only grows here (known finding D45 needs a decrease)
        self.dead = False
        if rng.random() < 0.85:
            self.flush()
        if rng.random() < 0.2 and not self.dead:
            self.squeeze()

    # ------------------------------------------------------------------------------------------------------------
    def run(self, op):
        self.kinds[op['op']] = self.kinds.get(op['op'], 0) + 1
        obs = self.r.run(op)
        if obs is not None and op['op'] == 'xfer':
            rcv = op['to']
            if not obs['res'].startswith('ok'):
                self.dead = True
            for e in obs.get('raw_events') or []:
                nm = type(e).__name__
                if nm == 'SettingsAcknowledged':
                    self.settings_in_flight[rcv] = max(0, self.settings_in_flight[rcv] - 1)
                elif nm == 'StreamReset':
                    s = self.st.get(e.stream_id)
                    if s:
                        s['dead'] = True
        return obs

    def conn(self, c):
        return self.r.world.conns[c].conn

    def outbuf(self, c):
        return self.r.world.conns[c].outbuf()

    def xfer(self, c, how=None):
        rng = self.rng
        buf = self.outbuf(c)
        if not buf:
            return
        how = how or rng.choice(['all', 'all', 'frames', 'frames', 'frames', 'bytes'])
        n = None
        if how == 'frames':
            body = buf[len(wire.PREFACE):] if buf.startswith(wire.PREFACE) else buf
            pre = len(buf) - len(body)
            k = rng.randrange(1, 4)
            i = 0
            while k and len(body) - i >= 9:
                ln = int.from_bytes(body[i:i + 3], 'big')
                if len(body) - i - 9 < ln:
                    break
                i += 9 + ln
                k -= 1
            n = pre + i if i else None
        elif how == 'bytes':
            n = rng.randrange(1, len(buf) + 1)
        self.run({'op': 'xfer', 'c': c, 'to': 1 - c, 'n': n})

    def flush(self):
        for _ in range(6):
            if self.dead or not (self.outbuf(0) or self.outbuf(1)):
                break
            for c in (0, 1):
                if self.outbuf(c) and not self.dead:
                    self.run({'op': 'xfer', 'c': c, 'to': 1 - c, 'n': None})

    def squeeze(self):
        """a recipe: one side has body bytes outstanding on a stream when the other lowers INITIAL_WINDOW_SIZE below
        them (the sender's window goes negative, RFC 7540 6.9.2), then reopens the stream window by WINDOW_UPDATEs;
        the sender goes on sending exactly what it is told it may"""
        rng = self.rng
        if not self.act_request():
            return
        sid = max(self.st)
        s = self.st[sid]
        if s['req'] != 'open' or s['cl'] is not None:
            return
        sent = rng.choice([300, 1000, 5000])
        self.run({'op': 'send_data', 'c': 0, 'sid': sid, 'data': b'q' * sent, 'es': False, 'pad': None})
        if rng.random() < 0.5:
            self.flush()
        if self.settings_in_flight[1] == 0:
            obs = self.run({'op': 'update_settings', 'c': 1, 'settings': [(4, rng.choice([0, 10, 100, sent - 1]))]})
            if obs['res'].startswith('ok'):
                self.settings_in_flight[1] += 1
        self.flush()
        for _ in range(rng.randrange(1, 4)):
            if self.dead or not self.live(1, sid):
                return
            self.run({'op': 'incr_window', 'c': 1, 'incr': rng.choice([50, sent, 2 * sent]), 'sid': sid})
            self.flush()
            room = self.room(0, sid)
            if room > 0 and self.live(0, sid):
                self.run({'op': 'send_data', 'c': 0, 'sid': sid, 'data': b'r' * min(room, rng.choice([1, room, 16384])), 'es': False, 'pad': None})
                self.flush()

    # -- header lists ------------------------------------------------------------------------------------------------
    def pair(self, n, v):
        """the same field as two byte strings or as two text strings"""
        if self.rng.random() < 0.2 and all(b < 128 for b in n + v):
            return n.decode('ascii'), v.decode('ascii')
        return n, v

    def extra_fields(self, trailers=False):
        rng = self.rng
        pool = [(b'accept', b'*/*'), (b'user-agent', b'conv/1.0'), (b'X-Mixed-Case', b'Value'), (b'x-pad', b'  padded  '),
                (b'x-crlf', b'10.0.0.1\r\n'), (b'x-ws', b'\x0bv\x0c'), (b' x-name-pad\t', b'\tv '), (b'x-text-pad', b' text\n'),
                (b'cookie', b'a=b'), (b'cookie', b'c=d; e=f'), (b'x-empty', b''), (b'x-long', b'v' * rng.choice([10, 300, 5000])),
                (b'authorization', b'secret'), (b'x-utf8', 'é'.encode('utf-8')), (b'te', b'trailers')]
        if trailers:
            pool = [(b'x-trailer', b'done'), (b'X-Checksum', b'abc123'), (b'x-t2', b' spaced '), (b'x-t3', b'\rv\n')]
        out = []
        for _ in range(rng.randrange(0, 4)):
            n, v = rng.choice(pool)
            out.append(self.pair(n, v) + (rng.random() < 0.15,))
        return out

    def request_headers(self, method, body_len):
        rng = self.rng
        ps = [(b':method', method), (b':scheme', rng.choice([b'https', b'http'])),
              (b':path', rng.choice([b'/', b'/a/b?c=d', b'/index.html'])), (b':authority', rng.choice([b'example.com', b'localhost:8080']))]
        rng.shuffle(ps)
        hs = [self.pair(n, v) + (False,) for n, v in ps] + self.extra_fields()
        if body_len is not None:
            hs.append((b'content-length', str(body_len).encode(), False))
        return hs

    # -- actions -----------------------------------------------------------------------------------------------------
    def live(self, c, sid):
        """the stream is in `c`'s table and the generator has not seen it die"""
        s = self.st.get(sid)
        return s is not None and not s['dead'] and self.state(c, sid) not in (None, 'CLOSED')

    def state(self, c, sid):
        st = self.conn(c).streams.get(sid)
        return st.state_machine.state.name if st is not None else None

    def room(self, c, sid):
        conn = self.conn(c)
        try:
            return min(conn.local_flow_control_window(sid), conn.max_outbound_frame_size)
        except Exception:
            return 0

    def act_request(self):
        rng = self.rng
        conn = self.conn(0)
        # (asked through an op, like an application would: the property evaluates with a side effect, it cleans closed
        # streams out of the table, and the model must see that too)
        obs = self.run({'op': 'q', 'c': 0, 'what': 'open_out'})
        if not obs['res'].startswith('ok') or int(obs['res'].split(' ')[1]) + 1 > conn.remote_settings.max_concurrent_streams:
            return False
        try:
            sid = conn.get_next_available_stream_id()
        except Exception:
            return False
        if rng.random() < 0.1:
            sid += 2 * rng.randrange(1, 3)
        method = rng.choice(METHODS)
        has_body = method in (b'POST', b'PUT', b'PATCH') and rng.random() < 0.8
        cl = rng.choice([0, 5, 300, 20000]) if has_body and rng.random() < 0.5 else None
        op = {'op': 'send_headers', 'c': 0, 'sid': sid, 'headers': self.request_headers(method, cl), 'es': not has_body}
        if rng.random() < 0.15:
            op.update(pw=rng.randrange(1, 257), pd=rng.choice([0, sid - 2 if sid > 2 else 0]), pe=rng.random() < 0.3)
        obs = self.run(op)
        if obs['res'].startswith('ok'):
            self.st[sid] = {'req': 'ended' if not has_body else 'open', 'resp': None, 'cl': cl, 'left': cl, 'pushed': False,
                            'dead': False, 'head': False}
        return True

    def send_body(self, c, sid, s, side):
        """one DATA frame of the open body on `side` ('req' | 'resp'), within the windows, the frame size and any declared length"""
        rng = self.rng
        room = self.room(c, sid)
        left = s['left'] if side == 'req' else s.get('rleft')
        want = rng.choice([0, 1, 10, 1000, 16384, 70000])
        pad = rng.choice([None, None, None, 0, 7])
        overhead = (pad + 1) if pad is not None else 0
        n = min(want, max(0, room - overhead))
        if left is not None:
            n = min(n, left)
        es = False
        if left is not None:
            es = (left - n == 0) and rng.random() < 0.8
        elif rng.random() < 0.3:
            es = True
        if n == 0 and not es and rng.random() < 0.7:
            return False
        if room - overhead < 0:
            return False
        obs = self.run({'op': 'send_data', 'c': c, 'sid': sid, 'data': bytes([rng.randrange(256)]) * n, 'es': es, 'pad': pad})
        if obs['res'].startswith('ok'):
            if left is not None:
                if side == 'req':
                    s['left'] = left - n
                else:
                    s['rleft'] = left - n
            if es:
                s[side] = 'ended'
        return True

    def act_client_stream(self):
        rng = self.rng
        cands = [sid for sid, s in self.st.items() if s['req'] == 'open' and not s['pushed'] and self.live(0, sid)]
        if not cands:
            return False
        sid = rng.choice(cands)
        s = self.st[sid]
        r = rng.random()
        if r < 0.7:
            return self.send_body(0, sid, s, 'req')
        if s['left'] in (None, 0):
            if r < 0.85:
                obs = self.run({'op': 'end_stream', 'c': 0, 'sid': sid})
            else:
                obs = self.run({'op': 'send_headers', 'c': 0, 'sid': sid, 'headers': self.extra_fields(True) or [(b'x-trailer', b'1', False)], 'es': True})
            if obs['res'].startswith('ok'):
                s['req'] = 'ended'
            return True
        return False

    def act_server_stream(self):
        rng = self.rng
        cands = [sid for sid, s in self.st.items() if s['resp'] != 'ended' and self.live(1, sid)]
        if not cands:
            return False
        sid = rng.choice(cands)
        s = self.st[sid]
        if s['resp'] in (None, 'info'):
            if not s['pushed'] and self.state(1, sid) in ('OPEN', 'HALF_CLOSED_REMOTE') and rng.random() < 0.2:
                obs = self.run({'op': 'send_headers', 'c': 1, 'sid': sid, 'headers': [(b':status', rng.choice([b'100', b'103']), False)] + self.extra_fields(), 'es': False})
                if obs['res'].startswith('ok'):
                    s['resp'] = 'info'
                return True
            status = rng.choice([b'200', b'200', b'404', b'204', b'500'])
            body = status not in (b'204',) and rng.random() < 0.7
            cl = rng.choice([0, 3, 4000]) if body and rng.random() < 0.4 else None
            hs = [self.pair(b':status', status) + (False,)] + self.extra_fields()
            if cl is not None:
                hs.append((b'content-length', str(cl).encode(), False))
            obs = self.run({'op': 'send_headers', 'c': 1, 'sid': sid, 'headers': hs, 'es': not body})
            if obs['res'].startswith('ok'):
                s['resp'] = 'open' if body else 'ended'
                s['rleft'] = cl
            return True
        # body open
        r = rng.random()
        if r < 0.7:
            return self.send_body(1, sid, s, 'resp')
        if s.get('rleft') in (None, 0):
            if r < 0.85:
                obs = self.run({'op': 'end_stream', 'c': 1, 'sid': sid})
            else:
                obs = self.run({'op': 'send_headers', 'c': 1, 'sid': sid, 'headers': self.extra_fields(True) or [(b'x-trailer', b'1', False)], 'es': True})
            if obs['res'].startswith('ok'):
                s['resp'] = 'ended'
            return True
        return False

    def act_push(self):
        rng = self.rng
        conn = self.conn(1)
        if not conn.remote_settings.enable_push:
            return False
        parents = [sid for sid, s in self.st.items() if sid % 2 == 1 and s['resp'] != 'ended' and self.live(1, sid)]
        if not parents:
            return False
        try:
            promised = conn.get_next_available_stream_id()
        except Exception:
            return False
        obs = self.run({'op': 'push_stream', 'c': 1, 'sid': rng.choice(parents), 'promised': promised,
                        'headers': self.request_headers(rng.choice([b'GET', b'HEAD']), None)})
        if obs['res'].startswith('ok'):
            self.st[promised] = {'req': 'ended', 'resp': None, 'cl': None, 'left': None, 'pushed': True, 'dead': False, 'head': False}
        return True

    def act_reset(self):
        rng = self.rng
        c = rng.randrange(2)
        cands = [sid for sid in self.st if self.live(c, sid)]
        if not cands:
            return False
        sid = rng.choice(cands)
        obs = self.run({'op': 'reset_stream', 'c': c, 'sid': sid, 'code': rng.choice([0, 2, 5, 8, 11, 255, 2**32 - 1])})
        if obs['res'].startswith('ok'):
            self.st[sid]['dead'] = True
        return True

    def act_window(self):
        rng = self.rng
        c = rng.randrange(2)
        sids = [sid for sid in self.st if self.live(c, sid)]
        if rng.random() < 0.5 and sids:
            sid = rng.choice(sids)
            if rng.random() < 0.5:
                self.run({'op': 'ack_data', 'c': c, 'size': rng.choice([0, 1, 100, 5000]), 'sid': sid})
                return True
            self.run({'op': 'incr_window', 'c': c, 'incr': rng.choice([1, 100, 20000]), 'sid': sid})
            return True
        self.run({'op': 'incr_window', 'c': c, 'incr': rng.choice([1, 1000, 60000]), 'sid': None})
        return True

    def act_settings(self):
        rng = self.rng
        c = rng.randrange(2)
        if self.settings_in_flight[c] > 0:
            return False                       # one SETTINGS frame in flight at a time (the known finding D8 needs two)
        choices = [(1, max(self.table_size[c], rng.choice([4096, 8192, 65536]))), (3, rng.choice([1, 5, 100, 1000])),
                   (4, rng.choice([0, 1, 100, 65535, 100000, 1 << 20])), (5, rng.choice([16384, 20000, 1 << 20])),
                   (6, rng.choice([65536, 100000, 1 << 20])), (8, rng.choice([0, 1])), (0x21, rng.choice([0, 7]))]
        if c == 0:
            choices.append((2, rng.choice([0, 1])))
        ks = rng.sample(choices, rng.randrange(0, 3))
        # never lower MAX_HEADER_LIST_SIZE below what this conversation sends
        obs = self.run({'op': 'update_settings', 'c': c, 'settings': ks})
        if obs['res'].startswith('ok'):
            self.settings_in_flight[c] += 1
            for k, v in ks:
                if k == 1:
                    self.table_size[c] = v
        return True

    def act_misc(self):
        rng = self.rng
        r = rng.random()
        c = rng.randrange(2)
        if r < 0.4:
            self.run({'op': 'ping', 'c': c, 'data': bytes(rng.randrange(256) for _ in range(8))})
        elif r < 0.6:
            sids = [sid for sid in self.st if self.live(0, sid)]
            if not sids:
                return False
            sid = rng.choice(sids)
            self.run({'op': 'prioritize', 'c': 0, 'sid': sid, 'pw': rng.choice([None, 1, 16, 256]),
                      'pd': rng.choice([None, 0, sid + 2, 1 if sid != 1 else 3]), 'pe': rng.choice([None, True, False])})
        elif r < 0.75:
            sids = [sid for sid, s in self.st.items() if sid % 2 == 1 and self.state(1, sid) in ('OPEN', 'HALF_CLOSED_REMOTE')
                    and not s['dead'] and s['resp'] is None]
            if sids and rng.random() < 0.5:
                self.run({'op': 'altsvc', 'c': 1, 'field': b'h2=":443"; ma=60', 'origin': None, 'sid': rng.choice(sids)})
            else:
                self.run({'op': 'altsvc', 'c': 1, 'field': b'h3=":8443"', 'origin': b'example.org', 'sid': None})
        elif r < 0.9:
            self.run({'op': 'q', 'c': c, 'what': rng.choice(['next_stream_id', 'open_in', 'open_out', 'inbound_window'])})
        else:
            # calls that must raise and change nothing
            bad = rng.choice([
                {'op': 'send_data', 'c': c, 'sid': 2**20 + 1 + c, 'data': b'x', 'es': False, 'pad': None},
                {'op': 'end_stream', 'c': c, 'sid': 2**20 + 1 + c},
                {'op': 'reset_stream', 'c': c, 'sid': 2**20 + 1 + c, 'code': 0},
                {'op': 'incr_window', 'c': c, 'incr': 0, 'sid': None},
                {'op': 'ping', 'c': c, 'data': b'short'},
                {'op': 'update_settings', 'c': c, 'settings': [(2, 2)]},
                {'op': 'update_settings', 'c': c, 'settings': [(5, 1)]},
            ])
            self.run(bad)
        return True

    def step(self):
        rng = self.rng
        r = rng.random()
        if r < 0.30:
            if rng.random() < 0.5:
                self.xfer(0)
            else:
                self.xfer(1)
            return
        acts = [(self.act_request, 12), (self.act_client_stream, 18), (self.act_server_stream, 22), (self.act_push, 5),
                (self.act_reset, 4), (self.act_window, 8), (self.act_settings, 5), (self.act_misc, 8)]
        total = sum(w for _, w in acts)
        for _ in range(4):
            x = rng.random() * total
            for f, w in acts:
                x -= w
                if x < 0:
                    if f():
                        return
                    break


def conversation(rng, model, steps, kinds=None):
    cv = Conversation(rng, model, kinds)
    for _ in range(steps):
        if cv.dead:
            break
        cv.step()
    if not cv.dead and rng.random() < 0.7:
        cv.flush()
    return cv.r
