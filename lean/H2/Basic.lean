def hello := "world"
