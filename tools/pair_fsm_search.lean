/-
  Exhaustive search of the two-machine system for one stream (a test, not a proof): two copies of the generated stream
  state machine, two FIFO queues of frames in flight (at most MAXQ each way).  Each side sends only what its own machine
  accepts (and not D17b's DATA before response headers); every delivery must be fine (accepted, or dealt with quietly by a
  stream already closed on the receiving side).  Prints the number of configurations reached and the refused deliveries found.
  Run: cd lean && lake env lean ../tools/pair_fsm_search.lean   (MAXQ = 3: about 20 s; 4: four minutes, 1 118 839 configurations)
-/
import H2.Proofs.Shapes
import Std.Data.HashSet
open H2 H2.Gen

def recvOf : StreamInputs → Option StreamInputs
  | .SEND_HEADERS => some .RECV_HEADERS | .SEND_PUSH_PROMISE => some .RECV_PUSH_PROMISE | .SEND_RST_STREAM => some .RECV_RST_STREAM
  | .SEND_DATA => some .RECV_DATA | .SEND_WINDOW_UPDATE => some .RECV_WINDOW_UPDATE | .SEND_END_STREAM => some .RECV_END_STREAM
  | .SEND_INFORMATIONAL_HEADERS => some .RECV_INFORMATIONAL_HEADERS | .SEND_ALTERNATIVE_SERVICE => some .RECV_ALTERNATIVE_SERVICE
  | _ => none
def sends : List StreamInputs := StreamInputs.all.filter fun i => (recvOf i).isSome
def isOk : ProcRes → Bool | .ok _ => true | _ => false
def graceful : ProcRes → Bool | .proto => false | _ => true

structure Cfg where
  sa : Shape
  sb : Shape
  qa : List StreamInputs
  qb : List StreamInputs
deriving DecidableEq, Repr

instance : Hashable Shape := ⟨fun s => hash (repr s).pretty⟩
instance : Hashable Cfg := ⟨fun c => mixHash (hash c.sa) (mixHash (hash c.sb) (hash ((repr c.qa).pretty ++ (repr c.qb).pretty)))⟩

-- a send the application may make: accepted by its own FSM, and not DATA/END before response headers on the responder (D17b)
def maySend (s : Shape) (i : StreamInputs) (first : Bool) : Option Shape :=
  let (r, s') := stepShape s i
  if !isOk r then none
  else if (i == .SEND_DATA || i == .SEND_END_STREAM) && s.client == some false && !s.headersSent then none
  else if s.state == .IDLE && !first then none
  else some s'

def succs (maxq : Nat) (c : Cfg) : List (Cfg × Option String) :=
  let sa := sends.filterMap fun i =>
    if c.qa.length ≥ maxq then none else
    -- an IDLE stream may be opened only by one side (ids are partitioned): A opens when B is IDLE with nothing in flight
    match maySend c.sa i (c.sb.state == .IDLE && c.qb.isEmpty) with
    | some s' => some ({ c with sa := s', qa := c.qa ++ [i] }, none)
    | none => none
  let sb := sends.filterMap fun k =>
    if c.qb.length ≥ maxq then none else
    match maySend c.sb k (c.sa.state == .IDLE && c.qa.isEmpty) with
    | some s' => some ({ c with sb := s', qb := c.qb ++ [k] }, none)
    | none => none
  let da := match c.qa with
    | i :: rest =>
      let (r, s') := stepShape c.sb ((recvOf i).get!)
      [({ c with sb := s', qa := rest }, if (isOk r || (c.sb.state == .CLOSED && graceful r)) then none else some s!"B refuses {repr i} in {repr c.sb.state} cb={repr c.sb.closedBy}")]
    | [] => []
  let db := match c.qb with
    | k :: rest =>
      let (r, s') := stepShape c.sa ((recvOf k).get!)
      [({ c with sa := s', qb := rest }, if (isOk r || (c.sa.state == .CLOSED && graceful r)) then none else some s!"A refuses {repr k} in {repr c.sa.state} cb={repr c.sa.closedBy}")]
    | [] => []
  sa ++ sb ++ da ++ db

partial def bfs (maxq : Nat) (frontier : List Cfg) (seen : Std.HashSet Cfg) (bad : List String) (fuel : Nat) : Nat × List String :=
  if fuel == 0 || frontier.isEmpty then (seen.size, bad) else
  let (next, seen', bad') := frontier.foldl (fun (acc : List Cfg × Std.HashSet Cfg × List String) c =>
    (succs maxq c).foldl (fun (acc : List Cfg × Std.HashSet Cfg × List String) (c', err) =>
      let (nx, sn, bd) := acc
      match err with
      | some e => (nx, sn, if bd.length < 30 then (e ++ " | qa=" ++ (repr c.qa).pretty ++ " qb=" ++ (repr c.qb).pretty ++ " sa=" ++ (repr c.sa.state).pretty) :: bd else bd)
      | none => if sn.contains c' then (nx, sn, bd) else (c' :: nx, sn.insert c', bd)) acc) ([], seen, bad)
  bfs maxq next seen' bad' (fuel - 1)

def init : Cfg := { sa := {}, sb := {}, qa := [], qb := [] }
def MAXQ : Nat := 3
#eval let (n, bad) := bfs MAXQ [init] ((Std.HashSet.emptyWithCapacity 1024 : Std.HashSet Cfg).insert init) [] 400; (n, bad.eraseDups.take 20)
