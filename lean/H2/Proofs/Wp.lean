/-
  Weakest preconditions for the state+exception monad of the model, as
  *equations* usable by `simp`: `wp m Q E s` holds iff running `m` from `s`
  either returns `a` in a state satisfying `Q a` or raises `e` in a state
  satisfying `E e`.
-/
import H2.Proofs.Hoare

namespace H2

def wp {σ α : Type} (m : M σ α) (Q : α → σ → Prop) (E : Exc → σ → Prop) (s : σ) : Prop :=
  match m s with
  | (.ok a, s') => Q a s'
  | (.error e, s') => E e s'

theorem tri_iff_wp {σ α : Type} {P : σ → Prop} {m : M σ α} {Q : α → σ → Prop} {E : Exc → σ → Prop} :
    Tri P m Q E ↔ ∀ s, P s → wp m Q E s := Iff.rfl

section
variable {σ α β : Type} {Q : α → σ → Prop} {E : Exc → σ → Prop} {s : σ}

@[simp] theorem wp_pure (a : α) : wp (pure a : M σ α) Q E s = Q a s := rfl
@[simp] theorem wp_Mpure (a : α) : wp (M.pure a : M σ α) Q E s = Q a s := rfl
@[simp] theorem wp_raise (e : Exc) : wp (raise e : M σ α) Q E s = E e s := rfl
@[simp] theorem wp_getS {Q : σ → σ → Prop} : wp (getS : M σ σ) Q E s = Q s s := rfl
@[simp] theorem wp_modifyS (f : σ → σ) {Q : Unit → σ → Prop} : wp (modifyS f) Q E s = Q () (f s) := rfl
@[simp] theorem wp_setS (t : σ) {Q : Unit → σ → Prop} : wp (setS t) Q E s = Q () t := rfl

@[simp] theorem wp_bind (m : M σ α) (k : α → M σ β) {Q : β → σ → Prop} :
    wp (m >>= k) Q E s = wp m (fun a => wp (k a) Q E) E s := by
  show wp (M.bind m k) Q E s = _
  unfold wp M.bind
  cases m s with
  | mk r s' => cases r <;> rfl

@[simp] theorem wp_Mbind (m : M σ α) (k : α → M σ β) {Q : β → σ → Prop} :
    wp (M.bind m k) Q E s = wp m (fun a => wp (k a) Q E) E s := wp_bind m k

@[simp] theorem wp_ite {c : Prop} [Decidable c] (m1 m2 : M σ α) :
    wp (if c then m1 else m2) Q E s = if c then wp m1 Q E s else wp m2 Q E s := by
  split <;> rfl

@[simp] theorem wp_liftExcept (r : Except Exc α) :
    wp (liftExcept r : M σ α) Q E s = (match r with | .ok a => Q a s | .error e => E e s) := by
  cases r <;> rfl

@[simp] theorem wp_tryCatch (m : M σ α) (pred : Exc → Bool) (h : Exc → M σ α) :
    wp (tryCatch m pred h) Q E s = wp m Q (fun e s' => if pred e then wp (h e) Q E s' else E e s') s := by
  unfold wp tryCatch
  cases m s with
  | mk r s' =>
    cases r with
    | ok a => rfl
    | error e => cases hp : pred e <;> simp [hp]

@[simp] theorem wp_zoom {τ : Type} (get : σ → τ) (set : σ → τ → σ) (m : M τ α) :
    wp (zoom get set m) Q E s = wp m (fun a t => Q a (set s t)) (fun e t => E e (set s t)) (get s) := by
  unfold wp zoom
  cases m (get s) with
  | mk r t => cases r <;> rfl

/-- monotonicity: strengthen what is known about `m` -/
theorem wp_mono {Q' : α → σ → Prop} {E' : Exc → σ → Prop} {m : M σ α}
    (h : wp m Q E s) (hq : ∀ a s', Q a s' → Q' a s') (he : ∀ e s', E e s' → E' e s') : wp m Q' E' s := by
  unfold wp at *
  cases hm : m s with
  | mk r s' =>
    cases r with
    | ok a => simp only [hm] at h ⊢; exact hq _ _ h
    | error e => simp only [hm] at h ⊢; exact he _ _ h

/-- use a proved triple inside a wp computation -/
theorem wp_of_tri {P : σ → Prop} {Q' : α → σ → Prop} {E' : Exc → σ → Prop} {m : M σ α}
    (t : Tri P m Q E) (hp : P s) (hq : ∀ a s', Q a s' → Q' a s') (he : ∀ e s', E e s' → E' e s') : wp m Q' E' s :=
  wp_mono (t s hp) hq he

/-- reading off a result from a wp fact -/
theorem wp_result {m : M σ α} (h : wp m Q E s) :
    (∀ a s', m s = (.ok a, s') → Q a s') ∧ (∀ e s', m s = (.error e, s') → E e s') := by
  unfold wp at h
  constructor
  · intro a s' hm; simp only [hm] at h; exact h
  · intro e s' hm; simp only [hm] at h; exact h

/-- when the effect of `m` is irrelevant: whatever it returns or raises, in whatever state -/
theorem wp_havoc {m : M σ α} (hq : ∀ a s', Q a s') (he : ∀ e s', E e s') : wp m Q E s := by
  unfold wp
  cases m s with
  | mk r s' => cases r <;> simp [hq, he]

end

macro "wps" : tactic => `(tactic| simp only [wp_bind, wp_pure, wp_Mpure, wp_raise, wp_getS, wp_modifyS, wp_ite,
  wp_liftExcept, wp_tryCatch, wp_zoom])

end H2
