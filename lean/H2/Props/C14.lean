/-
  C14 — outbound header blocks are normalised and RFC 7540 section 8.1.2 conformant.

  `NormalisedField` (per field: lowercase trimmed name, trimmed value, not connection-specific, sensitive fields marked
  never-indexed) is what `normalize_outbound_headers` establishes; `ConformantOut` (TE only "trailers", pseudo-header
  shape and role, :authority/Host, :path) is what `validate_outbound_headers` checks.  Both are proved of the model of the
  two pipelines for every header list (bytes or text names and values), and `_build_headers_frames` is proved to hand
  the HPACK encoder exactly the normalised list, only when it is conformant, and nothing otherwise.
-/
import H2.Proofs.HeaderRules
import H2.Proofs.PairHeaders
-- the pair-level consequence: what C14 lets out, C15 lets in
-- @also H2.Pair.emitted_block_is_accepted
import H2.Proofs.RecvStream

namespace H2.C14
open H2 H2.Gen

/-- the rules a block emitted under the default configuration meets -/
structure EmittedOk (hs : List Header) (fl : HdrFlags) : Prop where
  fields : ∀ h ∈ hs, NormalisedField h
  block : ConformantOut hs fl

/-- **normalisation**: every field that `normalize_outbound_headers` lets through is lowercase, trimmed, not
    connection-specific, and never-indexed if it is authorization, proxy-authorization or a cookie shorter than 20 bytes -/
theorem C14_normalised (hs : List Header) : ∀ h ∈ normalizeOutbound hs, NormalisedField h :=
  normalizeOutbound_fields hs

/-- normalisation only drops connection-specific fields: it never invents or reorders fields -/
theorem C14_normalise_keeps_order (hs : List Header) :
    ((normalizeOutbound hs).map fun h => (h.name, h.value)).Sublist
      (hs.map fun h => ((HStr.lower h.name).strip, h.value.strip)) := by
  unfold normalizeOutbound
  simp only [List.map_map]
  have e : ∀ l : List Header, (l.map secureHeader).map (fun h => (h.name, h.value)) = l.map (fun h => (h.name, h.value)) := by
    intro l; induction l with
    | nil => rfl
    | cons a t ih => simp only [List.map_cons, ih, (secureHeader_name a).1, (secureHeader_name a).2]
  rw [← List.map_map, e]
  refine List.Sublist.trans (List.Sublist.map _ List.filter_sublist) ?_
  simp only [List.map_map, Function.comp_def]
  exact List.Sublist.refl _

/-- **validation accepts exactly the conformant blocks** and returns them unchanged -/
theorem C14_validate_iff (hs : List Header) (fl : HdrFlags) :
    validateOutbound hs fl = .ok hs ↔ ConformantOut hs fl := (validateOutbound_iff hs fl).1

/-- **what normalisation cannot repair is refused** with ProtocolError -/
theorem C14_refused (hs : List Header) (fl : HdrFlags) (h : ¬ ConformantOut hs fl) :
    validateOutbound hs fl = .error (mkExc .ProtocolError) := (validateOutbound_iff hs fl).2 h

/-- the default pipeline (normalise, then validate): accepted iff the normalised list is conformant, and then the result
    is that list, which meets every rule -/
theorem C14_default_pipeline (hs out : List Header) (fl : HdrFlags) :
    validateOutbound (normalizeOutbound hs) fl = .ok out ↔
      out = normalizeOutbound hs ∧ EmittedOk out fl := by
  constructor
  · intro h
    have hid : out = normalizeOutbound hs := by
      unfold validateOutbound at h
      simp only at h
      split at h
      · cases h; rfl
      · cases h
    subst hid
    exact ⟨rfl, C14_normalised hs, (C14_validate_iff _ fl).mp h⟩
  · rintro ⟨rfl, _, hb⟩
    exact (C14_validate_iff _ fl).mpr hb

/-! ### what reaches the HPACK encoder -/

/-- **`_build_headers_frames`**: with normalisation and validation on (the default) the encoder is fed once, with the
    normalised list, and only if that list is conformant; a refused list leaves the stream and the HPACK state
    untouched (nothing is encoded) -/
theorem C14_encoder_fed (cfg : Config) (headers : List Header) (fl : HdrFlags) (ov : Int) (s : Stream × Hp)
    (hn : cfg.normOut = true) (hv : cfg.valOut = true) (hm : 0 < s.1.maxOutFrame) :
    wp (buildHeaderBlocks cfg headers fl ov)
      (fun _ s' => s'.2.encLog = s.2.encLog ++ [EncEv.block (normalizeOutbound headers)] ∧
          EmittedOk (normalizeOutbound headers) fl ∧ s'.1 = s.1)
      (fun e s' => s' = s ∧ e = mkExc .ProtocolError ∧ ¬ ConformantOut (normalizeOutbound headers) fl) s := by
  unfold buildHeaderBlocks
  simp only [hn, hv, if_true]
  wps
  by_cases hc : ConformantOut (normalizeOutbound headers) fl
  · rw [(C14_validate_iff _ fl).mpr hc]
    simp only
    unfold onHp Hp.encode
    wps
    simp only [wp]
    have hm' : ¬ (s.1.maxOutFrame ≤ 0) := by omega
    cases s.2.encOracle <;> (simp only [hm', if_false]; exact ⟨trivial, ⟨C14_normalised headers, hc⟩, trivial⟩)
  · rw [C14_refused _ fl hc]
    exact ⟨trivial, rfl, hc⟩

/-- with validation switched off the encoder is fed the normalised list whatever it is: only the per-field rules hold -/
theorem C14_encoder_fed_unvalidated (cfg : Config) (headers : List Header) (fl : HdrFlags) (ov : Int) (s : Stream × Hp)
    (hn : cfg.normOut = true) (hv : cfg.valOut = false) (hm : 0 < s.1.maxOutFrame) :
    wp (buildHeaderBlocks cfg headers fl ov)
      (fun _ s' => s'.2.encLog = s.2.encLog ++ [EncEv.block (normalizeOutbound headers)] ∧
          (∀ h ∈ normalizeOutbound headers, NormalisedField h))
      (fun _ _ => False) s := by
  unfold buildHeaderBlocks
  simp only [hn, hv, if_true, Bool.false_eq_true, if_false]
  wps
  unfold onHp Hp.encode
  wps
  simp only [wp]
  have hm' : ¬ (s.1.maxOutFrame ≤ 0) := by omega
  cases s.2.encOracle <;> (simp only [hm', if_false]; exact ⟨trivial, C14_normalised headers⟩)

/-- with normalisation switched off and validation on, the list is encoded as given, only if it is conformant -/
theorem C14_encoder_fed_unnormalised (cfg : Config) (headers : List Header) (fl : HdrFlags) (ov : Int) (s : Stream × Hp)
    (hn : cfg.normOut = false) (hv : cfg.valOut = true) (hm : 0 < s.1.maxOutFrame) :
    wp (buildHeaderBlocks cfg headers fl ov)
      (fun _ s' => s'.2.encLog = s.2.encLog ++ [EncEv.block headers] ∧ ConformantOut headers fl)
      (fun e s' => s' = s ∧ e = mkExc .ProtocolError ∧ ¬ ConformantOut headers fl) s := by
  unfold buildHeaderBlocks
  simp only [hn, hv, if_true, Bool.false_eq_true, if_false]
  wps
  by_cases hc : ConformantOut headers fl
  · rw [(C14_validate_iff _ fl).mpr hc]
    simp only
    unfold onHp Hp.encode
    wps
    simp only [wp]
    have hm' : ¬ (s.1.maxOutFrame ≤ 0) := by omega
    cases s.2.encOracle <;> (simp only [hm', if_false]; exact ⟨trivial, hc⟩)
  · rw [C14_refused _ fl hc]
    exact ⟨trivial, rfl, hc⟩

/-! ### the rules are satisfiable and do bite -/

def sloppyRequest : List Header :=
  [⟨.s (strBytes ":method"), .s (strBytes "GET"), false⟩, ⟨.s (strBytes ":scheme"), .s (strBytes "https"), false⟩,
   ⟨.s (strBytes ":path"), .s (strBytes "/"), false⟩, ⟨.s (strBytes ":authority"), .s (strBytes "example.com"), false⟩,
   ⟨.b (strBytes " X-Custom "), .b (strBytes " v "), false⟩, ⟨.b (strBytes "Connection"), .b (strBytes "close"), false⟩,
   ⟨.b (strBytes "Authorization"), .b (strBytes "secret"), false⟩]
def requestFlags : HdrFlags := { isClient := some true, isTrailer := false, isResponse := false, isPush := false }

def acceptsOut (hs : List Header) (fl : HdrFlags) : Bool :=
  match validateOutbound hs fl with | .ok _ => true | .error _ => false

theorem acceptsOut_iff (hs : List Header) (fl : HdrFlags) : acceptsOut hs fl = true ↔ ConformantOut hs fl := by
  rw [← C14_validate_iff]
  unfold acceptsOut
  cases h : validateOutbound hs fl with
  | ok out =>
    have : out = hs := by
      unfold validateOutbound at h; simp only at h; split at h
      · cases h; rfl
      · cases h
    simp [this]
  | error e => simp

/-- a sloppy but repairable request: normalisation lower-cases, trims, drops Connection, marks Authorization -/
example : EmittedOk (normalizeOutbound sloppyRequest) requestFlags :=
  ⟨C14_normalised _, (acceptsOut_iff _ _).mp (by decide +kernel)⟩
example : (normalizeOutbound sloppyRequest).map (fun h => (h.name.bs, h.ni)) =
    [(strBytes ":method", false), (strBytes ":scheme", false), (strBytes ":path", false), (strBytes ":authority", false),
     (strBytes "x-custom", false), (strBytes "authorization", true)] := by decide +kernel
/-- not repairable: TE with another value -/
example : ¬ ConformantOut (normalizeOutbound (sloppyRequest ++ [⟨.b (strBytes "TE"), .b (strBytes "gzip"), false⟩])) requestFlags := by
  rw [← acceptsOut_iff]; decide +kernel

end H2.C14
