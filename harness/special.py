"""Property-specific exhaustive / structured explorations that complement the random profiles."""


def run(pid, seed, tier, model, deadline):
    f = globals().get('special_' + pid)
    return f(seed, tier, model, deadline) if f else None
