/- checked on every run: the function regenerated from /repo is the reference definition -/
import H2.Gen.WindowsRaw
import H2.Gen.BridgeTac
namespace H2.Bridge
open H2.Gen

theorem window_consumed_eq (s : WindowManager) (n : Int) :
    GenRaw.WindowManager.window_consumed s n = WindowManager.window_consumed s n := by
  bridge GenRaw.WindowManager.window_consumed WindowManager.window_consumed

end H2.Bridge
