/-
  C18 — every connection error emits exactly one GOAWAY with the mandated code.

  Built on the receive-path invariant of C17 (Proofs/RecvTotal.lean) and on the history variable `Conn.sent`
  (every frame object that was serialised into the output buffer, in order).
-/
import H2.Proofs.RecvEmits
import H2.Props.C29

namespace H2.C18
open H2 H2.Gen H2.Conn

/-- the states the theorem speaks about (the invariant of C17: holds initially, kept by `receive_data`) -/
def Inv (c : Conn) : Prop := WF c ∧ HbOk c.fb.headersBuffer

/-- **C18**: when `receive_data` raises, then — unless it is the invalid client preface, which is refused before
    anything is processed and leaves the connection object untouched — the frames written by this call are the
    replies to the frames before the offending one (`FramesOk`: SETTINGS ACK, PING ACK, RST_STREAM, WINDOW_UPDATE —
    never a GOAWAY) followed by exactly one GOAWAY, which is also the last thing in the output buffer.  Its error
    code is the exception's `error_code`, its last-stream-id is `highest_inbound_stream_id`, it carries no debug
    data, and the connection is CLOSED. -/
theorem C18_one_goaway (c : Conn) (data : Bytes) (h : Inv c) (e : Exc) (c' : Conn)
    (hr : receiveData data c = (.error e, c')) :
    (FrameBuffer.addData c.fb data = .error e ∧ c' = c) ∨
    (∃ fs k cls sid evs, FramesOk fs ∧ c'.sent = c.sent ++ fs ++ [Frame.goaway c'.highestIn k []] ∧
      e = .h2 cls (some k) sid evs ∧ cls.isSub .ProtocolError = true ∧ 0 ≤ k ∧ k < 4294967296 ∧
      c'.cstate = .CLOSED ∧
      ∃ pre b, (Frame.goaway c'.highestIn k []).serialize? = some b ∧ c'.out = pre ++ b) :=
  receiveData_error data c h.1 h.2 e c' hr

/-- the preface exception: only a server that is still waiting for (part of) the client preface can refuse input
    without a GOAWAY -/
theorem C18_preface_only (c : Conn) (data : Bytes) (e : Exc) (h : FrameBuffer.addData c.fb data = .error e) :
    c.fb.preamble ≠ [] ∧ e = mkExc .ProtocolError := by
  refine ⟨?_, FrameBuffer.addData_error _ _ _ h⟩
  intro hp
  rw [Conn.addData_ready _ _ hp] at h
  simp at h

/-- a successful `receive_data` writes no GOAWAY at all -/
theorem C18_no_goaway_without_error (c : Conn) (data : Bytes) (h : Inv c) (evs : List Event) (c' : Conn)
    (hr : receiveData data c = (.ok evs, c')) : ∃ fs, FramesOk fs ∧ c'.sent = c.sent ++ fs := by
  rw [receiveData_eq] at hr
  cases ha : FrameBuffer.addData c.fb data with
  | error e0 => rw [ha] at hr; simp at hr
  | ok fb =>
    rw [ha] at hr
    simp only at hr
    have hhb : fb.headersBuffer = c.fb.headersBuffer := by
      rw [FrameBuffer.addData_eq] at ha
      split at ha
      · injection ha with ha; subst ha; rfl
      · split at ha
        · injection ha with ha; subst ha; rfl
        · simp at ha
    have hhb' : HbOk (startRecv c fb).fb.headersBuffer := by show HbOk fb.headersBuffer; rw [hhb]; exact h.2
    have hem := recvLoop_em ((startRecv c fb).fb.data.length + 1) [] (startRecv c fb) (wf_setFb h.1 _) hhb'
    cases hrl : recvLoop ((startRecv c fb).fb.data.length + 1) [] (startRecv c fb) with
    | mk r c1 =>
      rw [hrl] at hem hr
      cases r with
      | ok evs1 =>
        simp only [finishRecv] at hr
        injection hr with _ h2; subst h2
        obtain ⟨fs, hfs, hok⟩ := hem
        exact ⟨fs, hok, hfs⟩
      | error e1 =>
        obtain ⟨e', c2, he⟩ := finishRecv_error e1 c1
        rw [he] at hr; simp at hr

/-! ### the code of each exception class (from the generated table `ExcClass.classCode`) -/

/-- size violations → FRAME_SIZE_ERROR, window violations → FLOW_CONTROL_ERROR, oversized header lists →
    ENHANCE_YOUR_CALM, frames on a closed stream → STREAM_CLOSED, everything else → PROTOCOL_ERROR -/
theorem C18_class_codes :
    ExcClass.FrameTooLargeError.classCode = some ErrorCodes.FRAME_SIZE_ERROR ∧
    ExcClass.FrameDataMissingError.classCode = some ErrorCodes.FRAME_SIZE_ERROR ∧
    ExcClass.FlowControlError.classCode = some ErrorCodes.FLOW_CONTROL_ERROR ∧
    ExcClass.DenialOfServiceError.classCode = some ErrorCodes.ENHANCE_YOUR_CALM ∧
    streamClosedErrorCode = ErrorCodes.STREAM_CLOSED ∧
    ExcClass.ProtocolError.classCode = some ErrorCodes.PROTOCOL_ERROR ∧
    ExcClass.TooManyStreamsError.classCode = some ErrorCodes.PROTOCOL_ERROR ∧
    ExcClass.InvalidBodyLengthError.classCode = some ErrorCodes.PROTOCOL_ERROR := by decide

/-- the frame iterator classifies size violations: a frame longer than the limit raises FrameTooLargeError, a
    SETTINGS ACK with payload FrameDataMissingError (both FRAME_SIZE_ERROR) -/
theorem C18_frame_size (fb : FrameBuffer) (h : FrameHeader) (h9 : ¬ fb.data.length < 9)
    (hh : parseFrameHeader (fb.data.take 9) = .ok h) (hlen : ¬ fb.data.length < h.length + 9)
    (hbig : (h.length : Int) > fb.maxFrameSize) :
    FrameBuffer.next1 fb = (.error (mkExc .FrameTooLargeError), fb) := by
  unfold FrameBuffer.next1
  simp [h9, hh, hlen, hbig]

/-- the full RFC table does not hold: a header block the HPACK decoder rejects is reported as PROTOCOL_ERROR where
    RFC 7540 section 4.3 demands COMPRESSION_ERROR (known finding D10a; four existing tests pin PROTOCOL_ERROR) -/
theorem C18_compression_error_witness (c : Conn) (rest : List DecRes) (block : Bytes)
    (h : c.hp.decOracle = .hpackError :: rest) :
    ∃ c', decodeHeaders block c = (.error (.h2 .ProtocolError (some ErrorCodes.PROTOCOL_ERROR) none []), c') := by
  unfold decodeHeaders
  simp only [bind, M.bind, zoom, Hp.decode, h]
  exact ⟨_, rfl⟩

/-- the invariant is the one every reachable state of the connection satisfies (C29) -/
theorem inv_of_reachable (cfg : Config) (c : Conn) (h : C29.Reachable cfg c) (dec : List DecRes)
    (hd : C17.DecResOk dec) : Inv (C17.feed c [] dec) :=
  C17.C17_feed c [] dec (C29.C29_reachable_invariant cfg c h).1 hd

/-- **C18 for every history**: after any sequence of public calls and deliveries, whatever the HPACK decoder will
    answer and whatever bytes arrive, a `receive_data` that raises has written — after the replies to the frames
    before the offending one, none of which is a GOAWAY — exactly one GOAWAY, last in the output buffer, with the
    exception's error code and `highest_inbound_stream_id`; or it is the refused client preface and nothing changed.
    A `receive_data` that returns has written no GOAWAY. -/
theorem C18_every_history (cfg : Config) (c : Conn) (h : C29.Reachable cfg c) (dec : List DecRes)
    (hd : C17.DecResOk dec) (data : Bytes) :
    (∀ e c', receiveData data (C17.feed c [] dec) = (.error e, c') →
      (FrameBuffer.addData (C17.feed c [] dec).fb data = .error e ∧ c' = C17.feed c [] dec) ∨
      (∃ fs k cls sid evs, FramesOk fs ∧
        c'.sent = (C17.feed c [] dec).sent ++ fs ++ [Frame.goaway c'.highestIn k []] ∧
        e = .h2 cls (some k) sid evs ∧ cls.isSub .ProtocolError = true ∧ 0 ≤ k ∧ k < 4294967296 ∧
        c'.cstate = .CLOSED ∧
        ∃ pre b, (Frame.goaway c'.highestIn k []).serialize? = some b ∧ c'.out = pre ++ b)) ∧
    (∀ evs c', receiveData data (C17.feed c [] dec) = (.ok evs, c') →
      ∃ fs, FramesOk fs ∧ c'.sent = (C17.feed c [] dec).sent ++ fs) :=
  ⟨fun e c' hr => C18_one_goaway _ data (inv_of_reachable cfg c h dec hd) e c' hr,
   fun evs c' hr => C18_no_goaway_without_error _ data (inv_of_reachable cfg c h dec hd) evs c' hr⟩

/-- non-vacuity: a fresh server satisfies the invariant -/
example : Inv (Conn.init { client := false }) := by
  unfold Inv
  refine ⟨⟨⟨settingsOk_init_sl, settingsOk_init_sr, by decide, ?_, ls32_init_sl⟩, ?_⟩, ?_⟩
  · intro r hr; simp [Conn.init] at hr
  · intro _ e he; simp [Conn.init] at he
  · simp [Conn.init, FrameBuffer.init, HbOk]

end H2.C18
