#!/bin/sh
# validate_seed.sh <src_dir_with_patch.diff+demo.py+meta.json> <seed-id>
# Confirms: patch applies to /repo HEAD, baseline tests still pass, demo fails with the patch and passes without.
set -u
SRC=$1; ID=$2
W=/tmp/seedcheck_$ID
rm -rf $W; git -C /repo worktree add -q --detach $W HEAD || exit 2
cd $W
ok=1
PYTHONPATH=$W/src /venv/bin/python $SRC/demo.py >/tmp/seed_$ID.clean.log 2>&1; c0=$?
git apply $SRC/patch.diff || { echo "PATCH DOES NOT APPLY"; ok=0; }
PYTHONPATH=$W/src /venv/bin/python -m pytest -q -p no:cacheprovider > /tmp/seed_$ID.tests.log 2>&1
tests=$(tail -1 /tmp/seed_$ID.tests.log)
PYTHONPATH=$W/src /venv/bin/python $SRC/demo.py >/tmp/seed_$ID.mut.log 2>&1; c1=$?
echo "$ID: demo clean exit=$c0, mutated exit=$c1, tests: $tests"
cd /; git -C /repo worktree remove --force $W
case "$tests" in *"1403 passed"*) ;; *) ok=0;; esac
[ "$c0" = 0 ] && [ "$c1" != 0 ] && [ $ok = 1 ] && exit 0
exit 1
