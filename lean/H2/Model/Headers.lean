/-
  The header pipelines of h2/utilities.py as list functions:
  normalize_outbound_headers, validate_outbound_headers, validate_headers
  (inbound), normalize_inbound_headers, plus the small scanners
  (is_informational_response, extract_method_header, authority_from_headers).

  Since the `fix:` commit that materialises the validated list before the
  encoder runs, laziness is no longer observable: a pipeline either yields
  the whole list or raises.  All pipeline errors are `ProtocolError`, so only
  *whether* some check fails matters, except for Python-level crashes
  (`TypeError` from mixed bytes/str), which are positioned exactly.
-/
import H2.Model.Basic

namespace H2
open H2.Gen

structure HdrFlags where
  isClient : Option Bool      -- state_machine.client (tri-state)
  isTrailer : Bool
  isResponse : Bool
  isPush : Bool
deriving Repr, DecidableEq, Inhabited

def inSet (h : HStr) (bset sset : List (List UInt8)) : Bool :=
  if h.isStr then sset.contains h.bs else bset.contains h.bs

def protoErr : Exc := mkExc .ProtocolError

/-! ### scanners over the raw header list -/

/-- `is_informational_response`; `v.startswith(b'1')` with a str value and bytes name (or vice versa) is a TypeError -/
def isInformationalResponse : List Header → Except Exc Bool
  | [] => .ok false
  | h :: rest =>
    if !h.name.startsWith [58] then .ok false            -- not n.startswith(':')
    else if h.name.bs != strBytes ":status" then isInformationalResponse rest
    else if h.name.isStr != h.value.isStr then .error (.py .TypeError)
    else .ok (h.value.startsWith [49])                   -- '1'

def extractMethodHeader (hs : List Header) : Option Bytes :=
  (hs.find? fun h => h.name.isLit (strBytes ":method")).map (·.value.toBytes)

def authorityFromHeaders (hs : List Header) : Option Bytes :=
  (hs.find? fun h => h.name.isLit (strBytes ":authority")).map (·.value.toBytes)

/-! ### outbound normalisation -/

def secureHeader (h : Header) : Header :=
  if inSet h.name SECURE_HEADERS_b SECURE_HEADERS_s then { h with ni := true }
  else if h.name.isLit (strBytes "cookie") && h.value.bs.length < 20 then { h with ni := true }
  else h

def normalizeOutbound (hs : List Header) : List Header :=
  let hs := hs.map fun h => { h with name := h.name.lower }
  let hs := hs.map fun h => { h with name := h.name.strip, value := h.value.strip }
  let hs := hs.filter fun h => !inSet h.name CONNECTION_HEADERS_b CONNECTION_HEADERS_s
  hs.map secureHeader

/-! ### validation (shared stages) -/

/-- `_reject_te` on one header; `header[1].lower() not in (b'trailers', u'trailers')` -/
def teOk (h : Header) : Bool :=
  !(h.name.isLit (strBytes "te")) || h.value.lower.bs == strBytes "trailers"

def connOk (h : Header) : Bool := !inSet h.name CONNECTION_HEADERS_b CONNECTION_HEADERS_s

structure PseudoSt where
  seen : List HStr := []
  seenRegular : Bool := false
  method : Option Bytes := none
deriving Repr, Inhabited

/-- one iteration of `_reject_pseudo_header_fields` -/
def pseudoStep (st : PseudoSt) (h : Header) : Option PseudoSt :=
  if h.name.startsWith [58] then
    -- names are remembered as bytes: b':path' and ':path' are the same field on the wire
    if st.seen.contains (HStr.b h.name.bs) then none
    else
      let st := { st with seen := st.seen ++ [HStr.b h.name.bs] }
      if st.seenRegular then none
      else if !inSet h.name ALLOWED_PSEUDO_HEADER_FIELDS_b ALLOWED_PSEUDO_HEADER_FIELDS_s then none
      else if h.name.isLit (strBytes ":method") then some { st with method := some h.value.toBytes }
      else some st
  else some { st with seenRegular := true }

def seenLit (seen : List HStr) (lit : String) : Bool := seen.any fun n => n.bs == strBytes lit

/-- `_check_pseudo_header_field_acceptability` -/
def pseudoAcceptable (seen : List HStr) (method : Option Bytes) (fl : HdrFlags) : Bool :=
  if fl.isTrailer && !seen.isEmpty then false
  else if fl.isResponse then
    seenLit seen ":status" && !(seen.any fun n => inSet n REQUEST_ONLY_HEADERS_b REQUEST_ONLY_HEADERS_s)
  else if !fl.isResponse && !fl.isTrailer then
    seenLit seen ":path" && seenLit seen ":method" && seenLit seen ":scheme"
    && !(seen.any fun n => inSet n RESPONSE_ONLY_HEADERS_b RESPONSE_ONLY_HEADERS_s)
    && (method == some (strBytes "CONNECT")
        || !(seen.any fun n => inSet n CONNECT_REQUEST_ONLY_HEADERS_b CONNECT_REQUEST_ONLY_HEADERS_s))
  else true

/-- `_validate_host_authority_header` (last occurrence of each wins) -/
def hostAuthorityOk (hs : List Header) : Bool :=
  let auth := (hs.reverse.find? fun h => h.name.isLit (strBytes ":authority")).map (·.value)
  let host := (hs.reverse.find? fun h => !(h.name.isLit (strBytes ":authority")) && h.name.isLit (strBytes "host")).map (·.value)
  match auth, host with
  | none, none => false
  | some a, some h => a == h
  | _, _ => true

def pathOk (h : Header) : Bool := !(h.name.isLit (strBytes ":path")) || !h.value.bs.isEmpty

def pseudoOk (hs : List Header) (fl : HdrFlags) : Bool :=
  match hs.foldlM pseudoStep ({} : PseudoSt) with
  | none => false
  | some st => pseudoAcceptable st.seen st.method fl

/-- `validate_outbound_headers` run to completion -/
def validateOutbound (hs : List Header) (fl : HdrFlags) : Except Exc (List Header) :=
  let skip := fl.isResponse || fl.isTrailer
  -- `_reject_empty_header_names` (fix: commit) comes first; every refusal is a ProtocolError
  if hs.all (fun h => !h.name.bs.isEmpty) && hs.all teOk && hs.all connOk && pseudoOk hs fl
     && (skip || hostAuthorityOk hs) && (skip || hs.all pathOk)
  then .ok hs else .error protoErr

/-! ### inbound -/

def isWsByte (c : UInt8) : Bool := WHITESPACE.contains c

/-- `_reject_surrounding_whitespace` on one header (after the empty-name fix) -/
def surroundOk (h : Header) : Bool :=
  match h.name.bs with
  | [] => false
  | c :: _ =>
    !(isWsByte c) && !(isWsByte (h.name.bs.getLastD 0)) &&
    (h.value.bs.isEmpty || (!(isWsByte (h.value.bs.headD 0)) && !(isWsByte (h.value.bs.getLastD 0))))

/-- `validate_headers` (inbound) run to completion -/
def validateInbound (hs : List Header) (fl : HdrFlags) : Except Exc (List Header) :=
  let skip := fl.isResponse || fl.isTrailer
  if hs.all (fun h => !hasUpper h.name.bs) && hs.all surroundOk && hs.all teOk && hs.all connOk
     && pseudoOk hs fl && (skip || hostAuthorityOk hs) && (skip || hs.all pathOk)
  then .ok hs else .error protoErr

/-- `_combine_cookie_fields` (only bytes names equal to b'cookie') -/
def combineCookies (hs : List Header) : List Header :=
  let isCookie := fun (h : Header) => h.name == HStr.b (strBytes "cookie")
  let cookies := (hs.filter isCookie).map (·.value.bs)
  let rest := hs.filter (fun h => !isCookie h)
  match cookies with
  | [] => rest
  | c :: cs => rest ++ [{ name := HStr.b (strBytes "cookie"),
                          value := HStr.b (cs.foldl (fun acc x => acc ++ strBytes "; " ++ x) c), ni := true }]

/-! ### text decoding of delivered headers -/

/-- UTF-8 validity as CPython's strict decoder defines it (no surrogates, no overlongs, ≤ U+10FFFF) -/
def utf8Valid : Nat → Bytes → Bool
  | 0, _ => true
  | _+1, [] => true
  | fuel+1, c :: rest =>
    let c := c.toNat
    if c < 128 then utf8Valid fuel rest
    else if 194 ≤ c && c ≤ 223 then
      match rest with
      | a :: r => 128 ≤ a.toNat && a.toNat ≤ 191 && utf8Valid fuel r
      | _ => false
    else if 224 ≤ c && c ≤ 239 then
      match rest with
      | a :: b :: r =>
        let a := a.toNat; let b := b.toNat
        (if c = 224 then 160 ≤ a && a ≤ 191 else if c = 237 then 128 ≤ a && a ≤ 159 else 128 ≤ a && a ≤ 191)
        && 128 ≤ b && b ≤ 191 && utf8Valid fuel r
      | _ => false
    else if 240 ≤ c && c ≤ 244 then
      match rest with
      | a :: b :: d :: r =>
        let a := a.toNat; let b := b.toNat; let d := d.toNat
        (if c = 240 then 144 ≤ a && a ≤ 191 else if c = 244 then 128 ≤ a && a ≤ 143 else 128 ≤ a && a ≤ 191)
        && 128 ≤ b && b ≤ 191 && 128 ≤ d && d ≤ 191 && utf8Valid fuel r
      | _ => false
    else false

inductive Encoding where
  | none | utf8
deriving Repr, DecidableEq, Inhabited

/-- stream.py `_decode_headers`: `.decode(encoding)` of every name and value -/
def decodeText (enc : Encoding) (hs : List Header) : Except Exc (List Header) :=
  match enc with
  | .none => .ok hs
  | .utf8 =>
    if hs.all fun h => utf8Valid (h.name.bs.length + 1) h.name.bs && utf8Valid (h.value.bs.length + 1) h.value.bs
    then .ok (hs.map fun h => { h with name := HStr.s h.name.bs, value := HStr.s h.value.bs })
    else .error protoErr      -- UnicodeDecodeError is translated to ProtocolError (fix: commit)

end H2
