"""Executes op lists (JSON lines on stdin, one program per line) on the real library and prints, per program, one
JSON line with the canonical observation lines.  Used by the C28 check, which starts this in separate interpreter
processes with different PYTHONHASHSEED values."""
import json
import os
import sys

HERE = os.path.dirname(os.path.abspath(__file__))
sys.path.insert(0, HERE)
os.environ.setdefault('H2_SRC', '/repo/src')
from corr import dec_json, replay   # noqa: E402

for line in sys.stdin:
    line = line.strip()
    if not line:
        continue
    ops = dec_json(json.loads(line))
    r = replay(ops, None)
    sys.stdout.write(json.dumps([ol for op, ol, ml, obs in r.log]) + '\n')
    sys.stdout.flush()
