import H2.Proofs.SettingsOk
namespace H2
open H2.Gen H2.Conn

/-! ### the connection invariant of the receive path -/

/-- what the HPACK decoder may hand back (trusted base: hpack's `Decoder.decode(raw=True)` returns bytes pairs or
    raises HPACKError / OversizedHeaderListError / IndexError / TypeError / UnicodeDecodeError) -/
def DecOk (hp : Hp) : Prop :=
  ∀ r ∈ hp.decOracle, match r with
    | .ok hs => AllBytes hs
    | .py _ => False
    | _ => True

structure WFb (c : Conn) : Prop where
  ls : SettingsOk c.localSettings
  rs : SettingsOk c.remoteSettings
  mof : 16384 ≤ c.maxOutFrame
  dec : DecOk c.hp
  /-- the local settings' values fit a SETTINGS frame -/
  ls32 : LS32 c.localSettings

def StreamsNotIdle (ss : List (Int × Stream)) : Prop := ∀ e ∈ ss, e.2.sm.state ≠ .IDLE

/-- base facts, and: unless the connection is closed, no stream of the table is still IDLE -/
def WF (c : Conn) : Prop := WFb c ∧ (c.cstate ≠ .CLOSED → StreamsNotIdle c.streams)

/-- inside a frame handler, after the connection state machine accepted the frame -/
def Live (c : Conn) : Prop := WFb c ∧ c.cstate ≠ .CLOSED ∧ StreamsNotIdle c.streams

theorem Live.wf {c : Conn} (h : Live c) : WF c := ⟨h.1, fun _ => h.2.2⟩

/-- error postcondition on the connection level -/
def CE (e : Exc) (c' : Conn) : Prop := GoodExc e ∧ WFb c' ∧ (isCaught e = true → WF c')

theorem CE_plain {e : Exc} {c' : Conn} (h : Plain e) (hw : WFb c') : CE e c' :=
  ⟨h.1, hw, fun hc => by rw [h.2] at hc; contradiction⟩
theorem CE_wf {e : Exc} {c' : Conn} (h : GoodExc e) (hw : WF c') : CE e c' := ⟨h, hw.1, fun _ => hw⟩

/-! ### frames the receive path emits -/

def SmallFrame : Frame → Prop
  | .settings true [] => True
  | .ping _ p => p.length = 8
  | .rstStream _ code => 0 ≤ code ∧ code < 4294967296
  | .windowUpdate _ _ => True
  | _ => False

def FramesOk (fs : List Frame) : Prop := ∀ f ∈ fs, SmallFrame f

theorem framesOk_nil : FramesOk [] := by intro f hf; simp at hf
theorem framesOk_one {f : Frame} (h : SmallFrame f) : FramesOk [f] := by
  intro g hg; simp at hg; subst hg; exact h
theorem framesOk_append {a b : List Frame} (ha : FramesOk a) (hb : FramesOk b) : FramesOk (a ++ b) := by
  intro f hf; rw [List.mem_append] at hf; rcases hf with h | h; exact ha f h; exact hb f h

theorem u32?_some (n : Int) (h0 : 0 ≤ n) (h1 : n < 4294967296) : ∃ b, u32? n = some b ∧ b.length = 4 := by
  unfold u32?; rw [if_pos ⟨h0, h1⟩]; exact ⟨_, rfl, rfl⟩

theorem smallFrame_ser (f : Frame) (h : SmallFrame f) : (∃ b, f.serialize? = some b) ∧ f.bodyLen ≤ 16384 := by
  cases f <;> simp only [SmallFrame] at h
  case rstStream sid code =>
    obtain ⟨b, hb, hl⟩ := u32?_some code h.1 h.2
    simp [Frame.serialize?, Frame.body?, Frame.bodyLen, hb, hl, Frame.typeCode, Frame.flagByte, u8?]
  case windowUpdate sid incr =>
    simp [Frame.serialize?, Frame.body?, Frame.bodyLen, Frame.typeCode, Frame.flagByte, u8?, be32]
  case ping ack p =>
    have : ¬ (p.length > 8) := by omega
    simp [Frame.serialize?, Frame.body?, Frame.bodyLen, Frame.typeCode, Frame.flagByte, u8?, this, h, zeros]
    cases ack <;> simp
  case settings ack items =>
    cases ack <;> cases items <;> simp_all [SmallFrame]
    simp [Frame.serialize?, Frame.body?, Frame.bodyLen, Frame.typeCode, Frame.flagByte, u8?]


/-! ### leaf lemmas -/

theorem mapM_some {α β} (g : α → Option β) (l : List α) (h : ∀ a ∈ l, ∃ b, g a = some b) : ∃ bs, l.mapM g = some bs := by
  induction l with
  | nil => exact ⟨[], rfl⟩
  | cons a t ih =>
    obtain ⟨b, hb⟩ := h a (List.mem_cons_self ..)
    obtain ⟨bs, hbs⟩ := ih (fun x hx => h x (List.mem_cons_of_mem _ hx))
    exact ⟨b :: bs, by simp [List.mapM_cons, hb, hbs]⟩

/-- `_prepare_for_sending` of frames that serialise and fit the smallest frame size limit only appends to the output
    (and to the history of sent frames) -/
theorem wp_prepareForSending_ser {Q : Unit → Conn → Prop} {E : Exc → Conn → Prop} (fs : List Frame) (c : Conn)
    (hw : 16384 ≤ c.maxOutFrame) (hf : ∀ f ∈ fs, (∃ b, f.serialize? = some b) ∧ f.bodyLen ≤ 16384)
    (hq : ∀ o, Q () { c with out := o, sent := c.sent ++ fs }) :
    wp (prepareForSending fs) Q E c := by
  unfold prepareForSending
  wps
  split
  · rename_i hemp
    have : fs = [] := by cases fs <;> simp_all
    subst this
    have := hq c.out
    simpa using this
  · obtain ⟨bs, hbs⟩ := mapM_some Frame.serialize? fs (fun f hf' => (hf f hf').1)
    rw [hbs]
    wps
    have : (fs.all fun f => decide ((f.bodyLen : Int) ≤ c.maxOutFrame)) = true := by
      rw [List.all_eq_true]
      intro f hf'
      have := (hf f hf').2
      simp only [decide_eq_true_eq]
      omega
    rw [if_pos this]
    exact hq _

theorem wp_prepareForSending {Q : Unit → Conn → Prop} {E : Exc → Conn → Prop} (fs : List Frame) (c : Conn)
    (hw : 16384 ≤ c.maxOutFrame) (hf : FramesOk fs) (hq : ∀ o, Q () { c with out := o, sent := c.sent ++ fs }) :
    wp (prepareForSending fs) Q E c :=
  wp_prepareForSending_ser fs c hw (fun f hf' => smallFrame_ser f (hf f hf')) hq

theorem conn_closed_only_by_goaway : ∀ s i t, connTable s i = some t → t = .CLOSED →
    (s = .CLOSED ∨ i = .SEND_GOAWAY ∨ i = .RECV_GOAWAY) := by
  intro s i t; cases s <;> cases i <;> simp [connTable] <;> (intro h; subst h; simp)

theorem conn_closed_absorbing : ∀ i t, connTable .CLOSED i = some t → t = .CLOSED := by
  intro i t; cases i <;> simp [connTable] <;> (intro h; exact h.symm)

def notGoaway (i : ConnectionInputs) : Prop := i ≠ .SEND_GOAWAY ∧ i ≠ .RECV_GOAWAY

theorem closed_refuses (i : ConnectionInputs) (hi : notGoaway i) : connTable .CLOSED i = none := by
  cases i <;> simp [connTable] <;> simp [notGoaway] at hi

/-- the connection state machine accepts a (non-GOAWAY) input: the connection is live afterwards; or it raises
    ProtocolError and closes -/
theorem wp_connInput_live {Q : Unit → Conn → Prop} {E : Exc → Conn → Prop} (i : ConnectionInputs) (c : Conn)
    (hwf : WF c) (hi : notGoaway i)
    (hq : ∀ t, Live { c with cstate := t } → Q () { c with cstate := t })
    (he : WF { c with cstate := .CLOSED } → E pErr { c with cstate := .CLOSED }) : wp (connInput i) Q E c := by
  unfold wp connInput
  cases h : connTable c.cstate i with
  | none => exact he ⟨⟨hwf.1.ls, hwf.1.rs, hwf.1.mof, hwf.1.dec, hwf.1.ls32⟩, fun hc => absurd rfl hc⟩
  | some t =>
    simp only
    apply hq
    have hcs : c.cstate ≠ .CLOSED := by
      intro hc; rw [hc, closed_refuses i hi] at h; simp at h
    refine ⟨⟨hwf.1.ls, hwf.1.rs, hwf.1.mof, hwf.1.dec, hwf.1.ls32⟩, ?_, hwf.2 hcs⟩
    intro ht
    rcases conn_closed_only_by_goaway _ _ _ h ht with h1 | h1 | h1
    · exact hcs h1
    · exact hi.1 h1
    · exact hi.2 h1

/-! #### the stream table -/

theorem lookup_mem {α} (l : List (Int × α)) (k : Int) (v : α) (h : l.lookup k = some v) : (k, v) ∈ l := by
  induction l with
  | nil => simp at h
  | cons e t ih =>
    obtain ⟨a, b⟩ := e
    simp only [List.lookup] at h
    by_cases hk : k = a
    · subst hk; simp at h; subst h; exact List.mem_cons_self ..
    · have : (k == a) = false := by simp [hk]
      simp only [this] at h
      exact List.mem_cons_of_mem _ (ih h)

theorem notIdle_lookup {ss : List (Int × Stream)} {sid : Int} {st : Stream} (h : StreamsNotIdle ss)
    (hl : ss.lookup sid = some st) : st.sm.state ≠ .IDLE := h _ (lookup_mem _ _ _ hl)

theorem notIdle_setStream {c : Conn} {sid : Int} {st : Stream} (h : StreamsNotIdle c.streams)
    (hs : st.sm.state ≠ .IDLE) : StreamsNotIdle (setStream c sid st).streams := by
  intro e he
  simp only [setStream, List.mem_map] at he
  obtain ⟨e0, he0, heq⟩ := he
  split at heq
  · subst heq; exact hs
  · subst heq; exact h _ he0

theorem wfb_setStream {c : Conn} {sid : Int} {st : Stream} (h : WFb c) : WFb (setStream c sid st) :=
  ⟨h.ls, h.rs, h.mof, h.dec, h.ls32⟩

theorem wp_and {σ α} {m : M σ α} {Q1 Q2 : α → σ → Prop} {E1 E2 : Exc → σ → Prop} {s : σ}
    (h1 : wp m Q1 E1 s) (h2 : wp m Q2 E2 s) : wp m (fun a s' => Q1 a s' ∧ Q2 a s') (fun e s' => E1 e s' ∧ E2 e s') s := by
  unfold wp at *
  cases h : m s with
  | mk r s' =>
    rw [h] at h1 h2
    cases r with
    | ok a => exact ⟨h1, h2⟩
    | error e => exact ⟨h1, h2⟩

/-- run a stream method that is `SGood` from every non-IDLE stream on a stream of a live connection; `R` is what is
    known about its result (the frames it wants sent) -/
theorem wp_withStream_live {α} {Q : α → Conn → Prop} {E : Exc → Conn → Prop} (R : α → Prop) (sid : Int) (m : M Stream α)
    (c : Conn) (hl : Live c) (hex : hasStream c sid = true) (hm : ∀ st, st.sm.state ≠ .IDLE → SGood m st)
    (hr : ∀ st, wp m (fun a _ => R a) (fun _ _ => True) st)
    (hq : ∀ a st', R a → Live (setStream c sid st') → Q a (setStream c sid st'))
    (he : ∀ e st', CE e (setStream c sid st') → E e (setStream c sid st')) :
    wp (withStream sid m) Q E c := by
  rw [wp_withStream]
  rw [hasStream_lookup] at hex
  cases hlk : c.streams.lookup sid with
  | none => rw [hlk] at hex; simp at hex
  | some st =>
    simp only
    have hst := notIdle_lookup hl.2.2 hlk
    refine wp_mono (wp_and (hm st hst) (hr st)) ?_ ?_
    · intro a st' h
      exact hq a st' h.2 ⟨wfb_setStream hl.1, hl.2.1, notIdle_setStream hl.2.2 h.1⟩
    · intro e st' h
      apply he
      exact ⟨h.1.1, wfb_setStream hl.1, fun hc => ⟨wfb_setStream hl.1, fun _ => notIdle_setStream hl.2.2 (h.1.2 hc)⟩⟩

/-- discharge "what the stream method returns" goals: the frames list is literally there -/
macro "result_auto" : tactic => `(tactic|
  repeat' (first
    | trivial
    | (apply wp_havoc <;> intros <;> trivial)
    | (intro _)
    | wps
    | split))

end H2
