/-
  Receive path: HEADERS and PUSH_PROMISE handlers (header block decoding, stream creation, the stream methods).
-/
import H2.Proofs.RecvSettings
namespace H2
open H2.Gen H2.Conn

/-! ### header blocks, new streams -/

theorem wp_decodeHeaders {Q : List Header → Conn → Prop} {E : Exc → Conn → Prop} (block : Bytes) (c : Conn)
    (hd : DecOk c.hp)
    (hq : ∀ hs hp', AllBytes hs → DecOk hp' → Q hs { c with hp := hp' })
    (he : ∀ e hp', Plain e → DecOk hp' → E e { c with hp := hp' }) : wp (decodeHeaders block) Q E c := by
  unfold decodeHeaders
  wps
  unfold wp Hp.decode
  simp only
  cases horc : c.hp.decOracle with
  | nil =>
    simp only
    apply he _ _ plain_pErr
    intro r hr; simp [horc] at hr
  | cons r rest =>
    simp only
    have hr := hd r (by rw [horc]; exact List.mem_cons_self ..)
    have hrest : DecOk { c.hp with decLog := c.hp.decLog ++ [block], decOracle := rest } := by
      intro x hx; exact hd x (by rw [horc]; exact List.mem_cons_of_mem _ hx)
    cases r with
    | ok hs => exact hq hs _ hr hrest
    | oversized => exact he _ _ (plain_mkExc _ (by decide) (by decide)) hrest
    | hpackError => exact he _ _ plain_pErr hrest
    | py n => exact hr.elim

theorem notIdle_filter {ss : List (Int × Stream)} (p : Int × Stream → Bool) (h : StreamsNotIdle ss) :
    StreamsNotIdle (ss.filter p) := fun e he => h e (List.mem_filter.mp he).1

/-- `_open_streams`: counting (and moving closed streams out of the table) keeps the invariant -/
theorem wp_openStreams_wf {Q : Int → Conn → Prop} {E : Exc → Conn → Prop} (r : Int) (c : Conn) (hwf : WF c)
    (hq : ∀ n c', WF c' → c'.cstate = c.cstate → c'.hp = c.hp → c'.localSettings = c.localSettings →
      (∀ e ∈ c'.streams, e ∈ c.streams) → Q n c') : wp (openStreams r) Q E c := by
  simp only [wp, openStreams]
  apply hq
  · exact ⟨⟨hwf.1.ls, hwf.1.rs, hwf.1.mof, hwf.1.dec, hwf.1.ls32⟩, fun hc => notIdle_filter _ (hwf.2 hc)⟩
  · rfl
  · rfl
  · rfl
  · intro e he; exact (List.mem_filter.mp he).1


theorem getItem?_valid (s : Settings) (k v : Int) (h : s.all entryOk = true) (hg : Settings.getItem? s k = some v) :
    validB k (some v) = true := by
  induction s with
  | nil => simp [getItem?_nil] at hg
  | cons e t ih =>
    obtain ⟨a, l⟩ := e
    simp only [List.all_cons, Bool.and_eq_true] at h
    rw [getItem?_cons] at hg
    by_cases hka : k = a
    · subst hka
      simp only [if_true] at hg
      have h1 := h.1
      unfold entryOk at h1
      simp only [Bool.and_eq_true] at h1
      obtain ⟨⟨⟨_, _⟩, hv⟩, _⟩ := h1
      cases l with
      | nil => simp [headVal] at hg
      | cons x xs =>
        cases x with
        | none => simp [headVal] at hg
        | some w =>
          simp only [headVal, Option.some.injEq] at hg
          subst hg
          simp only [List.all_cons, Bool.and_eq_true] at hv
          exact hv.1
    · simp only [hka, if_false] at hg
      exact ih h.2 hg

def NotIdleExcept (sid : Int) (ss : List (Int × Stream)) : Prop := ∀ e ∈ ss, e.1 ≠ sid → e.2.sm.state ≠ .IDLE

theorem notIdleExcept_of (sid : Int) {ss : List (Int × Stream)} (h : StreamsNotIdle ss) : NotIdleExcept sid ss :=
  fun e he _ => h e he

/-- the connection between a frame handler's `_begin_new_stream` and the stream method that follows it -/
def Fresh (sid : Int) (c : Conn) : Prop :=
  WFb c ∧ c.cstate ≠ .CLOSED ∧ NotIdleExcept sid c.streams ∧ hasStream c sid = true

theorem hasStream_putStream (c : Conn) (sid : Int) (st : Stream) :
    hasStream ((putStream sid st c).2) sid = true := by
  unfold putStream modifyS hasStream
  simp only
  split
  · rename_i h
    rw [List.any_map]
    rw [List.any_eq_true] at h ⊢
    obtain ⟨e, he, hk⟩ := h
    exact ⟨e, he, by simp [Function.comp, hk]⟩
  · simp [List.any_append]

theorem notIdleExcept_putStream (c : Conn) (sid : Int) (st : Stream) (h : StreamsNotIdle c.streams) :
    NotIdleExcept sid ((putStream sid st c).2).streams := by
  unfold putStream modifyS
  simp only
  intro e he hne
  split at he
  · simp only [List.mem_map] at he
    obtain ⟨e0, he0, heq⟩ := he
    split at heq
    · subst heq; exact absurd rfl hne
    · subst heq; exact h _ he0
  · rw [List.mem_append] at he
    rcases he with h1 | h1
    · exact h _ h1
    · simp at h1; subst h1; exact absurd rfl hne

theorem wp_putStream {Q : Unit → Conn → Prop} {E : Exc → Conn → Prop} (sid : Int) (st : Stream) (c : Conn) :
    wp (putStream sid st) Q E c = Q () (putStream sid st c).2 := rfl

theorem wfb_putStream (c : Conn) (sid : Int) (st : Stream) (h : WFb c) : WFb (putStream sid st c).2 := by
  unfold putStream modifyS; simp only
  split <;> exact ⟨h.ls, h.rs, h.mof, h.dec, h.ls32⟩

theorem putStream_cstate (c : Conn) (sid : Int) (st : Stream) :
    (putStream sid st c).2.cstate = c.cstate ∧ (putStream sid st c).2.cfg = c.cfg := by
  unfold putStream modifyS; simp only
  split <;> exact ⟨rfl, rfl⟩

theorem wp_createStream_live {Q : Unit → Conn → Prop} {E : Exc → Conn → Prop} (sid : Int) (ob : Bool) (c : Conn)
    (hl : Live c) (hq : ∀ c', Fresh sid c' → c'.cfg = c.cfg → Q () c') : wp (createStream sid ob) Q E c := by
  unfold createStream
  wps
  obtain ⟨iw, hiw⟩ := getItem?_of_ok c.localSettings _ (by decide) hl.1.ls.1 hl.1.ls.2.2
  obtain ⟨ow, how⟩ := getItem?_of_ok c.remoteSettings _ (by decide) hl.1.rs.1 hl.1.rs.2.2
  have hiv := validB_iws iw (getItem?_valid _ _ _ hl.1.ls.2.2 hiw)
  unfold Settings.initialWindowSize optInt?
  rw [hiw, how]
  wps
  have hinit : WindowManager.init iw = .ok { max_window_size := iw, current_window_size := iw, bytes_processed := 0 } := by
    unfold WindowManager.init
    rw [if_pos (by simpa using hiv.2)]
  rw [hinit]
  simp only
  wps
  rw [wp_putStream]
  wps
  apply hq
  · have h1 := hasStream_putStream c sid
      { sm := { sid := sid }, maxOutFrame := c.maxOutFrame, outWin := ow,
        inWM := { max_window_size := iw, current_window_size := iw, bytes_processed := 0 } }
    have h2 := notIdleExcept_putStream c sid
      { sm := { sid := sid }, maxOutFrame := c.maxOutFrame, outWin := ow,
        inWM := { max_window_size := iw, current_window_size := iw, bytes_processed := 0 } } hl.2.2
    have hw1 := wfb_putStream c sid
      { sm := { sid := sid }, maxOutFrame := c.maxOutFrame, outWin := ow,
        inWM := { max_window_size := iw, current_window_size := iw, bytes_processed := 0 } } hl.1
    have hcs := putStream_cstate c sid
      { sm := { sid := sid }, maxOutFrame := c.maxOutFrame, outWin := ow,
        inWM := { max_window_size := iw, current_window_size := iw, bytes_processed := 0 } }
    split
    · exact ⟨⟨hw1.ls, hw1.rs, hw1.mof, hw1.dec, hw1.ls32⟩, by rw [hcs.1]; exact hl.2.1, h2, h1⟩
    · exact ⟨⟨hw1.ls, hw1.rs, hw1.mof, hw1.dec, hw1.ls32⟩, by rw [hcs.1]; exact hl.2.1, h2, h1⟩
  · split <;> exact (putStream_cstate c sid _).2

theorem goodExc_tooLow (sid : Int) :
    GoodExc (.h2 .StreamIDTooLowError (ExcClass.StreamIDTooLowError.classCode.map Int.ofNat) (some sid) []) :=
  ⟨by decide, _, rfl, by decide, by decide⟩

/-- `_begin_new_stream` on a live connection -/
theorem wp_beginNewStream_live {Q : Unit → Conn → Prop} {E : Exc → Conn → Prop} (sid : Int) (odd : Bool) (c : Conn)
    (hl : Live c) (hq : ∀ c', Fresh sid c' → c'.cfg = c.cfg → Q () c') (he : ∀ e, GoodExc e → E e c) :
    wp (beginNewStream sid odd) Q E c := by
  unfold beginNewStream
  wps
  repeat' split
  all_goals first
    | exact he _ (goodExc_tooLow sid)
    | exact he _ goodExc_pErr
    | exact wp_createStream_live _ _ _ hl hq


theorem notIdle_setStream_fresh {c : Conn} {sid : Int} {st : Stream} (h : NotIdleExcept sid c.streams)
    (hs : st.sm.state ≠ .IDLE) : StreamsNotIdle (setStream c sid st).streams := by
  intro e he
  simp only [setStream, List.mem_map] at he
  obtain ⟨e0, he0, heq⟩ := he
  split at heq
  · subst heq; exact hs
  · rename_i hne
    subst heq
    exact h _ he0 (by simpa using hne)

/-- run a stream method that is `SGood` from every state on the stream that was just looked up or created -/
theorem wp_withStream_fresh {α} {Q : α → Conn → Prop} {E : Exc → Conn → Prop} (R : α → Prop) (sid : Int) (m : M Stream α)
    (c : Conn) (hf : Fresh sid c) (hm : ∀ st, SGood m st)
    (hr : ∀ st, wp m (fun a _ => R a) (fun _ _ => True) st)
    (hq : ∀ a st', R a → Live (setStream c sid st') → Q a (setStream c sid st'))
    (he : ∀ e st', CE e (setStream c sid st') → E e (setStream c sid st')) :
    wp (withStream sid m) Q E c := by
  rw [wp_withStream]
  have hex := hf.2.2.2
  rw [hasStream_lookup] at hex
  cases hlk : c.streams.lookup sid with
  | none => rw [hlk] at hex; simp at hex
  | some st =>
    simp only
    refine wp_mono (wp_and (hm st) (hr st)) ?_ ?_
    · intro a st' h
      exact hq a st' h.2 ⟨wfb_setStream hf.1, hf.2.1, notIdle_setStream_fresh hf.2.2.1 h.1⟩
    · intro e st' h
      apply he
      exact ⟨h.1.1, wfb_setStream hf.1, fun hc => ⟨wfb_setStream hf.1, fun _ => notIdle_setStream_fresh hf.2.2.1 (h.1.2 hc)⟩⟩

theorem fresh_of_live {c : Conn} {sid : Int} (hl : Live c) (hex : hasStream c sid = true) : Fresh sid c :=
  ⟨hl.1, hl.2.1, notIdleExcept_of sid hl.2.2, hex⟩

theorem wp_getOrCreateStream_live {Q : Unit → Conn → Prop} {E : Exc → Conn → Prop} (sid : Int) (odd : Bool) (c : Conn)
    (hl : Live c) (hq : ∀ c', Fresh sid c' → c'.cfg = c.cfg → Q () c') (he : ∀ e, GoodExc e → E e c) :
    wp (getOrCreateStream sid odd) Q E c := by
  unfold getOrCreateStream
  wps
  split
  · rename_i hex; exact hq c (fresh_of_live hl hex) rfl
  · exact wp_beginNewStream_live sid odd c hl hq he

theorem hspec_headersRest (sid : Int) (block : Bytes) (es : Bool) (prio : Option Prio) (c0 : Conn) (hwf0 : WF c0) :
    wp (receiveHeadersRest sid block es prio) HQ CE c0 := by
  unfold receiveHeadersRest
  wps
  apply wp_decodeHeaders _ _ hwf0.1.dec
  · intro hs hp' hab hdec
    have hwf1 : WF { c0 with hp := hp' } := ⟨⟨hwf0.1.ls, hwf0.1.rs, hwf0.1.mof, hdec, hwf0.1.ls32⟩, hwf0.2⟩
    wps
    apply wp_connInput_live _ _ hwf1 (by unfold notGoaway; decide)
    · intro t hl
      wps
      split
      · exact CE_plain plain_pErr hl.1
      · apply wp_getOrCreateStream_live _ _ _ hl
        · intro c' hf hcfg
          wps
          apply wp_withStream_fresh _ _ _ _ hf (fun st => sgood_receiveHeaders _ hs es st hab)
            (res_receiveHeaders _ hs es)
          · intro a st' hr hl'
            obtain ⟨frames, evs⟩ := a
            simp only
            cases prio with
            | none => wps; exact ⟨hl'.wf, framesOk_of_noFrames hr⟩
            | some p =>
              simp only
              wps
              refine wp_mono (hspec_priority sid p _ hl'.wf) ?_ ?_
              · intro a2 c2 h2
                obtain ⟨f2, e2⟩ := a2
                wps
                exact ⟨h2.1, framesOk_of_noFrames hr⟩
              · intro e c2 h2; exact h2
          · intro e st' hce; exact hce
        · intro e he; exact CE_wf he hl.wf
    · intro h; exact CE_plain plain_pErr h.1
  · intro e hp' hp hdec; exact CE_plain hp ⟨hwf0.1.ls, hwf0.1.rs, hwf0.1.mof, hdec, hwf0.1.ls32⟩

theorem hspec_headers (sid : Int) (block : Bytes) (es : Bool) (prio : Option Prio) (c : Conn) (hwf : WF c) :
    wp (receiveHeadersFrame sid block es prio) HQ CE c := by
  unfold receiveHeadersFrame
  wps
  split
  · unfold openInboundStreams
    wps
    apply wp_openStreams_wf _ _ hwf
    intro n c' hwf' _ _ _ _
    wps
    split
    · exact CE_plain (plain_mkExc _ (by decide) (by decide)) hwf'.1
    · exact hspec_headersRest _ _ _ _ c' hwf'
  · exact hspec_headersRest _ _ _ _ c hwf


theorem wp_refusePushedStream {Q : Frame → Conn → Prop} {E : Exc → Conn → Prop} (promised : Int) (c : Conn)
    (hl : Live c) (hq : ∀ f c', Live c' → SmallFrame f → Q f c') : wp (refusePushedStream promised) Q E c := by
  unfold refusePushedStream
  wps
  apply hq
  · split <;> exact ⟨⟨hl.1.ls, hl.1.rs, hl.1.mof, hl.1.dec, hl.1.ls32⟩, hl.2.1, hl.2.2⟩
  · exact ⟨by decide, by decide⟩

theorem hspec_pushKnown (sid promised : Int) (hs : List Header) (c : Conn) (hl : Live c)
    (hex : hasStream c sid = true) : wp (receivePushPromiseKnown sid promised hs) HQ CE c := by
  unfold receivePushPromiseKnown
  wps
  split
  · exact CE_plain plain_pErr hl.1
  · apply wp_withStream_live _ _ _ _ hl hex
      (fun st hst => sgood_receivePushPromiseInBand c.cfg promised hs st hst)
      (res_receivePushPromiseInBand c.cfg promised hs)
    · intro a st' hr hl'
      obtain ⟨frames, evs⟩ := a
      wps
      unfold openInboundStreams
      wps
      apply wp_openStreams_wf _ _ hl'.wf
      intro n c1 hwf1 hcs1 _ _ _
      have hl1 : Live c1 := ⟨hwf1.1, by rw [hcs1]; exact hl'.2.1, hwf1.2 (by rw [hcs1]; exact hl'.2.1)⟩
      wps
      apply wp_beginNewStream_live _ _ _ hl1
      · intro c' hf _
        wps
        apply wp_withStream_fresh _ _ _ _ hf (fun st => sgood_remotelyPushed hs st) (res_remotelyPushed hs)
        · intro a2 st2 _ hl2; wps; exact ⟨hl2.wf, framesOk_of_noFrames hr⟩
        · intro e st2 hce; exact hce
      · intro e he; exact CE_wf he hl1.wf
    · intro e st' hce
      split
      · rename_i hc
        have hwf' := hce.2.2 (caught_of_streamClosed hc)
        try wps
        have hl' : Live (setStream c sid st') := ⟨hwf'.1, hl.2.1, hwf'.2 hl.2.1⟩
        apply wp_refusePushedStream _ _ hl'
        intro f c' hl2 hf; wps; exact ⟨hl2.wf, framesOk_one hf⟩
      · exact hce

theorem hspec_pushUnknown (sid promised : Int) (c : Conn) (hl : Live c) :
    wp (receivePushPromiseUnknown sid promised) HQ CE c := by
  unfold receivePushPromiseUnknown
  wps
  split
  · apply wp_refusePushedStream _ _ hl
    intro f c' hl2 hf; wps; exact ⟨hl2.wf, framesOk_one hf⟩
  · exact CE_plain plain_pErr hl.1

theorem hspec_pushPromise (sid promised : Int) (block : Bytes) (c : Conn) (hwf : WF c) :
    wp (receivePushPromiseFrame sid promised block) HQ CE c := by
  unfold receivePushPromiseFrame
  wps
  obtain ⟨ep, hep⟩ := getItem?_of_ok c.localSettings _ (by decide) hwf.1.ls.2.1 hwf.1.ls.2.2
  unfold Settings.enablePush
  rw [hep]
  simp only
  split
  · exact CE_plain plain_pErr hwf.1
  · wps
    apply wp_decodeHeaders _ _ hwf.1.dec
    · intro hs hp' hab hdec
      have hwf1 : WF { c with hp := hp' } := ⟨⟨hwf.1.ls, hwf.1.rs, hwf.1.mof, hdec, hwf.1.ls32⟩, hwf.2⟩
      wps
      apply wp_connInput_live _ _ hwf1 (by unfold notGoaway; decide)
      · intro t hl
        wps
        split
        · exact CE_plain plain_pErr hl.wf.1
        try wps
        apply wp_getStreamById_live
        · intro hex
          wps
          simp only [Bool.not_true, Bool.false_eq_true, if_false]
          exact hspec_pushKnown _ _ _ _ hl hex
        · intro e he
          split
          · try wps
            simp only [Bool.not_false, if_true]
            exact hspec_pushUnknown _ _ _ hl
          · exact CE_wf he hl.wf
      · intro h; exact CE_plain plain_pErr h.1
    · intro e hp' hp hdec; exact CE_plain hp ⟨hwf.1.ls, hwf.1.rs, hwf.1.mof, hdec, hwf.1.ls32⟩

end H2
