/-
  The backlog of a header block under assembly (`FrameBuffer._headers_buffer`) never holds more than
  CONTINUATION_BACKLOG frames — in every state, also after the connection error that an overlong block raises (before
  the repair D49 the refused frame was appended first, so a peer that kept sending CONTINUATION frames to an
  application that kept calling `receive_data` grew the list without bound).

  Only `receive_data`'s own loop touches the frame buffer (Proofs/FbKeeps); the loop hands the buffer to `__next__`,
  which changes the backlog through `_update_header_buffer` only.
-/
import H2.Proofs.FbKeeps
import H2.Proofs.RecvTotal
namespace H2
open H2.Gen H2.Conn FrameBuffer

def HbCap (hb : List Frame) : Prop := (hb.length : Int) ≤ CONTINUATION_BACKLOG

/-- the connection's header-block backlog is within its cap -/
def HC (c : Conn) : Prop := HbCap c.fb.headersBuffer

theorem stepHeaderBuffer_cap (hb : List Frame) (f : RFrame) (h : HbCap hb) :
    HbCap (FrameBuffer.stepHeaderBuffer hb f).2 := by
  unfold HbCap at *
  unfold FrameBuffer.stepHeaderBuffer
  repeat' split
  all_goals (try simp only [apply_ite Prod.snd])
  all_goals (repeat' split)
  all_goals first
    | exact h
    | (simp [CONTINUATION_BACKLOG]; done)
    | (simp_all [CONTINUATION_BACKLOG] <;> omega)

theorem updateHeaderBuffer_cap (fb : FrameBuffer) (f : RFrame) (h : HbCap fb.headersBuffer) :
    HbCap (FrameBuffer.updateHeaderBuffer fb f).2.headersBuffer := by
  unfold FrameBuffer.updateHeaderBuffer
  exact stepHeaderBuffer_cap _ _ h

theorem next1_cap (fb : FrameBuffer) (h : HbCap fb.headersBuffer) : HbCap (FrameBuffer.next1 fb).2.headersBuffer := by
  unfold FrameBuffer.next1
  by_cases h9 : fb.data.length < 9
  · simp only [h9, if_true]; exact h
  · simp only [h9, if_false]
    cases hph : parseFrameHeader (fb.data.take 9) with
    | error e => exact h
    | ok hd =>
      simp only
      by_cases hlen : fb.data.length < hd.length + 9
      · simp only [hlen, if_true]; exact h
      · simp only [hlen, if_false]
        by_cases hmax : (hd.length : Int) > fb.maxFrameSize
        · simp only [hmax, if_true]; exact h
        · simp only [hmax, if_false]
          by_cases hack : (hd.type = 4 && hasBit hd.flags 1 && hd.length != 0) = true
          · simp only [hack, if_true]; exact h
          · simp only [hack]
            cases hp : parseBody hd ((fb.data.drop 9).take hd.length) with
            | error e => cases e <;> exact h
            | ok f =>
              simp only [Bool.false_eq_true, if_false]
              have hu := updateHeaderBuffer_cap { fb with data := fb.data.drop (9 + hd.length) } f h
              cases hm : FrameBuffer.updateHeaderBuffer { fb with data := fb.data.drop (9 + hd.length) } f with
              | mk r fb2 =>
                rw [hm] at hu
                cases r with
                | error e => exact hu
                | ok o => cases o <;> exact hu

theorem next_cap (fuel : Nat) (fb : FrameBuffer) (h : HbCap fb.headersBuffer) :
    HbCap (FrameBuffer.next fuel fb).2.headersBuffer := by
  induction fuel generalizing fb with
  | zero => exact h
  | succ n ih =>
    rw [FrameBuffer.next_succ]
    have h1 := next1_cap fb h
    cases hn : FrameBuffer.next1 fb with
    | mk r fb1 =>
      rw [hn] at h1
      cases r with
      | error e => exact h1
      | ok o =>
        cases o with
        | none => exact h1
        | frame f => exact h1
        | skip => exact ih fb1 h1

theorem recvLoop_hc (fuel : Nat) (evs : List Event) (c : Conn) (h : HC c) : HC (recvLoop fuel evs c).2 := by
  induction fuel generalizing evs c with
  | zero => exact h
  | succ n ih =>
    rw [recvLoop_succ]
    have hn := next_cap (c.fb.data.length + 1) c.fb h
    cases hnx : FrameBuffer.next (c.fb.data.length + 1) c.fb with
    | mk r fb =>
      rw [hnx] at hn
      cases r with
      | error e => exact hn
      | ok o =>
        cases o with
        | none => exact hn
        | some rf =>
          simp only
          have hfb := hideFb_fb (receiveFrame rf) { c with fb := fb }
          cases hm : hideFb (receiveFrame rf) { c with fb := fb } with
          | mk r2 c2 =>
            rw [hm] at hfb
            simp only at hfb
            have h2 : HC c2 := by unfold HC; rw [hfb]; exact hn
            cases r2 with
            | error e => exact h2
            | ok es => exact ih _ _ h2

/-- **`receive_data` keeps the header-block backlog within its cap**, whatever the bytes, whether it returns or raises -/
theorem receiveData_hc (d : Bytes) (c : Conn) (h : HC c) : HC (receiveData d c).2 := by
  rw [receiveData_eq]
  cases ha : FrameBuffer.addData c.fb d with
  | error e => exact h
  | ok fb =>
    simp only
    have hhb : fb.headersBuffer = c.fb.headersBuffer := by
      rw [FrameBuffer.addData_eq] at ha
      split at ha
      · injection ha with ha; subst ha; rfl
      · split at ha
        · injection ha with ha; subst ha; rfl
        · simp at ha
    have h0 : HC (startRecv c fb) := by unfold HC startRecv; show HbCap fb.headersBuffer; rw [hhb]; exact h
    have hl := recvLoop_hc ((startRecv c fb).fb.data.length + 1) [] (startRecv c fb) h0
    cases hr : recvLoop ((startRecv c fb).fb.data.length + 1) [] (startRecv c fb) with
    | mk r c1 =>
      rw [hr] at hl
      cases r with
      | ok evs => exact hl
      | error e =>
        simp only [finishRecv]
        have hfb := hideFb_fb (handleRecvError e) c1
        unfold HC
        rw [hfb]
        exact hl

/-- a computation that leaves the frame buffer alone keeps the cap -/
theorem hc_of_pf {α : Type} {m : CM α} {c : Conn} (hm : PF m c) (h : HC c) :
    wp m (fun _ c' => HC c') (fun _ c' => HC c') c :=
  wp_mono hm (fun _ c' h' => by unfold HC; rw [h']; exact h) (fun _ c' h' => by unfold HC; rw [h']; exact h)

end H2
