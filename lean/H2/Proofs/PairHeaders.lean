/-
  A pair-level fact that links C14 and C15: a header block that one endpoint emits under the default configuration
  (normalised and validated for its block type) satisfies, once on the wire, the rule book the other endpoint's
  inbound validation applies for the same block type — so the peer does not refuse it.
-/
import H2.Proofs.HeaderRules
namespace H2.Pair
open H2 H2.Gen

/-- what the peer's HPACK decoder hands to its validation: the same names and values, as bytes -/
def wire (hs : List Header) : List Header := hs.map fun h => ⟨HStr.b h.name.bs, HStr.b h.value.bs, h.ni⟩

theorem isPseudo_wire (h : Header) : isPseudo ⟨HStr.b h.name.bs, HStr.b h.value.bs, h.ni⟩ = isPseudo h := rfl

theorem pseudoNames_wire (hs : List Header) : pseudoNames (wire hs) = pseudoNames hs := by
  unfold pseudoNames wire
  induction hs with
  | nil => rfl
  | cons h t ih =>
    simp only [List.map_cons, List.filter_cons, isPseudo_wire]
    by_cases hp : isPseudo h = true
    · simp only [hp, if_true, List.map_cons, ih]; rfl
    · simp only [hp, Bool.false_eq_true, if_false, ih]

theorem hasPseudo_wire (hs : List Header) (lit : String) : hasPseudo (wire hs) lit = hasPseudo hs lit := by
  unfold hasPseudo wire
  rw [List.any_map]
  rfl

theorem lastMethod_wire (hs : List Header) (init : Option Bytes) : lastMethod init (wire hs) = lastMethod init hs := by
  unfold lastMethod wire
  induction hs generalizing init with
  | nil => rfl
  | cons h t ih => simp only [List.map_cons, List.foldl_cons]; exact ih _

theorem allowedPseudo_b (n : HStr) : allowedPseudo (HStr.b n.bs) = allowedPseudo n := by
  unfold allowedPseudo
  rw [tables_as_literals.2.2.2.2.2.2.2.1, inSet_same, inSet_same]
  rfl

theorem find_wire (hs : List Header) (p : Header → Bool) (hp : ∀ h, p ⟨HStr.b h.name.bs, HStr.b h.value.bs, h.ni⟩ = p h) :
    ((wire hs).reverse.find? p).map (·.value.bs) = (hs.reverse.find? p).map (·.value.bs) := by
  unfold wire
  rw [← List.map_reverse]
  generalize hs.reverse = l
  induction l with
  | nil => rfl
  | cons h t ih =>
    simp only [List.map_cons, List.find?_cons, hp]
    split
    · rfl
    · exact ih

theorem hostAuthority_wire (hs : List Header) (h : hostAuthorityOk hs = true) : hostAuthorityOk (wire hs) = true := by
  unfold hostAuthorityOk at h ⊢
  have ea := find_wire hs (fun h => h.name.isLit (strBytes ":authority")) (fun _ => rfl)
  have eh := find_wire hs (fun h => !(h.name.isLit (strBytes ":authority")) && h.name.isLit (strBytes "host")) (fun _ => rfl)
  simp only at h ⊢
  cases ha : hs.reverse.find? (fun h => h.name.isLit (strBytes ":authority")) with
  | none =>
    rw [ha] at h ea
    cases hw : (wire hs).reverse.find? (fun h => h.name.isLit (strBytes ":authority")) with
    | some x => rw [hw] at ea; simp at ea
    | none =>
      cases hh : hs.reverse.find? (fun h => !(h.name.isLit (strBytes ":authority")) && h.name.isLit (strBytes "host")) with
      | none => rw [hh] at h; simp at h
      | some y =>
        rw [hh] at eh
        cases hw2 : (wire hs).reverse.find? (fun h => !(h.name.isLit (strBytes ":authority")) && h.name.isLit (strBytes "host")) with
        | none => rw [hw2] at eh; simp at eh
        | some z => simp
  | some a =>
    rw [ha] at h ea
    cases hw : (wire hs).reverse.find? (fun h => h.name.isLit (strBytes ":authority")) with
    | none => rw [hw] at ea; simp at ea
    | some x =>
      rw [hw] at ea
      simp only [Option.map_some, Option.some.injEq] at ea
      cases hh : hs.reverse.find? (fun h => !(h.name.isLit (strBytes ":authority")) && h.name.isLit (strBytes "host")) with
      | none =>
        rw [hh] at eh
        cases hw2 : (wire hs).reverse.find? (fun h => !(h.name.isLit (strBytes ":authority")) && h.name.isLit (strBytes "host")) with
        | none => simp
        | some z => rw [hw2] at eh; simp at eh
      | some y =>
        rw [hh] at h eh
        cases hw2 : (wire hs).reverse.find? (fun h => !(h.name.isLit (strBytes ":authority")) && h.name.isLit (strBytes "host")) with
        | none => rw [hw2] at eh; simp at eh
        | some z =>
          rw [hw2] at eh
          simp only [Option.map_some, Option.some.injEq] at eh h ⊢
          -- both sides bytes on the wire: equal bytes suffice
          have hx : x.value = HStr.b x.value.bs := by
            have := List.mem_of_find?_eq_some hw
            unfold wire at this
            rw [List.mem_reverse, List.mem_map] at this
            obtain ⟨w, _, hw'⟩ := this
            rw [← hw']; rfl
          have hz : z.value = HStr.b z.value.bs := by
            have := List.mem_of_find?_eq_some hw2
            unfold wire at this
            rw [List.mem_reverse, List.mem_map] at this
            obtain ⟨w, _, hw'⟩ := this
            rw [← hw']; rfl
          have hv : a.value = y.value := by simpa using h
          rw [hx, hz, ea, eh, hv]
          simp

/-- **what one endpoint emits under the default configuration, the other endpoint's validation accepts**: a block that
    passed `normalize_outbound_headers` + `validate_outbound_headers` for a block type satisfies the inbound rule book
    for the same block type once it is on the wire -/
theorem emitted_block_is_accepted (hs : List Header) (fl fl' : HdrFlags)
    (hflR : fl'.isResponse = fl.isResponse) (hflT : fl'.isTrailer = fl.isTrailer)
    (hfields : ∀ h ∈ hs, NormalisedField h) (hblock : ConformantOut hs fl) : ConformantIn (wire hs) fl' := by
  refine ⟨?_, ?_, ?_, ?_, ?_⟩
  · intro w hw
    unfold wire at hw
    rw [List.mem_map] at hw
    obtain ⟨h0, hmem, rfl⟩ := hw
    have nf := hfields h0 hmem
    exact ⟨hblock.nonempty h0 hmem, nf.lowercase, nf.nameClean, nf.valueClean, hblock.te h0 hmem, nf.notConnectionSpecific⟩
  · refine ⟨?_, ?_, ?_⟩
    · intro w hw hp
      unfold wire at hw
      rw [List.mem_map] at hw
      obtain ⟨h0, hmem, rfl⟩ := hw
      rw [allowedPseudo_b]
      exact hblock.shape.known h0 hmem hp
    · unfold wire
      rw [List.pairwise_map]
      exact hblock.shape.first
    · rw [pseudoNames_wire]; exact hblock.shape.unique
  · rw [roleOk_iff]
    have hr := (roleOk_iff hs fl).mp hblock.role
    simp only [hasPseudo_wire, lastMethod_wire, hflR, hflT]
    refine ⟨?_, hr.2.1, hr.2.2⟩
    intro ht w hw
    unfold wire at hw
    rw [List.mem_map] at hw
    obtain ⟨h0, hmem, rfl⟩ := hw
    exact hr.1 ht h0 hmem
  · intro h1 h2
    exact hostAuthority_wire hs (hblock.hostAuthority (hflR ▸ h1) (hflT ▸ h2))
  · intro h1 h2 w hw
    unfold wire at hw
    rw [List.mem_map] at hw
    obtain ⟨h0, hmem, rfl⟩ := hw
    exact hblock.path (hflR ▸ h1) (hflT ▸ h2) h0 hmem

end H2.Pair
