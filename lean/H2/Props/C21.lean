/-
  C21 — results do not depend on how bytes are split.

  `receiveData`, `FrameBuffer` and the loop are the hand-written model (tied to connection.py /
  frame_buffer.py by the correspondence check, which feeds every transfer in random chunkings).
-/
import H2.Proofs.RecvAppend

namespace H2.C21
open H2 H2.Gen H2.Conn H2.FrameBuffer

/-- `receive_data` chunk by chunk: events accumulate, the first error ends the run -/
def recvSeq (c : Conn) : List Bytes → Except Exc (List Event) × Conn
  | [] => (.ok [], c)
  | x :: xs =>
    match receiveData x c with
    | (.ok evs, c') =>
      (match recvSeq c' xs with
       | (.ok es, c'') => (.ok (evs ++ es), c'')
       | (.error e, c'') => (.error e, c''))
    | (.error e, c') => (.error e, c')

/-- **C21, two chunks** (`recv_append`): feeding `a` and then `b` gives the events of feeding `a ++ b` in the
    same order and the same final state; if an error occurs it is the same exception (class, code, stream id,
    attached events) and the states agree in everything but the frame buffer — in particular the emitted bytes. -/
theorem C21_two (c : Conn) (a b : Bytes) (hpre : PreInv c.fb) :
    match receiveData a c with
    | (.error e, c1) => ∃ c', receiveData (a ++ b) c = (.error e, c') ∧ sameButFb c' c1
    | (.ok evs1, c1) => PreInv c1.fb ∧
      match receiveData b c1 with
      | (.ok evs2, c2) => receiveData (a ++ b) c = (.ok (evs1 ++ evs2), c2)
      | (.error e, c2) => ∃ c', receiveData (a ++ b) c = (.error e, c') ∧ sameButFb c' c2 :=
  recv_append c a b hpre

/-- **C21, any chunking**: for every non-empty list of chunks (chunks may be empty, may split the preface or a
    frame anywhere), feeding them one by one gives what feeding their concatenation gives. -/
theorem C21_chunks (c : Conn) (hpre : PreInv c.fb) (x : Bytes) (xs : List Bytes) :
    match recvSeq c (x :: xs) with
    | (.ok evs, c1) => receiveData (x ++ xs.flatten) c = (.ok evs, c1)
    | (.error e, c1) => ∃ c', receiveData (x ++ xs.flatten) c = (.error e, c') ∧ sameButFb c' c1 := by
  induction xs generalizing x c with
  | nil =>
    simp only [recvSeq, List.flatten_nil, List.append_nil]
    cases receiveData x c with
    | mk r c1 =>
      cases r with
      | ok evs => simp
      | error e => exact ⟨c1, rfl, rfl⟩
  | cons y ys ih =>
    have h2 := recv_append c x (y ++ ys.flatten) hpre
    rw [recvSeq]
    simp only [List.flatten_cons]
    cases h1 : receiveData x c with
    | mk r c1 =>
      rw [h1] at h2
      cases r with
      | error e => exact h2
      | ok evs1 =>
        simp only at h2 ⊢
        obtain ⟨hp1, h2⟩ := h2
        have h3 := ih c1 hp1 y
        cases hs : recvSeq c1 (y :: ys) with
        | mk r2 c2 =>
          rw [hs] at h3
          cases r2 with
          | ok es => simp only at h3 ⊢; rw [h3] at h2; exact h2
          | error e =>
            simp only at h3 ⊢
            obtain ⟨c', h3, hs'⟩ := h3
            rw [h3] at h2
            obtain ⟨c'', h2, hs''⟩ := h2
            exact ⟨c'', h2, sameButFb_trans hs'' hs'⟩

/-- the emitted bytes are the same in both cases -/
theorem C21_chunks_out (c : Conn) (hpre : PreInv c.fb) (x : Bytes) (xs : List Bytes) :
    (recvSeq c (x :: xs)).2.out = (receiveData (x ++ xs.flatten) c).2.out := by
  have h := C21_chunks c hpre x xs
  cases hs : recvSeq c (x :: xs) with
  | mk r c1 =>
    rw [hs] at h
    cases r with
    | ok evs => simp only at h ⊢; rw [h]
    | error e =>
      simp only at h ⊢
      obtain ⟨c', h1, h2⟩ := h
      rw [h1]; exact (sameButFb_out h2).symm

/-! ### the hypothesis holds in every state the connection can be in -/

theorem C21_preinv_init (cfg : Config) : PreInv (Conn.init cfg).fb := by
  intro _
  cases hc : cfg.client <;> simp [Conn.init, FrameBuffer.init, hc]

/-- `receive_data` keeps it, whatever it does -/
theorem C21_preinv_recv (c : Conn) (d : Bytes) (hpre : PreInv c.fb) : PreInv (receiveData d c).2.fb := by
  have h := recv_append c d [] hpre
  cases h1 : receiveData d c with
  | mk r c1 =>
    rw [h1] at h
    cases r with
    | ok evs => exact h.1
    | error e =>
      -- on an error the buffer is what the loop left: compare with the unchanged preface state
      simp only
      rw [receiveData_eq] at h1
      cases ha : addData c.fb d with
      | error e' => rw [ha] at h1; simp only at h1; injection h1 with _ h1; subst h1; exact hpre
      | ok fb1 =>
        rw [ha] at h1
        simp only at h1
        intro hne
        have hpl := recvLoop_pre ((startRecv c fb1).fb.data.length + 1) [] (startRecv c fb1)
        have hlen := recvLoop_len ((startRecv c fb1).fb.data.length + 1) [] (startRecv c fb1)
        cases hl : recvLoop ((startRecv c fb1).fb.data.length + 1) [] (startRecv c fb1) with
        | mk r2 c2 =>
          rw [hl] at h1 hpl hlen
          have hfb : c1.fb = c2.fb := by
            cases r2 with
            | ok evs => simp [finishRecv] at h1
            | error e2 =>
              simp only [finishRecv] at h1
              have := hideFb_fb (handleRecvError e2) c2
              rw [h1] at this; exact this
          rw [hfb] at hne ⊢
          simp only at hpl hlen
          rw [hpl] at hne
          have hd : fb1.data = [] := addData_waiting c.fb fb1 d ha hne hpre
          have : (startRecv c fb1).fb.data = [] := hd
          rw [this] at hlen
          exact List.eq_nil_of_length_eq_zero (by simpa using hlen)

/-! ### `data_to_send(amount)` partitions the output buffer -/

def drain (c : Conn) : List (Option Int) → List Bytes × Conn
  | [] => ([], c)
  | n :: ns =>
    match dataToSend n c with
    | (.ok b, c') => (b :: (drain c' ns).1, (drain c' ns).2)
    | (.error _, c') => ([], c')

/-- **C21, output**: any sequence of `data_to_send(amount)` calls (any integer amounts, Python slice semantics,
    `None` = everything) hands out consecutive pieces of the buffer: the pieces followed by what is left are
    exactly what one `data_to_send()` would have returned, and nothing else changes. -/
theorem C21_out (c : Conn) (ns : List (Option Int)) :
    (drain c ns).1.flatten ++ (drain c ns).2.out = c.out ∧ { (drain c ns).2 with out := [] } = { c with out := [] } := by
  induction ns generalizing c with
  | nil => exact ⟨by simp [drain], rfl⟩
  | cons n ns ih =>
    cases n with
    | none =>
      have : dataToSend none c = (.ok c.out, { c with out := [] }) := rfl
      simp only [drain, this]
      have := ih { c with out := [] }
      constructor
      · simp only [List.flatten_cons, List.append_assoc]; rw [this.1]; simp
      · exact this.2
    | some k =>
      have : ∃ j, dataToSend (some k) c = (.ok (c.out.take j), { c with out := c.out.drop j }) := ⟨_, rfl⟩
      obtain ⟨j, hj⟩ := this
      simp only [drain, hj]
      have := ih { c with out := c.out.drop j }
      constructor
      · simp only [List.flatten_cons, List.append_assoc]; rw [this.1]; exact List.take_append_drop j c.out
      · exact this.2

/-- non-vacuity: a server that has seen half of the client preface, fed the rest in two pieces -/
example : PreInv ((receiveData (Gen.preamble.take 10) (Conn.init { client := false })).2).fb :=
  C21_preinv_recv _ _ (C21_preinv_init _)

end H2.C21
