/- checked on every run: the function regenerated from /repo is the reference definition -/
import H2.Gen.WindowsRaw
import H2.Gen.BridgeTac
import H2.Gen.Bridge.MaybeUpdateWindow
namespace H2.Bridge
open H2.Gen

theorem process_bytes_eq (s : WindowManager) (n : Int) :
    GenRaw.WindowManager.process_bytes s n = WindowManager.process_bytes s n := by
  first
  | (simp only [GenRaw.WindowManager.process_bytes, WindowManager.process_bytes, maybe_update_window_eq]; done)
  | (simp only [GenRaw.WindowManager.process_bytes, WindowManager.process_bytes, GenRaw.WindowManager.maybe_update_window,
       WindowManager.maybe_update_window]
     repeat' split
     all_goals first
       | rfl
       | omega
       | (simp_all; done)
       | (simp_all <;> omega)
       | grind)
  | grind [GenRaw.WindowManager.process_bytes, WindowManager.process_bytes, GenRaw.WindowManager.maybe_update_window,
       WindowManager.maybe_update_window]

end H2.Bridge
