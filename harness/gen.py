"""State-aware, boundary-dense random program generation.  Every random choice
comes from the one `random.Random` handed in, so a seed replays exactly.

A generator looks at the *public* state of the real connections (known stream
ids, flow-control windows, frame size limit, next stream id) to produce mostly
valid programs, with a tunable share of deliberately invalid calls.
"""
import wire

BOUNDS = [0, 1, 2, 3, 5, 8, 9, 15, 16, 17, 100, 255, 256, 257, 1023, 1024, 1025, 4096, 16383, 16384, 16385,
          65534, 65535, 65536, 2**24 - 2, 2**24 - 1, 2**24, 2**31 - 2, 2**31 - 1, 2**31, 2**31 + 1,
          2**32 - 1, 2**32, 2**32 + 1, -1, -2, -15, -2**31]
ERR_CODES = list(range(0, 15)) + [255, 2**32 - 1]
SETTING_IDS = [1, 2, 3, 4, 5, 6, 8, 7, 9, 0, 16, 255, 256, 0x102, 65535]


def pick(rng, seq):
    return seq[rng.randrange(len(seq))]


def small_bytes(rng, n=None):
    n = rng.randrange(0, 12) if n is None else n
    return bytes(rng.randrange(256) for _ in range(n))


TOKEN = b'abcdefghijklmnopqrstuvwxyz0123456789-'


def token(rng, lo=1, hi=8):
    return bytes(pick(rng, TOKEN) for _ in range(rng.randrange(lo, hi + 1)))


def REQ(rng, method=None, extra=()):
    m = method or pick(rng, [b'GET', b'POST', b'HEAD', b'PUT', b'CONNECT', b'OPTIONS'])
    if method is None and rng.random() < 0.04:
        m = pick(rng, [b'', b'get', b'Head', b'CONNECT ', b'\xff', b'HEAD\x00'])
    hs = [(b':method', m, False), (b':scheme', pick(rng, [b'https', b'http']), False),
          (b':path', pick(rng, [b'/', b'/a/b?c=d', b'*']), False),
          (b':authority', pick(rng, [b'example.com', b'x', b'localhost:8080']), False)]
    rng.shuffle(hs) if rng.random() < 0.2 else None
    return hs + list(extra)


WEIRD_STATUS = [b'abc', b'', b'2xx', b'\xff\xfe', b'99', b'1000', b'+200', b' 200', b'200 ', b'2_0', b'-1', b'0', b'1e2']


def RESP(rng, status=None, extra=()):
    s = status or pick(rng, [b'200', b'204', b'304', b'404', b'500', b'201'])
    if status is None and rng.random() < 0.06:
        s = pick(rng, WEIRD_STATUS)
    return [(b':status', s, False)] + list(extra)


SPECIAL_NAMES = [b'cookie', b'authorization', b'proxy-authorization', b'te', b'connection', b'proxy-connection',
                 b'keep-alive', b'transfer-encoding', b'upgrade', b'host', b'content-length', b':path', b':method',
                 b':scheme', b':authority', b':status', b':protocol', b':custom', b'x-a', b'user-agent', b'Content-Type',
                 b'X-UPPER', b' spaced ', b'tab\t', b'', b'set-cookie', b'accept']
SPECIAL_VALUES = [b'', b'trailers', b'Trailers', b'gzip', b'a=b', b'0123456789abcdefghijklm', b'0123456789abcdefghi',
                  b' lead', b'trail ', b'\ttab', b'x\x0b', b'close', b'5', b'0', b'10', b'+3', b' 7 ', b'1_0', b'-1', b'abc',
                  b'example.com', b'x', b'/', b'GET', b'HEAD', b'CONNECT', b'200', b'100', b'103', b'304', b'\xff\xfe', b'\xc3\xa9']


def rand_header(rng, allow_str=True):
    n = pick(rng, SPECIAL_NAMES) if rng.random() < 0.8 else token(rng)
    v = pick(rng, SPECIAL_VALUES) if rng.random() < 0.8 else token(rng, 0, 30)
    ni = rng.random() < 0.1
    if allow_str and rng.random() < 0.15:
        try:
            n2, v2 = n.decode('ascii'), v.decode('ascii')
            if rng.random() < 0.7:
                n, v = n2, v2
            elif rng.random() < 0.5:
                n = n2
            else:
                v = v2
        except UnicodeDecodeError:
            pass
    return (n, v, ni)


def mutate_headers(rng, hs, allow_str=True, p=0.5):
    hs = list(hs)
    if rng.random() > p:
        return hs
    for _ in range(rng.randrange(1, 4)):
        k = rng.randrange(8)
        if k == 0 and hs:
            del hs[rng.randrange(len(hs))]
        elif k == 1 and hs:
            hs.insert(rng.randrange(len(hs) + 1), hs[rng.randrange(len(hs))])
        elif k in (2, 3, 4):
            hs.insert(rng.randrange(len(hs) + 1), rand_header(rng, allow_str))
        elif k == 5 and len(hs) > 1:
            i, j = rng.randrange(len(hs)), rng.randrange(len(hs))
            hs[i], hs[j] = hs[j], hs[i]
        elif k == 6 and hs:
            i = rng.randrange(len(hs))
            n, v, ni = hs[i]
            hs[i] = (n, pick(rng, SPECIAL_VALUES), ni)
        elif k == 7 and hs and allow_str:
            i = rng.randrange(len(hs))
            n, v, ni = hs[i]
            try:
                hs[i] = (n.decode('ascii') if isinstance(n, bytes) else n,
                         v.decode('ascii') if isinstance(v, bytes) else v, ni)
            except UnicodeDecodeError:
                pass
    return hs


CLEAN = [(b'user-agent', b'x/1.0'), (b'accept', b'*/*'), (b'cookie', b'a=b'), (b'cookie', b'c=d; e=f0123456789abcdefgh'),
         (b'content-length', b'5'), (b'content-length', b'0'), (b'content-length', b'300'), (b'te', b'trailers'),
         (b'authorization', b'secret'), (b'x-a', b''), (b'x-utf8', b'\xc3\xa9'), (b'x-bin', b'\xff\xfe'), (b'set-cookie', b'k=v')]


def header_list(rng, kind, allow_str=True, p_mut=0.35, clean=False):
    if clean:
        extra = [pick(rng, CLEAN) + (rng.random() < 0.05,) for _ in range(rng.randrange(0, 3))] if rng.random() < 0.6 else []
    else:
        extra = [rand_header(rng, allow_str) for _ in range(rng.randrange(0, 3))] if rng.random() < 0.5 else []
    if kind == 'request':
        hs = REQ(rng, extra=extra)
    elif kind == 'response':
        hs = RESP(rng, extra=extra)
    elif kind == 'info':
        hs = RESP(rng, status=pick(rng, [b'100', b'103', b'199']), extra=extra)
    elif kind == 'trailers':
        hs = [(b'x-trailer', token(rng), False)] + extra if rng.random() < 0.9 else []
    else:
        hs = extra
    return mutate_headers(rng, hs, allow_str, p_mut)


def big_headers(rng, target):
    """a valid extra header whose (Huffman) encoding is roughly `target` bytes"""
    # '0'..'9' are 5..6 bit codes; use 'a' (5 bits) for predictability: n chars -> ceil(5n/8) bytes
    n = max(0, int(target * 8 / 5))
    return (b'x-big', b'a' * n, False)


class Gen(object):
    """Generates the next op for a World with a client `c0` and/or server `c1`."""

    DEFAULT = dict(
        send_headers=10, send_data=10, end_stream=4, incr_window=3, push_stream=3, ping=2, reset_stream=3,
        close_connection=0.4, update_settings=3, altsvc=1.5, prioritize=2, ack_data=4, data_to_send=1, query=5,
        xfer=14, inject=0, clear_out=0.2)

    def __init__(self, rng, world, conns, weights=None, invalid=0.15, allow_str=True, max_data=70000,
                 inject_neutral=True):
        self.rng = rng
        self.w = world
        self.conns = conns           # list of cids
        self.weights = dict(self.DEFAULT)
        if weights:
            self.weights.update(weights)
        self.invalid = invalid
        self.allow_str = allow_str
        self.max_data = max_data
        self.inject_neutral = inject_neutral

    # -- views of the real state (public attributes only) -------------------
    def rc(self, c):
        return self.w.conns[c]

    def sids(self, c):
        return list(self.rc(c).conn.streams.keys())

    def some_sid(self, c, prefer_known=0.85):
        rng = self.rng
        known = self.sids(c)
        conn = self.rc(c).conn
        if known and rng.random() < prefer_known:
            return pick(rng, known)
        r = rng.random()
        if r < 0.3:
            hi = max(conn.highest_inbound_stream_id, conn.highest_outbound_stream_id)
            return rng.randrange(0, hi + 6)
        if r < 0.6:
            try:
                return conn.get_next_available_stream_id()
            except Exception:
                return 1
        return pick(rng, BOUNDS)

    def new_sid(self, c):
        conn = self.rc(c).conn
        rng = self.rng
        try:
            n = conn.get_next_available_stream_id()
        except Exception:
            n = 1
        r = rng.random()
        if r < 0.8:
            return n
        if r < 0.9:
            return n + 2 * rng.randrange(1, 4)
        if r < 0.95:
            return n + 1
        return pick(rng, [2**31 - 1, 2**31 - 2, 2**31, 2**31 + 1, 0, n - 2])

    # -- op constructors -----------------------------------------------------
    def op_send_headers(self, c):
        rng = self.rng
        rcn = self.rc(c)
        conn = rcn.conn
        known = self.sids(c)
        invalid = rng.random() < self.invalid
        if rcn.client:
            if known and rng.random() < 0.35:
                sid, kind = pick(rng, known), pick(rng, ['trailers', 'trailers', 'request', 'response'])
            else:
                sid, kind = self.new_sid(c), 'request'
        else:
            sid = pick(rng, known) if known and not invalid else self.some_sid(c)
            kind = pick(rng, ['response', 'response', 'response', 'info', 'trailers', 'request'])
        if invalid and rng.random() < 0.5:
            kind = pick(rng, ['request', 'response', 'info', 'trailers', 'none'])
        hs = header_list(rng, kind, self.allow_str, 0.6 if invalid else 0.05, clean=(not invalid and rng.random() < 0.8))
        if rng.random() < 0.04:
            hs.append(big_headers(rng, pick(rng, [16370, 16379, 16380, 16384, 16385, 16390, 33000]) - 40))
        es = rng.random() < (0.75 if kind == 'trailers' else 0.3)
        op = {'op': 'send_headers', 'c': c, 'sid': sid, 'headers': hs, 'es': es}
        if rng.random() < (0.25 if rcn.client else 0.05):
            if rng.random() < 0.8:
                op['pw'] = pick(rng, [1, 16, 256, 255, 2]) if rng.random() < 0.8 else pick(rng, [0, 257, -1, 300])
            if rng.random() < 0.5:
                op['pd'] = pick(rng, [0, 1, 3, 5, sid, 2**31 - 1]) if rng.random() < 0.85 else pick(rng, [2**31, 2**31 + 5, -1, 2**32])
            if rng.random() < 0.4:
                op['pe'] = rng.random() < 0.5
        return op

    def data_size(self, c, sid):
        rng = self.rng
        conn = self.rc(c).conn
        try:
            w = conn.local_flow_control_window(sid)
        except Exception:
            w = 65535
        lim = conn.max_outbound_frame_size
        r = rng.random()
        if r < 0.45:
            n = rng.randrange(0, 200)
        elif r < 0.65:
            n = pick(rng, [w, w - 1, w + 1, lim, lim - 1, lim + 1, min(w, lim), min(w, lim) + 1, 0, 1])
        elif r < 0.9:
            n = rng.randrange(0, max(1, min(w, lim) + 2))
        else:
            n = pick(rng, [16384, 16385, 65535, 65536, 1024])
        return max(0, min(n, self.max_data))

    def op_send_data(self, c):
        rng = self.rng
        sid = self.some_sid(c, 0.92)
        pad = None
        if rng.random() < 0.25:
            pad = pick(rng, [0, 1, 5, 100, 255]) if rng.random() < 0.9 else pick(rng, [-1, 256, 300])
        n = self.data_size(c, sid)
        if pad is not None and 0 <= pad <= 255 and rng.random() < 0.7:
            n = max(0, n - pad - 1)
        data = bytes([rng.randrange(256)]) * n if n > 64 else small_bytes(rng, n)
        return {'op': 'send_data', 'c': c, 'sid': sid, 'data': data, 'es': rng.random() < 0.3, 'pad': pad}

    def op_incr_window(self, c):
        rng = self.rng
        incr = rng.randrange(1, 70000) if rng.random() < 0.7 else pick(rng, BOUNDS)
        sid = None if rng.random() < 0.4 else self.some_sid(c, 0.9)
        return {'op': 'incr_window', 'c': c, 'incr': incr, 'sid': sid}

    def op_push_stream(self, c):
        rng = self.rng
        rcn = self.rc(c)
        sid = self.some_sid(c, 0.9)
        if rng.random() < 0.85:
            promised = self.new_sid(c) if not rcn.client else pick(rng, [2, 4, 6])
        else:
            promised = pick(rng, [0, 1, 2, 3, 2**31, 2**31 - 2, sid])
        hs = header_list(rng, 'request', self.allow_str, 0.15)
        return {'op': 'push_stream', 'c': c, 'sid': sid, 'promised': promised, 'headers': hs}

    def op_update_settings(self, c):
        rng = self.rng
        items = []
        for _ in range(rng.randrange(0, 4) if rng.random() < 0.9 else 6):
            k = pick(rng, [1, 2, 3, 4, 5, 6, 8]) if rng.random() < 0.85 else pick(rng, SETTING_IDS)
            good = {1: [0, 100, 4096, 65536], 2: [0, 1], 3: [0, 1, 2, 5, 100, 2**32 - 1], 4: [0, 1, 100, 65535, 65536, 2**31 - 1],
                    5: [16384, 16385, 20000, 2**24 - 1], 6: [0, 100, 65536, 2**32 - 1], 8: [0, 1]}.get(k, [0, 1, 5])
            v = pick(rng, good) if rng.random() < 0.85 else pick(rng, BOUNDS)
            if not any(kk == k for kk, _ in items):
                items.append((k, v))
        return {'op': 'update_settings', 'c': c, 'settings': items}

    def op_ack_data(self, c):
        rng = self.rng
        conn = self.rc(c).conn
        sid = self.some_sid(c, 0.9)
        r = rng.random()
        if r < 0.5:
            size = rng.randrange(0, 3000)
        elif r < 0.85:
            try:
                cur = conn.remote_flow_control_window(sid)
                mx = conn.local_settings.initial_window_size
                size = pick(rng, [max(0, mx - cur), max(0, (mx - cur) // 2), mx // 2, mx // 4 + 1, 1024, 1025])
            except Exception:
                size = 1000
        else:
            size = pick(rng, BOUNDS)
        return {'op': 'ack_data', 'c': c, 'size': size, 'sid': sid}

    def op_query(self, c):
        rng = self.rng
        what = pick(rng, ['local_window', 'remote_window', 'next_stream_id', 'open_out', 'open_in', 'inbound_window'])
        op = {'op': 'q', 'c': c, 'what': what}
        if what in ('local_window', 'remote_window'):
            op['sid'] = self.some_sid(c, 0.85)
        return op

    def op_xfer(self, c):
        rng = self.rng
        others = [x for x in self.conns if x != c]
        if not others:
            return None
        n = None
        if rng.random() < 0.3:
            pending = len(self.rc(c).conn._data_to_send)
            n = rng.randrange(0, pending + 2) if pending and rng.random() < 0.8 else pick(rng, [0, 1, 9, 10, 24, 33, -3])
        return {'op': 'xfer', 'c': c, 'to': others[0], 'n': n}

    # -- injected peer frames (bytes handed straight to receive_data) --------
    def peer_sid(self, c, new=False):
        """a stream id the *peer* of c would use"""
        rng = self.rng
        rcn = self.rc(c)
        conn = rcn.conn
        known = self.sids(c)
        if known and not new and rng.random() < 0.8:
            return pick(rng, known)
        hi = conn.highest_inbound_stream_id
        par = 0 if rcn.client else 1
        nxt = hi + 2 if hi else (2 if rcn.client else 1)
        r = rng.random()
        if r < 0.75:
            return nxt
        if r < 0.85:
            return nxt + 2 * rng.randrange(1, 3)
        if r < 0.92:
            return nxt + 1
        return pick(rng, [0, 1, 2, 3, hi, max(0, hi - 2), 2**31 - 1])

    def valid_frame(self, c):
        """one frame the peer of `c` could legitimately send now (judged from the real stream states)"""
        rng = self.rng
        rcn = self.rc(c)
        conn = rcn.conn
        streams = []
        for sid, st in conn.streams.items():
            sm = st.state_machine
            streams.append((sid, sm.state.name, bool(sm.headers_received), bool(sm.trailers_received)))
        recv_open = [x for x in streams if x[1] in ('OPEN', 'HALF_CLOSED_LOCAL')]
        hi = conn.highest_inbound_stream_id
        k = rng.random()
        if conn.state_machine.state.name == 'IDLE':
            k = k * 0.2 if not rcn.client else 0.6 + k * 0.24
        if k < 0.2:
            if not rcn.client:
                sid = hi + 2 if hi else 1
                hs = header_list(rng, 'request', False, 0.03, clean=True)
                return wire.headers_frames(sid, wire.hpack_literal_block(hs), end_stream=rng.random() < 0.35,
                                           prio=((pick(rng, [0, 1, 3]), rng.randrange(256), rng.random() < 0.5) if rng.random() < 0.15 else None),
                                           pad=(pick(rng, [0, 3]) if rng.random() < 0.1 else None),
                                           max_frag=(pick(rng, [1, 5]) if rng.random() < 0.1 else None))
            cand = [x for x in recv_open if not x[2]]
            if cand:
                sid = pick(rng, cand)[0]
                kind = 'info' if rng.random() < 0.2 else 'response'
                hs = header_list(rng, kind, False, 0.03, clean=True)
                return wire.headers_frames(sid, wire.hpack_literal_block(hs), end_stream=(kind != 'info' and rng.random() < 0.3))
            reserved = [x for x in streams if x[1] == 'RESERVED_REMOTE']
            if reserved:
                sid = pick(rng, reserved)[0]
                return wire.headers_frames(sid, wire.hpack_literal_block(header_list(rng, 'response', False, 0.03, clean=True)), end_stream=rng.random() < 0.3)
        if k < 0.45:
            cand = [x for x in recv_open if x[2] and not x[3]]
            if cand:
                sid = pick(rng, cand)[0]
                if rng.random() < 0.12:
                    return wire.headers_frames(sid, wire.hpack_literal_block(header_list(rng, 'trailers', False, 0.03, clean=True)), end_stream=True)
                try:
                    w = conn.remote_flow_control_window(sid)
                except Exception:
                    w = 0
                w = min(w, conn.max_inbound_frame_size)
                n = rng.randrange(0, 200) if rng.random() < 0.6 else pick(rng, [w, max(0, w - 1), w // 2, 1024, 0])
                n = max(0, min(n, w, self.max_data))
                pad = pick(rng, [0, 1, 9]) if rng.random() < 0.12 else None
                if pad is not None:
                    n = max(0, n - pad - 1) if n >= pad + 1 else 0
                    if n + pad + 1 > w:
                        pad = None
                return wire.data_frame(sid, bytes([rng.randrange(256)]) * n, rng.random() < 0.3, pad)
        if k < 0.55:
            tgt = [0] + [x[0] for x in streams]
            return wire.window_update(pick(rng, tgt), rng.randrange(1, 70000))
        if k < 0.6 and streams:
            return wire.rst_stream(pick(rng, streams)[0], pick(rng, ERR_CODES))
        if k < 0.72:
            if rng.random() < 0.35:
                return wire.settings_frame(ack=True)
            items = []
            for _ in range(rng.randrange(0, 3)):
                kk = pick(rng, [1, 2, 3, 4, 5, 6, 8, 9, 0x10])
                v = pick(rng, {1: [0, 100, 4096, 65536], 2: ([0, 1] if not rcn.client else [0]), 3: [0, 1, 2, 5, 100],
                               4: [0, 100, 65535, 65536, 2**31 - 1], 5: [16384, 16385, 20000, 2**24 - 1],
                               6: [0, 100, 65536], 8: [0, 1]}.get(kk, [0, 7]))
                items.append((kk, v))
            return wire.settings_frame(items)
        if k < 0.78:
            return wire.ping(small_bytes(rng, 8), rng.random() < 0.4)
        if k < 0.84:
            sid = pick(rng, [x[0] for x in streams] + [hi + 2 if hi else 1, 9, 10])
            return wire.priority(sid, pick(rng, [d for d in (0, 1, 3, 7) if d != sid]), rng.randrange(256), rng.random() < 0.5)
        if k < 0.9 and rcn.client:
            par = [x for x in streams if x[1] in ('OPEN', 'HALF_CLOSED_LOCAL') and x[0] % 2 == 1]
            if par and conn.local_settings.enable_push:
                return wire.push_promise_frames(pick(rng, par)[0], hi + 2 if hi else 2,
                                                wire.hpack_literal_block(header_list(rng, 'request', False, 0.03, clean=True)))
        if k < 0.94:
            return wire.altsvc(0, b'example.org', b'h2=":443"') if rng.random() < 0.5 or not streams else \
                wire.altsvc(pick(rng, streams)[0], b'', b'h2=":443"')
        return wire.frame(rng.randrange(11, 256), rng.randrange(256), pick(rng, [0, 1, 2, 3]), small_bytes(rng))

    def inject_frames(self, c):
        """one or a few structurally valid (possibly semantically wrong) peer frames as bytes"""
        rng = self.rng
        rcn = self.rc(c)
        conn = rcn.conn
        out = b''
        if rng.random() >= self.invalid:
            for _ in range(1 if rng.random() < 0.7 else rng.randrange(2, 4)):
                out += self.valid_frame(c)
            return out
        for _ in range(1 if rng.random() < 0.7 else rng.randrange(2, 5)):
            k = rng.random()
            if k < 0.22:      # HEADERS
                kind = 'response' if rcn.client else 'request'
                if rng.random() < 0.25:
                    kind = pick(rng, ['request', 'response', 'info', 'trailers', 'none'])
                hs = header_list(rng, kind, False, 0.3)
                block = wire.hpack_literal_block(hs)
                if rng.random() < 0.06:
                    block = pick(rng, [b'\x80', b'\xff\xff\xff\xff\xff\xff', b'\x40', block[:-1] if block else b'\x00', b'\x3f\xff\xff\xff\x7f' + block])
                sid = self.peer_sid(c, new=(not rcn.client and rng.random() < 0.6))
                prio = None
                if rng.random() < 0.15:
                    prio = (pick(rng, [0, 1, 3, sid, 5]), rng.randrange(256), rng.random() < 0.5)
                out += wire.headers_frames(sid, block, end_stream=rng.random() < 0.4, prio=prio,
                                           pad=(pick(rng, [0, 1, 7, 255]) if rng.random() < 0.1 else None),
                                           max_frag=(pick(rng, [1, 3, 10]) if rng.random() < 0.1 else None),
                                           end_headers=rng.random() > 0.03)
            elif k < 0.42:    # DATA
                sid = self.peer_sid(c)
                try:
                    w = conn.remote_flow_control_window(sid)
                except Exception:
                    w = conn.inbound_flow_control_window
                r = rng.random()
                n = rng.randrange(0, 100) if r < 0.6 else pick(rng, [w, w + 1, max(0, w - 1), 16384, 16385, 0])
                n = max(0, min(n, self.max_data))
                pad = pick(rng, [0, 1, 9, 255]) if rng.random() < 0.15 else None
                if pad is not None and rng.random() < 0.8:
                    n = max(0, n - pad - 1)
                out += wire.data_frame(sid, bytes([rng.randrange(256)]) * n, rng.random() < 0.35, pad)
            elif k < 0.50:
                out += wire.window_update(0 if rng.random() < 0.4 else self.peer_sid(c),
                                          rng.randrange(1, 70000) if rng.random() < 0.7 else pick(rng, [0, 1, 2**31 - 1, 2**31, 2**31 - 65535, 2**32 - 1]))
            elif k < 0.57:
                out += wire.rst_stream(self.peer_sid(c), pick(rng, ERR_CODES))
            elif k < 0.67:
                if rng.random() < 0.3:
                    out += wire.settings_frame(ack=True)
                else:
                    items = self.op_update_settings(c)['settings']
                    out += wire.settings_frame([(k2 & 0xFFFF, v & 0xFFFFFFFF) for k2, v in items if v >= 0 or True])
            elif k < 0.72:
                out += wire.ping(small_bytes(rng, 8), rng.random() < 0.4)
            elif k < 0.78:
                sid = self.peer_sid(c) or 1
                out += wire.priority(sid, pick(rng, [0, 1, 3, sid, 7]), rng.randrange(256), rng.random() < 0.5)
            elif k < 0.84 and rcn.client:
                hs = header_list(rng, 'request', False, 0.15)
                hi = conn.highest_inbound_stream_id
                promised = (hi + 2 if hi else 2) if rng.random() < 0.85 else pick(rng, [0, 1, 2, hi, hi + 3, 2**31, 2**31 + 2])
                out += wire.push_promise_frames(self.peer_sid(c), promised, wire.hpack_literal_block(hs),
                                                pad=(3 if rng.random() < 0.1 else None))
            elif k < 0.88:
                out += wire.altsvc(0 if rng.random() < 0.5 else self.peer_sid(c),
                                   b'' if rng.random() < 0.5 else b'example.org', b'h2=":443"')
            elif k < 0.91:
                out += wire.goaway(pick(rng, [0, 1, 3, 2**31 - 1]), pick(rng, ERR_CODES), small_bytes(rng) if rng.random() < 0.5 else b'')
            elif k < 0.94:
                out += wire.frame(rng.randrange(11, 256), rng.randrange(256), pick(rng, [0, 1, 2, 3]), small_bytes(rng))
            elif k < 0.955:
                out += wire.frame(wire.CONTINUATION, 4, self.peer_sid(c) or 1, small_bytes(rng))
            elif k < 0.97:
                # a header block cut into many (possibly empty) CONTINUATION frames, around and far beyond the backlog cap
                sid = self.peer_sid(c, new=(not rcn.client)) or 1
                kind = 'response' if rcn.client else 'request'
                block = wire.hpack_literal_block(header_list(rng, kind, False, 0.05, clean=True))
                n = pick(rng, [1, 2, 62, 63, 64, 65, 66, 300, 1200])
                first = pick(rng, [block, block[:1], b''])
                rest = block[len(first):]
                out += wire.frame(wire.HEADERS, (1 if rng.random() < 0.3 else 0), sid, first)
                for i in range(n):
                    last = (i == n - 1)
                    frag = rest if last else (rest[:1] if rng.random() < 0.3 else b'')
                    rest = rest[len(frag):]
                    out += wire.frame(wire.CONTINUATION, 4 if (last and rng.random() < 0.9) else 0, sid, frag)
            else:             # malformed: bad length / wrong stream / truncated body
                t = rng.randrange(0, 11)
                out += wire.frame(t, rng.randrange(256), pick(rng, [0, 1, 2, 3, 2**31 + 1]), small_bytes(rng, rng.randrange(0, 12)))
        return out

    def op_inject(self, c):
        rng = self.rng
        data = self.inject_frames(c)
        if rng.random() < 0.05 and data:     # raw byte mutation
            b = bytearray(data)
            for _ in range(rng.randrange(1, 4)):
                b[rng.randrange(len(b))] = rng.randrange(256)
            data = bytes(b)
        return {'op': 'recv', 'c': c, 'data': data}

    # -- the chooser -----------------------------------------------------------
    def next_op(self):
        rng = self.rng
        names = list(self.weights)
        tot = sum(self.weights.values())
        r = rng.random() * tot
        for nme in names:
            r -= self.weights[nme]
            if r <= 0:
                break
        c = pick(rng, self.conns)
        # the connection state machine treats most calls on an IDLE connection as fatal: mostly open a stream first
        if (self.rc(c).conn.state_machine.state.name == 'IDLE' and rng.random() < 0.93 and
                nme in ('end_stream', 'push_stream', 'reset_stream', 'altsvc', 'send_data')):
            if self.rc(c).client:
                nme = 'send_headers'
            elif len(self.conns) > 1:
                nme = 'xfer'
                c = [x for x in self.conns if x != c][0]
            else:
                nme = 'query'
        if nme == 'send_headers':
            return self.op_send_headers(c)
        if nme == 'send_data':
            return self.op_send_data(c)
        if nme == 'end_stream':
            return {'op': 'end_stream', 'c': c, 'sid': self.some_sid(c, 0.92)}
        if nme == 'incr_window':
            return self.op_incr_window(c)
        if nme == 'push_stream':
            srv = [x for x in self.conns if not self.rc(x).client]
            c = pick(rng, srv) if srv and rng.random() < 0.9 else c
            return self.op_push_stream(c)
        if nme == 'ping':
            return {'op': 'ping', 'c': c, 'data': small_bytes(rng, 8 if rng.random() < 0.9 else rng.randrange(0, 12))}
        if nme == 'reset_stream':
            return {'op': 'reset_stream', 'c': c, 'sid': self.some_sid(c, 0.9),
                    'code': pick(rng, ERR_CODES) if rng.random() < 0.95 else pick(rng, [2**32, -1])}
        if nme == 'close_connection':
            return {'op': 'close_connection', 'c': c, 'code': pick(rng, ERR_CODES),
                    'extra': small_bytes(rng) if rng.random() < 0.4 else None,
                    'last': pick(rng, [0, 1, 3, 2**31 - 1, 2**31, 2**32]) if rng.random() < 0.3 else None}
        if nme == 'update_settings':
            return self.op_update_settings(c)
        if nme == 'altsvc':
            r = rng.random()
            return {'op': 'altsvc', 'c': c, 'field': b'h2=":443"; ma=60',
                    'origin': (b'example.org' if r < 0.45 or r > 0.97 else None),
                    'sid': (self.some_sid(c, 0.9) if r >= 0.45 and r < 0.99 else None)}
        if nme == 'prioritize':
            sid = self.some_sid(c, 0.6)
            return {'op': 'prioritize', 'c': c, 'sid': sid,
                    'pw': pick(rng, [None, 1, 16, 256, 0, 257]), 'pd': pick(rng, [None, 0, 1, 3, sid, 2**31 - 1, 2**31, -1]),
                    'pe': pick(rng, [None, True, False])}
        if nme == 'ack_data':
            return self.op_ack_data(c)
        if nme == 'data_to_send':
            return {'op': 'data_to_send', 'c': c, 'amount': pick(rng, [None, 0, 1, 9, 100, 10**6, -1, -5])}
        if nme == 'clear_out':
            return {'op': 'clear_out', 'c': c}
        if nme == 'query':
            return self.op_query(c)
        if nme == 'xfer':
            op = self.op_xfer(c)
            return op or self.op_query(c)
        if nme == 'inject':
            return self.op_inject(c)
        raise ValueError(nme)


def setup_ops(rng, mode, cfgs=None):
    """the opening ops of a program.  mode: 'pair' | 'client' | 'server' | 'upgrade'"""
    def cfg(c, client):
        d = {'op': 'new', 'c': c, 'client': client, 'vo': 1, 'no': 1, 'vi': 1, 'ni': 1, 'enc': None}
        if rng.random() < 0.3:
            d.update(vo=int(rng.random() < 0.6), no=int(rng.random() < 0.6), vi=int(rng.random() < 0.6),
                     ni=int(rng.random() < 0.6))
        if rng.random() < 0.3:
            d['enc'] = 'utf-8'
        if cfgs:
            d.update(cfgs)
        if rng.random() < (0.5 if mode == 'upgrade' else 0.12):
            # the application configured its own initial local settings
            good = {1: [0, 100, 4096, 65536], 2: [0, 1] if client else [0], 3: [0, 1, 5, 100], 4: [0, 100, 65535, 70000, 2**31 - 1],
                    5: [16384, 20000, 2**24 - 1], 6: [100, 65536], 8: [0, 1], 16: [5], 200: [7]}
            ks = rng.sample(sorted(good), rng.randrange(1, 4))
            d['ls'] = [(k, pick(rng, good[k])) for k in ks]
        return d
    if mode == 'pair':
        ops = [cfg(0, True), cfg(1, False)]
        if rng.random() < 0.95:
            ops += [{'op': 'initiate_connection', 'c': 0}, {'op': 'initiate_connection', 'c': 1}]
            if rng.random() < 0.85:
                ops += [{'op': 'xfer', 'c': 0, 'to': 1}, {'op': 'xfer', 'c': 1, 'to': 0}, {'op': 'xfer', 'c': 0, 'to': 1}]
        return ops, [0, 1]
    if mode in ('client', 'server'):
        client = mode == 'client'
        ops = [cfg(0, client)]
        if rng.random() < 0.95:
            ops.append({'op': 'initiate_connection', 'c': 0})
        if rng.random() < 0.9:
            pre = b'' if client else wire.PREFACE
            ops.append({'op': 'recv', 'c': 0, 'data': pre + wire.settings_frame([]) + (wire.settings_frame(ack=True) if rng.random() < 0.8 else b'')})
        return ops, [0]
    if mode == 'upgrade':
        ops = [cfg(0, True), cfg(1, False)]
        if rng.random() < 0.5:
            g = Gen(rng, None, [0])
            ops.append(dict(g.op_update_settings(0)))   # before the connection starts: becomes pending
        ops.append({'op': 'initiate_upgrade', 'c': 0, 'settings_header': None})
        return ops, [0, 1]     # the runner fills in the server's settings header from the client's result
    raise ValueError(mode)
