/- checked on every run: the function regenerated from /repo is the reference definition -/
import H2.Gen.WindowsRaw
import H2.Gen.BridgeTac
namespace H2.Bridge
open H2.Gen

theorem guard_increment_window_eq (c i : Int) :
    GenRaw.guard_increment_window c i = guard_increment_window c i := by
  bridge GenRaw.guard_increment_window guard_increment_window

end H2.Bridge
