#!/venv/bin/python
"""oracle_sweep.py <pid> [seeds...] — run only the oracle of <pid> on the real library over several seeds (no model):
a cheap way to flush rare oracle false alarms before registering a check."""
import os, sys, time
ROOT = os.path.dirname(os.path.dirname(os.path.abspath(__file__)))
sys.path.insert(0, os.path.join(ROOT, 'harness'))
os.environ.setdefault('H2_SRC', '/repo/src')
import checklib as L
from oracles import ORACLES
import special
pid = sys.argv[1]
seeds = [int(x) for x in sys.argv[2:]] or [2, 3, 5, 7, 11, 13]
known = L.load_known()
for s in seeds:
    r = L.run_programs(pid, s, 260, None, time.time() + 600, oracle=ORACLES[pid])
    f = getattr(special, 'special_' + pid, None)
    extra = f(s, 'quick', None, time.time() + 600)['failures'] if f else []
    fails = [x for x in r['failures'] + extra if not L.match_known(pid, x['failure'], known)]
    print(pid, 'seed', s, 'programs', r['stats']['programs'], 'unlisted oracle failures', len(fails))
    for x in fails[:3]:
        print('   ', x['failure'], 'k=', x['k'])
