/-
  h2.settings.Settings: an insertion-ordered dict  key ↦ deque of values,
  head = current value (None for a key that was never acknowledged), tail =
  pending values.  `acknowledge` pops one pending value *per key* (the code
  as it is — cf. known finding D8).
-/
import H2.Model.Basic

namespace H2
open H2.Gen

abbrev Settings := List (Int × List (Option Int))

namespace Settings

def ofInit (l : List (Int × Int)) : Settings := l.map fun kv => (kv.1, [some kv.2])

/-- `self._settings[key][0]`, `None`/missing → KeyError -/
def getItem? (s : Settings) (k : Int) : Option Int :=
  match s.lookup k with
  | some (some v :: _) => some v
  | _ => none

def getD (s : Settings) (k : Int) (d : Int) : Int := (getItem? s k).getD d

/-- `__setitem__` after validation: append to the key's deque (creating `deque([None])`) -/
def append (s : Settings) (k v : Int) : Settings :=
  if s.any (fun e => e.1 == k) then s.map (fun e => if e.1 == k then (e.1, e.2 ++ [some v]) else e)
  else s ++ [(k, [none, some v])]

/-- `Settings.__setitem__` -/
def setItem (s : Settings) (k v : Int) : Except Exc Settings :=
  match validate_setting k v with
  | .ok code =>
    if code ≠ 0 then .error (.h2 .InvalidSettingsValueError (some code) none [])
    else .ok (append s k v)
  | .error e => .error (ofPyErr e)

/-- `MutableMapping.update(dict)`: item by item; stops at the first invalid one, keeping the earlier ones -/
def update : Settings → List (Int × Int) → Except Exc Settings × Settings
  | s, [] => (.ok s, s)
  | s, (k, v) :: rest =>
    match setItem s k v with
    | .ok s' => update s' rest
    | .error e => (.error e, s)

/-- `acknowledge()`: returns the changed settings (key, old, new) in dict order -/
def acknowledge (s : Settings) : List (Int × Option Int × Int) × Settings :=
  let changes := s.filterMap fun e =>
    match e.2 with
    | old :: (some new) :: _ => some (e.1, old, new)
    | _ => none
  let s' := s.map fun e =>
    match e.2 with
    | _ :: rest@(_ :: _) => (e.1, rest)
    | _ => e
  (changes, s')

/-- `dict(settings)`: (key, current) pairs of the keys that have a current value (a key whose current value is
    None is not a key of the mapping: `__iter__` skips it, fix: commit) -/
def items (s : Settings) : List (Int × Int) :=
  s.filterMap fun e => match e.2 with
    | some v :: _ => some (e.1, v)
    | _ => none

def headerTableSize (s : Settings) : Option Int := getItem? s SettingCodes.HEADER_TABLE_SIZE
def enablePush (s : Settings) : Option Int := getItem? s SettingCodes.ENABLE_PUSH
def initialWindowSize (s : Settings) : Option Int := getItem? s SettingCodes.INITIAL_WINDOW_SIZE
def maxFrameSize (s : Settings) : Option Int := getItem? s SettingCodes.MAX_FRAME_SIZE
def maxConcurrentStreams (s : Settings) : Int := getD s SettingCodes.MAX_CONCURRENT_STREAMS max_concurrent_streams_default

end Settings
end H2
