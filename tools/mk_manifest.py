#!/usr/bin/env python3
"""Writes /verif/MANIFEST.json from props.json (which properties have theorems) and the texts below."""
import json
import os

ROOT = os.path.dirname(os.path.dirname(os.path.abspath(__file__)))
props = json.load(open(os.path.join(ROOT, 'theorems.json')))
ids = [json.loads(l)['id'] for l in open(os.path.join(ROOT, 'properties.jsonl'))]

TEXT = {
    'C03': ('Lean 4 theorems: local_flow_control_window is the minimum of the two windows, one byte more is refused atomically '
            'with FlowControlError, a send that fits takes exactly its flow-controlled length (padding included) off both '
            'windows, the regenerated guard_increment_window applies a WINDOW_UPDATE exactly or refuses it past 2^31-1, and - '
            'along every history of public calls and received bytes (C03_conn_window_every_history) - the connection\'s '
            'outbound window stays within 0 .. 2^31-1: what was sent was covered by the initial 65535 octets plus the peer\'s '
            'WINDOW_UPDATE frames. The per-stream half of the every-history statement is decided by the oracle\'s own ledger '
            'on real traces and by the correspondence check.', 'DESIGN.md section 0 (0.1, 0.7) and section 7 C03'),
    'C27': ('Lean 4 theorems: in every state reachable by any public calls and any received bytes, connection errors included '
            '(C27_bounded_every_history), the memory of closed streams holds at most MAX_CLOSED_STREAMS entries and the backlog of '
            'a header block under assembly at most CONTINUATION_BACKLOG frames (the proof attempt found defect D49, repaired); '
            'PRIORITY / WINDOW_UPDATE / RST_STREAM / PING / ALTSVC / unknown frames leave the stream table and the closed-stream '
            'memory exactly as they were; an oversized header list is refused with ENHANCE_YOUR_CALM under the acknowledged '
            'limit; a closed connection takes no new streams, over any number of deliveries (C27_closed_table_never_grows). Sizes of the live stream table between cleanups are decided by the oracle on long generated frame '
            'sequences.', 'DESIGN.md section 0 (0.3 D49, 0.7) and section 7 C27'),
    'C12': ('Lean 4 theorems over all of Z x Z about _validate_setting and guard_increment_window (regenerated from the source '
            'and proved equal to the reference definitions on every run): the verdict is the RFC\'s for every identifier and '
            'value, accepted values are stored and rejected ones raise InvalidSettingsValueError with the mandated code and '
            'store nothing, for received frames and for update_settings; and in every reachable state every stored value, '
            'in force or pending, local or remote, is one _validate_setting accepts '
            '(C12_stored_settings_valid_every_history).', 'DESIGN.md section 0 and section 7 C12'),
    'C05': ('Lean 4 theorems about WindowManager (regenerated from windows.py on every run and proved equal to the reference '
            'definitions the theorems use): ledger invariant by induction '
            'over all histories (no over-credit, window <= max = acknowledged INITIAL_WINDOW_SIZE <= 2^31-1), no stall after an '
            'acknowledgement (partial: the stall after a negative settings delta is proved to exist and is a known finding); '
            'for the connection-level window additionally, with nothing assumed of the application, current <= max <= 2^31-1 '
            'in every reachable state of the whole connection (C05_conn_window_every_history); '
            'correspondence of the whole connection model with the real library on generated programs with the application '
            'acknowledging every byte.', 'DESIGN.md section 0 and section 7 C05'),
    'C29': ('Lean 4 theorems: in every state reachable from a fresh connection by public calls with well-typed arguments and by '
            'receive_data on arbitrary bytes (an invariant proved preserved by all of them), EVERY public call - the covered '
            'calls, send_headers (header tuples two byte strings or two text strings), push_stream, initiate_connection and '
            'initiate_upgrade_connection (HTTP2-Settings value base64) - returns or raises an h2 exception / ValueError having '
            'left the output buffer and the history of sent frames unchanged (C29_call, C29_every_call), and calls on a stream '
            'id that is not in the table raise exactly NoSuchStreamError above the high-water mark and StreamClosedError below '
            'it (C29_lookup_*). Outside the theorems: ill-typed header tuples and non-base64 header values (TypeError / '
            'binascii.Error of the Python runtime), decided by the oracle on real traces.',
            'DESIGN.md section 0 and section 7 C29'),
    'C13': ('Lean 4 theorems with HPACK as an abstract recorded context: H2Stream.send_headers and push_stream_in_band, for every '
            'stream state, header list and configuration, and H2Connection.send_headers / push_stream as a whole in every '
            'reachable state, either raise with the context untouched or make exactly one encode call (of the normalised list) '
            'whose output is exactly what the emitted HEADERS/PUSH_PROMISE/CONTINUATION frames carry, in fragments that fit the '
            'frame size; a peer HEADER_TABLE_SIZE change reaches the encoder once. The real HPACK coder is outside the model: '
            'decided by the correspondence check and by oracle_C13 (independent hpack.Decoder on the real output).',
            'DESIGN.md section 0 and section 7 C13'),
    'C01': ('Partial. Lean 4 theorems for the part that does not depend on the two endpoints\' joint state: every frame type as '
            'the library writes it is parsed back as the same frame object (C01_wire_*, with the header, PRIORITY and SETTINGS '
            'round trips of C02/C23/C25), a header block that passed outbound normalisation and validation satisfies the inbound '
            'rule book (Pair.emitted_block_is_accepted), chunking does not matter (C21), a raising call writes nothing in any '
            'reachable state (C29_every_call), and the two races the pair histories exposed are closed (C04_empty_frame_fits, '
            'C20_forgotten_headers). NOT proved: the joint invariant of sender and receiver with the frames in flight; that '
            'each delivery is accepted and the receiver\'s events reproduce the sender\'s calls is decided by oracle_C01 on '
            'pair histories (random programs and the conversation generator) together with the correspondence check; eleven '
            'known findings (known_findings.json) are printed, anything else is a violation.',
            'DESIGN.md section 0 and section 7 C01'),
}
DEFAULT_NOTE = ('Trusted: Lean kernel; axioms propext/Classical.choice/Quot.sound only (audited each run); the translators for the '
                'regenerated parts (tables directly; windows.py, _validate_setting, guard_increment_window through bridge theorems '
                'that prove the regenerated functions equal to the reference definitions, with a rebuild against the regenerated '
                'text when one fails); the differential harness for the hand-modelled parts of connection.py/stream.py/utilities.py/'
                'frame_buffer.py/settings.py; hyperframe/hpack/CPython behaviour mirrored in the model; HPACK is an abstract oracle.')

checks = []
na = []
for pid in ids:
    if pid in props and props[pid].get('theorems'):
        text, ref = TEXT.get(pid, ('Lean 4 theorems about the model of this property (see theorems.json for the theorem names) plus a '
                                   'correspondence check of the model against the real library under the property projection and an '
                                   'independent oracle on the real traces.', 'DESIGN.md section 0 and section 7 ' + pid))
        checks.append({
            'property_id': pid,
            'quick_cmd': './check %s --tier quick' % pid,
            'thorough_cmd': './check %s --tier thorough' % pid,
            'evidence_file': 'evidence/%s.json' % pid,
            'replay_cmd_template': './check --replay {path}',
            'engine': 'lean4-model+correspondence',
            'level_claimed': {'category': 'proof', 'text': text, 'design_ref': ref},
            'level_note': DEFAULT_NOTE,
            'technique': 'machine-checked proof in Lean 4 (model regenerated/corresponded to the code each run)',
        })
    else:
        na.append({'property_id': pid, 'reason': 'not claimed: the technique applies and the model covers the code, but the property theorems are not written yet, so no check is registered (DESIGN.md section 0.1); not a statement that the property cannot be decided'})

m = {
    'version': 1,
    'setup_cmd': './setup.sh',
    'hooks': {'guard': 'H2_VERIF',
              'enable': 'none needed: all observation is through the public API, pass-through HPACK taps and read-only peeks '
                        'installed by the harness at run time; the guard is never set and /repo carries no hook commits',
              'baseline_off_cmd': 'python3 tools/baseline.py', 'source_commits': [], 'add_only': True},
    'engines': [{'name': 'lean4-model+correspondence', 'path': 'lean/ + harness/ + check',
                 'serves_properties': [c['property_id'] for c in checks],
                 'kind_free_text': 'Lean 4 model of H2Connection (hand-written + generated tables/arithmetic), theorems per '
                                   'property, differential correspondence harness, per-property oracles'}],
    'checks': checks,
    'notes': 'see DESIGN.md; known defects of the unchanged tree are in known_findings.json',
    'not_applicable': na,
}
json.dump(m, open(os.path.join(ROOT, 'MANIFEST.json'), 'w'), indent=1)
print('checks: %d, not claimed: %d' % (len(checks), len(na)))
