"""oracle for C01: two h2 endpoints exchange every successful send faithfully.

A pair history is judged while it is a *connection between two endpoints of this library*: every byte an endpoint
receives was written by the other one, in order, and both have initiated the connection before sending.  The judging
stops (nothing is reported afterwards) when that premise ends:
  * `recv` (hand-made bytes injected),
  * the application took bytes out of an endpoint's output buffer itself (`data_to_send` / `clear_outbound_data_buffer`
    ops of the program: those bytes never reach the peer),
  * an endpoint wrote frames before its own `initiate_connection` / `initiate_upgrade_connection`,
  * a delivery failed (the connection is dead after that).

What is reported:
  peer-rejected-library-output   a delivery raised although the receiving endpoint had not closed the connection itself.
      detail.cause names what explains it, from the two endpoints' own histories:
        refused-call-changed-stream-state   D25: a call that raised moved the caller's stream to CLOSED; the peer, told
                                            nothing, goes on using the stream
        data-before-final-headers           D17b: a server sent DATA / END_STREAM before its response headers
        content-length-mismatch             a body that contradicts the content-length the same endpoint sent
        content-length-not-a-number         D50: the sender passed on a content-length that is no decimal number
        body-on-bodiless-message            D51: the sender put a body on a 204 / 304 response or on the response to HEAD
        informational-hidden-behind-stripped-field   D53: a 1xx block behind a connection-specific field that normalisation
                                            strips is not recognised as informational by the sender (END_STREAM allowed)
        header-list-exceeds-peer-limit      a header list larger than the receiver's advertised MAX_HEADER_LIST_SIZE
        setting-id-masked                   D39: hyperframe writes a setting identifier above 255 modulo 256
        ack-not-matched-to-its-frame        D8: the receiver had two SETTINGS frames of its own in flight; the ACK of
                                            the first applied the values of the second, which the sender cannot know yet
        table-size-updates-replayed         D45: the receiver changed HEADER_TABLE_SIZE twice between two header blocks of
                                            the sender; hpack's encoder signals both sizes, the first above the limit
                                            it has already acknowledged
        initial-window-raise-overflows-open-stream   the sender raised INITIAL_WINDOW_SIZE while a stream's window had
                                            grown by WINDOW_UPDATEs: the sum passes 2**31-1 at the peer (RFC 6.9.2)
        validation-disabled                 the sender runs with validate_outbound_headers=False or
                                            normalize_outbound_headers=False and sent a block the rule book refuses
                                            (exempt: configuration, not reported)
        undecodable-for-receiver            the receiver decodes header bytes (header_encoding) and the sender sent
                                            bytes that are not text in that encoding (exempt, not reported)
        unexplained                         none of the above
  header-event-… / data-event-… / push-event-… / ping-… / settings-… / reset-code-… / priority-event-…   what the receiver reports is
      not, stream by stream and in order, what the sender's successful calls sent (prefix relation: bytes may still be
      in flight, frames for a stream the receiver has reset are dropped).
"""
import rulebook
import wire
from oracles import fail, res, roles, KIND_OF_EVENT, _ill_typed_headers, _settings_frames

HEADER_RULE_MARKS = ('header', 'Header', 'pseudo', 'Pseudo', 'whitespace', 'uppercase', 'Connection-specific', 'TE ', 'te ',
                     ':authority', ':path', ':method', ':scheme', ':status', 'field', 'informational')


def _complete_frames(buf):
    """the complete frames at the front of buf (a trailing partial frame is left out)"""
    out = []
    i = 0
    while len(buf) - i >= 9:
        n = int.from_bytes(buf[i:i + 3], 'big')
        if len(buf) - i - 9 < n:
            break
        sid = int.from_bytes(buf[i + 5:i + 9], 'big') & 0x7FFFFFFF
        out.append({'type': buf[i + 3], 'flags': buf[i + 4], 'sid': sid, 'payload': buf[i + 9:i + 9 + n]})
        i += 9 + n
    return out


def _limit(dq, default=65536):
    """current value of a settings deque as the snapshot shows it (None: never set -> default / unlimited)"""
    if not dq or dq[0] is None:
        return default if default is not None else float('inf')
    return dq[0]


def _hdr_list_size(hs):
    return sum(len(n) + len(v) + 32 for n, v in hs)


def oracle_C01(run):
    out = []
    client = roles(run)
    E = {}
    final_sent = set()

    def new_endpoint(op):
        return {'cfg': op, 'connected': False, 'wire': b'', 'done': 0,
                'S': {'hdr': {}, 'data': {}, 'ended': set(), 'reset': {}, 'ping': [], 'settings': [], 'push': {},
                      'cl': {}, 'sent_bytes': {}, 'biggest': {}, 'over_limit': set(), 'prio': {}},
                'acks': 0, 'diverged': False,
                'R': {'hdr': {}, 'data': {}, 'ping': [], 'settings': [], 'prio': {}},
                'taint': {}}

    def taint(c, sid, cause):
        E[c]['taint'].setdefault(sid, set()).add(cause)

    for i, (op, ol, ml, obs) in enumerate(run.log):
        o = op['op']
        if o == 'new':
            if op.get('ls'):
                # built by replacing the `local_settings` attribute: the connection's derived state (decoder table
                # size, stream windows, frame size) does not follow, and the values are enforced before the peer can
                # know them.  Not a plain endpoint of the library; judged by C25 / C11, not here.
                return out
            E[op['c']] = new_endpoint(op)
            continue
        if obs is None:
            continue
        if o == 'recv':
            return out                                   # injected bytes: no longer a pair of library endpoints
        r = res(obs)
        if o != 'xfer':
            c = op.get('c', 0)
            if c not in E:
                continue
            ep = E[c]
            S = ep['S']
            if o in ('data_to_send', 'clear_out'):
                if obs.get('outbuf_before') and obs.get('outbuf') != obs.get('outbuf_before'):
                    return out                           # the application took bytes the peer will never see
                continue
            if o in ('initiate_connection', 'initiate_upgrade'):
                if r[0] == 'ok':
                    ep['connected'] = True
            elif obs.get('appended') and not ep['connected']:
                return out                               # frames written before the connection was initiated
            sid = op.get('sid')
            if r[0] != 'ok':
                # D25: a call that raised changed the caller's own stream
                for s in set(x for x in (sid, op.get('promised')) if isinstance(x, int)):
                    b = obs['snap_before']['streams'].get(s)
                    a = obs['snap_after']['streams'].get(s)
                    if (b is None) != (a is None) or (b is not None and (b[0], b[1]) != (a[0], a[1])):
                        taint(c, s, 'refused-call-changed-stream-state')
                        ep['diverged'] = True             # the two endpoints now count open streams differently
                continue
            if o in ('initiate_connection', 'initiate_upgrade'):
                for ack, items in (_settings_frames(obs.get('appended')) or []):
                    if not ack:
                        S['settings'].append(items)
            elif o == 'update_settings':
                S['settings'].append(dict(op['settings']))
                if any(k > 255 for k, _ in op['settings']):
                    taint(c, 0, 'setting-id-masked')
            elif o == 'ping':
                S['ping'].append(bytes(op['data']))
            elif o in ('send_data', 'end_stream'):
                if o == 'send_data':
                    pad = op.get('pad')
                    data = bytes(op['data'])
                    fcl = len(data) + (pad + 1 if pad is not None else 0)
                    es = bool(op.get('es'))
                else:
                    data, fcl, es = b'', 0, True
                S['data'].setdefault(sid, []).append((data, fcl))
                S['sent_bytes'][sid] = S['sent_bytes'].get(sid, 0) + len(data)
                if es:
                    S['ended'].add(sid)
                if not client[c] and not any(k == 'response' for k, _ in S['hdr'].get(sid, [])):
                    taint(c, sid, 'data-before-final-headers')
            elif o == 'reset_stream':
                S['reset'].setdefault(sid, set()).add(op.get('code', 0))
            elif o == 'prioritize':
                S['prio'].setdefault(sid, []).append((op.get('pw') if op.get('pw') is not None else 16,
                                                      op.get('pd') or 0, bool(op.get('pe'))))
            elif o in ('send_headers', 'push_stream'):
                if _ill_typed_headers(op):
                    return out
                cfg = ep['cfg']
                args = [(h[0], h[1]) for h in op['headers']]
                hs = [(n, v) for n, v, _ in rulebook.normalise_out(args)] if cfg.get('no', 1) else \
                    [(rulebook.to_bytes(n), rulebook.to_bytes(v)) for n, v in args]
                if o == 'push_stream':
                    S['push'][op['promised']] = (sid, hs)
                    S['biggest'][sid] = max(S['biggest'].get(sid, 0), _hdr_list_size(hs))
                    if _hdr_list_size(hs) > _limit(obs['snap_before']['remote'].get(6), None):
                        S['over_limit'].add(sid)
                    if not (cfg.get('vo', 1) and cfg.get('no', 1)) and rulebook.block_problem(hs, 'push'):
                        taint(c, sid, 'validation-disabled')
                    continue
                if client[c]:
                    kind = 'trailers' if (c, sid) in final_sent else 'request'
                else:
                    lead = None
                    for n, v in hs:
                        if not n.startswith(b':'):
                            break
                        if n == b':status':
                            lead = v
                            break
                    if (c, sid) in final_sent:
                        kind = 'trailers'
                    elif lead is not None and lead[:1] == b'1':
                        kind = 'informational'
                    else:
                        kind = 'response'
                if kind == 'informational' and args and not rulebook.to_bytes(args[0][0]).lstrip().startswith(b':'):
                    # D53: the library decides "informational?" on the list as given (a regular field first: no), then
                    # normalisation strips that connection-specific field and a 1xx block goes out — possibly with END_STREAM
                    taint(c, sid, 'informational-hidden-behind-stripped-field')
                S['hdr'].setdefault(sid, []).append((kind, hs))
                if any(op.get(k2) is not None for k2 in ('pw', 'pd', 'pe')):
                    S['prio'].setdefault(sid, []).append((op.get('pw') if op.get('pw') is not None else 16,
                                                          op.get('pd') or 0, bool(op.get('pe'))))
                S['biggest'][sid] = max(S['biggest'].get(sid, 0), _hdr_list_size(hs))
                if _hdr_list_size(hs) > _limit(obs['snap_before']['remote'].get(6), None):
                    S['over_limit'].add(sid)                 # larger than the limit the peer had advertised by then
                if kind == 'response' and lead in (b'204', b'304'):
                    S.setdefault('nobody', set()).add(sid)          # a response that has no body whatever follows
                if kind == 'request' and any(n == b':method' and v == b'HEAD' for n, v in hs):
                    S.setdefault('head', set()).add(sid)            # the answer to it has no body
                if kind in ('request', 'response'):
                    final_sent.add((c, sid))
                    cl = [v for n, v in hs if n == b'content-length']
                    if cl:
                        S['cl'][sid] = cl
                        try:
                            int(cl[0], 10)
                        except ValueError:
                            taint(c, sid, 'content-length-not-a-number')
                if op.get('es'):
                    S['ended'].add(sid)
                if not (cfg.get('vo', 1) and cfg.get('no', 1)) and rulebook.block_problem(hs, kind):
                    taint(c, sid, 'validation-disabled')
            continue

        # ---- a delivery -------------------------------------------------------------------------------------------
        snd, rcv = op['c'], op['to']
        if snd not in E or rcv not in E:
            continue
        X, Y = E[snd], E[rcv]
        data = obs.get('xfer_data') or b''
        if data and not X['connected']:
            return out
        X['wire'] += data
        body = X['wire'][len(wire.PREFACE):] if X['wire'].startswith(wire.PREFACE) else X['wire']
        frames = _complete_frames(body)
        new = frames[X['done']:]
        X['done'] = len(frames)
        if r[0] != 'ok':
            if obs['snap_before']['state'] == 'CLOSED':
                return out                               # the receiver had closed the connection itself
            exc = obs.get('exc')
            msg = str(exc)
            cls = type(exc).__name__
            sids = set()
            for f in new:
                sids.add(f['sid'])
                if f['type'] == wire.PUSH_PROMISE and len(f['payload']) >= 4:
                    p = f['payload'][1:] if f['flags'] & 8 else f['payload']
                    sids.add(int.from_bytes(p[:4], 'big') & 0x7FFFFFFF)
            causes = set()
            for s in sids:
                causes |= X['taint'].get(s, set()) | Y['taint'].get(s, set())
            cause = 'unexplained'
            in_flight = len(Y['S']['settings']) - Y['acks']
            has_ack = any(f['type'] == wire.SETTINGS and f['flags'] & 1 for f in new)
            new_iws = any(f['type'] == wire.SETTINGS and not f['flags'] & 1 and
                          any(f['payload'][j:j + 2] == b'\x00\x04' for j in range(0, len(f['payload']), 6)) for f in new)
            setting_dependent = any(m in msg for m in ('Received pushed stream', 'Oversized header block', 'Max outbound streams',
                                                       'Flow control', 'flow control', 'frame size', 'Max inbound', 'shrink table size'))
            if cls == 'InvalidBodyLengthError' and any(s in X['S']['cl'] for s in sids):
                cause = 'content-length-mismatch'
            elif cls == 'InvalidBodyLengthError' and any(s in X['S'].get('nobody', ()) or s in Y['S'].get('head', ()) for s in sids):
                cause = 'body-on-bodiless-message'
            elif 'informational-hidden-behind-stripped-field' in causes and 'informational' in msg:
                cause = 'informational-hidden-behind-stripped-field'
            elif 'content-length-not-a-number' in causes and 'Invalid content-length header' in msg:
                cause = 'content-length-not-a-number'
            elif cls == 'DenialOfServiceError' and 'header' in msg.lower() and any(s in X['S']['over_limit'] for s in sids):
                cause = 'header-list-exceeds-peer-limit'
            elif cls == 'FlowControlError' and ('May not increment' in msg or "mustn't exceed" in msg) and (new_iws or has_ack):
                cause = 'initial-window-raise-overflows-open-stream'
            elif 'exceeded max allowable table size' in msg and \
                    sum(1 for st in Y['S']['settings'] if 1 in dict(st)) >= 2:
                cause = 'table-size-updates-replayed'
            elif 'cannot be decoded' in msg and Y['cfg'].get('enc'):
                cause = 'undecodable-for-receiver'
            elif 'validation-disabled' in causes and any(m in msg for m in HEADER_RULE_MARKS):
                cause = 'validation-disabled'
            elif 'setting-id-masked' in (X['taint'].get(0, set())) and cls == 'InvalidSettingsValueError':
                cause = 'setting-id-masked'
            elif ((in_flight >= 2 and has_ack) or Y.get('applied_early')) and setting_dependent:
                cause = 'ack-not-matched-to-its-frame'
            elif 'data-before-final-headers' in causes:
                cause = 'data-before-final-headers'
            elif 'refused-call-changed-stream-state' in causes:
                cause = 'refused-call-changed-stream-state'
            elif cls == 'TooManyStreamsError' and (X['diverged'] or Y['diverged']):
                cause = 'refused-call-changed-stream-state'
            if cause not in ('validation-disabled', 'undecodable-for-receiver'):
                out.append(fail('peer-rejected-library-output', i, res=obs['res'], cause=cause, msg=msg[:120],
                                frames=[(wire.NAMES[f['type']] if f['type'] < len(wire.NAMES) else f['type'], f['sid'])
                                        for f in new][:8]))
            return out
        cfg = Y['cfg']
        ni, enc = bool(cfg.get('ni', 1)), cfg.get('enc')
        S, R = X['S'], Y['R']

        def deliver(hs):
            hs = rulebook.join_cookies(hs) if ni else list(hs)
            if enc:
                try:
                    return [(n.decode(enc), v.decode(enc)) for n, v in hs]
                except UnicodeDecodeError:
                    return None
            return hs

        def diverged(sid):
            return bool(X['taint'].get(sid) or Y['taint'].get(sid))
        for e in obs['raw_events']:
            nm = type(e).__name__
            k = KIND_OF_EVENT.get(nm)
            sid = getattr(e, 'stream_id', None)
            if sid is not None and diverged(sid):
                continue
            if k and k != 'push':
                lst = R['hdr'].setdefault(sid, [])
                exp = S['hdr'].get(sid, [])
                got = [(h[0], h[1]) for h in e.headers]
                if len(lst) >= len(exp):
                    out.append(fail('header-event-without-a-send', i, sid=sid, kind=k))
                    return out
                ek, ehs = exp[len(lst)]
                if ek != k or deliver(ehs) != got:
                    out.append(fail('header-event-differs-from-send', i, sid=sid, kind=k, sent_kind=ek,
                                    got=repr(got)[:200], sent=repr(deliver(ehs))[:200]))
                    return out
                lst.append(k)
            elif k == 'push':
                if diverged(e.parent_stream_id) or diverged(e.pushed_stream_id):
                    continue
                exp = S['push'].get(e.pushed_stream_id)
                got = [(h[0], h[1]) for h in e.headers]
                if exp is None or exp[0] != e.parent_stream_id or deliver(exp[1]) != got:
                    out.append(fail('push-event-differs-from-send', i, pushed=e.pushed_stream_id))
                    return out
            elif nm == 'DataReceived':
                lst = R['data'].setdefault(sid, [])
                exp = S['data'].get(sid, [])
                if len(lst) >= len(exp) or exp[len(lst)] != (bytes(e.data), e.flow_controlled_length):
                    out.append(fail('data-event-differs-from-send', i, sid=sid, got_len=len(e.data)))
                    return out
                lst.append(1)
            elif nm == 'StreamEnded':
                if sid not in S['ended']:
                    out.append(fail('stream-ended-without-a-send', i, sid=sid))
                    return out
            elif nm == 'SettingsAcknowledged':
                if len(Y['S']['settings']) - Y['acks'] >= 2:
                    # D8: this ACK answers the oldest of several frames in flight and the library applies them all: from
                    # here on the receiver enforces values the peer has not seen yet
                    Y['applied_early'] = True
                Y['acks'] += 1
                if Y['acks'] >= len(Y['S']['settings']):
                    Y['applied_early'] = False       # everything acknowledged: the peer knows all of it now
            elif nm == 'PriorityUpdated':
                # priority information comes through as sent: (weight, depends_on, exclusive), in order per stream
                # (a HEADERS frame for a stream the receiver has reset is dropped with its priority fields: subsequence)
                got = (e.weight, e.depends_on, bool(e.exclusive))
                sent_p = S['prio'].get(e.stream_id, [])
                pos = R['prio'].get(e.stream_id, 0)
                while pos < len(sent_p) and sent_p[pos] != got:
                    pos += 1
                if pos >= len(sent_p):
                    out.append(fail('priority-event-differs-from-send', i, sid=e.stream_id, got=got, sent=sent_p[-4:]))
                    return out
                R['prio'][e.stream_id] = pos + 1
            elif nm == 'PingReceived':
                R['ping'].append(bytes(e.ping_data))
                if R['ping'] != S['ping'][:len(R['ping'])]:
                    out.append(fail('ping-differs-from-send', i))
                    return out
            elif nm == 'RemoteSettingsChanged':
                new_s = dict((int(k2), ch.new_value) for k2, ch in e.changed_settings.items())
                R['settings'].append(new_s)
                n = len(R['settings'])
                want = S['settings'][n - 1] if n <= len(S['settings']) else None
                if want is None or dict((k2 & 0xFF if k2 > 255 else k2, v) for k2, v in want.items()) != new_s and want != new_s:
                    out.append(fail('settings-differ-from-send', i, got=sorted(new_s.items()), sent=sorted((want or {}).items())))
                    return out
            elif nm == 'StreamReset' and getattr(e, 'remote_reset', True):
                codes = S['reset'].get(sid)
                # resets written by the peer's receive path are not calls: the code of a call must come through unchanged
                if codes and int(e.error_code) not in codes and int(e.error_code) not in (1, 5, 7, 8, 3):
                    out.append(fail('reset-code-differs-from-send', i, sid=sid, got=int(e.error_code), sent=sorted(codes)))
                    return out
    return out
