/-
  C01 — two h2 endpoints exchange every successful send faithfully.

  The property is about two copies of the model talking through two byte pipes.  What is PROVED here is the part of it
  that does not depend on the two endpoints' joint state:

  * the wire (`C01_wire_*`): every frame type, as `_prepare_for_sending` writes it, is read back by the other
    endpoint's `parse_body` as the very same frame object (with C02_header_roundtrip for the nine header bytes,
    C23_roundtrip for PRIORITY and C25_settings_roundtrip for SETTINGS): what reaches the peer's frame handlers is what
    the sender's call built;
  * the two stream state machines fit together, for every schedule (`H2.PairFsm.full_never_refused`): two copies of the
    stream state machine regenerated from stream.py, connected by two FIFO queues of unbounded length; each side sends,
    at any time, any frame its own machine accepts (except D17b's DATA / END_STREAM before response headers,
    `fsm_sync_D17b_witness`), deliveries happen at any time; then in every reachable configuration every delivery is
    accepted by the receiving machine, or dealt with quietly by a stream that side has closed meanwhile — never a
    connection error, never a stream error on a live stream.  (Method: the frames that change a stream's state give a
    finite reachable set, which the kernel searches and checks closed, `reduced_never_refused`; the other five kinds
    change nothing, `neutral_kinds`, and are accepted where they arrive, by an invariant over the queues.)  The
    one-frame statements `fsm_sync`, `fsm_open`, `fsm_cross`, `closed_quiet`, `reset_swallows` say more about the
    states (mirror images);
  * flow control fits together, for every schedule (`H2.PairCredit.data_never_overruns`): one window between two
    endpoints — the sender's view, the receiver's generated `WindowManager`, DATA and SETTINGS acknowledgements in flight
    one way, WINDOW_UPDATEs and INITIAL_WINDOW_SIZE changes the other way, queues of any length — a DATA frame the
    sender was allowed to send is never refused by `window_consumed`, windows driven negative by a reduction included
    (the empty frame in a negative window is where the proof needs D43's repair).  This composes the arithmetic of
    C03 / C04 / C11; it is not yet a statement about two `H2Connection`s;
  * header blocks (`H2.Pair.emitted_block_is_accepted`): a block that passed the sender's normalisation and
    validation satisfies the receiver's rule book for the same block type;
  * chunking (`C21_chunks`, `C21_chunks_out`): how the bytes of one direction are cut into `receive_data` calls changes
    neither events nor output nor state;
  * calls that raise contribute nothing (`C29_every_call`): in every reachable state a raising call has written no byte;
  * two races the pair histories exposed and the repairs closed: the empty END_STREAM frame in a negative window
    (`C04_empty_frame_fits`, D43) and HEADERS for a reset stream already cleaned out of the table with the
    concurrency limit reached (`C20_forgotten_headers`, `C10_closed_stream_not_counted`, D48).

  What is NOT proved (hence level `partial`): the same for the whole connection — the joint invariant of the two
  endpoints' windows, settings, stream tables and header validation with the frames in flight — from which "the receiver's handler
  accepts the frame and reports exactly the sender's call" would follow for every schedule.  That part is decided by
  the correspondence check and `oracle_C01` on pair histories: random programs (any call in any state) and the
  conversation generator (`harness/conversation.py`: only calls the application may make, every delivery and every
  event judged), with the known findings D25, D17b, D46, D47, D8, D39, D45, D22, D44 listed in known_findings.json.
-/
import H2.Proofs.PairCredit
-- the credit equation of one window between two endpoints, everything in flight (arithmetic of windows.py + C03/C04/C11)
-- @also H2.PairCredit.data_never_overruns
import H2.Proofs.WireRoundTrip
import H2.Proofs.PairHeaders
import H2.Proofs.PairFsm
import H2.Proofs.PairReachMain
import H2.Props.C02
import H2.Props.C04
import H2.Props.C10
import H2.Props.C20
import H2.Props.C21
import H2.Props.C23
import H2.Props.C25
import H2.Props.C29
-- @also H2.Pair.emitted_block_is_accepted
-- @also H2.PairFsm.fsm_sync
-- @also H2.PairFsm.fsm_open
-- @also H2.PairFsm.fsm_cross
-- @also H2.PairFsm.closed_quiet
-- @also H2.PairFsm.reset_swallows
-- @also H2.PairFsm.fsm_sync_D17b_witness
-- @also H2.PairFsm.reduced_never_refused
-- @also H2.PairFsm.neutral_kinds
-- @also H2.PairFsm.full_never_refused
-- @also H2.PairFsm.full_delivery_fine
-- @also H2.C02.C02_header_roundtrip
-- @also H2.C23.C23_roundtrip
-- @also H2.C25.C25_settings_roundtrip
-- @also H2.C21.C21_chunks
-- @also H2.C21.C21_chunks_out
-- @also H2.C29.C29_every_call
-- @also H2.C04.C04_empty_frame_fits
-- @also H2.C20.C20_forgotten_headers
-- @also H2.C10.C10_closed_stream_not_counted

namespace H2.C01
open H2 H2.Gen H2.Conn

/-- **DATA** (as `send_data` / `end_stream` write it, with or without padding) is read back as itself, and the
    flow-controlled length the receiver charges is the one the sender charged -/
theorem C01_wire_data (sid : Nat) (payload : Bytes) (es : Bool) :
    (Frame.data sid payload es none).body? = some payload ∧
    parseBody { length := payload.length, type := 0, flags := (Frame.data sid payload es none).flagByte, sid := sid } payload
      = .ok { frame := .data sid payload es none, fcl := payload.length } :=
  data_roundtrip sid payload es

theorem C01_wire_data_padded (sid : Nat) (payload : Bytes) (es : Bool) (pad : Nat) (hp : pad < 256) :
    (Frame.data sid payload es (some pad)).body? = some ([UInt8.ofNat pad] ++ payload ++ zeros pad) ∧
    parseBody { length := 1 + payload.length + pad, type := 0, flags := (Frame.data sid payload es (some (pad : Int))).flagByte, sid := sid }
        ([UInt8.ofNat pad] ++ payload ++ zeros pad)
      = .ok { frame := .data sid payload es (some pad), fcl := payload.length + (pad + 1) } :=
  data_padded_roundtrip sid payload es pad hp

/-- **HEADERS** (first frame of a block, without / with the priority fields) -/
theorem C01_wire_headers (sid : Nat) (block : Bytes) (es eh : Bool) :
    (Frame.headers sid block es eh none none).body? = some block ∧
    parseBody { length := block.length, type := 1, flags := (Frame.headers sid block es eh none none).flagByte, sid := sid } block
      = .ok { frame := .headers sid block es eh none none } :=
  headers_roundtrip sid block es eh

theorem C01_wire_headers_priority (sid : Nat) (block : Bytes) (es eh : Bool) (w dep : Nat) (excl : Bool)
    (hw : w < 256) (hd : dep < 2147483648) :
    let p : Prio := { weight := w, dependsOn := dep, exclusive := excl }
    let pb := be32 (dep + (if excl then 2147483648 else 0)) ++ [UInt8.ofNat w]
    (Frame.headers sid block es eh none (some p)).body? = some (pb ++ block) ∧
    parseBody { length := 5 + block.length, type := 1, flags := (Frame.headers sid block es eh none (some p)).flagByte, sid := sid }
        (pb ++ block)
      = .ok { frame := .headers sid block es eh none (some p) } :=
  headers_prio_roundtrip sid block es eh w dep excl hw hd

/-- **CONTINUATION** -/
theorem C01_wire_continuation (sid : Nat) (block : Bytes) (eh : Bool) :
    (Frame.continuation sid block eh).body? = some block ∧
    parseBody { length := block.length, type := 9, flags := (Frame.continuation sid block eh).flagByte, sid := sid } block
      = .ok { frame := .continuation sid block eh } :=
  continuation_roundtrip sid block eh

/-- **PUSH_PROMISE** (promised id even, non-zero, 31 bits: what `_begin_new_stream` lets through) -/
theorem C01_wire_push_promise (sid promised : Nat) (block : Bytes) (eh : Bool)
    (hp0 : promised ≠ 0) (hpe : promised % 2 = 0) (hp : promised < 2147483648) :
    (Frame.pushPromise sid promised block eh none).body? = some (be32 promised ++ block) ∧
    parseBody { length := 4 + block.length, type := 5, flags := (Frame.pushPromise sid promised block eh none).flagByte, sid := sid }
        (be32 promised ++ block)
      = .ok { frame := .pushPromise sid promised block eh none } :=
  pushPromise_roundtrip sid promised block eh hp0 hpe hp

/-- **RST_STREAM**: the error code of `reset_stream` comes through unchanged -/
theorem C01_wire_rst_stream (sid code : Nat) (hc : code < 4294967296) :
    (Frame.rstStream sid code).body? = some (be32 code) ∧
    parseBody { length := 4, type := 3, flags := 0, sid := sid } (be32 code) = .ok { frame := .rstStream sid code } :=
  rst_roundtrip sid code hc

/-- **PING** and its acknowledgement -/
theorem C01_wire_ping (ack : Bool) (payload : Bytes) (h : payload.length = 8) :
    (Frame.ping ack payload).body? = some payload ∧
    parseBody { length := 8, type := 6, flags := (Frame.ping ack payload).flagByte, sid := 0 } payload
      = .ok { frame := .ping ack payload } :=
  ping_roundtrip ack payload h

/-- **WINDOW_UPDATE** -/
theorem C01_wire_window_update (sid incr : Nat) (h1 : 1 ≤ incr) (h2 : incr ≤ 2147483647) :
    (Frame.windowUpdate sid incr).body? = some (be32 incr) ∧
    parseBody { length := 4, type := 8, flags := 0, sid := sid } (be32 incr) = .ok { frame := .windowUpdate sid incr } :=
  windowUpdate_roundtrip sid incr h1 h2

/-- **GOAWAY** -/
theorem C01_wire_goaway (last code : Nat) (extra : Bytes) (hl : last < 2147483648) (hc : code < 4294967296) :
    (Frame.goaway last code extra).body? = some (be32 last ++ be32 code ++ extra) ∧
    parseBody { length := 8 + extra.length, type := 7, flags := 0, sid := 0 } (be32 last ++ be32 code ++ extra)
      = .ok { frame := .goaway last code extra } :=
  goaway_roundtrip last code extra hl hc

/-- **ALTSVC** -/
theorem C01_wire_altsvc (sid : Nat) (origin field : Bytes) (ho : origin.length < 65536) :
    (Frame.altsvc sid origin field).body? = some (be16 origin.length ++ origin ++ field) ∧
    parseBody { length := 2 + origin.length + field.length, type := 10, flags := 0, sid := sid }
        (be16 origin.length ++ origin ++ field)
      = .ok { frame := .altsvc sid origin field } :=
  altsvc_roundtrip sid origin field ho

/-- non-vacuity: a concrete padded DATA frame ("hi!", END_STREAM, two bytes of padding) goes through the round trip -/
example : parseBody { length := 1 + 3 + 2, type := 0, flags := (Frame.data 1 [104, 105, 33] true (some (2 : Nat))).flagByte, sid := 1 }
    ([UInt8.ofNat 2] ++ [104, 105, 33] ++ zeros (2 : Nat))
    = .ok { frame := .data (1 : Nat) [104, 105, 33] true (some (2 : Nat)), fcl := 3 + (2 + 1) } :=
  (C01_wire_data_padded 1 [104, 105, 33] true 2 (by decide)).2

end H2.C01
