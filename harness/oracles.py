"""Per-property executable oracles, evaluated on traces of the REAL library.

Each oracle is written from the property text and the RFCs, independently of
the Lean model.  An oracle gets a `Runner` (its `.log` is a list of
(op, real_obs_line, model_line, obs)) and returns a list of failures
{'clause', 'idx', 'detail'}; only the first failure of a program is used
(later ones are usually consequences).  Oracles are conservative: where the
property leaves the reaction open, or the situation cannot be judged from the
observables, they stay silent.
"""
import struct

import wire

MAX31 = 2**31 - 1
API_CALLS = ('initiate_connection', 'initiate_upgrade', 'send_headers', 'send_data', 'end_stream', 'incr_window',
             'push_stream', 'ping', 'reset_stream', 'close_connection', 'update_settings', 'altsvc', 'prioritize',
             'ack_data')
FRAME_CALLS = ('send_headers', 'send_data', 'end_stream', 'incr_window', 'push_stream', 'ping', 'reset_stream',
               'update_settings', 'altsvc', 'prioritize')
PROTO_SUBCLASSES = None


def fail(clause, idx, **detail):
    return {'clause': clause, 'idx': idx, 'detail': detail}


def conn_of(op):
    return op['to'] if op['op'] == 'xfer' else op.get('c', 0)


def is_recv(op):
    return op['op'] in ('recv', 'xfer')


def res(obs):
    """-> ('ok', value) | ('exc', cls, code, sid) | ('py', name)"""
    t = obs['res'].split(' ')
    if t[0] == 'ok':
        return ('ok', t[1])
    if t[0] == 'exc':
        return ('exc', t[1], None if t[2] == '-' else int(t[2]), None if t[3] == '-' else int(t[3]))
    return ('py', t[1])


def frames_of(data, lenient=True):
    """decode appended/received bytes into frames; None when undecodable"""
    if data is None:
        return None
    try:
        return wire.decode_all(data)
    except wire.WireError:
        return None


def raw_frames(data):
    if data is not None and data.startswith(wire.PREFACE):
        data = data[24:]
    try:
        return wire.split_frames(data)
    except wire.WireError:
        return None


def appended(obs):
    a = obs.get('appended')
    return a


def ev_kinds(obs):
    return [type(e).__name__ for e in obs['raw_events']]


def roles(run):
    return dict((c, rc.client) for c, rc in run.world.conns.items())


def is_protocol_error(obs):
    from h2.exceptions import ProtocolError
    return isinstance(obs.get('exc'), ProtocolError)


# ---------------------------------------------------------------------------
# C29  API misuse
# ---------------------------------------------------------------------------
DOCUMENTED_PY = {
    'ping': ('ValueError',), 'send_data': ('ValueError', 'TypeError'), 'incr_window': ('ValueError',),
    'ack_data': ('ValueError',), 'altsvc': ('ValueError',), 'reset_stream': ('ValueError',),
    'close_connection': ('ValueError',),
}


def _ill_typed_headers(op):
    return any(isinstance(h[0], bytes) != isinstance(h[1], bytes) or not isinstance(h[0], (str, bytes)) or not isinstance(h[1], (str, bytes))
               for h in op.get('headers') or [])


def oracle_C29(run):
    out = []
    client = roles(run)
    for i, (op, ol, ml, obs) in enumerate(run.log):
        o = op['op']
        if obs is None or o in ('new', 'xfer', 'recv'):
            continue
        r = res(obs)
        if r[0] == 'py' and o in ('send_headers', 'push_stream') and _ill_typed_headers(op):
            # a header whose name is text and whose value is bytes (or the reverse), or whose value is no string at
            # all (an int content-length), is not a well-typed argument; the TypeError / AttributeError it ends in is
            # outside the property, but it still must not write anything
            if obs['out'] != '+.':
                out.append(fail('raising-call-added-bytes', i, op=o, exc=r[1]))
            continue
        if r[0] == 'py' and r[1] not in DOCUMENTED_PY.get(o, ()):
            out.append(fail('non-h2-exception', i, op=o, exc=r[1], appended_len=len(obs.get('appended') or b'')))
            continue
        if r[0] != 'ok' and o not in ('data_to_send', 'clear_out'):
            if obs['out'] != '+.':
                out.append(fail('raising-call-added-bytes', i, op=o, exc=r[1]))
                continue
        # lookup clause
        sid = op.get('sid')
        if o in ('send_data', 'end_stream', 'reset_stream', 'incr_window', 'altsvc', 'ack_data', 'push_stream') \
                or (o == 'q' and op['what'] in ('local_window', 'remote_window')) \
                or (o == 'send_headers' and not client[op['c']]):
            if sid is None or not isinstance(sid, int) or sid <= 0:
                continue
            snap = obs['snap_before']
            if sid in snap['streams']:
                continue
            outbound = (sid % 2 == 1) == client[op['c']]
            hi = snap['hi_out'] if outbound else snap['hi_in']
            never_used = sid > hi
            if r[0] == 'exc' and r[1] in ('NoSuchStreamError', 'StreamClosedError'):
                want = 'NoSuchStreamError' if never_used else 'StreamClosedError'
                if r[1] != want and not (o == 'ack_data'):
                    out.append(fail('wrong-lookup-exception', i, op=o, sid=sid, got=r[1], want=want))
            elif r[0] == 'ok' and not (o == 'ack_data' and not never_used):
                out.append(fail('call-on-missing-stream-succeeded', i, op=o, sid=sid))
    return out


# ---------------------------------------------------------------------------
# C15  inbound header validation accepts exactly the conformant header blocks
# ---------------------------------------------------------------------------
KIND_OF_EVENT = {'RequestReceived': 'request', 'ResponseReceived': 'response', 'InformationalResponseReceived': 'informational',
                 'TrailersReceived': 'trailers', 'PushedStreamReceived': 'push'}


def oracle_C15(run):
    """soundness on every history: a delivered header event carries a block that the HPACK decoder produced in this call
    (after cookie joining / text decoding as configured), and with validate_inbound_headers on that block satisfies the
    rule book (harness/rulebook.py) for the event's block type.  Completeness on annotated deliveries (op['expect'] =
    {'kind', 'headers'}, written by the directed generator which knows the stream is in the right state): a conformant
    block is delivered, a non-conformant one is refused with ProtocolError / PROTOCOL_ERROR."""
    import rulebook
    out = []
    cfgs = {}
    for i, (op, ol, ml, obs) in enumerate(run.log):
        if op['op'] == 'new':
            cfgs[op['c']] = op
            continue
        if obs is None or not is_recv(op):
            continue
        cfg = cfgs.get(conn_of(op)) or {}
        vi, ni, enc = bool(cfg.get('vi', 1)), bool(cfg.get('ni', 1)), cfg.get('enc')
        blocks = []
        for r in obs.get('dec_recs') or []:
            kind, v = r['res']
            if kind == 'ok':
                blocks.append([(bytes(h[0]), bytes(h[1])) for h in v])

        def deliver(b):
            hs = rulebook.join_cookies(b) if ni else list(b)
            if enc:
                try:
                    hs = [(n.decode(enc), v.decode(enc)) for n, v in hs]
                except UnicodeDecodeError:
                    return None
            return hs

        delivered = []
        for e in obs['raw_events']:
            k = KIND_OF_EVENT.get(type(e).__name__)
            if not k:
                continue
            got = [(h[0], h[1]) for h in e.headers]
            delivered.append((k, got))
            cands = [b for b in blocks if deliver(b) == got]
            if not cands:
                out.append(fail('delivered-headers-are-not-a-received-block', i, kind=k, got=repr(got)[:300]))
                continue
            if vi:
                probs = [rulebook.block_problem(b, k) for b in cands]
                if all(probs):
                    out.append(fail('nonconformant-block-delivered', i, kind=k, rule=probs[0], block=repr(cands[0])[:300]))
                    continue
            if ni and any(n == b'cookie' for n, v in cands[0]):
                from hpack.struct import NeverIndexedHeaderTuple
                last = e.headers[-1]
                if not isinstance(last, NeverIndexedHeaderTuple):
                    out.append(fail('joined-cookie-not-never-indexed', i, kind=k))
        a = op.get('expect')
        if a and vi:
            hs = [(bytes(n), bytes(v)) for n, v in a['headers']]
            prob = rulebook.block_problem(hs, a['kind'])
            want = deliver(hs)
            r = res(obs)
            was = any(k == a['kind'] and got == want for k, got in delivered)
            if prob is None and want is not None and not was:
                out.append(fail('conformant-block-refused', i, kind=a['kind'], res=obs['res'], block=repr(hs)[:300]))
            elif prob is not None:
                if was or r[0] == 'ok':
                    if not any(f['idx'] == i for f in out):
                        out.append(fail('nonconformant-block-not-refused', i, kind=a['kind'], rule=prob, block=repr(hs)[:300]))
                elif not (r[0] == 'exc' and r[2] == 1 and is_protocol_error(obs)):
                    out.append(fail('refusal-is-not-PROTOCOL_ERROR', i, kind=a['kind'], rule=prob, res=obs['res']))
    return out


# ---------------------------------------------------------------------------
# C17  arbitrary bytes never produce a non-protocol exception
# ---------------------------------------------------------------------------
def oracle_C17(run):
    out = []
    for i, (op, ol, ml, obs) in enumerate(run.log):
        if obs is None or not is_recv(op):
            continue
        r = res(obs)
        if r[0] == 'py':
            out.append(fail('receive_data-raised-non-protocol-exception', i, exc=r[1]))
        elif r[0] == 'exc' and not is_protocol_error(obs):
            out.append(fail('receive_data-raised-non-protocol-exception', i, exc=r[1]))
    return out


# ---------------------------------------------------------------------------
# C18  one GOAWAY with the right code per connection error
# ---------------------------------------------------------------------------
def classify_single_frame(fr, snap, client):
    """RFC error category of ONE raw frame arriving in state `snap`, where that can be told from the frame and
    the public state alone; None = not classified here."""
    t, n, sid, fl = fr['type'], len(fr['payload']), fr['sid'], fr['flags']
    if n > snap['max_in']:
        return 6
    fixed = {wire.PING: 8, wire.RST_STREAM: 4, wire.PRIORITY: 5, wire.WINDOW_UPDATE: 4}
    if t in fixed and n != fixed[t]:
        return 6
    if t == wire.SETTINGS and sid == 0:
        if (fl & 1) and n:
            return 6
        if n % 6:
            return 6
    if t == wire.DATA and sid and not (fl & 8):
        st = snap['streams'].get(sid)
        if st and st[0] in ('OPEN', 'HALF_CLOSED_LOCAL') and st[6]:
            if n > snap['in_win'] or n > st[3]:
                return 3
    if t == wire.WINDOW_UPDATE and sid == 0 and n == 4:
        inc = struct.unpack('>I', fr['payload'])[0]
        if 1 <= inc <= MAX31 and snap['out_win'] + inc > MAX31:
            return 3
    return None


def oracle_C18(run):
    out = []
    client = roles(run)
    rx = {}
    for i, (op, ol, ml, obs) in enumerate(run.log):
        if obs is None or not is_recv(op):
            continue
        c = conn_of(op)
        data = obs.get('xfer_data') if op['op'] == 'xfer' else op['data']
        before = rx.get(c, b'')
        rx[c] = (before + data)[:24]
        r = res(obs)
        if r[0] != 'exc' or not is_protocol_error(obs):
            continue
        app = obs.get('appended')
        if app is None:
            # a GOAWAY received earlier in the same call cleared the buffer: what is in it now was written after that
            app = obs['outbuf']
        fr = frames_of(app)
        if not client[c]:
            seen = rx[c]
            if seen != wire.PREFACE[:len(seen)] and not app:
                continue                      # invalid client preface: GOAWAY may be omitted
        if fr is None:
            out.append(fail('output-undecodable-after-connection-error', i))
            continue
        go = [f for f in fr if f['type'] == wire.GOAWAY]
        if len(go) != 1 or fr[-1]['type'] != wire.GOAWAY:
            out.append(fail('not-exactly-one-goaway', i, goaways=len(go), exc=r[1]))
            continue
        g = go[0]
        if g['code'] != r[2]:
            out.append(fail('goaway-code-differs-from-exception', i, goaway=g['code'], exc_code=r[2]))
            continue
        # (31 bits travel: hyperframe hands a promised stream id to h2 with the reserved bit still on it, and a refused
        # promise is remembered under that number; on the wire it is the stream it is)
        if g['last'] != obs['snap_after']['hi_in'] & 0x7FFFFFFF:
            out.append(fail('goaway-last-stream-id', i, got=g['last'], want=obs['snap_after']['hi_in']))
            continue
        # RFC category, where the cause is a single classified frame
        rfs = raw_frames(data)
        if rfs and len(rfs) == 1 and obs['snap_before']['state'] != 'CLOSED' and \
                buflen(ol) == '0' and before_buf_empty(run, i, c):
            want = classify_single_frame(rfs[0], obs['snap_before'], client[c])
            if want is not None and want != r[2]:
                out.append(fail('rfc-error-code', i, got=r[2], want=want, frame_type=rfs[0]['type']))
                continue
            if rfs[0]['type'] in (wire.HEADERS, wire.PUSH_PROMISE) and (rfs[0]['flags'] & 4):
                recs = obs['dec_recs']
                if recs and recs[-1]['res'][0] == 'exc':
                    from hpack.exceptions import OversizedHeaderListError
                    want = 11 if isinstance(recs[-1]['res'][1], OversizedHeaderListError) else 9
                    if r[2] != want:
                        out.append(fail('rfc-error-code', i, got=r[2], want=want, cause='header-block-decode'))
    return out


def preface_state(run, i, c):
    """for a server connection: (bytes received before op i, did they match the client preface so far)"""
    seen = b''
    for j in range(i):
        op, ol, ml, obs = run.log[j]
        if obs is not None and is_recv(op) and conn_of(op) == c:
            seen += (obs.get('xfer_data') if op['op'] == 'xfer' else op['data']) or b''
            if len(seen) > 24:
                break
    return len(seen), seen[:24] == wire.PREFACE[:len(seen[:24])]


def before_buf_empty(run, i, c):
    """was c's inbound buffer empty before op i (last peek field of the previous obs of c), and — for a server — is
    the client preface out of the way (already received, or leading this very delivery), and no header block
    waiting for its CONTINUATION frames (anything but CONTINUATION is then a connection error, RFC 7540 6.10)"""
    if run.log[i][3] is not None and run.log[i][3]['snap_before'].get('hdr_pending'):
        return False
    if not run.world.conns[c].client:
        n, ok = preface_state(run, i, c)
        op = run.log[i][0]
        data = (run.log[i][3].get('xfer_data') if op['op'] == 'xfer' else op.get('data')) or b''
        if not ok or (n < 24 and not (n == 0 and data.startswith(wire.PREFACE))):
            return False
    for j in range(i - 1, -1, -1):
        op, ol, ml, obs = run.log[j]
        if obs is not None and conn_of(op) == c:
            return buflen(ol) == '0'
    return True


def buflen(ol):
    """length of the inbound frame buffer as printed in the st= peek of an observation line"""
    for part in ol.split(' | '):
        if part.startswith('st='):
            return part.split(',')[10]
    return '?'


# ---------------------------------------------------------------------------
# C20  frames racing a local reset never break the connection
# ---------------------------------------------------------------------------
def oracle_C20(run):
    """a delivery that consists only of whole, wire-valid frames for streams the receiving endpoint has reset itself
    (reset_stream calls that succeeded), whose header blocks decode, whose DATA fits the connection window and the
    frame size, must not raise and must not produce header / data / end-of-stream / push events for those streams -
    before and after the closed stream was cleaned out of the table (within the closed-stream memory)."""
    out = []
    reset = {}
    for i, (op, ol, ml, obs) in enumerate(run.log):
        o = op['op']
        if o == 'new':
            reset[op['c']] = set()
            continue
        if obs is None:
            continue
        r = res(obs)
        if o == 'reset_stream' and r[0] == 'ok' and isinstance(op.get('sid'), int):
            reset.setdefault(op.get('c', 0), set()).add(op['sid'])
            continue
        if not is_recv(op):
            continue
        c = conn_of(op)
        R = reset.get(c) or set()
        if not R:
            continue
        sb = obs['snap_before']
        if sb['state'] in ('CLOSED', 'IDLE') or sb.get('closed') is None or not before_buf_empty(run, i, c):
            continue
        data = obs.get('xfer_data') if o == 'xfer' else op['data']
        rfs = raw_frames(data)
        if not rfs:
            continue
        try:
            fs = [wire.decode_frame(f) for f in rfs]
        except wire.WireError:
            continue
        # every complete header block that arrives is handed to the HPACK decoder, also when its stream was reset (the
        # decoder's dynamic table is shared by all streams): judged when the delivery is accepted and consists of
        # complete HEADERS / PUSH_PROMISE frames for reset streams
        if r[0] == 'ok' and all(f['sid'] in R and f['type'] in (wire.HEADERS, wire.PUSH_PROMISE) and f['end_headers'] and f['len'] <= sb['max_in']
                                for f in fs):
            if len(obs.get('dec_recs') or []) < len(fs):
                out.append(fail('header-block-for-reset-stream-not-decoded', i, blocks=len(fs), decoded=len(obs.get('dec_recs') or []),
                                frames=[(f['name'], f['sid']) for f in fs][:6]))
                continue
        ok = True
        total = 0
        for f in fs:
            if f['sid'] not in R or f['len'] > sb['max_in']:
                ok = False
                break
            # (the oracle keeps its own record of what the application reset; the library's `closed_by` is part of
            # what is being judged.  `sb['closed']` not None: few closed streams, nothing evicted from the memory)
            if f['type'] == wire.DATA:
                total += f['len']
            elif f['type'] == wire.HEADERS:
                if not f['end_headers'] or (f.get('prio') and f['prio'][0] == f['sid']):
                    ok = False          # (a stream depending on itself is a connection error whatever the stream's state)
                    break
            elif f['type'] in (wire.WINDOW_UPDATE, wire.RST_STREAM):
                pass
            else:
                ok = False          # PUSH_PROMISE (role and id rules), PRIORITY self-dependency, CONTINUATION, ...
                break
        if not ok or total > sb['in_win']:
            continue
        if any(rec['res'][0] != 'ok' for rec in (obs.get('dec_recs') or [])):
            continue
        # a header block that is malformed whatever the stream's state (a 1xx response with END_STREAM, a block the rule
        # book refuses) is the peer's protocol violation, not a frame racing a reset
        import rulebook
        blocks = [[(bytes(h[0]), bytes(h[1])) for h in rec['res'][1]] for rec in (obs.get('dec_recs') or [])]
        hframes = [f for f in fs if f['type'] == wire.HEADERS]
        well_formed = len(blocks) == len(hframes)
        for f, hs in zip(hframes, blocks):
            if run.world.conns[c].client:
                status = next((v for n, v in hs if n == b':status'), None)
                if status is not None and status[:1] == b'1':
                    if f['end_stream'] or rulebook.block_problem(hs, 'informational'):
                        well_formed = False
                elif rulebook.block_problem(hs, 'response') and (rulebook.block_problem(hs, 'trailers') or not f['end_stream']):
                    well_formed = False
            elif rulebook.block_problem(hs, 'request') and (rulebook.block_problem(hs, 'trailers') or not f['end_stream']):
                well_formed = False
        if not well_formed:
            continue
        if r[0] != 'ok':
            out.append(fail('frame-racing-local-reset-broke-the-connection', i, res=obs['res'],
                            frames=[(f['name'], f['sid']) for f in fs][:6]))
            continue
        for e in obs['raw_events']:
            nm = type(e).__name__
            if nm in ('RequestReceived', 'ResponseReceived', 'TrailersReceived', 'InformationalResponseReceived', 'DataReceived',
                      'StreamEnded', 'PushedStreamReceived') and getattr(e, 'stream_id', None) in R:
                out.append(fail('event-for-a-locally-reset-stream', i, event=nm, sid=e.stream_id))
                break
        else:
            # DATA for a stream the application reset is acknowledged by the library itself: every byte it took out of the
            # connection window is on its way back (already returned by a WINDOW_UPDATE, or counted as processed and
            # returned with the next one) - window + processed is what it was before the delivery
            sa = obs.get('snap_after') or {}
            if 'in_processed' in sb and 'in_processed' in sa and sa['state'] != 'CLOSED' and sa['in_max'] == sb['in_max']:
                if sa['in_win'] + sa['in_processed'] != sb['in_win'] + sb['in_processed']:
                    out.append(fail('data-for-reset-stream-not-credited-back', i, data_bytes=total,
                                    before=(sb['in_win'], sb['in_processed']), after=(sa['in_win'], sa['in_processed']),
                                    frames=[(f['name'], f['sid'], f['len']) for f in fs][:6]))
    return out


# ---------------------------------------------------------------------------
# C19  a closed connection stays quiet
# ---------------------------------------------------------------------------
def oracle_C19(run):
    out = []
    for i, (op, ol, ml, obs) in enumerate(run.log):
        if obs is None:
            continue
        o = op['op']
        kinds = ev_kinds(obs)
        if is_recv(op) and 'ConnectionTerminated' in kinds and res(obs)[0] == 'ok':
            if obs['outbuf']:
                out.append(fail('goaway-did-not-discard-output', i, left=len(obs['outbuf'])))
                continue
        if obs['snap_before']['state'] != 'CLOSED' or o in ('data_to_send', 'clear_out', 'q'):
            continue
        app = obs.get('appended')
        if app is None:
            fr = frames_of(obs['outbuf'])
        else:
            fr = frames_of(app)
        if fr is None:
            out.append(fail('closed-connection-emitted-undecodable-bytes', i, op=o))
            continue
        bad = [f['name'] for f in fr if f['type'] != wire.GOAWAY]
        if bad:
            out.append(fail('closed-connection-emitted-frame', i, op=o, frames=bad))
            continue
        if o in FRAME_CALLS and res(obs)[0] == 'ok':
            out.append(fail('call-succeeded-on-closed-connection', i, op=o))
    return out


# ---------------------------------------------------------------------------
# C26  PING
# ---------------------------------------------------------------------------
def oracle_C26(run):
    out = []
    for i, (op, ol, ml, obs) in enumerate(run.log):
        if obs is None:
            continue
        if op['op'] == 'ping':
            ok = res(obs)[0] == 'ok'
            closed = obs['snap_before']['state'] == 'CLOSED'
            if len(op['data']) != 8:
                if ok:
                    out.append(fail('ping-accepted-bad-length', i, n=len(op['data'])))
                continue
            if closed:
                continue
            fr = frames_of(obs.get('appended'))
            if not ok or fr is None or len(fr) != 1 or fr[0]['type'] != wire.PING or fr[0]['ack'] or fr[0]['data'] != op['data']:
                out.append(fail('ping-not-emitted-exactly', i, ok=ok))
            continue
        if is_recv(op) and res(obs)[0] == 'ok':
            import h2.events as EV
            pings = [e.ping_data for e in obs['raw_events'] if isinstance(e, EV.PingReceived)]
            # PING frames are picked out of the raw frame sequence: whether the *other* frames of the output are
            # well-formed is C02's business, not this property's (round 2: an RST_STREAM on stream 0, emitted for a
            # PUSH_PROMISE promising stream 0 on a locally reset parent, made the full decoder give up and this
            # oracle cried "undecodable-output" although no PING was involved)
            fr = raw_frames(obs.get('appended') or b'')
            if fr is None:
                if 'ConnectionTerminated' in ev_kinds(obs) or not pings:
                    continue
                out.append(fail('ping-answer-not-identifiable-in-output', i, pings=[p.hex() for p in pings]))
                continue
            pf = [f for f in fr if f['type'] == wire.PING and f['sid'] == 0 and len(f['payload']) == 8]
            acks = [f['payload'] for f in pf if f['flags'] & 1]
            plain = [f for f in fr if f['type'] == wire.PING and not (f in pf and f['flags'] & 1)]
            if 'ConnectionTerminated' in ev_kinds(obs):
                continue
            if plain or acks != pings:
                out.append(fail('ping-acks-differ-from-pings-received', i, pings=[p.hex() for p in pings], acks=[a.hex() for a in acks]))
    return out


# ---------------------------------------------------------------------------
# C12  SETTINGS validation
# ---------------------------------------------------------------------------
def setting_verdict(k, v):
    if k == 2 and v not in (0, 1):
        return 1
    if k == 4 and not (0 <= v <= MAX31):
        return 3
    if k == 5 and not (16384 <= v <= 2**24 - 1):
        return 1
    if k == 8 and v not in (0, 1):
        return 1
    return 0


def oracle_C12(run):
    out = []
    for i, (op, ol, ml, obs) in enumerate(run.log):
        if obs is None:
            continue
        r = res(obs)
        if op['op'] == 'update_settings' and obs['snap_before']['state'] != 'CLOSED':
            want = 0
            for k, v in op['settings']:
                want = setting_verdict(k, v)
                if not want and not (0 <= k <= 0xFFFF and 0 <= v <= 0xFFFFFFFF):
                    want = 1
                if want:
                    break
            if want and not (r[0] == 'exc' and r[1] == 'InvalidSettingsValueError' and r[2] == want):
                out.append(fail('local-setting-verdict', i, want=want, got=obs['res']))
            if not want and r[0] != 'ok':
                out.append(fail('valid-local-setting-rejected', i, got=obs['res']))
            continue
        if op['op'] == 'initiate_upgrade' and op.get('settings_header') and not run.world.conns[conn_of(op)].client \
                and obs['snap_before']['state'] == 'IDLE' and not obs['snap_before']['streams']:
            # the HTTP2-Settings value is a SETTINGS payload (RFC 7540 3.2.1): its values get the same verdicts
            import base64
            import binascii
            try:
                body = base64.urlsafe_b64decode(op['settings_header'])
            except (binascii.Error, ValueError):
                body = None
            if body is not None and len(body) % 6 == 0:
                want = 0
                its = {}
                for j in range(0, len(body), 6):
                    k, v = struct.unpack('>HI', body[j:j + 6])
                    its[k] = v          # hyperframe keeps the settings of a frame in a dict: the last value of an identifier wins
                for k, v in its.items():
                    want = setting_verdict(k, v)
                    if want:
                        break
                if want and not (r[0] == 'exc' and r[2] == want):
                    out.append(fail('upgrade-setting-verdict', i, want=want, got=obs['res']))
                if not want and r[0] != 'ok':
                    out.append(fail('valid-upgrade-settings-rejected', i, got=obs['res']))
            continue
        if not is_recv(op):
            continue
        c = conn_of(op)
        data = obs.get('xfer_data') if op['op'] == 'xfer' else op['data']
        rfs = raw_frames(data)
        if not rfs or len(rfs) != 1 or not before_buf_empty(run, i, c) or obs['snap_before']['state'] == 'CLOSED':
            continue
        f = rfs[0]
        if f['type'] != wire.SETTINGS or f['sid'] != 0 or (f['flags'] & 1) or len(f['payload']) % 6 \
                or len(f['payload']) > obs['snap_before']['max_in']:
            continue
        items = {}
        for j in range(0, len(f['payload']), 6):
            k, v = struct.unpack('>HI', f['payload'][j:j + 6])
            items[k] = v
        want = 0
        for k, v in items.items():
            want = setting_verdict(k, v)
            if want:
                break
        if not want and 4 in items:
            old = obs['snap_before']['remote'].get(4, [65535])[0]
            delta = items[4] - old
            if any(st[2] + delta > MAX31 for st in obs['snap_before']['streams'].values()):
                want = 3
        if want:
            if not (r[0] == 'exc' and r[2] == want):
                out.append(fail('received-setting-verdict', i, want=want, got=obs['res'], items=sorted(items.items())))
        elif r[0] != 'ok':
            out.append(fail('valid-received-settings-rejected', i, got=obs['res'], items=sorted(items.items())))
    return out


# ---------------------------------------------------------------------------
# C01  two h2 endpoints exchange every successful send faithfully
# ---------------------------------------------------------------------------
def oracle_C01(run):
    """pair histories (every byte an endpoint receives was written by the other endpoint): a delivery must not fail
    unless the receiving endpoint had already closed the connection itself, and what the receiver reports must
    reproduce, stream by stream and in order, what the sender's successful calls sent: header lists (normalised as C14
    says, cookie-joined / decoded as the receiver is configured), body chunks, end of stream, reset codes, pings,
    settings.  'In order' is checked as a prefix relation (bytes may still be in flight; frames for a stream the
    receiver has reset are dropped), and as equality for pings and settings once everything has been delivered."""
    import rulebook
    out = []
    client = roles(run)
    cfgs, S, R = {}, {}, {}
    injected = set()
    final_sent = set()
    for i, (op, ol, ml, obs) in enumerate(run.log):
        o = op['op']
        if o == 'new':
            c = op['c']
            cfgs[c] = op
            S[c] = {'hdr': {}, 'data': {}, 'ended': set(), 'reset': {}, 'ping': [], 'settings': [], 'goaway': [], 'push': {}}
            R[c] = {'hdr': {}, 'data': {}, 'ended': set(), 'ping': [], 'settings': [], 'push': {}}
            continue
        if obs is None:
            continue
        if o == 'recv':
            injected.add(op['c'])
            continue
        r = res(obs)
        if o == 'xfer':
            snd, rcv = op['c'], op['to']
            if rcv in injected or snd in injected or snd not in S or rcv not in R:
                continue
            if r[0] != 'ok':
                if obs['snap_before']['state'] != 'CLOSED':
                    out.append(fail('peer-rejected-library-output', i, res=obs['res']))
                injected.add(rcv)
                injected.add(snd)
                continue
            cfg = cfgs[rcv]
            ni, enc = bool(cfg.get('ni', 1)), cfg.get('enc')

            def deliver(hs):
                hs = rulebook.join_cookies(hs) if ni else list(hs)
                if enc:
                    try:
                        return [(n.decode(enc), v.decode(enc)) for n, v in hs]
                    except UnicodeDecodeError:
                        return None
                return hs
            for e in obs['raw_events']:
                nm = type(e).__name__
                k = KIND_OF_EVENT.get(nm)
                if k and k != 'push':
                    sid = e.stream_id
                    lst = R[rcv]['hdr'].setdefault(sid, [])
                    exp = S[snd]['hdr'].get(sid, [])
                    got = [(h[0], h[1]) for h in e.headers]
                    if len(lst) >= len(exp):
                        out.append(fail('header-event-without-a-send', i, sid=sid, kind=k))
                        break
                    ek, ehs = exp[len(lst)]
                    if ek != k or deliver(ehs) != got:
                        out.append(fail('header-event-differs-from-send', i, sid=sid, kind=k, sent_kind=ek,
                                        got=repr(got)[:200], sent=repr(deliver(ehs))[:200]))
                        break
                    lst.append(k)
                elif k == 'push':
                    exp = S[snd]['push'].get(e.pushed_stream_id)
                    got = [(h[0], h[1]) for h in e.headers]
                    if exp is None or exp[0] != e.parent_stream_id or deliver(exp[1]) != got:
                        out.append(fail('push-event-differs-from-send', i, pushed=e.pushed_stream_id))
                        break
                elif nm == 'DataReceived':
                    sid = e.stream_id
                    lst = R[rcv]['data'].setdefault(sid, [])
                    exp = S[snd]['data'].get(sid, [])
                    if len(lst) >= len(exp) or exp[len(lst)] != (bytes(e.data), e.flow_controlled_length):
                        out.append(fail('data-event-differs-from-send', i, sid=sid, got_len=len(e.data)))
                        break
                    lst.append(1)
                elif nm == 'StreamEnded':
                    if e.stream_id not in S[snd]['ended']:
                        out.append(fail('stream-ended-without-a-send', i, sid=e.stream_id))
                        break
                elif nm == 'PingReceived':
                    R[rcv]['ping'].append(bytes(e.ping_data))
                    if R[rcv]['ping'] != S[snd]['ping'][:len(R[rcv]['ping'])]:
                        out.append(fail('ping-differs-from-send', i))
                        break
                elif nm == 'RemoteSettingsChanged':
                    new = dict((int(k2), ch.new_value) for k2, ch in e.changed_settings.items())
                    R[rcv]['settings'].append(new)
                    n = len(R[rcv]['settings'])
                    want = S[snd]['settings'][n - 1] if n <= len(S[snd]['settings']) else None
                    if want is None or dict((k2 & 0xFF if k2 > 255 else k2, v) for k2, v in want.items()) != new and want != new:
                        out.append(fail('settings-differ-from-send', i, got=sorted(new.items()), sent=sorted((want or {}).items())))
                        break
                elif nm == 'StreamReset' and getattr(e, 'remote_reset', True):
                    codes = S[snd]['reset'].get(e.stream_id)
                    # (resets written by the peer's receive path are not calls: only a reset that matches no call and no
                    # possible automatic reply would be wrong; the code of a call must come through unchanged)
                    if codes and int(e.error_code) not in codes and int(e.error_code) not in (1, 5, 7, 8, 3):
                        out.append(fail('reset-code-differs-from-send', i, sid=e.stream_id, got=int(e.error_code), sent=sorted(codes)))
                        break
            if out:
                break
            continue
        # a call
        c = op.get('c', 0)
        if c not in S or r[0] != 'ok':
            continue
        if o in ('initiate_connection', 'initiate_upgrade'):
            fs = _settings_frames(obs.get('appended')) or []
            for ack, items in fs:
                if not ack:
                    S[c]['settings'].append(items)
        elif o == 'update_settings':
            S[c]['settings'].append(dict(op['settings']))
        elif o == 'ping':
            S[c]['ping'].append(bytes(op['data']))
        elif o == 'send_data':
            pad = op.get('pad')
            fcl = len(op['data']) + (pad + 1 if pad is not None else 0)
            S[c]['data'].setdefault(op['sid'], []).append((bytes(op['data']), fcl))
            if op.get('es'):
                S[c]['ended'].add(op['sid'])
        elif o == 'end_stream':
            S[c]['data'].setdefault(op['sid'], []).append((b'', 0))
            S[c]['ended'].add(op['sid'])
        elif o == 'reset_stream':
            S[c]['reset'].setdefault(op['sid'], set()).add(op.get('code', 0))
        elif o in ('send_headers', 'push_stream'):
            if _ill_typed_headers(op):
                injected.add(c)
                continue
            cfg = cfgs[c]
            args = [(h[0], h[1]) for h in op['headers']]
            hs = [(n, v) for n, v, _ in rulebook.normalise_out(args)] if cfg.get('no', 1) else \
                [(rulebook.to_bytes(n), rulebook.to_bytes(v)) for n, v in args]
            if o == 'push_stream':
                S[c]['push'][op['promised']] = (op['sid'], hs)
                continue
            sid = op['sid']
            if client[c]:
                kind = 'trailers' if (c, sid) in final_sent else 'request'
            else:
                lead = None
                for n, v in hs:
                    if not n.startswith(b':'):
                        break
                    if n == b':status':
                        lead = v
                        break
                if (c, sid) in final_sent:
                    kind = 'trailers'
                elif lead is not None and lead[:1] == b'1':
                    kind = 'informational'
                else:
                    kind = 'response'
            S[c]['hdr'].setdefault(sid, []).append((kind, hs))
            if kind in ('request', 'response'):
                final_sent.add((c, sid))
            if op.get('es'):
                S[c]['ended'].add(sid)
    return out


# ---------------------------------------------------------------------------
# C11  settings take effect when acknowledged, one frame per ACK, in order
# ---------------------------------------------------------------------------
def _settings_frames(data):
    """[(ack, {id: value})] of the SETTINGS frames in a byte string (None when it cannot be split into frames)"""
    if data is None:
        return None
    if data.startswith(wire.PREFACE):
        data = data[24:]
    try:
        rfs = wire.split_frames(data)
    except wire.WireError:
        return None
    out = []
    for f in rfs:
        if f['type'] != wire.SETTINGS or f['sid'] != 0:
            continue
        items = {}
        if not (f['flags'] & 1) and len(f['payload']) % 6 == 0:
            for j in range(0, len(f['payload']), 6):
                k, v = struct.unpack('>HI', f['payload'][j:j + 6])
                items[k] = v
        out.append((bool(f['flags'] & 1), items))
    return out


def oracle_C11(run):
    """per connection: a FIFO of the SETTINGS frames it has sent (read off its output) and the view the peer has
    acknowledged.  Every SettingsAcknowledged must report exactly the changes of the oldest unacknowledged frame and
    MAX_FRAME_SIZE must be in force right after; every valid received SETTINGS frame must be reported by exactly one
    RemoteSettingsChanged with the right old and new values and answered by exactly one ACK; a raising update_settings
    changes nothing.  A report that is explained by per-setting queues instead (the code's known behaviour, D8) is
    raised under its own clause so that the known-findings file can list it."""
    out = []
    st = {}
    for i, (op, ol, ml, obs) in enumerate(run.log):
        if op['op'] == 'new':
            st[op['c']] = {'inflight': [], 'view': None, 'pend': {}, 'taint': False, 'rview': {}}
            continue
        if obs is None:
            continue
        c = conn_of(op) if is_recv(op) else op.get('c', 0)
        S = st.get(c)
        if S is None:
            continue
        r = res(obs)
        sb, sa = obs['snap_before'], obs['snap_after']
        if S['view'] is None:
            S['view'] = dict((k, v[0]) for k, v in sb['local'].items())
        # a raising update_settings changes nothing
        if op['op'] == 'update_settings' and r[0] != 'ok':
            if obs['out'] != '+.' or sa['local'] != sb['local'] or sa['remote'] != sb['remote'] or sa['max_in'] != sb['max_in']:
                out.append(fail('raising-update-settings-changed-something', i, res=obs['res']))
        # received side first (ACKs answer frames sent earlier)
        if is_recv(op):
            acks = [e for e in obs['raw_events'] if type(e).__name__ == 'SettingsAcknowledged']
            for e in acks:
                rep = dict((int(k), (ch.original_value, ch.new_value)) for k, ch in e.changed_settings.items())
                if S['taint'] or not S['inflight']:
                    continue
                H = S['inflight'].pop(0)
                exp = dict((k, (S['view'].get(k), v)) for k, v in H.items())
                # the per-setting-queue prediction (what the code is known to do)
                perkey = {}
                for k, q in S['pend'].items():
                    if q:
                        perkey[k] = (S['kview'].get(k), q[0])
                same = lambda a, b: dict((k, v) for k, v in a.items() if v[0] != v[1]) == dict((k, v) for k, v in b.items() if v[0] != v[1])
                if same(rep, exp) and all(k in H for k in rep):
                    # the acknowledged INITIAL_WINDOW_SIZE is enforced on every stream from now on
                    if 4 in H and S['view'].get(4) is not None and len(acks) == 1 and r[0] == 'ok':
                        delta = H[4] - S['view'][4]
                        for sid, t in sb['streams'].items():
                            t2 = sa['streams'].get(sid)
                            if t2 is not None and t[4] is not None and t2[4] != t[4] + delta:
                                out.append(fail('acknowledged-window-not-applied-to-stream', i, sid=sid, state=t[0],
                                                before=t[4], after=t2[4], delta=delta))
                                break
                elif rep == perkey:
                    out.append(fail('ack-not-matched-to-its-frame', i, via='per-setting-queue', reported=sorted(rep.items()),
                                    frame=sorted(H.items())))
                    S['taint'] = True
                else:
                    out.append(fail('ack-reports-wrong-changes', i, reported=sorted(rep.items()), frame=sorted(H.items()),
                                    expected=sorted(exp.items())))
                    S['taint'] = True
                S['view'].update(H)
                for k in list(S['pend']):
                    if S['pend'][k]:
                        S['kview'][k] = S['pend'][k].pop(0)
                if not S['taint'] and 5 in H and r[0] == 'ok' and e is acks[-1]:
                    if sa['max_in'] != H[5]:
                        out.append(fail('acknowledged-max-frame-size-not-in-force', i, want=H[5], got=sa['max_in']))
            # received SETTINGS frames
            data = obs.get('xfer_data') if op['op'] == 'xfer' else op.get('data')
            rfs = raw_frames(data)
            if rfs and len(rfs) == 1 and before_buf_empty(run, i, c) and sb['state'] != 'CLOSED' and r[0] == 'ok':
                f = rfs[0]
                if f['type'] == wire.SETTINGS and f['sid'] == 0 and not (f['flags'] & 1) and len(f['payload']) % 6 == 0:
                    items = {}
                    for j in range(0, len(f['payload']), 6):
                        k, v = struct.unpack('>HI', f['payload'][j:j + 6])
                        items[k] = v
                    evs = [e for e in obs['raw_events'] if type(e).__name__ == 'RemoteSettingsChanged']
                    if len(evs) != 1:
                        out.append(fail('received-settings-not-reported-once', i, events=len(evs)))
                    else:
                        rep = dict((int(k), (ch.original_value, ch.new_value)) for k, ch in evs[0].changed_settings.items())
                        exp = dict((k, (sb['remote'].get(k, [None])[0], v)) for k, v in items.items())
                        if rep != exp:
                            out.append(fail('remote-settings-change-misreported', i, reported=sorted(rep.items()), expected=sorted(exp.items())))
                    sent = _settings_frames(obs.get('appended'))
                    if sent is not None and [a for a, _ in sent] != [True]:
                        out.append(fail('received-settings-not-acknowledged-once', i, sent=[a for a, _ in sent]))
                    for k, v in items.items():
                        if sa['remote'].get(k, [None])[0] != v:
                            out.append(fail('received-setting-not-applied-at-once', i, setting=k, want=v, got=sa['remote'].get(k)))
                            break
                    if 5 in items and sa['max_out'] != items[5]:
                        out.append(fail('peer-max-frame-size-not-in-force', i, want=items[5], got=sa['max_out']))
        # SETTINGS frames this connection has just sent (taken from the calls: hyperframe writes identifiers modulo 256)
        if 'kview' not in S:
            S['kview'] = dict(S['view'])
        if op['op'] in ('initiate_connection', 'initiate_upgrade') and r[0] == 'ok' and not S.get('seen_initial'):
            S['seen_initial'] = True
            # the initial frame announces the values already in force: nothing is pending for it
            S['inflight'].append(dict())
            sent = _settings_frames(obs.get('appended'))
            cur = dict((k & 0xFF, v[0]) for k, v in sb['local'].items() if v[0] is not None)
            if sent is not None and [it for a, it in sent if not a][:1] != [cur]:
                out.append(fail('initial-settings-frame-differs-from-values-in-force', i, frame=repr(sent)[:200], current=sorted(cur.items())))
        elif op['op'] == 'update_settings' and r[0] == 'ok':
            items = dict(op['settings'])
            S['inflight'].append(items)
            for k, v in items.items():
                S['pend'].setdefault(k, []).append(v)
    return out


# ---------------------------------------------------------------------------
# C03  outbound flow control
# ---------------------------------------------------------------------------
class OutLedger(object):
    """peer-granted windows recomputed from observables only"""

    def __init__(self):
        self.conn = 65535
        self.iws = 65535
        self.streams = {}
        self.tainted = False


def oracle_C03(run):
    out = []
    led = {}
    for i, (op, ol, ml, obs) in enumerate(run.log):
        if obs is None:
            continue
        c = conn_of(op)
        L = led.setdefault(c, OutLedger())
        # C03_conn_window_every_history: whatever came before, the connection's window is a window
        if obs.get('snap_after') and not (0 <= obs['snap_after']['out_win'] <= MAX31):
            out.append(fail('connection-window-out-of-range', i, lib=obs['snap_after']['out_win']))
        if L.tainted:
            continue
        snap_b, snap_a = obs['snap_before'], obs['snap_after']
        o = op['op']
        r = res(obs)
        if o == 'initiate_upgrade' and r[0] == 'ok':
            # the server learns the client's settings from the header: resynchronise from the snapshot
            L.iws = snap_a['remote'].get(4, [65535])[0]
        elif o == 'initiate_upgrade' and op.get('settings_header'):
            # a refused upgrade (say, on a connection that is already running) may have taken the header's settings in
            # before it was refused: what the windows are after that is not for this ledger to say
            L.tainted = True
            continue
        # streams that came into existence get the current peer INITIAL_WINDOW_SIZE
        if is_recv(op):
            data = obs.get('xfer_data') if o == 'xfer' else op['data']
            if r[0] != 'ok' or not before_buf_empty(run, i, c) or buflen(ol) != '0':
                L.tainted = True          # partial processing cannot be reconstructed from the outside
                continue
            rfs = raw_frames(data)
            if rfs is None:
                L.tainted = True
                continue
            for f in rfs:
                if f['type'] == wire.SETTINGS and not (f['flags'] & 1):
                    for j in range(0, len(f['payload']), 6):
                        k, v = struct.unpack('>HI', f['payload'][j:j + 6])
                        if k == 4:
                            delta = v - L.iws
                            L.iws = v
                            for s in L.streams:
                                L.streams[s] += delta
                elif f['type'] == wire.WINDOW_UPDATE and len(f['payload']) == 4:
                    inc = struct.unpack('>I', f['payload'])[0]
                    if f['sid'] == 0:
                        L.conn += inc
                    elif f['sid'] in L.streams and f['sid'] in snap_a['streams'] and snap_a['streams'][f['sid']][0] != 'CLOSED':
                        L.streams[f['sid']] += inc
                elif f['type'] in (wire.HEADERS, wire.PUSH_PROMISE, wire.RST_STREAM):
                    pass
            for s in snap_a['streams']:
                if s not in L.streams and s not in snap_b['streams']:
                    L.streams[s] = L.iws
            # a stream that this very delivery closed: whether a WINDOW_UPDATE for it came before or after the
            # closing frame cannot be told from outside, and nothing can be sent on it any more, so its last
            # window is taken from the library (it is only ever read back by local_flow_control_window)
            for s, st in snap_a['streams'].items():
                if s in L.streams and st[0] == 'CLOSED' and (s not in snap_b['streams'] or snap_b['streams'][s][0] != 'CLOSED'):
                    L.streams[s] = st[2]
            # compare where the library still tracks the stream
            for s, st in snap_a['streams'].items():
                if s in L.streams and st[0] != 'CLOSED' and st[2] != L.streams[s]:
                    # frames on closed/reset streams make the outside view ambiguous: only flag clear cases
                    if s in snap_b['streams'] and snap_b['streams'][s][0] != 'CLOSED':
                        out.append(fail('stream-window-differs-from-ledger', i, sid=s, lib=st[2], ledger=L.streams[s]))
                        L.tainted = True
                        break
                    L.streams[s] = st[2]
            if not L.tainted and snap_a['out_win'] != L.conn:
                out.append(fail('connection-window-differs-from-ledger', i, lib=snap_a['out_win'], ledger=L.conn))
                L.tainted = True
            continue
        for s in snap_a['streams']:
            if s not in L.streams and s not in snap_b['streams']:
                L.streams[s] = L.iws
        if o == 'q' and op['what'] == 'local_window' and r[0] == 'ok':
            s = op['sid']
            if s in L.streams and int(r[1]) != min(L.conn, L.streams[s]):
                out.append(fail('local_flow_control_window-not-min', i, sid=s, got=int(r[1]), conn=L.conn, stream=L.streams[s]))
        if o == 'send_data':
            s = op['sid']
            pad = op.get('pad')
            if s not in L.streams or s not in snap_b['streams'] or (pad is not None and not (isinstance(pad, int) and 0 <= pad <= 255)):
                continue
            n = len(op['data']) + (pad + 1 if pad is not None else 0)
            w = min(L.conn, L.streams[s])
            if r[0] == 'ok':
                fr = frames_of(obs.get('appended'))
                total = sum(f['fcl'] for f in (fr or []) if f['type'] == wire.DATA)
                if fr is None or total != n:
                    out.append(fail('data-frame-length-differs-from-call', i, call=n, emitted=total))
                    continue
                if n > L.streams[s] or n > L.conn:
                    out.append(fail('data-exceeds-window', i, sid=s, n=n, stream=L.streams[s], conn=L.conn))
                    continue
                L.streams[s] -= n
                L.conn -= n
            elif r[0] == 'exc' and r[1] == 'FlowControlError':
                if n <= w:
                    out.append(fail('flow-control-error-within-window', i, sid=s, n=n, window=w))
                elif obs['out'] != '+.':
                    out.append(fail('refused-send-emitted-bytes', i))
            else:
                st = snap_b['streams'][s]
                sendable = st[0] in ('OPEN', 'HALF_CLOSED_REMOTE') and snap_b['state'] != 'CLOSED'
                if n > w and sendable:
                    out.append(fail('overlarge-send-not-flow-control-error', i, sid=s, n=n, window=w, got=obs['res']))
        elif o not in ('q', 'data_to_send', 'clear_out', 'new'):
            fr = frames_of(obs.get('appended'))
            if fr and any(f['type'] == wire.DATA and f['fcl'] for f in fr):
                out.append(fail('data-emitted-by-other-call', i, op=o))
    return out


def strip_preface(run, c, data):
    done = getattr(run, '_preface_seen', None)
    if done is None:
        done = run._preface_seen = {}
    seen = done.get(c, 0)
    need = max(0, 24 - seen)
    done[c] = seen + len(data)
    return data[need:] if need else data


# ---------------------------------------------------------------------------
# C04  inbound flow control
# ---------------------------------------------------------------------------
class InLedger(object):
    """advertised windows recomputed from observables only: the acknowledged INITIAL_WINDOW_SIZE in force when a
    stream appeared, acknowledged changes since, WINDOW_UPDATE frames found in the output, DATA frames received"""

    def __init__(self, iws):
        self.conn = 65535
        self.iws = iws
        self.streams = {}
        self.tainted = False


def _in_ledger(run, out):
    """independent ledger of the inbound windows against the library's own numbers"""
    import h2.events as EV
    led = {}
    for i, (op, ol, ml, obs) in enumerate(run.log):
        o = op['op']
        if o == 'new':
            ls = dict(op.get('ls') or [])
            led[op['c']] = InLedger(ls.get(4, 65535))
            continue
        if obs is None:
            continue
        c = conn_of(op)
        L = led.get(c)
        if L is None or L.tainted:
            continue
        r = res(obs)
        sb, sa = obs['snap_before'], obs['snap_after']
        if o == 'incr_window' and r[0] == 'ok':
            L.tainted = True            # manual increments also move the maximum: outside this ledger
            continue
        fr = frames_of(obs.get('appended'))
        if fr is None:
            L.tainted = True
            continue
        new_streams = [s for s in sa['streams'] if s not in sb['streams']]
        if is_recv(op):
            data = obs.get('xfer_data') if o == 'xfer' else op['data']
            if r[0] != 'ok' or not before_buf_empty(run, i, c) or buflen(ol) != '0':
                L.tainted = True
                continue
            rfs = raw_frames(data)
            if rfs is None:
                L.tainted = True
                continue
            acks = [e for e in obs['raw_events'] if isinstance(e, EV.SettingsAcknowledged)]
            delta = 0
            for e in acks:
                ch = e.changed_settings.get(4)
                if ch is not None and ch.original_value is not None:
                    delta += ch.new_value - ch.original_value
                    L.iws = ch.new_value
            if delta and new_streams:
                L.tainted = True        # whether the new stream saw the change depends on the order inside the delivery
                continue
            for s in L.streams:
                L.streams[s] += delta
            for s in new_streams:
                L.streams[s] = L.iws
            for f in rfs:
                if f['type'] == wire.DATA and f['sid'] != 0:
                    L.conn -= len(f['payload'])
                    if f['sid'] in L.streams:
                        L.streams[f['sid']] -= len(f['payload'])
        else:
            for s in new_streams:
                L.streams[s] = L.iws
        for f in fr:
            if f['type'] == wire.WINDOW_UPDATE:
                if f['sid'] == 0:
                    L.conn += f['incr']
                elif f['sid'] in L.streams:
                    L.streams[f['sid']] += f['incr']
        if sa['state'] == 'CLOSED':
            continue
        if sa['in_win'] != L.conn:
            out.append(fail('advertised-connection-window-differs-from-ledger', i, lib=sa['in_win'], ledger=L.conn))
            L.tainted = True
            continue
        for s, v in sa['streams'].items():
            if s not in L.streams:
                continue
            live_before = s in sb['streams'] and sb['streams'][s][0] != 'CLOSED'
            if v[0] == 'CLOSED' or not (live_before or s in new_streams):
                L.streams[s] = v[3]     # frames on closed streams are credited to the connection only
                continue
            if v[3] != L.streams[s]:
                out.append(fail('advertised-stream-window-differs-from-ledger', i, sid=s, lib=v[3], ledger=L.streams[s], state=v[0]))
                L.tainted = True
                break


def oracle_C04(run):
    out = []
    client = roles(run)
    _in_ledger(run, out)
    for i, (op, ol, ml, obs) in enumerate(run.log):
        if obs is None:
            continue
        o = op['op']
        r = res(obs)
        sb, sa = obs['snap_before'], obs['snap_after']
        # a window-changing call that raises changes no window
        if o in ('incr_window', 'ack_data') and r[0] != 'ok':
            wb = (sb['in_win'], dict((s, v[3]) for s, v in sb['streams'].items()))
            wa = (sa['in_win'], dict((s, v[3]) for s, v in sa['streams'].items()))
            if wb != wa:
                out.append(fail('raising-call-changed-window', i, op=o, exc=r[1]))
                continue
        # WINDOW_UPDATE frames written == the amount by which the advertised windows grew
        if o in ('incr_window', 'ack_data') or is_recv(op):
            fr = frames_of(obs.get('appended'))
            if fr is None:
                continue
            wu = {}
            for f in fr:
                if f['type'] == wire.WINDOW_UPDATE:
                    wu[f['sid']] = wu.get(f['sid'], 0) + f['incr']
            if not is_recv(op):
                grew = sa['in_win'] - sb['in_win']
                if grew != wu.get(0, 0):
                    out.append(fail('connection-window-grew-without-matching-window-update', i, grew=grew, emitted=wu.get(0, 0)))
                    continue
                for s, v in sa['streams'].items():
                    if s in sb['streams']:
                        g = v[3] - sb['streams'][s][3]
                        if g != wu.get(s, 0):
                            out.append(fail('stream-window-grew-without-matching-window-update', i, sid=s, grew=g, emitted=wu.get(s, 0)))
                            break
        if o == 'q' and op['what'] == 'remote_window' and r[0] == 'ok':
            s = op['sid']
            if s in sa['streams'] and int(r[1]) != min(sa['in_win'], sa['streams'][s][3]):
                out.append(fail('remote_flow_control_window-not-min', i, sid=s))
        # DATA enforcement: single injected DATA frame
        if is_recv(op):
            c = conn_of(op)
            data = obs.get('xfer_data') if o == 'xfer' else op['data']
            rfs = raw_frames(data)
            if rfs and len(rfs) == 1 and rfs[0]['type'] == wire.DATA and before_buf_empty(run, i, c) and sb['state'] != 'CLOSED':
                f = rfs[0]
                n = len(f['payload'])
                st = sb['streams'].get(f['sid'])
                if n <= sb['max_in'] and st and st[0] in ('OPEN', 'HALF_CLOSED_LOCAL') and st[6] and not (f['flags'] & 8):
                    # an empty frame overruns nothing, also below zero (RFC 7540 6.9.1 / 6.9.2; D43)
                    fits = n == 0 or (n <= sb['in_win'] and n <= st[3])
                    fc_err = (r[0] == 'exc' and r[1] == 'FlowControlError')
                    if fits and fc_err:
                        out.append(fail('fitting-data-rejected-for-flow-control', i, n=n, conn=sb['in_win'], stream=st[3]))
                    if not fits and not (fc_err and r[2] == 3):
                        out.append(fail('overrunning-data-not-flow-control-error', i, n=n, conn=sb['in_win'], stream=st[3], got=obs['res']))
                    if fits and r[0] == 'ok':
                        if sa['in_win'] != sb['in_win'] - n + sum(x['incr'] for x in frames_of(obs.get('appended')) or [] if x['type'] == wire.WINDOW_UPDATE and x['sid'] == 0):
                            out.append(fail('connection-window-not-reduced-by-data', i, n=n))
    return out


# ---------------------------------------------------------------------------
# C05  automatic window management
# ---------------------------------------------------------------------------
def oracle_C05(run):
    """evaluated on programs of the `autoflow` profile, where every DataReceived is acknowledged"""
    out = []
    import h2.events as EV
    st = {}
    # the windows the automatic management works on are the advertised ones: own ledger (shared with C04)
    _in_ledger(run, out)
    for i, (op, ol, ml, obs) in enumerate(run.log):
        if obs is None:
            continue
        c = conn_of(op)
        S = st.setdefault(c, {'recv': 0, 'acked': 0, 'emitted': 0, 'srecv': {}, 'sacked': {}, 'semitted': {}, 'taint': False})
        if S['taint']:
            continue
        r = res(obs)
        sa = obs['snap_after']
        fr = frames_of(obs.get('appended'))
        if fr is None:
            S['taint'] = True
            continue
        for f in fr:
            if f['type'] == wire.WINDOW_UPDATE:
                if f['sid'] == 0:
                    S['emitted'] += f['incr']
                else:
                    S['semitted'][f['sid']] = S['semitted'].get(f['sid'], 0) + f['incr']
        if is_recv(op):
            if r[0] != 'ok':
                S['taint'] = True
                continue
            for e in obs['raw_events']:
                if isinstance(e, EV.DataReceived):
                    S['recv'] += e.flow_controlled_length
                    S['srecv'][e.stream_id] = S['srecv'].get(e.stream_id, 0) + e.flow_controlled_length
            # DATA on closed streams is acknowledged by the library itself: its bytes are not the application's
            # to acknowledge; they show up as a drop of the connection window without an event.
        if op['op'] == 'ack_data' and r[0] == 'ok':
            S['acked'] += op['size']
            S['sacked'][op['sid']] = S['sacked'].get(op['sid'], 0) + op['size']
        if op['op'] == 'incr_window' and r[0] == 'ok':
            S['taint'] = True          # manual increments are outside the automatic discipline
            continue
        # over-credit: what was emitted for the connection never exceeds what was acknowledged (+ auto-acked)
        auto = getattr(run, '_auto_acked', {}).get(c, 0)
        if sa['in_win'] > sa['in_max'] or sa['in_max'] > MAX31:
            out.append(fail('window-above-maximum', i, win=sa['in_win'], max=sa['in_max']))
            S['taint'] = True
            continue
        for s, v in sa['streams'].items():
            if v[4] is not None and (v[3] > v[4] or v[4] > MAX31):
                out.append(fail('stream-window-above-maximum', i, sid=s, win=v[3], max=v[4]))
                S['taint'] = True
                break
        if S['taint']:
            continue
        if op['op'] == 'ack_data' and r[0] == 'ok':
            if S['acked'] > S['recv']:
                S['taint'] = True      # the application over-acknowledged: outside the discipline
                continue
            for s, n in S['semitted'].items():
                if n > S['sacked'].get(s, 0):
                    out.append(fail('stream-over-credit', i, sid=s, emitted=n, acked=S['sacked'].get(s, 0)))
                    S['taint'] = True
        # stall: everything acknowledged and still nothing to receive into.  Judged where the advertised window
        # can change with nothing outstanding: after an acknowledgement, and after a delivery that acknowledged
        # our own SETTINGS (an INITIAL_WINDOW_SIZE change moves every stream window, RFC 7540 6.9.2).
        after = None
        if op['op'] == 'ack_data' and r[0] == 'ok':
            after = 'ack'
        elif is_recv(op) and r[0] == 'ok' and any(isinstance(e, EV.SettingsAcknowledged) for e in obs['raw_events']):
            after = 'settings-ack'
        # the connection's window: whatever the library acknowledged on the application's behalf (DATA for closed
        # streams) and whatever the application acknowledged must have come back.  Judged after every delivery and
        # acknowledgement that leaves nothing with the application.
        if (after or (is_recv(op) and r[0] == 'ok')) and not S['taint'] and S['acked'] == S['recv'] and sa['state'] != 'CLOSED' \
                and sa['in_max'] > 0 and sa['in_win'] <= 0:
            out.append(fail('connection-window-stalled', i, win=sa['in_win'], max=sa['in_max'], after=after or 'delivery'))
            S['taint'] = True
            continue
        if after and not S['taint'] and S['acked'] == S['recv'] and sa['state'] != 'CLOSED':
            for s, v in sa['streams'].items():
                if v[0] in ('OPEN', 'HALF_CLOSED_LOCAL') and S['sacked'].get(s, 0) == S['srecv'].get(s, 0) \
                        and v[4] is not None and v[4] > 0 and v[3] <= 0:
                    out.append(fail('stream-window-stalled', i, sid=s, win=v[3], max=v[4], after=after))
                    S['taint'] = True
                    break
    return out


# ---------------------------------------------------------------------------
# C07  received events follow the message grammar
# ---------------------------------------------------------------------------
def oracle_C07(run):
    out = []
    import h2.events as EV
    client = roles(run)
    per = {}
    for i, (op, ol, ml, obs) in enumerate(run.log):
        if obs is None or not is_recv(op) or res(obs)[0] != 'ok':
            continue
        c = conn_of(op)
        evs = obs['raw_events']
        for k, e in enumerate(evs):
            nm = type(e).__name__
            # related events
            for attr, want in (('stream_ended', EV.StreamEnded), ('priority_updated', EV.PriorityUpdated)):
                x = getattr(e, attr, None)
                if x is not None:
                    pos = [j for j, y in enumerate(evs) if y is x]
                    if not pos or pos[0] <= k or not isinstance(x, want):
                        out.append(fail('related-event-not-later-in-list', i, event=nm, attr=attr))
            if isinstance(e, EV.TrailersReceived) and e.stream_ended is None:
                out.append(fail('trailers-without-stream-ended', i))
            # role
            if client[c] and isinstance(e, EV.RequestReceived):
                out.append(fail('client-reported-request', i, sid=e.stream_id))
            if not client[c] and isinstance(e, (EV.ResponseReceived, EV.InformationalResponseReceived, EV.PushedStreamReceived)):
                out.append(fail('server-reported-response-or-push', i, event=nm))
            sid = getattr(e, 'stream_id', None)
            if sid is None or isinstance(e, (EV.WindowUpdated, EV.PriorityUpdated)):
                continue
            g = per.setdefault((c, sid), {'phase': 'start', 'ended': False, 'reset': False})
            if g['reset'] and not isinstance(e, EV.PriorityUpdated):
                out.append(fail('event-after-stream-reset', i, sid=sid, event=nm))
                continue
            if isinstance(e, EV.StreamReset):
                g['reset'] = True
                continue
            if isinstance(e, EV.StreamEnded):
                if g['ended']:
                    out.append(fail('second-stream-ended', i, sid=sid))
                g['ended'] = True
                continue
            if g['ended']:
                out.append(fail('event-after-stream-ended', i, sid=sid, event=nm))
                continue
            if isinstance(e, (EV.RequestReceived, EV.ResponseReceived)):
                if g['phase'] != 'start':
                    out.append(fail('second-final-headers', i, sid=sid, event=nm))
                g['phase'] = 'body'
            elif isinstance(e, EV.InformationalResponseReceived):
                if g['phase'] != 'start':
                    out.append(fail('informational-after-final', i, sid=sid))
            elif isinstance(e, EV.DataReceived):
                if g['phase'] != 'body':
                    out.append(fail('data-outside-body', i, sid=sid, phase=g['phase']))
            elif isinstance(e, EV.TrailersReceived):
                if g['phase'] != 'body':
                    out.append(fail('trailers-outside-body', i, sid=sid, phase=g['phase']))
                g['phase'] = 'trailers'
        if out:
            break
    return out


# ---------------------------------------------------------------------------
# C08  send-side message rules
# ---------------------------------------------------------------------------
def is_info(headers):
    for h in headers:
        n, v = h[0], h[1]
        nb = n if isinstance(n, bytes) else n.encode()
        if not nb.startswith(b':'):
            return False
        if nb == b':status':
            vb = v if isinstance(v, bytes) else v.encode()
            return vb.startswith(b'1')
    return False


def oracle_C08(run):
    out = []
    client = roles(run)
    per = {}
    for i, (op, ol, ml, obs) in enumerate(run.log):
        if obs is None:
            continue
        o = op['op']
        c = op.get('c')
        ok = res(obs)[0] == 'ok'
        if o == 'initiate_upgrade' and ok:
            per[(c, 1)] = {'final': bool(client[c]), 'trailers': False, 'ended': bool(client[c]), 'opened_by': 'upgrade'}
        if is_recv(op):
            # streams the peer opened (or we promised) are known from the snapshots
            cc = conn_of(op)
            for s in obs['snap_after']['streams']:
                if s not in obs['snap_before']['streams']:
                    per.setdefault((cc, s), {'final': False, 'trailers': False, 'ended': False, 'opened_by': 'peer'})
            continue
        if o not in ('send_headers', 'send_data', 'end_stream', 'push_stream', 'prioritize', 'altsvc'):
            continue
        if not ok:
            continue
        sid = op.get('sid')
        if client[c] and o in ('push_stream', 'altsvc'):
            out.append(fail('client-%s-succeeded' % o, i))
            continue
        if not client[c] and o == 'prioritize':
            out.append(fail('server-prioritize-succeeded', i))
            continue
        if o == 'push_stream':
            per[(c, op['promised'])] = {'final': False, 'trailers': False, 'ended': False, 'opened_by': 'push'}
            continue
        if o in ('prioritize', 'altsvc'):
            continue
        g = per.get((c, sid))
        if o == 'send_headers':
            if g is None:
                if not client[c]:
                    out.append(fail('server-opened-stream-with-headers', i, sid=sid))
                    continue
                g = per[(c, sid)] = {'final': False, 'trailers': False, 'ended': False, 'opened_by': 'self'}
            info = (not client[c]) and is_info(op['headers'])
            if g['ended']:
                out.append(fail('send-after-end-stream', i, sid=sid, op=o))
                continue
            if g['trailers']:
                out.append(fail('headers-after-trailers', i, sid=sid))
                continue
            if info:
                if g['final']:
                    out.append(fail('informational-after-final', i, sid=sid))
                continue
            if g['final']:
                g['trailers'] = True
                if not op.get('es'):
                    out.append(fail('trailers-without-end-stream', i, sid=sid))
            else:
                g['final'] = True
            if op.get('es'):
                g['ended'] = True
        else:
            if g is None:
                # DATA / END_STREAM went out on a stream that nobody opened: no successful send_headers, no
                # request from the peer, no promise, no upgrade
                out.append(fail('data-or-end-stream-before-final-headers', i, sid=sid, op=o, opened_by='nobody'))
                continue
            if g['ended']:
                out.append(fail('send-after-end-stream', i, sid=sid, op=o))
                continue
            if not g['final']:
                out.append(fail('data-or-end-stream-before-final-headers', i, sid=sid, op=o, opened_by=g['opened_by']))
                continue
            if o == 'end_stream' or op.get('es'):
                g['ended'] = True
    return out


# ---------------------------------------------------------------------------
# C09  stream identifiers
# ---------------------------------------------------------------------------
def oracle_C09(run):
    out = []
    client = roles(run)
    last_opened = {}
    for i, (op, ol, ml, obs) in enumerate(run.log):
        if obs is None:
            continue
        o = op['op']
        c = conn_of(op)
        sb, sa = obs['snap_before'], obs['snap_after']
        r = res(obs)
        if o == 'q' and op['what'] == 'next_stream_id':
            par = 1 if client[c] else 0
            want = sb['hi_out'] + 2 if sb['hi_out'] else (1 if client[c] else 2)
            if want > MAX31:
                if not (r[0] == 'exc' and r[1] == 'NoAvailableStreamIDError'):
                    out.append(fail('next-id-exhaustion', i, got=obs['res']))
            elif not (r[0] == 'ok' and int(r[1]) == want):
                out.append(fail('next-id-wrong', i, got=obs['res'], want=want))
        # ids opened or promised locally: strictly increasing, own parity, in range
        if o in ('send_headers', 'push_stream') and r[0] == 'ok':
            new = [s for s in sa['streams'] if s not in sb['streams']]
            own = 1 if client[c] else 0
            for s in new:
                prev = last_opened.get(c, 0)
                if s % 2 != own or not (1 <= s <= MAX31) or s <= prev:
                    out.append(fail('locally-opened-id-invalid', i, sid=s, previous=prev))
                last_opened[c] = max(prev, s)
        # PRIORITY only: no stream opens or closes
        if is_recv(op):
            data = obs.get('xfer_data') if o == 'xfer' else op['data']
            rfs = raw_frames(data)
            if rfs and all(f['type'] == wire.PRIORITY for f in rfs) and before_buf_empty(run, i, c) and r[0] == 'ok':
                if set(sa['streams']) != set(sb['streams']) or sa['hi_in'] != sb['hi_in'] or sa['hi_out'] != sb['hi_out'] \
                        or dict((k, v[0]) for k, v in sa['streams'].items()) != dict((k, v[0]) for k, v in sb['streams'].items()):
                    out.append(fail('priority-frame-changed-streams', i))
            # a peer HEADERS that would open a stream with a bad id
            if rfs and len(rfs) == 1 and rfs[0]['type'] == wire.HEADERS and (rfs[0]['flags'] & 4) and before_buf_empty(run, i, c) \
                    and sb['state'] != 'CLOSED' and len(rfs[0]['payload']) <= sb['max_in']:
                sid = rfs[0]['sid']
                if sid and sid not in sb['streams']:
                    peer_par = 0 if client[c] else 1
                    if sid % 2 != peer_par or sid <= sb['hi_in']:
                        own_id = (sid % 2 != peer_par)
                        closed_by = (sb['closed'] or {}).get(sid)
                        dec_ok = obs['dec_recs'] and obs['dec_recs'][-1]['res'][0] == 'ok'
                        if not dec_ok:
                            continue
                        fr = frames_of(obs.get('appended')) or []
                        if closed_by in ('SEND_RST_STREAM', 'RECV_RST_STREAM') and not own_id or (own_id and closed_by in ('SEND_RST_STREAM', 'RECV_RST_STREAM')):
                            if not (r[0] == 'ok' and any(f['type'] == wire.RST_STREAM and f['sid'] == sid for f in fr)):
                                out.append(fail('headers-on-reset-stream-not-stream-error', i, sid=sid, got=obs['res']))
                        elif closed_by in ('SEND_END_STREAM', 'RECV_END_STREAM'):
                            if not (r[0] == 'exc' and r[2] == 5):
                                out.append(fail('headers-on-ended-stream-not-STREAM_CLOSED', i, sid=sid, got=obs['res']))
                        elif sb['closed'] is not None and closed_by is None and sid > 0:
                            if not (r[0] == 'exc' and r[2] == 1):
                                out.append(fail('bad-stream-id-not-PROTOCOL_ERROR', i, sid=sid, got=obs['res']))
            # a PUSH_PROMISE that promises an id which is not idle (RFC 7540 5.1.1 / 6.6): judged like HEADERS on it
            if rfs and len(rfs) == 1 and rfs[0]['type'] == wire.PUSH_PROMISE and (rfs[0]['flags'] & 4) and not (rfs[0]['flags'] & 8) \
                    and before_buf_empty(run, i, c) and client[c] and sb['state'] == 'CLIENT_OPEN' and len(rfs[0]['payload']) <= sb['max_in'] \
                    and len(rfs[0]['payload']) >= 4 and (sb['local'].get(2) or [1])[0] == 1:
                parent = rfs[0]['sid']
                promised = struct.unpack('>I', rfs[0]['payload'][:4])[0] & 0x7FFFFFFF
                pst = sb['streams'].get(parent)
                dec_ok = obs['dec_recs'] and obs['dec_recs'][-1]['res'][0] == 'ok'
                if pst and parent % 2 == 1 and pst[0] in ('OPEN', 'HALF_CLOSED_LOCAL') and dec_ok and promised > 0:
                    mark = sb['hi_out'] if promised % 2 == 1 else sb['hi_in']
                    if promised <= mark:
                        if promised in sb['streams']:
                            closed_by = sb['streams'][promised][1]
                        else:
                            closed_by = (sb['closed'] or {}).get(promised)
                        fr = frames_of(obs.get('appended')) or []
                        if closed_by in ('SEND_RST_STREAM', 'RECV_RST_STREAM'):
                            if not (r[0] == 'ok' and any(f['type'] == wire.RST_STREAM and f['sid'] == promised and f['code'] == 5 for f in fr)):
                                out.append(fail('promise-of-reset-stream-not-stream-error', i, promised=promised, got=obs['res']))
                        elif closed_by in ('SEND_END_STREAM', 'RECV_END_STREAM'):
                            if not (r[0] == 'exc' and r[2] == 5):
                                out.append(fail('promise-of-ended-stream-not-STREAM_CLOSED', i, promised=promised, got=obs['res']))
                        elif sb['closed'] is not None and closed_by is None:
                            if not (r[0] == 'exc' and r[2] == 1):
                                out.append(fail('promise-of-used-id-not-PROTOCOL_ERROR', i, promised=promised, got=obs['res']))
    return out


# ---------------------------------------------------------------------------
# C10  concurrent streams
# ---------------------------------------------------------------------------
def oracle_C10(run):
    out = []
    client = roles(run)
    acked = {}      # conn -> {'limit': acknowledged local MAX_CONCURRENT_STREAMS, 'pending': [settings of frames in flight], 'taint'}
    for i, (op, ol, ml, obs) in enumerate(run.log):
        if op['op'] == 'new':
            ls = dict(op.get('ls') or [])
            acked[op['c']] = {'limit': ls.get(3, 100), 'pending': [], 'taint': False}
            continue
        if obs is None:
            continue
        o = op['op']
        c = conn_of(op)
        sb, sa = obs['snap_before'], obs['snap_after']
        r = res(obs)
        own = 1 if client[c] else 0
        A = acked.get(c)
        if A is not None and A.get('taint_after') is not None and i > A['taint_after']:
            A['taint'] = True
        if A is not None and not A['taint']:
            if o == 'update_settings' and r[0] == 'ok':
                A['pending'].append(dict(op['settings']))
                # acknowledgements are matched per setting by the library (known finding D8, C11): with frames in flight
                # that carry other settings as well, which ACK moves this one is not what this property is about
                if len(A['pending']) > 1 and any(set(p_) - {3} for p_ in A['pending']):
                    A['taint'] = True
            elif o in ('initiate_connection', 'initiate_upgrade') and r[0] == 'ok':
                A['pending'].append({})
            elif is_recv(op):
                data = obs.get('xfer_data') if o == 'xfer' else op['data']
                rfs0 = raw_frames(data) if before_buf_empty(run, i, c) and buflen(ol) == '0' else None
                if rfs0 is None:
                    A['taint'] = True
                else:
                    for f in rfs0:
                        if f['type'] == wire.SETTINGS and (f['flags'] & 1) and not f['payload']:
                            if A['pending']:
                                fr0 = A['pending'].pop(0)
                                if 3 in fr0:
                                    A['limit'] = fr0[3]
                    if r[0] != 'ok':
                        A['taint_after'] = i      # a refused delivery is still judged itself; nothing after it is

        def count(snap, par):
            return sum(1 for s, v in snap['streams'].items() if s % 2 == par and v[0] in ('OPEN', 'HALF_CLOSED_LOCAL', 'HALF_CLOSED_REMOTE'))
        if o == 'q' and op['what'] in ('open_out', 'open_in') and r[0] == 'ok':
            want = count(sb, own if op['what'] == 'open_out' else 1 - own)
            if int(r[1]) != want:
                out.append(fail('open-stream-count', i, what=op['what'], got=int(r[1]), want=want))
        limit_remote = sa['remote'].get(3, [2**32 + 1])[0]
        if limit_remote is None:
            limit_remote = 2**32 + 1
        if o in FRAME_CALLS or o == 'ack_data':
            n = count(sa, own)
            nb = count(sb, own)
            if n > nb and n > limit_remote:
                via = 'reserved-stream' if any(v[0] == 'RESERVED_LOCAL' and sa['streams'].get(s_, ('',))[0] in
                                               ('OPEN', 'HALF_CLOSED_LOCAL', 'HALF_CLOSED_REMOTE')
                                               for s_, v in sb['streams'].items()) else 'new-stream'
                out.append(fail('outbound-streams-exceed-peer-limit', i, via=via, op=o))
                continue
        if r[0] == 'exc' and r[1] == 'TooManyStreamsError' and not is_recv(op) and \
                not (o == 'send_headers' and (op.get('sid') not in sb['streams'] or sb['streams'][op['sid']][0] == 'RESERVED_LOCAL')):
            # the limit is about streams becoming open, and the only call that makes one open is send_headers — on a new
            # id, or on a reserved stream (which the library does not check: known finding D22): a promise reserves its
            # stream (reserved streams do not count), everything else acts on streams that are open already
            out.append(fail('limit-applied-to-a-call-that-opens-nothing', i, op=o, open=count(sb, own),
                            limit=sb['remote'].get(3, [None])[0]))
            continue
        if o == 'send_headers' and client[c] and op['sid'] not in sb['streams'] and sb['state'] != 'CLOSED':
            nb = count(sb, own)
            lim = sb['remote'].get(3, [2**32 + 1])[0]
            # (a call that is invalid for another reason as well may be refused for that reason first)
            if lim is not None and nb + 1 > lim and r[0] == 'ok':
                out.append(fail('opening-over-limit-not-refused', i, open=nb, limit=lim, got=obs['res']))
            if lim is not None and nb + 1 > lim and obs['out'] != '+.':
                out.append(fail('refused-opening-emitted-bytes', i))
        if is_recv(op):
            n = count(sa, 1 - own)
            nb = count(sb, 1 - own)
            lim = sb['local'].get(3, [2**32 + 1])[0]
            if lim is not None and n > nb and n > lim and r[0] == 'ok':
                data = obs.get('xfer_data') if o == 'xfer' else op['data']
                rfs = raw_frames(data)
                if rfs and before_buf_empty(run, i, c) and not any(f['type'] == wire.SETTINGS for f in rfs):
                    via = 'reserved-stream' if any(v[0] == 'RESERVED_REMOTE' and sa['streams'].get(s_, ('',))[0] in
                                                   ('OPEN', 'HALF_CLOSED_LOCAL', 'HALF_CLOSED_REMOTE')
                                                   for s_, v in sb['streams'].items()) else 'new-stream'
                    out.append(fail('inbound-streams-exceed-local-limit', i, via=via))
            # the limit in force is the last acknowledged one (an own record of the update_settings calls and of the
            # peer's ACK frames, not the library's settings object): a stream that fits it is not refused
            A = acked.get(c)
            if A is not None and not A['taint'] and r[0] == 'exc' and r[1] == 'TooManyStreamsError' and nb + 1 <= A['limit']:
                data = obs.get('xfer_data') if o == 'xfer' else op['data']
                rfs = raw_frames(data)
                if rfs and len(rfs) == 1 and rfs[0]['type'] == wire.HEADERS and before_buf_empty(run, i, c):
                    out.append(fail('stream-within-acknowledged-limit-refused', i, open=nb, acknowledged_limit=A['limit'],
                                    library_limit=lim))
            # the limit is about opening streams: a delivery in which no frame opens one is never refused for it
            if r[0] == 'exc' and r[1] == 'TooManyStreamsError':
                data = obs.get('xfer_data') if o == 'xfer' else op['data']
                rfs = raw_frames(data)
                if rfs and before_buf_empty(run, i, c):
                    client_side = run.world.conns[c].client
                    opens = any(f['type'] == wire.HEADERS and f['sid'] > sb['hi_in'] and (f['sid'] % 2 == 1) != client_side
                                for f in rfs)
                    if not opens:
                        out.append(fail('limit-applied-to-a-frame-that-opens-nothing', i,
                                        frames=[(f['type'], f['sid']) for f in rfs][:6], hi_in=sb['hi_in']))
    return out


# ---------------------------------------------------------------------------
# C13  header compression stays synchronised (independent decoder)
# ---------------------------------------------------------------------------
def oracle_C13(run):
    """feeds every header block found in each connection's output to an independent hpack.Decoder"""
    out = []
    import hpack
    decs = {}
    pending = {}
    for i, (op, ol, ml, obs) in enumerate(run.log):
        if obs is None or op['op'] in ('new',):
            continue
        c = op.get('c') if not is_recv(op) else conn_of(op)
        D = decs.get(c)
        if D is None:
            D = decs[c] = hpack.Decoder()
            D.max_header_list_size = 2**30
            D.max_allowed_table_size = 2**32    # above any HEADER_TABLE_SIZE a peer can announce
            pending[c] = {'buf': b'', 'expect': [], 'taint': False}
        P = pending[c]
        if P['taint']:
            continue
        # a raising header-carrying call leaves the compression context alone
        if op['op'] in ('send_headers', 'push_stream') and res(obs)[0] != 'ok':
            if any(r['k'] == 'enc' for r in obs['enc_recs']):
                out.append(fail('raising-call-touched-encoder', i, op=op['op'], exc=obs['res'],
                                fed=len([r for r in obs['enc_recs'] if r['k'] == 'enc'][0]['fed'])))
                P['taint'] = True
                continue
        app = obs.get('appended')
        if app is None:
            P['taint'] = True
            continue
        fr = frames_of(app[24:] if app.startswith(wire.PREFACE) else app)
        if fr is None:
            P['taint'] = True
            continue
        fed = [r for r in obs['enc_recs'] if r['k'] == 'enc' and r['done']]
        blocks = []
        cur = None
        for f in fr:
            if f['type'] in (wire.HEADERS, wire.PUSH_PROMISE):
                cur = f['block']
                if f['end_headers']:
                    blocks.append(cur)
                    cur = None
            elif f['type'] == wire.CONTINUATION and cur is not None:
                cur += f['block']
                if f['end_headers']:
                    blocks.append(cur)
                    cur = None
        if len(blocks) != len(fed):
            out.append(fail('header-blocks-differ-from-encode-calls', i, blocks=len(blocks), encodes=len(fed)))
            P['taint'] = True
            continue
        for b, rec in zip(blocks, fed):
            try:
                got = D.decode(b, raw=True)
            except Exception as e:
                out.append(fail('peer-cannot-decode-header-block', i, error=repr(e)[:120]))
                P['taint'] = True
                break
            # (what hpack makes of a field that is no string: its text)
            tb = lambda x: x if isinstance(x, bytes) else (x.encode() if isinstance(x, str) else str(x).encode())
            want = [(tb(h[0]), tb(h[1])) for h in rec['fed']]
            if [(bytes(n), bytes(v)) for n, v in got] != want:
                out.append(fail('decoded-block-differs-from-call', i))
                P['taint'] = True
                break
    return out


# ---------------------------------------------------------------------------
# C14  outbound header blocks are normalised and conformant (independent HPACK decode of the output)
# ---------------------------------------------------------------------------
def _out_blocks(fr):
    """[(first frame type, sid, block)] of the header blocks in a frame list"""
    blocks, cur = [], None
    for f in fr:
        if f['type'] in (wire.HEADERS, wire.PUSH_PROMISE):
            cur = [f['type'], f['sid'], f['block']]
            if f['end_headers']:
                blocks.append(tuple(cur))
                cur = None
        elif f['type'] == wire.CONTINUATION and cur is not None:
            cur[2] += f['block']
            if f['end_headers']:
                blocks.append(tuple(cur))
                cur = None
    return blocks


def oracle_C14(run):
    """every header block found in a connection's output is decoded by an independent hpack.Decoder (one per connection,
    fed in order) and held to the rules its configuration promises: with normalize_outbound_headers the per-field rules
    (lowercase, trimmed, no connection-specific field, sensitive fields never-indexed) and equality with the
    independently normalised argument list; with validate_outbound_headers the block rules for the block's type.  A
    header-carrying call whose (normalised) list breaks a block rule must have been refused with ProtocolError when
    validation is on."""
    import hpack
    import rulebook
    from hpack.struct import NeverIndexedHeaderTuple
    out = []
    client = roles(run)
    cfgs, decs, taint = {}, {}, set()
    final_sent = set()          # (conn, sid) whose final (non-1xx) response / request headers have been sent
    for i, (op, ol, ml, obs) in enumerate(run.log):
        if op['op'] == 'new':
            cfgs[op['c']] = op
            continue
        if obs is None:
            continue
        c = conn_of(op) if is_recv(op) else op.get('c', 0)
        if c in taint:
            continue
        cfg = cfgs.get(c) or {}
        vo, no = bool(cfg.get('vo', 1)), bool(cfg.get('no', 1))
        app = obs.get('appended')
        if app is None:
            taint.add(c)
            continue
        fr = frames_of(app[24:] if app.startswith(wire.PREFACE) else app)
        if fr is None:
            taint.add(c)
            continue
        D = decs.get(c)
        if D is None:
            D = decs[c] = hpack.Decoder()
            D.max_header_list_size = 2**30
            D.max_allowed_table_size = 2**32    # above any HEADER_TABLE_SIZE a peer can announce
        blocks = _out_blocks(fr)
        o = op['op']
        r = res(obs)
        hdr_call = o in ('send_headers', 'push_stream')
        ill = hdr_call and _ill_typed_headers(op)
        if ill and r[0] == 'ok':
            # a str/bytes mix that hpack happened to swallow: what kind of block went out (and so what the stream's next
            # block is) cannot be told from an argument list that is no header list — this connection is left alone
            taint.add(c)
            continue
        args = None
        if hdr_call and not ill:
            args = [(h[0], h[1]) for h in op['headers']]
        # block kind
        kind = None
        if o == 'push_stream':
            kind = 'push'
        elif o == 'send_headers':
            sid = op['sid']
            if client[c]:
                kind = 'trailers' if (c, sid) in final_sent else 'request'
            else:
                first_status = None
                if args:
                    for n, v in args:
                        nb = rulebook.to_bytes(n)
                        if not nb.startswith(b':'):
                            break
                        if nb == b':status':
                            first_status = rulebook.to_bytes(v)
                            break
                if (c, sid) in final_sent:
                    kind = 'trailers'
                elif first_status is not None and first_status[:1] == b'1':
                    kind = 'informational'
                else:
                    kind = 'response'
        for (ft, bsid, b) in blocks:
            try:
                got = D.decode(b, raw=True)
            except Exception as e:
                taint.add(c)          # C13's business
                break
            hs = [(bytes(h[0]), bytes(h[1])) for h in got]
            if not hdr_call or len(blocks) != 1:
                continue
            if no:
                for (n, v), h in zip(hs, got):
                    p = rulebook.field_problem_out(n, v)
                    if p:
                        out.append(fail('emitted-field-not-normalised', i, rule=p, field=repr((n, v))[:120]))
                        break
                    # (an empty value is the static-table entry itself: it goes out as an index, there is no literal to protect)
                    if (n in rulebook.SENSITIVE or (n == b'cookie' and len(v) < 20)) and v != b'' \
                            and not isinstance(h, NeverIndexedHeaderTuple):
                        out.append(fail('sensitive-field-not-never-indexed', i, field=repr((n, v))[:120]))
                        break
                else:
                    if args is not None:
                        want = [(n, v) for n, v, _ in rulebook.normalise_out(args)]
                        if hs != want:
                            out.append(fail('emitted-block-is-not-the-normalised-argument', i, got=repr(hs)[:200], want=repr(want)[:200]))
            elif args is not None:
                want = [(rulebook.to_bytes(n), rulebook.to_bytes(v)) for n, v in args]
                if hs != want:
                    out.append(fail('emitted-block-is-not-the-argument', i, got=repr(hs)[:200], want=repr(want)[:200]))
            if vo and kind:
                p = rulebook.block_problem_out(hs, kind)
                if p:
                    out.append(fail('emitted-block-breaks-a-rule', i, kind=kind, rule=p, block=repr(hs)[:300]))
        if c in taint:
            continue
        # refusal of what normalisation cannot repair (directed histories say that the stream state admits the call)
        a = op.get('expect')
        if a and hdr_call and vo and args is not None:
            lst = [(n, v) for n, v, _ in rulebook.normalise_out(args)] if no else [(rulebook.to_bytes(n), rulebook.to_bytes(v)) for n, v in args]
            p = rulebook.block_problem_out(lst, a['kind'])
            if p and r[0] == 'ok':
                if not any(f['idx'] == i for f in out):
                    out.append(fail('unrepairable-block-not-refused', i, kind=a['kind'], rule=p))
            elif p and not (r[0] == 'exc' and is_protocol_error(obs)):
                out.append(fail('refusal-is-not-ProtocolError', i, kind=a['kind'], rule=p, res=obs['res']))
            # (a refusal of a repairable list is not a violation of C14: the property promises nothing about acceptance)
        if o == 'send_headers' and r[0] == 'ok' and kind in ('request', 'response'):
            final_sent.add((c, op['sid']))
    return out


# ---------------------------------------------------------------------------
# C21  chunking independence (evaluated by the dedicated runner in checklib)
# ---------------------------------------------------------------------------

# ---------------------------------------------------------------------------
# C02  emitted bytes are well formed and exact
# ---------------------------------------------------------------------------
def oracle_C02(run):
    out = []
    client = roles(run)
    open_block = {}
    started = {}
    for i, (op, ol, ml, obs) in enumerate(run.log):
        if obs is None or op['op'] in ('new',):
            continue
        c = conn_of(op)
        app = obs.get('appended')
        if app is None:
            continue
        o = op['op']
        if not started.get(c):
            if not app:
                continue
            body = app
            if client[c]:
                if not app.startswith(wire.PREFACE):
                    if o in ('initiate_connection', 'initiate_upgrade'):
                        out.append(fail('client-output-does-not-start-with-preface', i))
                    continue
                body = app[24:]
            fr = frames_of(body)
            if o in ('initiate_connection', 'initiate_upgrade'):
                if not fr or fr[0]['type'] != wire.SETTINGS or fr[0]['ack']:
                    out.append(fail('output-does-not-start-with-settings', i))
                    continue
                started[c] = True
            else:
                continue      # output before initiate_connection: outside the property's quantifier
        else:
            fr = frames_of(app)
        if fr is None:
            out.append(fail('emitted-bytes-do-not-parse', i, op=o))
            continue
        limit = obs['snap_before']['max_out']
        limit_after = obs['snap_after']['max_out']
        for f in fr:
            if f['len'] > max(limit, limit_after):
                out.append(fail('frame-exceeds-peer-max-frame-size', i, op=o, frame=f['name'], length=f['len'], limit=limit))
                break
            ob = open_block.get(c)
            if ob is not None:
                if f['type'] != wire.CONTINUATION or f['sid'] != ob:
                    out.append(fail('header-block-not-contiguous', i, frame=f['name']))
                    break
                if f['end_headers']:
                    open_block[c] = None
            else:
                if f['type'] == wire.CONTINUATION:
                    out.append(fail('continuation-without-open-block', i))
                    break
                if f['type'] in (wire.HEADERS, wire.PUSH_PROMISE) and not f['end_headers']:
                    open_block[c] = f['sid']
        if out:
            break
        if res(obs)[0] != 'ok' or is_recv(op):
            continue
        bad = exact_frames(op, fr, obs, client[c])
        if bad:
            out.append(fail('call-did-not-emit-exactly-its-frames', i, op=o, why=bad))
    return out


def exact_frames(op, fr, obs, is_client):
    o = op['op']
    if o == 'send_data':
        pad = op.get('pad')
        if len(fr) != 1 or fr[0]['type'] != wire.DATA:
            return 'expected one DATA frame'
        f = fr[0]
        if f['sid'] != op['sid'] or f['data'] != op['data'] or f['end_stream'] != bool(op.get('es')) or f['pad'] != pad:
            return 'DATA fields differ'
    elif o == 'end_stream':
        if len(fr) != 1 or fr[0]['type'] != wire.DATA or fr[0]['data'] or not fr[0]['end_stream'] or fr[0]['sid'] != op['sid'] or fr[0]['pad'] is not None:
            return 'expected one empty DATA frame with END_STREAM'
    elif o == 'ping':
        if len(fr) != 1 or fr[0]['type'] != wire.PING or fr[0]['ack'] or fr[0]['data'] != op['data']:
            return 'expected one PING'
    elif o == 'reset_stream':
        if len(fr) != 1 or fr[0]['type'] != wire.RST_STREAM or fr[0]['sid'] != op['sid'] or fr[0]['code'] != op.get('code', 0):
            return 'expected one RST_STREAM with the code'
    elif o == 'incr_window':
        if len(fr) != 1 or fr[0]['type'] != wire.WINDOW_UPDATE or fr[0]['sid'] != (op.get('sid') or 0) or fr[0]['incr'] != op['incr']:
            return 'expected one WINDOW_UPDATE with the increment'
    elif o == 'update_settings':
        if len(fr) != 1 or fr[0]['type'] != wire.SETTINGS or fr[0]['ack'] or [tuple(x) for x in fr[0]['items']] != [tuple(x) for x in op['settings']]:
            if len(fr) == 1 and fr[0]['type'] == wire.SETTINGS and not fr[0]['ack'] and any(k > 255 for k, v in op['settings']) \
                    and [tuple(x) for x in fr[0]['items']] == [(k & 0xFF, v) for k, v in op['settings']]:
                return 'setting identifier above 255 written modulo 256'
            return 'expected one SETTINGS frame with the items'
    elif o == 'close_connection':
        last = op.get('last')
        if last is None:
            last = obs['snap_before']['hi_in']
        if len(fr) != 1 or fr[0]['type'] != wire.GOAWAY or fr[0]['code'] != op.get('code', 0) or fr[0]['last'] != last \
                or fr[0]['extra'] != (op.get('extra') or b''):
            return 'expected one GOAWAY'
    elif o == 'prioritize':
        want = (op.get('pd') or 0, op.get('pw') if op.get('pw') is not None else 16, bool(op.get('pe')))
        if len(fr) != 1 or fr[0]['type'] != wire.PRIORITY or fr[0]['sid'] != op['sid'] or fr[0]['prio'] != want:
            return 'expected one PRIORITY frame %r' % (want,)
    elif o == 'altsvc':
        if len(fr) != 1 or fr[0]['type'] != wire.ALTSVC or fr[0]['field'] != op['field'] or fr[0]['origin'] != (op.get('origin') or b'') \
                or fr[0]['sid'] != (op.get('sid') or 0):
            return 'expected one ALTSVC frame'
    elif o in ('send_headers', 'push_stream'):
        first = wire.HEADERS if o == 'send_headers' else wire.PUSH_PROMISE
        if not fr or fr[0]['type'] != first or fr[0]['sid'] != op['sid'] or any(f['type'] != wire.CONTINUATION or f['sid'] != op['sid'] for f in fr[1:]):
            return 'expected %s then CONTINUATIONs on the stream' % wire.NAMES[first]
        if not fr[-1]['end_headers'] or any(f['end_headers'] for f in fr[:-1]):
            return 'END_HEADERS placement'
        block = b''.join(f['block'] for f in fr)
        enc = [r for r in obs['enc_recs'] if r['k'] == 'enc' and r['done']]
        if len(enc) != 1 or enc[0]['out'] != block:
            return 'fragments do not concatenate to the encoded block'
        if o == 'send_headers':
            if fr[0]['end_stream'] != bool(op.get('es')) or fr[0]['pad'] is not None:
                return 'END_STREAM / padding differ'
            pp = op.get('pw') is not None or op.get('pd') is not None or op.get('pe') is not None
            if pp:
                want = (op.get('pd') or 0, op.get('pw') if op.get('pw') is not None else 16, bool(op.get('pe')))
                if fr[0]['prio'] != want:
                    return 'priority fields differ: %r vs %r' % (fr[0]['prio'], want)
            elif fr[0]['prio'] is not None:
                return 'unexpected priority fields'
        else:
            if fr[0]['promised'] != op['promised']:
                return 'promised id differs'
    elif o == 'ack_data':
        if any(f['type'] != wire.WINDOW_UPDATE for f in fr):
            return 'expected only WINDOW_UPDATE frames'
    elif o in ('q', 'data_to_send', 'clear_out'):
        pass
    return None


# ---------------------------------------------------------------------------
# C21  results do not depend on how bytes are split (metamorphic: re-deliver each run of consecutive deliveries in
# one piece to a fresh copy of the same history and compare)
# ---------------------------------------------------------------------------
import re as _re


def _rel_events(evs):
    """event strings with se=/pu= indices made relative to the event's own position"""
    out = []
    for p, e in enumerate(evs):
        out.append(_re.sub(r'(se|pu)=(\d+)', lambda m: '%s=+%d' % (m.group(1), int(m.group(2)) - p), e))
    return out


def _delivery_groups(ops):
    """maximal runs of consecutive deliveries to the same connection from the same source that can be merged:
    recv recv ... | xfer(n>=0) ... xfer(n=None).  -> list of (start, end_exclusive)"""
    groups, i = [], 0
    while i < len(ops):
        o = ops[i]
        if o['op'] == 'recv':
            j = i
            while j + 1 < len(ops) and ops[j + 1]['op'] == 'recv' and ops[j + 1]['c'] == o['c']:
                j += 1
            groups.append((i, j + 1))
            i = j + 1
        elif o['op'] == 'xfer':
            j = i
            while (ops[j].get('n') is not None and ops[j]['n'] >= 0 and j + 1 < len(ops) and ops[j + 1]['op'] == 'xfer'
                   and ops[j + 1]['c'] == o['c'] and ops[j + 1]['to'] == o['to']):
                j += 1
            if ops[j].get('n') is None:
                groups.append((i, j + 1))
                i = j + 1
            else:
                groups.append((i, i + 1))
                i += 1
        else:
            i += 1
    return groups


def oracle_C21(run):
    from corr import replay
    ops = [op for op, ol, ml, obs in run.log]
    groups = [g for g in _delivery_groups(ops)]
    if not any(b - a > 1 for a, b in groups):
        return []
    # the same history with every group delivered in one piece
    merged, gmap, k = [], {}, 0
    starts = dict((a, b) for a, b in groups)
    i = 0
    while i < len(ops):
        if i in starts:
            b = starts[i]
            first = ops[i]
            if first['op'] == 'recv':
                m = {'op': 'recv', 'c': first['c'], 'data': b''.join(ops[t]['data'] for t in range(i, b))}
            else:
                m = {'op': 'xfer', 'c': first['c'], 'to': first['to'], 'n': ops[b - 1].get('n')}
            gmap[len(merged)] = (i, b)
            merged.append(m)
            i = b
        else:
            merged.append(ops[i])
            i += 1
    r2 = replay(merged, None)
    out = []
    # data_to_send(amount) hands out a prefix of the buffer and keeps the rest
    for i, (op, ol, ml, obs) in enumerate(run.log):
        if op['op'] == 'data_to_send' and obs is not None and obs['res'].startswith('ok'):
            t = obs['res'].split(' ')[1]
            got = b'' if t in ('.', '-') else bytes.fromhex(t)
            if got + obs['outbuf'] != obs['outbuf_before']:
                out.append(fail('data-to-send-not-a-partition', i, amount=op.get('amount')))
                return out
    for mi, (mop, mol, _, mobs) in enumerate(r2.log):
        if mi not in gmap:
            continue
        a, b = gmap[mi]
        # chunked side: events accumulate until the first error
        app, err, stop = b'', None, None
        for t in range(a, b):
            obs = run.log[t][3]
            if obs is None:
                continue
            if obs.get('appended') is None:
                app = None
            elif app is not None:
                app += obs['appended']
            if not obs['res'].startswith('ok'):
                err = obs['res']
                stop = t
                break
        # compare
        werr = None if mobs['res'].startswith('ok') else mobs['res']
        if (err is None) != (werr is None) or (err is not None and err != werr):
            out.append(fail('chunking-changes-error', stop if stop is not None else b - 1, chunked=err, whole=werr, group=[a, b]))
            break
        wapp = mobs.get('appended')
        if app is not None and wapp is not None and app != wapp:
            out.append(fail('chunking-changes-output', stop if stop is not None else b - 1, chunked=app.hex()[:200], whole=wapp.hex()[:200], group=[a, b]))
            break
        if err is None:
            # events: absolute se=/pu= indices are per call; compare with indices relative to the event
            ch = []
            for t in range(a, b):
                obs = run.log[t][3]
                if obs is not None:
                    ch += _rel_events(obs['events'])
            wh = _rel_events(mobs['events'])
            if ch != wh:
                out.append(fail('chunking-changes-events', b - 1, chunked=ch[:6], whole=wh[:6], group=[a, b]))
                break
        else:
            break      # after a connection error the two buffers legitimately differ: stop judging
    return out


# ---------------------------------------------------------------------------
# C27  peer-controlled retained state stays bounded
# ---------------------------------------------------------------------------
NON_OPENING = (wire.PRIORITY, wire.WINDOW_UPDATE, wire.RST_STREAM, wire.PING)


def oracle_C27(run):
    out = []
    pend = {}       # conn -> bytes delivered and not yet part of a complete frame (None: stopped tracking)
    for i, (op, ol, ml, obs) in enumerate(run.log):
        if obs is None:
            continue
        # the receive buffer holds exactly the bytes of the frame that is still incomplete: an own count of what was
        # delivered minus the complete frames in it, against the library's buffer length
        if is_recv(op):
            c0 = conn_of(op)
            d0 = obs.get('xfer_data') if op['op'] == 'xfer' else op['data']
            if pend.get(c0, b'') is not None and d0 is not None:
                if res(obs)[0] != 'ok':
                    pend[c0] = None
                else:
                    buf = pend.get(c0, b'') + strip_preface(run, c0, d0) if not run.world.conns[c0].client else pend.get(c0, b'') + d0
                    while len(buf) >= 9 and len(buf) >= 9 + int.from_bytes(buf[:3], 'big'):
                        buf = buf[9 + int.from_bytes(buf[:3], 'big'):]
                    pend[c0] = buf
                    n0 = buflen(ol)
                    if n0.isdigit() and int(n0) > len(buf):
                        out.append(fail('receive-buffer-holds-more-than-the-incomplete-frame', i, buffered=int(n0), incomplete=len(buf)))
                        break
        # C27_bounded_every_history: the two capped stores, in every state — also after a connection error
        sa = obs.get('snap_after') or {}
        if sa.get('hdr_backlog', 0) > 64:
            out.append(fail('header-block-backlog-above-limit', i, backlog=sa['hdr_backlog']))
            break
        nclosed = None
        for part in (ol or '').split(' | '):
            if part.startswith('st='):
                f = part[3:].split(',')
                nclosed = int(f[1]) if len(f) > 1 and f[1].isdigit() else None
        if nclosed is not None and nclosed > 2 ** 16:
            out.append(fail('closed-stream-memory-above-limit', i, entries=nclosed))
            break
        if not is_recv(op):
            continue
        # the stream table: a delivery leaves no stream behind that is still idle (such a record is neither open — it
        # escapes MAX_CONCURRENT_STREAMS — nor closed — `_open_streams` never moves it to the capped memory), and a
        # connection that is closed takes no new streams at all
        sb0 = obs.get('snap_before') or {}
        idle = sorted(k for k, v in (sa.get('streams') or {}).items() if v[0] == 'IDLE' and k not in (sb0.get('streams') or {}))
        # (a connection error raised between the creation of the stream and its first transition leaves the record idle:
        # the connection is closed by then and takes no further streams — that is the second clause — so only a
        # connection that goes on is judged here)
        if idle and sa.get('state') != 'CLOSED':
            out.append(fail('idle-stream-left-in-the-table', i, streams=idle[:6], state=sa.get('state')))
            break
        if sb0.get('state') == 'CLOSED' and len(sa.get('streams') or {}) > len(sb0.get('streams') or {}):
            out.append(fail('closed-connection-took-a-new-stream', i, before=len(sb0['streams']), after=len(sa['streams'])))
            break
        c = conn_of(op)
        data = obs.get('xfer_data') if op['op'] == 'xfer' else op['data']
        before, after = obs['snap_before'], obs['snap_after']
        rc = run.world.conns[c]
        conn = rc.conn
        # frames that do not open streams allocate no stream state (judged when the whole delivery is such frames,
        # arrives on an empty frame buffer, and the connection has seen the preface)
        rfs = raw_frames(data) if before_buf_empty(run, i, c) and buflen(ol) == '0' else None
        if rfs and all(f['type'] in NON_OPENING or f['type'] > 10 for f in rfs):
            if len(after['streams']) > len(before['streams']):
                out.append(fail('non-opening-frames-allocated-streams', i, before=len(before['streams']), after=len(after['streams'])))
                continue
            if before.get('closed') is not None and after.get('closed') is not None and len(after['closed']) > len(before['closed']):
                out.append(fail('non-opening-frames-grew-closed-stream-memory', i))
                continue
        # the receive buffer never holds more than one incomplete frame (a frame declares at most 2^24-1 bytes; the
        # library checks the declared length against MAX_FRAME_SIZE only once the frame is complete, so the bound is
        # the 24-bit one, not the setting)
        if obs['res'].startswith('ok'):
            n = int(buflen(ol)) if buflen(ol).isdigit() else 0
            if n >= 9 + 2**24:
                out.append(fail('receive-buffer-exceeds-one-frame', i, buffered=n))
                continue
        # closed streams do not pile up in the live table: after a delivery that opened a stream, no other stream of
        # the table that was CLOSED before the delivery is still there
        opened = [s for s in after['streams'] if s not in before['streams']]
        if opened:
            stale = [s for s in after['streams'] if s in before['streams'] and before['streams'][s][0] == 'CLOSED'
                     and s % 2 == opened[0] % 2]
            if stale and obs['res'].startswith('ok'):
                out.append(fail('closed-streams-pile-up', i, stale=stale[:5], opened=opened[:3]))
                continue
    return out


# ---------------------------------------------------------------------------
# C24  alternative services (RFC 7838)
# ---------------------------------------------------------------------------
def oracle_C24(run):
    out = []
    client = roles(run)
    authority = {}          # (conn, stream) -> :authority of the request this client sent on it
    for i, (op, ol, ml, obs) in enumerate(run.log):
        if obs is None:
            continue
        o = op['op']
        c = conn_of(op)
        sb = obs['snap_before']
        r = res(obs)
        if o == 'send_headers' and client[c] and r[0] == 'ok' and op['sid'] not in sb['streams']:
            for n, v, _ in op['headers']:
                nb = n.encode('utf-8') if isinstance(n, str) else n
                if nb.strip().lower() == b':authority':
                    # the library remembers the first one; a list with several is judged by C14, not here
                    if (c, op['sid']) in authority:
                        authority[(c, op['sid'])] = None
                    else:
                        authority[(c, op['sid'])] = (v.encode('utf-8') if isinstance(v, str) else v).strip()
        if is_recv(op) and client.get(c) and r[0] == 'ok':
            # a promised stream's request is the one in the PUSH_PROMISE: its :authority is the stream's origin
            import h2.events as EV24
            for e in obs['raw_events']:
                if isinstance(e, EV24.PushedStreamReceived):
                    auth = [v for n, v in e.headers if (n if isinstance(n, bytes) else n.encode('utf-8')) == b':authority']
                    if len(auth) == 1:
                        a0 = auth[0]
                        authority[(c, e.pushed_stream_id)] = a0 if isinstance(a0, bytes) else a0.encode('utf-8')
        if o == 'altsvc':
            origin, sid = op.get('origin'), op.get('sid')
            fr = raw_frames(obs.get('appended') or b'')
            alt = [f for f in (fr or []) if f['type'] == wire.ALTSVC]
            if (origin is not None) == (sid is not None):
                if r != ('py', 'ValueError') or obs['out'] != '+.':
                    out.append(fail('origin-xor-stream-not-enforced', i, got=obs['res']))
                continue
            if client[c]:
                if r[0] != 'exc' or obs['out'] != '+.':
                    out.append(fail('client-advertised', i, got=obs['res']))
                continue
            if r[0] == 'ok':
                if len(alt) != 1 or len(fr) != 1:
                    out.append(fail('advertisement-not-one-altsvc-frame', i, frames=len(fr or [])))
                    continue
                f = alt[0]
                pl = f['payload']
                olen = struct.unpack('>H', pl[:2])[0]
                forigin, ffield = pl[2:2 + olen], pl[2 + olen:]
                if origin is not None and (f['sid'] != 0 or forigin != origin or ffield != op['field']):
                    out.append(fail('origin-advertisement-wrong-frame', i))
                    continue
                if sid is not None:
                    st = sb['streams'].get(sid)
                    if f['sid'] != sid or forigin != b'' or ffield != op['field']:
                        out.append(fail('stream-advertisement-wrong-frame', i))
                        continue
                    # allowed only after the request was received and before response headers were sent
                    if st is None or st[9] is not False or st[5] or st[0] in ('CLOSED', 'IDLE'):
                        out.append(fail('stream-advertisement-outside-window', i, stream=list(st) if st else None))
                        continue
            elif sid is not None and r[0] == 'exc' and sb['state'] != 'CLOSED':
                st = sb['streams'].get(sid)
                if st and st[9] is False and not st[5] and st[0] in ('OPEN', 'HALF_CLOSED_REMOTE') and r[1] == 'ProtocolError':
                    out.append(fail('stream-advertisement-refused-inside-window', i, stream=list(st)))
                    continue
        if is_recv(op) and obs['res'].startswith('ok'):
            data = obs.get('xfer_data') if o == 'xfer' else op['data']
            rfs = raw_frames(data) if before_buf_empty(run, i, c) and buflen(ol) == '0' else None
            evs = [e for e in obs['raw_events'] if type(e).__name__ == 'AlternativeServiceAvailable']
            if rfs is not None and len(rfs) == 1 and rfs[0]['type'] == wire.ALTSVC and len(rfs[0]['payload']) >= 2:
                f = rfs[0]
                pl = f['payload']
                olen = struct.unpack('>H', pl[:2])[0]
                if len(pl) < 2 + olen:
                    continue
                forigin, ffield = pl[2:2 + olen], pl[2 + olen:]
                want = None
                if not client[c]:
                    want = 0
                elif f['sid'] == 0:
                    want = 1 if forigin else 0
                else:
                    st = sb['streams'].get(f['sid'])
                    if forigin or st is None:
                        want = 0
                    elif st[9] is True and not st[6] and st[0] not in ('CLOSED', 'IDLE'):
                        want = 1
                    elif st[6] or st[9] is False:
                        want = 0
                if want is not None and len(evs) != want:
                    out.append(fail('altsvc-event-count', i, got=len(evs), want=want, sid=f['sid'], origin=forigin.hex()))
                    continue
                if want == 1 and f['sid'] == 0 and (evs[0].origin != forigin or evs[0].field_value != ffield):
                    out.append(fail('altsvc-event-fields', i))
                elif want == 1 and f['sid'] != 0 and authority.get((c, f['sid'])) is not None and \
                        (evs[0].origin != authority[(c, f['sid'])] or evs[0].field_value != ffield):
                    out.append(fail('altsvc-event-not-the-request-authority', i, got=repr(evs[0].origin), want=repr(authority[(c, f['sid'])])))
            elif rfs is not None and evs and not any(f['type'] == wire.ALTSVC for f in rfs):
                out.append(fail('altsvc-event-without-frame', i))
    return out


# ---------------------------------------------------------------------------
# C22  server push rules
# ---------------------------------------------------------------------------
def oracle_C22(run):
    out = []
    client = roles(run)
    for i, (op, ol, ml, obs) in enumerate(run.log):
        if obs is None:
            continue
        o = op['op']
        c = conn_of(op)
        sb, sa = obs['snap_before'], obs['snap_after']
        r = res(obs)
        if o == 'push_stream':
            sid, promised = op['sid'], op['promised']
            if r[0] == 'ok':
                why = None
                st = sb['streams'].get(sid)
                if client[c]:
                    why = 'client-pushed'
                elif sb['remote'].get(2, [None])[0] != 1:
                    why = 'push-disabled-by-peer'
                elif sid % 2 == 0:
                    why = 'push-on-pushed-stream'
                elif st is None or st[0] not in ('OPEN', 'HALF_CLOSED_REMOTE'):
                    why = 'parent-not-open'
                elif promised % 2 != 0 or promised <= sb['hi_out'] or promised > MAX31:
                    why = 'bad-promised-id'
                if why:
                    out.append(fail('push-accepted', i, why=why))
                    continue
                fr = raw_frames(obs.get('appended') or b'')
                pp = [f for f in (fr or []) if f['type'] == wire.PUSH_PROMISE]
                if len(pp) != 1 or pp[0]['sid'] != sid:
                    out.append(fail('push-not-one-push-promise', i))
                    continue
                ps = sa['streams'].get(promised)
                if ps is None or ps[0] != 'RESERVED_LOCAL':
                    out.append(fail('promised-stream-not-reserved', i, state=ps[0] if ps else None))
                    continue
            else:
                if obs['out'] != '+.':
                    out.append(fail('refused-push-emitted-bytes', i))
                    continue
                if promised not in sb['streams'] and promised in sa['streams']:
                    out.append(fail('refused-push-left-a-stream', i, state=sa['streams'][promised][0]))
                    continue
                # the other direction of "succeeds exactly when": a plainly valid promise (server, peer allows push, the
                # parent is a request stream that is open or half-closed (remote), a fresh even id, a plain request
                # block) is not refused — reserved streams do not count against MAX_CONCURRENT_STREAMS (RFC 7540 5.1.2)
                st = sb['streams'].get(sid)
                hs = op.get('headers') or []
                plain = (len(hs) >= 4 and all(isinstance(h[0], bytes) and isinstance(h[1], bytes) for h in hs)
                         and sorted(h[0] for h in hs[:4]) == [b':authority', b':method', b':path', b':scheme']
                         and all(h[0].startswith(b'x-') and h[0] == h[0].lower().strip() and h[1] == h[1].strip() for h in hs[4:])
                         and dict((h[0], h[1]) for h in hs[:4])[b':method'] in (b'GET', b'HEAD')
                         and dict((h[0], h[1]) for h in hs[:4])[b':path'][:1] == b'/'
                         and dict((h[0], h[1]) for h in hs[:4])[b':scheme'] in (b'https', b'http')
                         and len(dict((h[0], h[1]) for h in hs[:4])[b':authority']) > 0
                         and sum(len(h[0]) + len(h[1]) for h in hs) < 4000)
                if (not client[c] and sb['state'] == 'SERVER_OPEN' and sb['remote'].get(2, [None])[0] == 1 and isinstance(sid, int)
                        and isinstance(promised, int) and sid % 2 == 1 and st is not None and st[0] in ('OPEN', 'HALF_CLOSED_REMOTE')
                        and promised % 2 == 0 and sb['hi_out'] < promised <= MAX31 and promised > 0 and plain):
                    out.append(fail('valid-push-refused', i, got=obs['res'], parent=st[0]))
                    continue
        if is_recv(op) and client.get(c):
            data = obs.get('xfer_data') if o == 'xfer' else op['data']
            rfs = raw_frames(data) if before_buf_empty(run, i, c) and buflen(ol) == '0' else None
            evs = [e for e in obs['raw_events'] if type(e).__name__ == 'PushedStreamReceived']
            if rfs is not None and len(rfs) == 1 and rfs[0]['type'] == wire.PUSH_PROMISE and (rfs[0]['flags'] & 4):
                f = rfs[0]
                if sb['local'].get(2, [None])[0] == 0 and sb['state'] != 'CLOSED':
                    if not is_protocol_error(obs):
                        out.append(fail('push-promise-accepted-with-push-disabled', i, got=obs['res']))
                        continue
                # the other direction: while the client allows push (the value in force: a change of ENABLE_PUSH takes
                # effect with its acknowledgement, not when it is sent), a plainly valid promise — on a request of ours
                # that is open or half-closed (local), a fresh even id, a block the decoder accepts and the rule book has
                # nothing against — is reported, not refused
                try:
                    d = wire.decode_frame(f)
                except wire.WireError:
                    d = None
                pst = sb['streams'].get(f['sid'])
                recs = obs.get('dec_recs') or []
                if d is not None and sb['local'].get(2, [None])[0] == 1 and sb['state'] == 'CLIENT_OPEN' and f['sid'] % 2 == 1 \
                        and pst is not None and pst[0] in ('OPEN', 'HALF_CLOSED_LOCAL') and pst[1] is None \
                        and d.get('promised') is not None and d['promised'] % 2 == 0 and d['promised'] > sb['hi_in'] and d['promised'] > 0 \
                        and len(f['payload']) <= sb['max_in'] and len(recs) == 1 and recs[0]['res'][0] == 'ok':
                    import rulebook
                    hs = [(bytes(h[0]), bytes(h[1])) for h in recs[0]['res'][1]]
                    # (plainly: printable ASCII only — with header_encoding set, bytes that are no text are refused, which
                    # is the receiver's documented business — and a method that is a method)
                    plain = all(0x20 <= b < 0x7f for n, v in hs for b in n + v) and \
                        dict(hs).get(b':method') in (b'GET', b'HEAD', b'POST', b'PUT', b'DELETE', b'OPTIONS')
                    if plain and rulebook.block_problem(hs, 'request') is None and sum(len(n) + len(v) + 32 for n, v in hs) < 60000:
                        if res(obs)[0] != 'ok' or len(evs) != 1:
                            out.append(fail('valid-promise-not-reported', i, got=obs['res'], events=ev_kinds(obs), parent=pst[0],
                                            promised=d['promised']))
                            continue
                if evs:
                    e = evs[0]
                    pl = f['payload'][1:] if f['flags'] & 8 else f['payload']
                    want_promised = struct.unpack('>I', pl[:4])[0] & 0x7FFFFFFF
                    if e.parent_stream_id != f['sid'] or e.pushed_stream_id != want_promised:
                        out.append(fail('pushed-stream-event-ids', i, got=(e.parent_stream_id, e.pushed_stream_id), want=(f['sid'], want_promised)))
                        continue
                    if f['sid'] % 2 == 0:
                        out.append(fail('push-on-pushed-stream-reported', i))
                        continue
                    ps = sa['streams'].get(want_promised)
                    if ps is None or ps[0] != 'RESERVED_REMOTE':
                        out.append(fail('promised-stream-not-reserved', i, state=ps[0] if ps else None))
                        continue
            elif rfs is not None and evs and not any(f['type'] == wire.PUSH_PROMISE for f in rfs):
                out.append(fail('pushed-stream-event-without-frame', i))
    return out


# ---------------------------------------------------------------------------
# C16  Content-Length (RFC 7540 8.1.2.6), judged per stream from the raw frames of an inbound message
# ---------------------------------------------------------------------------
def _hdr_get(hs, name):
    for n, v in hs:
        if n == name:
            return v
    return None


def oracle_C16(run):
    """tracks, per (connection, stream), the message the peer is sending: the decoded header blocks (from the real
    decoder's record) and DATA payload totals; judges deliveries of exactly one complete frame"""
    out = []
    client = roles(run)
    msg = {}        # (c, sid) -> {'cl': int|None|'bad', 'total': int, 'nobody': bool, 'started': bool}
    method = {}     # (c, sid) -> request method the client sent (first header block only)
    gone = set()    # (c, sid) the application has reset
    for i, (op, ol, ml, obs) in enumerate(run.log):
        if obs is None:
            continue
        o = op['op']
        c = conn_of(op)
        sb = obs['snap_before']
        r = res(obs)
        if o == 'send_headers' and client[c] and r[0] == 'ok' and op['sid'] not in sb['streams']:
            for n, v, _ in op['headers']:
                nb = n.encode('utf-8') if isinstance(n, str) else n
                if nb.strip().lower() == b':method' and (c, op['sid']) not in method:
                    method[(c, op['sid'])] = (v.encode('utf-8') if isinstance(v, str) else v).strip()
        if o == 'reset_stream' and r[0] == 'ok' and isinstance(op.get('sid'), int):
            # what still arrives for a stream the application has reset is dropped, not delivered (C20): nothing to judge
            gone.add((c, op['sid']))
            msg.pop((c, op['sid']), None)
        if not is_recv(op):
            continue
        data = obs.get('xfer_data') if o == 'xfer' else op['data']
        rfs = raw_frames(data) if before_buf_empty(run, i, c) and buflen(ol) == '0' else None
        if rfs is not None and len(rfs) == 1 and (c, rfs[0]['sid']) in gone:
            continue
        if rfs is None or len(rfs) != 1 or sb['state'] == 'CLOSED':
            # not judged; forget what we tracked for this connection, later frames cannot be attributed safely
            for k in [k for k in msg if k[0] == c]:
                msg[k]['started'] = False
            continue
        f = rfs[0]
        sid = f['sid']
        st = sb['streams'].get(sid)
        key = (c, sid)
        body_err = r[0] == 'exc' and r[1] == 'InvalidBodyLengthError'
        if f['type'] == wire.HEADERS and (f['flags'] & 4):
            recs = obs['dec_recs']
            if not recs or recs[-1]['res'][0] != 'ok':
                msg.pop(key, None)
                continue
            hs = [(bytes(n), bytes(v)) for n, v in recs[-1]['res'][1]]
            status = _hdr_get(hs, b':status')
            cl = _hdr_get(hs, b'content-length')
            first = st is None or not st[6]          # no headers received yet on this stream
            if not first:
                # trailers: END_STREAM completes the message
                m = msg.get(key)
                if m and m['started'] and (f['flags'] & 1) and r[0] == 'ok':
                    want = 0 if m['nobody'] else m['cl']
                    if want is not None and want != 'bad' and m['total'] != want:
                        out.append(fail('incomplete-body-accepted', i, total=m['total'], content_length=want, at='trailers'))
                continue
            if status is not None and status.startswith(b'1'):
                continue                                  # informational: sets nothing
            nobody = (client[c] and method.get(key) == b'HEAD') or status in (b'204', b'304')
            val = None
            if cl is not None:
                try:
                    val = int(cl, 10)
                except ValueError:
                    val = 'bad'
            msg[key] = {'cl': val, 'total': 0, 'nobody': nobody, 'started': r[0] == 'ok'}
            if (f['flags'] & 1):
                want = 0 if nobody else val
                if r[0] == 'ok' and want not in (None, 'bad') and want != 0:
                    out.append(fail('incomplete-body-accepted', i, total=0, content_length=want, at='headers'))
                elif body_err and (want is None or want == 0):
                    out.append(fail('complete-message-rejected', i, content_length=val, nobody=nobody, at='headers'))
        elif f['type'] == wire.DATA:
            m = msg.get(key)
            if not m or not m['started'] or st is None or st[0] not in ('OPEN', 'HALF_CLOSED_LOCAL'):
                continue
            pl = f['payload']
            if f['flags'] & 8:
                if not pl or pl[0] >= len(pl):
                    continue
                n = len(pl) - 1 - pl[0]
            else:
                n = len(pl)
            want = 0 if m['nobody'] else m['cl']
            total = m['total'] + n
            end = bool(f['flags'] & 1)
            if want in (None, 'bad'):
                if body_err and want is None:
                    out.append(fail('body-rejected-without-content-length', i))
                m['total'] = total
                continue
            must_fail = total > want or (end and total != want)
            if must_fail and r[0] == 'ok':
                out.append(fail('wrong-body-length-accepted', i, total=total, content_length=want, end=end, nobody=m['nobody']))
            elif not must_fail and body_err:
                out.append(fail('right-body-length-rejected', i, total=total, content_length=want, end=end, nobody=m['nobody']))
            if r[0] == 'ok':
                m['total'] = total
            else:
                m['started'] = False
    return out


# ---------------------------------------------------------------------------
# C25  h2c upgrade
# ---------------------------------------------------------------------------
def oracle_C25(run):
    out = []
    client = roles(run)
    value = {}      # client conn -> (HTTP2-Settings value it produced, its local settings at that time)
    for i, (op, ol, ml, obs) in enumerate(run.log):
        if obs is None or op['op'] != 'initiate_upgrade':
            continue
        c = conn_of(op)
        r = res(obs)
        sa = obs['snap_after']
        if r[0] != 'ok':
            # a fresh server handed the very value a client produced from settings the library itself accepts: refusing it
            # loses the connection for a client that did nothing wrong
            sb0 = obs['snap_before']
            hdr0 = op.get('settings_header')
            if not client[c] and sb0['state'] == 'IDLE' and not sb0['streams'] and sb0['hi_in'] == 0 and hdr0 is not None \
                    and any(hdr0 == val for val, _ in value.values()):
                out.append(fail('server-refused-a-client-made-settings-value', i, got=obs['res'], value=bytes(hdr0)[:80]))
            continue
        st1 = sa['streams'].get(1)
        if client[c]:
            t = obs['res'].split(' ')[1]
            if t in ('-', '.'):
                out.append(fail('client-upgrade-without-settings-value', i))
                continue
            value[c] = (bytes.fromhex(t), dict((k, v[0]) for k, v in sa['local'].items() if v and v[0] is not None))
            if st1 is None or st1[0] != 'HALF_CLOSED_LOCAL':
                out.append(fail('client-stream-1-not-half-closed-local', i, state=st1[0] if st1 else None))
                continue
            if sa['hi_out'] != 1:
                out.append(fail('client-watermark-after-upgrade', i, hi_out=sa['hi_out']))
                continue
        else:
            if st1 is None or st1[0] != 'HALF_CLOSED_REMOTE':
                out.append(fail('server-stream-1-not-half-closed-remote', i, state=st1[0] if st1 else None))
                continue
            if sa['hi_in'] != 1 or sa['hi_out'] != 0:
                out.append(fail('server-watermarks-after-upgrade', i, hi_in=sa['hi_in'], hi_out=sa['hi_out']))
                continue
            hdr = op.get('settings_header')
            for cc, (val, loc) in value.items():
                if hdr is not None and hdr == val:
                    # identifiers >= 256 are truncated by hyperframe (D21, a dependency): not judged
                    view = dict((k, v[0]) for k, v in sa['remote'].items() if v)
                    bad = [(k, loc[k], view.get(k)) for k in loc if k < 256 and view.get(k) != loc[k]]
                    if bad:
                        out.append(fail('server-view-differs-from-client-settings', i, differs=bad[:4]))
                    elif st1[2] != loc.get(4, 65535) or sa['max_out'] != loc.get(5, 16384):
                        # the settings are in force, not just stored: stream 1 may send what the client's window allows
                        out.append(fail('client-settings-not-in-force-on-stream-1', i, out_win=st1[2], want=loc.get(4, 65535),
                                        max_out=sa['max_out'], want_max=loc.get(5, 16384)))
    # afterwards: first new ids are 3 and 2
    for i, (op, ol, ml, obs) in enumerate(run.log):
        if obs is None or op['op'] != 'q' or op['what'] != 'next_stream_id':
            continue
        c = conn_of(op)
        sb = obs['snap_before']
        r = res(obs)
        if r[0] == 'ok' and sb['hi_out'] in (0, 1) and 1 in sb['streams'] or (r[0] == 'ok' and sb['hi_out'] in (0, 1) and sb['hi_in'] == 1):
            want = 3 if client[c] else 2
            if sb['hi_out'] == (1 if client[c] else 0) and (sb['hi_in'] == (0 if client[c] else 1) or 1 in sb['streams']) and int(r[1]) != want \
                    and any(o2['op'] == 'initiate_upgrade' and conn_of(o2) == c for o2, _, _, _ in run.log[:i]):
                out.append(fail('first-id-after-upgrade', i, got=int(r[1]), want=want))
    return out


# ---------------------------------------------------------------------------
# C23  priority information round-trips and never changes stream state
# ---------------------------------------------------------------------------
def _prio_want(op):
    pw, pd, pe = op.get('pw'), op.get('pd'), op.get('pe')
    for x in (pw, pd):
        if x is not None and (isinstance(x, bool) or not isinstance(x, int)):
            return 'skip'
    if pe is not None and not isinstance(pe, (bool, int)):
        return 'skip'
    if pw is None and pd is None and pe is None:
        return None
    return (pd if pd is not None else 0, pw if pw is not None else 16, bool(pe) if pe is not None else False)


def oracle_C23(run):
    """send side: the PRIORITY frame / the priority fields of the HEADERS frame carry exactly the call's arguments
    (defaults: weight 16, no dependency, not exclusive).  Receive side: a PRIORITY frame is reported as exactly one
    PriorityUpdated with the frame's fields and leaves every stream as it was; the priority fields of a HEADERS frame
    come out on the header event."""
    out = []
    import h2.events as EV
    client = roles(run)
    for i, (op, ol, ml, obs) in enumerate(run.log):
        if obs is None:
            continue
        o = op['op']
        c = conn_of(op)
        r = res(obs)
        sb, sa = obs['snap_before'], obs['snap_after']
        if o in ('prioritize', 'send_headers') and r[0] == 'ok':
            want = _prio_want(op)
            fr = frames_of(obs.get('appended'))
            if want == 'skip' or fr is None:
                continue
            if o == 'prioritize':
                if want is None:
                    want = (0, 16, False)
                if len(fr) != 1 or fr[0]['type'] != wire.PRIORITY or fr[0]['sid'] != op['sid'] or fr[0]['prio'] != want:
                    out.append(fail('priority-frame-differs-from-call', i, want=want,
                                    got=[(f['name'], f['sid'], f.get('prio')) for f in fr]))
                elif sa['streams'] != sb['streams']:
                    out.append(fail('prioritize-changed-stream-state', i, sid=op['sid']))
            else:
                hf = [f for f in fr if f['type'] == wire.HEADERS]
                if hf and hf[0].get('prio') != want:
                    out.append(fail('headers-priority-differs-from-call', i, want=want, got=hf[0].get('prio')))
            continue
        if not is_recv(op) or sb['state'] not in ('CLIENT_OPEN', 'SERVER_OPEN'):
            continue
        data = obs.get('xfer_data') if o == 'xfer' else op['data']
        rfs = raw_frames(data) if before_buf_empty(run, i, c) and buflen(ol) == '0' else None
        if rfs is not None and len(rfs) > 1 and rfs[0]['type'] == wire.HEADERS and not (rfs[0]['flags'] & 4) and (rfs[0]['flags'] & 0x20) \
                and all(x['type'] == wire.CONTINUATION and x['sid'] == rfs[0]['sid'] for x in rfs[1:]) \
                and (rfs[-1]['flags'] & 4) and not any(x['flags'] & 4 for x in rfs[1:-1]):
            # a header block in several frames: the priority fields travel in the HEADERS frame
            rfs = [dict(rfs[0], flags=rfs[0]['flags'] | 4)]
        if rfs is None or len(rfs) != 1:
            continue
        f = rfs[0]
        if f['type'] == wire.PRIORITY and len(f['payload']) == 5 and not f.get('r'):
            dep, w = struct.unpack('>IB', f['payload'])
            want = (dep & 0x7FFFFFFF, w + 1, bool(dep >> 31))
            bad = f['sid'] == 0 or want[0] == f['sid']
            if bad:
                if r[0] == 'ok':
                    out.append(fail('malformed-priority-accepted', i, sid=f['sid'], prio=want))
                continue
            if r[0] != 'ok':
                out.append(fail('valid-priority-frame-rejected', i, sid=f['sid'], prio=want, got=obs['res']))
                continue
            evs = obs['raw_events']
            got = [(e.stream_id, e.depends_on, e.weight, bool(e.exclusive)) for e in evs if isinstance(e, EV.PriorityUpdated)]
            if len(evs) != 1 or got != [(f['sid'],) + want]:
                out.append(fail('priority-frame-not-reported-exactly', i, want=(f['sid'],) + want, got=got, events=ev_kinds(obs)))
            elif sa['streams'] != sb['streams'] or obs.get('appended'):
                out.append(fail('priority-frame-changed-state-or-wrote', i, sid=f['sid']))
        elif f['type'] == wire.HEADERS and (f['flags'] & 4) and (f['flags'] & 0x20) and r[0] == 'ok':
            try:
                d = wire.decode_frame(f)
            except wire.WireError:
                continue
            want = d['prio']
            evs = obs['raw_events']
            if want and want[0] == f['sid']:
                # priority fields that make the stream depend on itself are an error in a HEADERS frame as in a PRIORITY
                # frame: no PriorityUpdated may come out of it
                if any(isinstance(e, EV.PriorityUpdated) and e.stream_id == f['sid'] and e.depends_on == f['sid'] for e in evs):
                    out.append(fail('self-dependency-in-headers-accepted', i, sid=f['sid'], prio=want, events=ev_kinds(obs)))
                continue
            heads = [e for e in evs if isinstance(e, (EV.RequestReceived, EV.ResponseReceived, EV.TrailersReceived,
                                                      EV.InformationalResponseReceived))]
            if not heads:
                continue
            pu = getattr(heads[0], 'priority_updated', None)
            got = None if pu is None else (pu.depends_on, pu.weight, bool(pu.exclusive))
            if got != want or (pu is not None and pu.stream_id != f['sid']):
                out.append(fail('headers-priority-not-reported-exactly', i, want=want, got=got))
    return out


# ---------------------------------------------------------------------------
# C06  frames for streams that are still idle (the connection's part of RFC 7540 section 5.1)
# ---------------------------------------------------------------------------
def oracle_C06(run):
    """DATA, WINDOW_UPDATE, CONTINUATION and PUSH_PROMISE (as the parent) for a stream id the connection has not seen
    yet is a connection error: the delivery raises and the connection is closed afterwards.  (HEADERS opens the
    stream, PRIORITY is allowed anywhere; the library's tolerance of RST_STREAM and ALTSVC there is documented.)  The
    rest of the property is decided by the theorems over the regenerated table and by the correspondence."""
    out = []
    client = roles(run)
    for i, (op, ol, ml, obs) in enumerate(run.log):
        if obs is None or not is_recv(op):
            continue
        c = conn_of(op)
        sb, sa = obs['snap_before'], obs['snap_after']
        if sb['state'] not in ('CLIENT_OPEN', 'SERVER_OPEN'):
            continue
        data = obs.get('xfer_data') if op['op'] == 'xfer' else op['data']
        rfs = raw_frames(data) if before_buf_empty(run, i, c) and buflen(ol) == '0' else None
        if rfs is None or len(rfs) != 1:
            continue
        f = rfs[0]
        sid = f['sid']
        if sid != 0 and f['type'] == wire.HEADERS and (f['flags'] & 4) and sid not in sb['streams'] and sb.get('closed') is not None \
                and sid in sb['closed'] and len(f['payload']) <= sb['max_in'] \
                and all(rec['res'][0] == 'ok' for rec in (obs.get('dec_recs') or [])) and len(obs.get('dec_recs') or []) == 1:
            # a complete, decodable HEADERS frame for a stream that is closed and gone from the table: what happens depends
            # on how it was closed, not on whose id it is — after a reset (by either side) the frame is answered with
            # RST_STREAM(STREAM_CLOSED) and the connection goes on; after END_STREAM it is a connection error STREAM_CLOSED
            r = res(obs)
            by = sb['closed'][sid]
            if by in ('SEND_RST_STREAM', 'RECV_RST_STREAM'):
                fr = frames_of(obs.get('appended')) or []
                if r[0] != 'ok' or sa['state'] == 'CLOSED' or not any(x['type'] == wire.RST_STREAM and x['sid'] == sid and x.get('code') == 5 for x in fr):
                    out.append(fail('headers-on-reset-and-forgotten-stream-not-a-stream-error', i, sid=sid, closed_by=by, got=obs['res'],
                                    state_after=sa['state']))
            elif by in ('SEND_END_STREAM', 'RECV_END_STREAM'):
                if not (r[0] == 'exc' and r[2] == 5 and sa['state'] == 'CLOSED'):
                    out.append(fail('headers-on-ended-and-forgotten-stream-not-STREAM_CLOSED', i, sid=sid, closed_by=by, got=obs['res'],
                                    state_after=sa['state']))
            continue
        if sid == 0 or f['type'] not in (wire.DATA, wire.WINDOW_UPDATE, wire.CONTINUATION, wire.PUSH_PROMISE):
            continue
        if f['type'] == wire.CONTINUATION and sid in sb['streams']:
            # no header block is being assembled (the delivery is judged only then): a CONTINUATION frame for a stream of
            # the table is a connection error PROTOCOL_ERROR whatever the stream's state (RFC 7540 section 6.10; no row
            # of the transition table takes RECV_CONTINUATION).  For a stream that was closed and cleaned out of the
            # table the library answers as for any other frame on such a stream (RST_STREAM after a reset,
            # STREAM_CLOSED after END_STREAM: `_receive_naked_continuation` says the kind of error depends on the
            # stream's state) — that leniency is not judged here
            r = res(obs)
            if not (r[0] == 'exc' and r[2] == 1 and sa['state'] == 'CLOSED'):
                out.append(fail('stray-continuation-not-PROTOCOL_ERROR', i, sid=sid, got=obs['res'], state_after=sa['state'],
                                stream=(sb['streams'].get(sid) or ('absent',))[0]))
            continue
        if f['type'] == wire.PUSH_PROMISE and sid not in sb['streams'] and sb.get('closed') is not None and sid in sb['closed'] \
                and sb['closed'][sid] != 'SEND_RST_STREAM':
            # a promise on a stream that is closed and gone, and that we did not reset ourselves (the peer reset it, or it
            # ended): nothing may be promised on it any more — a connection error.  (Only our own reset excuses the peer:
            # the promise may have crossed it.)
            r = res(obs)
            if r[0] == 'ok' or sa['state'] != 'CLOSED':
                out.append(fail('promise-on-closed-parent-not-a-connection-error', i, parent=sid, closed_by=sb['closed'][sid], got=obs['res']))
            continue
        outbound = (sid % 2) == (1 if client[c] else 0)
        idle = sid not in sb['streams'] and sid > (sb['hi_out'] if outbound else sb['hi_in']) \
            and (sb.get('closed') is not None and sid not in sb['closed'])
        if not idle:
            continue
        r = res(obs)
        if r[0] == 'ok' or sa['state'] != 'CLOSED':
            out.append(fail('frame-on-idle-stream-not-a-connection-error', i, frame=wire.NAMES[f['type']], sid=sid, got=obs['res'],
                            state_after=sa['state']))
    return out


from oracle_c01 import oracle_C01 as oracle_C01_v2  # noqa: E402

ORACLES = {
    'C01': oracle_C01_v2,
    'C02': oracle_C02, 'C03': oracle_C03, 'C04': oracle_C04, 'C05': oracle_C05, 'C07': oracle_C07, 'C08': oracle_C08,
    'C09': oracle_C09, 'C10': oracle_C10, 'C11': oracle_C11, 'C12': oracle_C12, 'C14': oracle_C14, 'C15': oracle_C15, 'C16': oracle_C16, 'C13': oracle_C13, 'C17': oracle_C17, 'C18': oracle_C18,
    'C06': oracle_C06, 'C23': oracle_C23,
    'C19': oracle_C19, 'C20': oracle_C20, 'C21': oracle_C21, 'C22': oracle_C22, 'C24': oracle_C24, 'C25': oracle_C25, 'C26': oracle_C26, 'C27': oracle_C27, 'C29': oracle_C29,
}
