/-
  C19 — a closed connection stays quiet.

  `connTable` is regenerated from H2ConnectionStateMachine._transitions on
  every run; the API methods are the hand-written model (tied by correspondence).
-/
import H2.Proofs.Closed

namespace H2.C19
open H2 H2.Gen H2.Conn

/-- the calls that would emit a frame other than GOAWAY, or open a stream -/
def frameCall : Op → Bool
  | .sendHeaders .. | .sendData .. | .endStream .. | .incrementWindow .. | .pushStream .. | .ping ..
  | .resetStream .. | .updateSettings .. | .altsvc .. | .prioritize .. => true
  | _ => false

/-- the generated connection table: CLOSED admits exactly the two GOAWAY inputs and is absorbing -/
theorem C19_table_closed (i : ConnectionInputs) :
    connTable .CLOSED i = (if i = .SEND_GOAWAY ∨ i = .RECV_GOAWAY then some .CLOSED else none) := by
  cases i <;> decide

/-- every state reaches CLOSED by sending or receiving GOAWAY, and an invalid input closes -/
theorem C19_routes_to_closed (s : ConnectionState) :
    connTable s .SEND_GOAWAY = some .CLOSED ∧ connTable s .RECV_GOAWAY = some .CLOSED := by
  cases s <;> decide

/-- **C19, refusal**: on a closed connection every frame-producing call raises, appends nothing and the
    connection stays closed. -/
theorem C19_refuse (c : Conn) (op : Op) (hc : c.cstate = .CLOSED) (hop : frameCall op = true) :
    (step c op).2.res.isOk = false ∧ (step c op).1.out = c.out ∧ (step c op).1.cstate = .CLOSED := by
  have hcq : CQ c.out c := ⟨hc, rfl⟩
  have key : ∀ m : CM Unit, DeadQuiet c.out m c →
      (runU m c).2.res.isOk = false ∧ (runU m c).1.out = c.out ∧ (runU m c).1.cstate = .CLOSED := by
    intro m hm
    have h := runU_of_wp hm
    cases hres : (runU m c).2.res.isOk with
    | true => exact (h.1 hres).elim
    | false =>
      obtain ⟨_, h1, h2⟩ := h.2 hres
      exact ⟨rfl, h2, h1⟩
  cases op <;> simp only [frameCall] at hop <;> simp only [step] <;> try contradiction
  · exact key _ (sendHeaders_closed _ _ _ _ _ _ _ c hcq)
  · exact key _ (sendData_closed _ _ _ _ _ c hcq)
  · exact key _ (endStream_closed _ _ c hcq)
  · exact key _ (incrementWindow_closed _ _ _ c hcq)
  · exact key _ (pushStream_closed _ _ _ _ c hcq)
  · exact key _ (ping_closed _ _ c hcq)
  · exact key _ (resetStream_closed _ _ _ c hcq)
  · exact key _ (updateSettings_closed _ _ c hcq)
  · exact key _ (altsvc_closed _ _ _ _ c hcq)
  · exact key _ (prioritize_closed _ _ _ _ _ c hcq)

/-- **C19, acknowledge_received_data** on a closed connection changes nothing at all (so emits nothing). -/
theorem C19_ack_quiet (c : Conn) (size sid : Int) (hc : c.cstate = .CLOSED) :
    (step c (.ackData size sid)).1 = c := by
  have h := runU_of_wp (ackData_closed c.out size sid c ⟨hc, rfl⟩)
  simp only [step]
  cases hres : (runU (acknowledgeReceivedData size sid) c).2.res.isOk with
  | true => exact h.1 hres
  | false => obtain ⟨_, h'⟩ := h.2 hres; exact h'

/-- **C19, discard**: receiving GOAWAY drops whatever was not yet handed to the application. -/
theorem C19_goaway_discards (c : Conn) (last code : Int) (extra : Bytes) (fe : FE) (c' : Conn)
    (h : receiveGoawayFrame last code extra c = (.ok fe, c')) : c'.out = [] ∧ c'.cstate = .CLOSED ∧ fe.1 = [] := by
  simp only [receiveGoawayFrame, bind, M.bind, connInput, clearOutboundDataBuffer, modifyS, pure, M.pure] at h
  have hr := (C19_routes_to_closed c.cstate).2
  simp only [hr] at h
  injection h with h1 h2
  injection h1 with h1
  subst h2; subst h1
  exact ⟨rfl, rfl, rfl⟩

/-- non-vacuity: a closed connection with pending output exists and `ping` on it is refused -/
example : let c := { Conn.init { client := true } with cstate := .CLOSED, out := [1, 2, 3] }
    (step c (.ping [0,0,0,0,0,0,0,0])).2.res.isOk = false ∧ (step c (.ping [0,0,0,0,0,0,0,0])).1.out = [1, 2, 3] := by
  intro c
  have h := C19_refuse c (.ping [0,0,0,0,0,0,0,0]) rfl rfl
  exact ⟨h.1, h.2.1⟩

end H2.C19
