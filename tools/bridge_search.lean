/-
  Failing-input search for a bridge theorem that no longer checks: evaluate each regenerated function
  (H2.GenRaw.*) and its reference definition (H2.Gen.*) on a grid of boundary integers and print the first
  argument on which they differ.  A test, not a proof: it only ever supports the report of a broken bridge.
  Run: lake env lean --run ../tools/bridge_search.lean
-/
import H2.Gen.WindowsRaw
open H2.Gen

def big : List Int :=
  [-2147483649, -2147483648, -65536, -1025, -1024, -2, -1, 0, 1, 2, 3, 4, 5, 6, 7, 8, 9, 15, 16, 100, 255, 256, 511, 512, 1023,
   1024, 1025, 2047, 2048, 2049, 4095, 4096, 4097, 16383, 16384, 16385, 65534, 65535, 65536, 16777215, 16777216,
   2147483646, 2147483647, 2147483648, 4294967295, 4294967296]

def small : List Int := [-5, -1, 0, 1, 2, 3, 4, 7, 8, 100, 1023, 1024, 1025, 2048, 4096, 4097, 65535, 2147483646, 2147483647]

def wms : List WindowManager :=
  small.flatMap fun m => small.flatMap fun c => small.map fun b =>
    { max_window_size := m, current_window_size := c, bytes_processed := b }

def showR : Except PyErr (Option Int) × WindowManager → String
  | (r, w) => (match r with | .ok v => s!"ok {repr v}" | .error e => s!"error {repr e}") ++ s!" {repr w}"
def showE : Except PyErr Int → String
  | .ok v => s!"ok {v}" | .error e => s!"error {repr e}"
def showI : Except PyErr WindowManager → String
  | .ok v => s!"ok {repr v}" | .error e => s!"error {repr e}"

def first? {α} (xs : List α) (p : α → Bool) : Option α := xs.find? p

def main : IO Unit := do
  match first? big (fun m => showI (H2.GenRaw.WindowManager.init m) != showI (WindowManager.init m)) with
  | some m => IO.println s!"DIFF init max={m} raw={showI (H2.GenRaw.WindowManager.init m)} ref={showI (WindowManager.init m)}"
  | none => IO.println "SAME init"
  let pairs := wms.flatMap fun w => big.map fun n => (w, n)
  match first? pairs (fun (w, n) => showR (H2.GenRaw.WindowManager.window_consumed w n) != showR (w.window_consumed n)) with
  | some (w, n) => IO.println s!"DIFF window_consumed s={repr w} size={n} raw={showR (H2.GenRaw.WindowManager.window_consumed w n)} ref={showR (w.window_consumed n)}"
  | none => IO.println "SAME window_consumed"
  match first? pairs (fun (w, n) => showR (H2.GenRaw.WindowManager.window_opened w n) != showR (w.window_opened n)) with
  | some (w, n) => IO.println s!"DIFF window_opened s={repr w} size={n} raw={showR (H2.GenRaw.WindowManager.window_opened w n)} ref={showR (w.window_opened n)}"
  | none => IO.println "SAME window_opened"
  match first? wms (fun w => showR (H2.GenRaw.WindowManager.maybe_update_window w) != showR w.maybe_update_window) with
  | some w => IO.println s!"DIFF maybe_update_window s={repr w} raw={showR (H2.GenRaw.WindowManager.maybe_update_window w)} ref={showR w.maybe_update_window}"
  | none => IO.println "SAME maybe_update_window"
  match first? pairs (fun (w, n) => showR (H2.GenRaw.WindowManager.process_bytes w n) != showR (w.process_bytes n)) with
  | some (w, n) => IO.println s!"DIFF process_bytes s={repr w} size={n} raw={showR (H2.GenRaw.WindowManager.process_bytes w n)} ref={showR (w.process_bytes n)}"
  | none => IO.println "SAME process_bytes"
  let kv := ([0, 1, 2, 3, 4, 5, 6, 7, 8, 9, 16, 65535, 65536] : List Int).flatMap fun k => big.map fun v => (k, v)
  match first? kv (fun (k, v) => showE (H2.GenRaw.validate_setting k v) != showE (validate_setting k v)) with
  | some (k, v) => IO.println s!"DIFF validate_setting setting={k} value={v} raw={showE (H2.GenRaw.validate_setting k v)} ref={showE (validate_setting k v)}"
  | none => IO.println "SAME validate_setting"
  let ci := big.flatMap fun c => big.map fun i => (c, i)
  match first? ci (fun (c, i) => showE (H2.GenRaw.guard_increment_window c i) != showE (guard_increment_window c i)) with
  | some (c, i) => IO.println s!"DIFF guard_increment_window current={c} increment={i} raw={showE (H2.GenRaw.guard_increment_window c i)} ref={showE (guard_increment_window c i)}"
  | none => IO.println "SAME guard_increment_window"
