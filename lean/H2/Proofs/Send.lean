/-
  Specification of `_prepare_for_sending` and facts about frame serialisation used by several properties.
-/
import H2.Proofs.Wp

namespace H2
open H2.Gen H2.Conn

theorem wp_connInput_ok {Q : Unit → Conn → Prop} {E : Exc → Conn → Prop} (c : Conn) (i : ConnectionInputs)
    (t : ConnectionState) (h : connTable c.cstate i = some t) :
    wp (connInput i) Q E c = Q () { c with cstate := t } := by
  unfold wp connInput
  simp [h]

theorem wp_connInput_err {Q : Unit → Conn → Prop} {E : Exc → Conn → Prop} (c : Conn) (i : ConnectionInputs)
    (h : connTable c.cstate i = none) :
    wp (connInput i) Q E c = E pErr { c with cstate := .CLOSED } := by
  unfold wp connInput
  simp [h]

theorem wp_prepare_nil {Q : Unit → Conn → Prop} {E : Exc → Conn → Prop} (c : Conn) (hq : Q () c) :
    wp (prepareForSending []) Q E c := by
  simp only [prepareForSending, List.isEmpty_nil, if_true]
  exact hq

/-- `_prepare_for_sending(frames)` when every frame serialises and fits: appends the bytes, nothing else -/
theorem wp_prepare {Q : Unit → Conn → Prop} {E : Exc → Conn → Prop} (frames : List Frame) (c : Conn) (bs : List Bytes)
    (hser : frames.mapM Frame.serialize? = some bs)
    (hlen : (frames.all fun f => decide ((f.bodyLen : Int) ≤ c.maxOutFrame)) = true)
    (hq : Q () { c with out := c.out ++ bs.foldl (· ++ ·) [] }) :
    wp (prepareForSending frames) Q E c := by
  unfold prepareForSending
  split
  · rename_i h
    cases frames with
    | nil =>
      simp only [List.mapM_nil, Option.pure_def, Option.some.injEq] at hser
      subst hser
      simpa using hq
    | cons f fs => simp at h
  · simp only [hser]
    wps
    simp only [hlen, if_true]
    exact hq

/-- the same as an equation, for rewriting -/
theorem wp_prepare_eq {Q : Unit → Conn → Prop} {E : Exc → Conn → Prop} (frames : List Frame) (c : Conn) (bs : List Bytes)
    (hne : frames ≠ [])
    (hser : frames.mapM Frame.serialize? = some bs)
    (hlen : (frames.all fun f => decide ((f.bodyLen : Int) ≤ c.maxOutFrame)) = true) :
    wp (prepareForSending frames) Q E c = Q () { c with out := c.out ++ bs.foldl (· ++ ·) [] } := by
  unfold prepareForSending
  have : frames.isEmpty = false := by cases frames <;> simp_all
  simp only [this, Bool.false_eq_true, if_false, hser]
  wps
  simp only [hlen, if_true]

theorem rst_serialize (sid code : Int) (hc : 0 ≤ code ∧ code < 4294967296) :
    ∃ b, (Frame.rstStream sid code).serialize? = some b ∧ (Frame.rstStream sid code).bodyLen = 4 := by
  have h1 : ¬ (code < 0) := by omega
  simp [Frame.serialize?, Frame.body?, u32?, u8?, Frame.typeCode, Frame.flagByte, Frame.bodyLen, be32, hc.1, hc.2]

theorem goaway_serialize (last code : Int) (extra : Bytes) (hc : 0 ≤ code ∧ code < 4294967296) :
    ∃ b, (Frame.goaway last code extra).serialize? = some b ∧ (Frame.goaway last code extra).bodyLen = 8 + extra.length := by
  simp [Frame.serialize?, Frame.body?, u32?, u8?, Frame.typeCode, Frame.flagByte, Frame.bodyLen, be32, hc.1, hc.2]
  omega

end H2
