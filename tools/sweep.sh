#!/bin/sh
# sweep.sh <tier> <seeds...> : (re)build, then run every registered check with each seed; prints one line per run.
# For background use:  vp run -- sh tools/sweep.sh quick 2 3 5 7
cd "$(dirname "$0")/.."
TIER=$1; shift
./setup.sh >/dev/null 2>&1 || { echo "SETUP FAILED"; exit 2; }
for s in "$@"; do
  for p in $(/venv/bin/python -c "import json; print(' '.join(sorted(json.load(open('theorems.json')))))"); do
    VERIF_SEED=$s ./check $p --tier $TIER 2>&1 | grep -E "VIOLATION|-> " | cut -c1-220 | sed "s/^/[seed $s] /"
  done
done
