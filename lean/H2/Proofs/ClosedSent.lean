/-
  The lemmas of Proofs/Closed with the history of written frames in the place of the output buffer: on a CLOSED
  connection every frame-producing call dies at (or before) its connection-state-machine input having written no frame.
  (Generated from Proofs/Closed by substituting the field.)
-/
import H2.Proofs.Closed
namespace H2
open H2.Gen H2.Conn

/-- "closed and quiet": the connection is CLOSED and the history of written frames is `o` -/
def CQS (o : List Frame) (c : Conn) : Prop := c.cstate = .CLOSED ∧ c.sent = o

theorem wp_connInput_closedS {Q : Unit → Conn → Prop} (o : List Frame) (i : ConnectionInputs) (c : Conn) (hc : CQS o c)
    (hi : connTable .CLOSED i = none) :
    wp (connInput i) Q (fun _ c' => CQS o c') c := by
  obtain ⟨h1, h2⟩ := hc
  simp only [wp, connInput, h1, hi]
  exact ⟨rfl, h2⟩

/-- `_get_stream_by_id` never changes the state -/
theorem wp_getStreamByIdS {Q : Unit → Conn → Prop} {E : Exc → Conn → Prop} (sid : Int) (c : Conn)
    (hq : Q () c) (he : ∀ e, E e c) : wp (getStreamById sid) Q E c := by
  simp only [getStreamById]
  wps
  repeat' split
  all_goals first | exact hq | exact he _

/-- `_open_streams` touches only `streams` and `closedStreams` -/
theorem wp_openStreamsS {Q : Int → Conn → Prop} {E : Exc → Conn → Prop} (r : Int) (c : Conn)
    (hq : ∀ n c', c'.cstate = c.cstate → c'.sent = c.sent → Q n c') : wp (openStreams r) Q E c := by
  simp only [wp, openStreams]
  exact hq _ _ rfl rfl

macro "closeds_auto" : tactic => `(tactic|
  repeat' (first
    | assumption
    | (apply wp_connInput_closedS _ _ _ (by assumption); decide)
    | (apply wp_getStreamByIdS)
    | (apply wp_openStreamsS; intro n c' h1 h2;
       have hc' : CQS _ c' := ⟨h1.trans (by assumption : CQS _ _).1, h2.trans (by assumption : CQS _ _).2⟩)
    | (intro _)
    | wps
    | split))

abbrev DeadQuietS (o : List Frame) (m : CM Unit) (c : Conn) : Prop :=
  wp m (fun _ _ => False) (fun _ c' => CQS o c') c

theorem sendHeaders_closedS (o : List Frame) sid hs es pw pd pe (c : Conn) (hc : CQS o c) :
    DeadQuietS o (sendHeaders sid hs es pw pd pe) c := by
  simp only [sendHeaders, sendHeadersTail, addPriority, openOutboundStreams]; closeds_auto
theorem sendData_closedS (o : List Frame) sid d es pad (c : Conn) (hc : CQS o c) :
    DeadQuietS o (sendData sid d es pad) c := by
  simp only [sendData, sendDataCore, localFlowControlWindow]; closeds_auto
theorem endStream_closedS (o : List Frame) sid (c : Conn) (hc : CQS o c) : DeadQuietS o (endStream sid) c := by
  simp only [endStream]; closeds_auto
theorem incrementWindow_closedS (o : List Frame) i sid (c : Conn) (hc : CQS o c) :
    DeadQuietS o (incrementFlowControlWindow i sid) c := by
  simp only [incrementFlowControlWindow]; closeds_auto
theorem pushStream_closedS (o : List Frame) a b hs (c : Conn) (hc : CQS o c) : DeadQuietS o (pushStream a b hs) c := by
  simp only [pushStream]; closeds_auto
theorem ping_closedS (o : List Frame) d (c : Conn) (hc : CQS o c) : DeadQuietS o (ping d) c := by
  simp only [ping]; closeds_auto
theorem resetStream_closedS (o : List Frame) sid code (c : Conn) (hc : CQS o c) : DeadQuietS o (resetStream sid code) c := by
  simp only [resetStream]; closeds_auto
theorem updateSettings_closedS (o : List Frame) items (c : Conn) (hc : CQS o c) : DeadQuietS o (updateSettings items) c := by
  simp only [updateSettings]; closeds_auto
theorem altsvc_closedS (o : List Frame) f og sid (c : Conn) (hc : CQS o c) :
    DeadQuietS o (advertiseAlternativeService f og sid) c := by
  simp only [advertiseAlternativeService]; closeds_auto
theorem prioritize_closedS (o : List Frame) sid w d e (c : Conn) (hc : CQS o c) : DeadQuietS o (prioritize sid w d e) c := by
  simp only [prioritize]; closeds_auto

/-- `acknowledge_received_data` on a closed connection: returns (or rejects its arguments) without touching anything -/
theorem ackData_closedS (o : List Frame) size sid (c : Conn) (hc : CQS o c) :
    wp (acknowledgeReceivedData size sid) (fun _ c' => c' = c) (fun _ c' => c' = c) c := by
  simp only [acknowledgeReceivedData]
  wps
  have h : c.cstate = ConnectionState.CLOSED := hc.1
  split
  · trivial
  split
  · trivial
  apply wp_getStreamByIdS
  · wps; simp [h]
  · intro e; split
    · simp [h]
    · rfl


end H2
