/-
  The credit equation of one flow-control window between two endpoints, with everything in flight.

  One window (a stream's, or the connection's): the sender's view `sOut`, the receiver's `WindowManager` (the code
  regenerated from windows.py), a FIFO queue sender → receiver carrying DATA frames and SETTINGS acknowledgements, a
  FIFO queue receiver → sender carrying WINDOW_UPDATE increments and SETTINGS frames that change INITIAL_WINDOW_SIZE.
  The sender sends DATA only within its view of the window (C03), applies an INITIAL_WINDOW_SIZE change when the
  SETTINGS frame arrives and acknowledges it (C11); the receiver applies its own change when the acknowledgement
  arrives (C11), hands out credit whenever it likes (C04/C05), and charges every DATA frame with the generated
  `window_consumed` (C04).  THEOREM (`data_never_overruns`): in every reachable configuration the DATA frame at the
  head of the queue is accepted by `window_consumed` — for all interleavings, any number of frames in flight, windows
  driven negative by a reduction included (RFC 7540 §6.9.2).  An empty DATA frame arriving in a negative window is
  exactly where the proof needs D43's repair (`C04_empty_frame_fits`).

  What this is not: a statement about `H2Connection`.  The four operations are the arithmetic that the connection
  model performs (C03_stream_send, C03_conn_window_update, C04_consumed, C04_opened, C04_process_bytes, C11_*); the
  system here composes them.  Overflow past 2^31-1 (known finding D44) is outside: the theorem is about DATA.
-/
import H2.Gen.Windows
namespace H2
open H2.Gen
namespace PairCredit

/-- what travels from the sender to the receiver; `after` is a ghost: the sender's view of the window right after
    it sent the entry -/
inductive Ent where
  | data (n : Int) (after : Int)
  | ack (delta : Int) (after : Int)

def Ent.after : Ent → Int
  | .data _ a => a
  | .ack _ a => a

/-- what travels from the receiver to the sender -/
inductive Back where
  | credit (v : Int)        -- WINDOW_UPDATE
  | settings (delta : Int)  -- SETTINGS changing INITIAL_WINDOW_SIZE by delta (not yet in force at the receiver)

structure CS where
  sOut : Int
  r : WindowManager
  q : List Ent
  back : List Back

def creditsIn (b : List Back) : Int :=
  b.foldl (fun acc x => match x with | .credit v => acc + v | .settings _ => acc) 0

/-- the receiver's window after it will have processed an entry -/
def applyEnt (w : Int) : Ent → Int
  | .data n _ => w - n
  | .ack d _ => w + d

def replay (w : Int) (es : List Ent) : Int := es.foldl applyEnt w

inductive Step : CS → CS → Prop
  /-- `send_data` within the sender's view of the window (an empty frame always may go: RFC 7540 §6.9.1) -/
  | send (c : CS) (n : Int) : 0 ≤ n → (n ≤ c.sOut ∨ n = 0) →
      Step c { c with sOut := c.sOut - n, q := c.q ++ [.data n (c.sOut - n)] }
  /-- the receiver hands out credit (`increment_flow_control_window`, `acknowledge_received_data`) -/
  | credit (c : CS) (v : Int) : 0 ≤ v →
      Step c { c with r := { c.r with current_window_size := c.r.current_window_size + v }, back := c.back ++ [.credit v] }
  /-- the receiver changes INITIAL_WINDOW_SIZE: in force only when acknowledged -/
  | settings (c : CS) (d : Int) : Step c { c with back := c.back ++ [.settings d] }
  /-- a WINDOW_UPDATE arrives at the sender -/
  | recvCredit (c : CS) (v : Int) (rest : List Back) : c.back = .credit v :: rest →
      Step c { c with sOut := c.sOut + v, back := rest }
  /-- the SETTINGS frame arrives at the sender: applied at once, acknowledged -/
  | recvSettings (c : CS) (d : Int) (rest : List Back) : c.back = .settings d :: rest →
      Step c { c with sOut := c.sOut + d, back := rest, q := c.q ++ [.ack d (c.sOut + d)] }
  /-- the acknowledgement arrives at the receiver: its own change takes effect -/
  | recvAck (c : CS) (d a : Int) (rest : List Ent) : c.q = .ack d a :: rest →
      Step c { c with r := { c.r with current_window_size := c.r.current_window_size + d }, q := rest }
  /-- a DATA frame arrives at the receiver and is charged by the generated `window_consumed` -/
  | recvData (c : CS) (n a : Int) (rest : List Ent) : c.q = .data n a :: rest →
      (c.r.window_consumed n).1 = .ok none →
      Step c { c with r := (c.r.window_consumed n).2, q := rest }

inductive Reach (c0 : CS) : CS → Prop
  | init : Reach c0 c0
  | step (c c' : CS) : Reach c0 c → Step c c' → Reach c0 c'

/-- the invariant: the credit equation for the end of the queue, and for every prefix of the queue the receiver's
    window after that prefix is at least what the sender believed it had at that moment -/
structure Inv (c : CS) : Prop where
  eq : c.sOut + creditsIn c.back = replay c.r.current_window_size c.q
  pre : ∀ pre e post, c.q = pre ++ e :: post → e.after ≤ replay c.r.current_window_size (pre ++ [e])
  dataOk : ∀ e ∈ c.q, ∀ n a, e = .data n a → 0 ≤ n ∧ (0 < n → 0 ≤ a)
  creditsNonneg : ∀ b ∈ c.back, ∀ v, b = .credit v → 0 ≤ v

theorem creditsIn_nonneg (b : List Back) (h : ∀ x ∈ b, ∀ v, x = .credit v → 0 ≤ v) : 0 ≤ creditsIn b := by
  unfold creditsIn
  suffices ∀ acc : Int, 0 ≤ acc → 0 ≤ b.foldl (fun acc x => match x with | .credit v => acc + v | .settings _ => acc) acc from
    this 0 (by omega)
  induction b with
  | nil => intro acc h0; exact h0
  | cons x xs ih =>
    intro acc h0
    simp only [List.foldl_cons]
    apply ih (fun y hy => h y (List.mem_cons_of_mem _ hy))
    cases x with
    | credit v => have := h (.credit v) (List.mem_cons_self ..) v rfl; simp only; omega
    | settings d => exact h0

theorem creditsIn_append (a b : List Back) : creditsIn (a ++ b) = creditsIn a + creditsIn b := by
  unfold creditsIn
  rw [List.foldl_append]
  suffices ∀ (acc : Int), b.foldl (fun acc x => match x with | .credit v => acc + v | .settings _ => acc) acc =
      acc + b.foldl (fun acc x => match x with | .credit v => acc + v | .settings _ => acc) 0 from this _
  induction b with
  | nil => intro acc; simp
  | cons x xs ih =>
    intro acc
    simp only [List.foldl_cons]
    rw [ih, ih (match x with | .credit v => 0 + v | .settings _ => 0)]
    cases x <;> simp <;> omega

theorem creditsIn_cons_credit (v : Int) (rest : List Back) : creditsIn (.credit v :: rest) = v + creditsIn rest := by
  have := creditsIn_append [.credit v] rest
  simp only [List.singleton_append] at this
  rw [this]; simp [creditsIn]
theorem creditsIn_cons_settings (d : Int) (rest : List Back) : creditsIn (.settings d :: rest) = creditsIn rest := by
  have := creditsIn_append [.settings d] rest
  simp only [List.singleton_append] at this
  rw [this]; simp [creditsIn]

theorem replay_append (w : Int) (a b : List Ent) : replay w (a ++ b) = replay (replay w a) b := by
  unfold replay; rw [List.foldl_append]
theorem replay_cons (w : Int) (e : Ent) (es : List Ent) : replay w (e :: es) = replay (applyEnt w e) es := rfl
theorem replay_single (w : Int) (e : Ent) : replay w [e] = applyEnt w e := rfl

/-- replaying from a window that is `v` higher ends `v` higher -/
theorem replay_shift (w v : Int) (es : List Ent) : replay (w + v) es = replay w es + v := by
  induction es generalizing w with
  | nil => rfl
  | cons e t ih =>
    rw [replay_cons, replay_cons]
    have : applyEnt (w + v) e = applyEnt w e + v := by cases e <;> simp [applyEnt] <;> omega
    rw [this, ih]

theorem split_snoc {α : Type} (q pre post : List α) (i j : α) (h : q ++ [i] = pre ++ j :: post) :
    (∃ post', q = pre ++ j :: post' ∧ post = post' ++ [i]) ∨ (pre = q ∧ j = i ∧ post = []) := by
  induction q generalizing pre with
  | nil =>
    cases pre with
    | nil => simp at h; exact Or.inr ⟨rfl, h.1.symm, h.2⟩
    | cons a t => simp at h
  | cons x xs ih =>
    cases pre with
    | nil =>
      simp only [List.cons_append, List.nil_append, List.cons.injEq] at h
      exact Or.inl ⟨xs, by rw [h.1]; rfl, h.2.symm⟩
    | cons a t =>
      simp only [List.cons_append, List.cons.injEq] at h
      rcases ih t h.2 with ⟨post', h1, h2⟩ | ⟨h1, h2, h3⟩
      · exact Or.inl ⟨post', by rw [h.1, h1]; rfl, h2⟩
      · exact Or.inr ⟨by rw [h.1, h1], h2, h3⟩

/-- `window_consumed` on the current window: the arithmetic (generated code) -/
theorem consumed_cur (w : WindowManager) (n : Int) :
    (w.window_consumed n).2.current_window_size = w.current_window_size - n ∧
    ((w.window_consumed n).1 = .ok none ↔ ¬ (0 < n ∧ w.current_window_size - n < 0)) := by
  unfold WindowManager.window_consumed
  simp only [decide_eq_true_eq, Bool.and_eq_true, gt_iff_lt]
  constructor
  · split <;> rfl
  · split
    · rename_i h; simp [h]
    · rename_i h; simp [h]

theorem inv_step (c c' : CS) (h : Inv c) (hs : Step c c') : Inv c' := by
  cases hs with
  | send n hn hfit =>
    have hW := creditsIn_nonneg c.back h.creditsNonneg
    refine ⟨?_, ?_, ?_, h.creditsNonneg⟩
    · show c.sOut - n + creditsIn c.back = replay c.r.current_window_size (c.q ++ [.data n (c.sOut - n)])
      rw [replay_append, replay_single, ← h.eq]; simp [applyEnt]; omega
    · intro pre e post hsplit
      rcases split_snoc c.q pre post _ e hsplit with ⟨post', h1, _⟩ | ⟨h1, h2, _⟩
      · exact h.pre pre e post' h1
      · subst h2; rw [h1, replay_append, replay_single, ← h.eq]
        simp only [Ent.after, applyEnt]; omega
    · intro e he n' a' heq
      rcases List.mem_append.mp he with h1 | h1
      · exact h.dataOk e h1 n' a' heq
      · simp only [List.mem_singleton] at h1
        rw [h1] at heq; injection heq with hn' ha'
        subst hn'; subst ha'
        refine ⟨hn, fun hpos => ?_⟩
        rcases hfit with hf | hf <;> omega
  | credit v hv =>
    refine ⟨?_, ?_, h.dataOk, ?_⟩
    · show c.sOut + creditsIn (c.back ++ [.credit v]) = replay (c.r.current_window_size + v) c.q
      rw [creditsIn_append, replay_shift, ← h.eq]; simp [creditsIn]; omega
    · intro pre e post hsplit
      show e.after ≤ replay (c.r.current_window_size + v) (pre ++ [e])
      rw [replay_shift]
      have := h.pre pre e post hsplit
      omega
    · intro b hb v' hb'
      rcases List.mem_append.mp hb with h1 | h1
      · exact h.creditsNonneg b h1 v' hb'
      · simp only [List.mem_singleton] at h1; rw [h1] at hb'; injection hb' with hb'; omega
  | settings d =>
    refine ⟨?_, h.pre, h.dataOk, ?_⟩
    · show c.sOut + creditsIn (c.back ++ [.settings d]) = _
      rw [creditsIn_append]; have := h.eq; simp [creditsIn] at this ⊢; exact this
    · intro b hb v' hb'
      rcases List.mem_append.mp hb with h1 | h1
      · exact h.creditsNonneg b h1 v' hb'
      · simp only [List.mem_singleton] at h1; rw [h1] at hb'; cases hb'
  | recvCredit v rest hb =>
    refine ⟨?_, h.pre, h.dataOk, ?_⟩
    · show c.sOut + v + creditsIn rest = replay c.r.current_window_size c.q
      have := h.eq; rw [hb, creditsIn_cons_credit] at this; omega
    · intro b hb' v' hv'
      exact h.creditsNonneg b (by rw [hb]; exact List.mem_cons_of_mem _ hb') v' hv'
  | recvSettings d rest hb =>
    have hW : 0 ≤ creditsIn rest := creditsIn_nonneg rest (fun b hb' v' hv' =>
      h.creditsNonneg b (by rw [hb]; exact List.mem_cons_of_mem _ hb') v' hv')
    have heq := h.eq
    rw [hb, creditsIn_cons_settings] at heq
    refine ⟨?_, ?_, ?_, ?_⟩
    · show c.sOut + d + creditsIn rest = replay c.r.current_window_size (c.q ++ [.ack d (c.sOut + d)])
      rw [replay_append, replay_single, ← heq]; simp [applyEnt]; omega
    · intro pre e post hsplit
      rcases split_snoc c.q pre post _ e hsplit with ⟨post', h1, _⟩ | ⟨h1, h2, _⟩
      · exact h.pre pre e post' h1
      · subst h2; rw [h1, replay_append, replay_single, ← heq]
        simp only [Ent.after, applyEnt]; omega
    · intro e he n' a' heq'
      rcases List.mem_append.mp he with h1 | h1
      · exact h.dataOk e h1 n' a' heq'
      · simp only [List.mem_singleton] at h1; rw [h1] at heq'; cases heq'
    · intro b hb' v' hv'
      exact h.creditsNonneg b (by rw [hb]; exact List.mem_cons_of_mem _ hb') v' hv'
  | recvAck d a rest hq =>
    refine ⟨?_, ?_, ?_, h.creditsNonneg⟩
    · show c.sOut + creditsIn c.back = replay (c.r.current_window_size + d) rest
      have := h.eq; rw [hq, replay_cons] at this; exact this
    · intro pre e post hsplit
      show e.after ≤ replay (c.r.current_window_size + d) (pre ++ [e])
      have := h.pre (.ack d a :: pre) e post (by rw [hq]; show _ :: rest = _ :: (pre ++ e :: post); rw [show rest = pre ++ e :: post from hsplit])
      rw [List.cons_append, replay_cons] at this
      exact this
    · intro e he n' a' heq
      exact h.dataOk e (by rw [hq]; exact List.mem_cons_of_mem _ he) n' a' heq
  | recvData n a rest hq hok =>
    have hc := (consumed_cur c.r n).1
    refine ⟨?_, ?_, ?_, h.creditsNonneg⟩
    · show c.sOut + creditsIn c.back = replay (c.r.window_consumed n).2.current_window_size rest
      rw [hc]
      have := h.eq; rw [hq, replay_cons] at this; exact this
    · intro pre e post hsplit
      show e.after ≤ replay (c.r.window_consumed n).2.current_window_size (pre ++ [e])
      rw [hc]
      have := h.pre (.data n a :: pre) e post (by rw [hq]; show _ :: rest = _ :: (pre ++ e :: post); rw [show rest = pre ++ e :: post from hsplit])
      rw [List.cons_append, replay_cons] at this
      exact this
    · intro e he n' a' heq
      exact h.dataOk e (by rw [hq]; exact List.mem_cons_of_mem _ he) n' a' heq

theorem reach_inv (c0 c : CS) (h0 : Inv c0) (h : Reach c0 c) : Inv c := by
  induction h with
  | init => exact h0
  | step c c' _ hs ih => exact inv_step c c' ih hs

/-- two fresh endpoints: nothing in flight, both believe the same window -/
theorem inv_fresh (w : WindowManager) : Inv { sOut := w.current_window_size, r := w, q := [], back := [] } :=
  ⟨by simp [creditsIn, replay], fun pre e post h => by simp at h, fun e he => by simp at he, fun b hb => by simp at hb⟩

/-- **a DATA frame the sender was allowed to send never overruns the receiver's window**, whatever crosses it: in
    every configuration reachable from two fresh endpoints, the DATA frame at the head of the queue is accepted by the
    generated `window_consumed` -/
theorem data_never_overruns (w : WindowManager) (c : CS)
    (h : Reach { sOut := w.current_window_size, r := w, q := [], back := [] } c)
    (n a : Int) (rest : List Ent) (hq : c.q = .data n a :: rest) :
    (c.r.window_consumed n).1 = .ok none := by
  have hi := reach_inv _ c (inv_fresh w) h
  rw [(consumed_cur c.r n).2]
  intro ⟨hpos, hneg⟩
  have h1 := hi.pre [] (.data n a) rest (by rw [hq]; rfl)
  have h2 := hi.dataOk (.data n a) (by rw [hq]; exact List.mem_cons_self ..) n a rfl
  simp only [List.nil_append, replay_single, applyEnt, Ent.after] at h1
  have := h2.2 hpos
  omega

/-- non-vacuity: the sender has 100 bytes in flight when the receiver cuts the window to below them; the sender's
    view goes negative, the acknowledgement follows the data, and the data is still accepted -/
example : ∃ c, Reach { sOut := 65535, r := { max_window_size := 65535, current_window_size := 65535, bytes_processed := 0 },
                       q := [], back := [] } c ∧ c.sOut = -100 ∧ c.q.length = 2 := by
  refine ⟨_, Reach.step _ _ (Reach.step _ _ (Reach.step _ _ Reach.init (Step.send _ 100 (by decide) (Or.inl (by decide))))
    (Step.settings _ (-65535))) (Step.recvSettings _ (-65535) [] rfl), ?_, ?_⟩
  · decide
  · rfl

end PairCredit
end H2
