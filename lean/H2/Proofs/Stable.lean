import H2.Proofs.RecvEmits
namespace H2
open H2.Gen H2.Conn

/-! ### lifting an invariant of the frame handlers to `receive_data`

  For a predicate on connections that does not look at the frame buffer and that the connection state machine,
  `_prepare_for_sending` and every frame handler preserve (whether they return or raise), `receive_data` preserves it
  for every byte string. -/

structure Stable (P : Conn → Prop) : Prop where
  fb : ∀ c fb, P c → P { c with fb := fb }
  connInput : ∀ i c, P c → wp (connInput i) (fun _ c' => P c') (fun _ c' => P c') c
  prepare : ∀ fs c, P c → wp (prepareForSending fs) (fun _ c' => P c') (fun _ c' => P c') c
  dispatch : ∀ rf c, P c → wp (dispatch rf) (fun _ c' => P c') (fun _ c' => P c') c

variable {P : Conn → Prop}

theorem stable_frameErrorHandler (hP : Stable P) (e : Exc) (c : Conn) (h : P c) :
    wp (frameErrorHandler e) (fun _ c' => P c') (fun _ c' => P c') c := by
  unfold frameErrorHandler
  cases e with
  | py k => exact h
  | h2 cls code esid evs =>
    simp only
    have step : ∀ (fr : Frame) (ret : List Event), wp (do
        Conn.connInput .SEND_RST_STREAM
        prepareForSending [fr]
        pure ret) (fun _ c' => P c') (fun _ c' => P c') c := by
      intro fr ret
      wps
      refine wp_mono (hP.connInput _ c h) ?_ (fun _ _ h' => h')
      intro _ c1 h1
      wps
      refine wp_mono (hP.prepare _ c1 h1) ?_ (fun _ _ h' => h')
      intro _ c2 h2; wps; exact h2
    split
    · wps
      split
      · have := step (Frame.rstStream (esid.getD 0) (code.getD 0)) evs
        simp only [wp_bind] at this
        exact this
      · exact h
    · wps
      split
      · have := step (Frame.rstStream (esid.getD 0) ErrorCodes.STREAM_CLOSED) []
        simp only [wp_bind] at this
        exact this
      · split <;> exact h

theorem stable_receiveFrame (hP : Stable P) (rf : RFrame) (c : Conn) (h : P c) :
    wp (receiveFrame rf) (fun _ c' => P c') (fun _ c' => P c') c := by
  unfold receiveFrame
  wps
  refine wp_mono (hP.dispatch rf c h) ?_ ?_
  · intro fe c1 h1
    obtain ⟨frames, events⟩ := fe
    wps
    refine wp_mono (hP.prepare frames c1 h1) ?_ (fun _ _ h' => h')
    intro _ c2 h2; wps; exact h2
  · intro e c1 h1
    split
    · try wps
      refine wp_mono (stable_frameErrorHandler hP e c1 h1) ?_ (fun _ _ h' => h')
      intro evs c2 h2; wps; exact h2
    · exact h1

theorem stable_hideFb {α : Type} (hP : Stable P) (m : CM α) (c : Conn) (h : P c)
    (hm : ∀ c, P c → wp m (fun _ c' => P c') (fun _ c' => P c') c) : P (hideFb m c).2 := by
  unfold hideFb
  have := hm { c with fb := {} } (hP.fb c {} h)
  unfold wp at this
  cases hmc : m { c with fb := {} } with
  | mk r c' =>
    rw [hmc] at this
    simp only
    have hc' : P c' := by cases r <;> exact this
    exact hP.fb c' c.fb hc'

theorem stable_recvLoop (hP : Stable P) (fuel : Nat) (evs : List Event) (c : Conn) (h : P c) :
    P (recvLoop fuel evs c).2 := by
  induction fuel generalizing evs c with
  | zero => exact h
  | succ n ih =>
    rw [recvLoop_succ]
    cases hnx : FrameBuffer.next (c.fb.data.length + 1) c.fb with
    | mk r fb =>
      cases r with
      | error e => exact hP.fb c fb h
      | ok o =>
        cases o with
        | none => exact hP.fb c fb h
        | some rf =>
          simp only
          have h1 := stable_hideFb hP (receiveFrame rf) { c with fb := fb } (hP.fb c fb h) (stable_receiveFrame hP rf)
          cases hm : hideFb (receiveFrame rf) { c with fb := fb } with
          | mk r2 c2 =>
            rw [hm] at h1
            cases r2 with
            | error e => exact h1
            | ok es => exact ih _ _ (hP.fb c2 _ h1)

theorem stable_terminate (hP : Stable P) (code : Int) (c : Conn) (h : P c) :
    wp (terminateConnection code) (fun _ c' => P c') (fun _ c' => P c') c := by
  unfold terminateConnection
  wps
  refine wp_mono (hP.connInput _ c h) ?_ (fun _ _ h' => h')
  intro _ c1 h1
  exact hP.prepare _ c1 h1

theorem stable_handleRecvError (hP : Stable P) (e : Exc) (c : Conn) (h : P c) :
    wp (handleRecvError e) (fun _ c' => P c') (fun _ c' => P c') c := by
  unfold handleRecvError
  split
  · wps
    refine wp_mono (stable_terminate hP _ c h) ?_ (fun _ _ h' => h')
    intro _ c1 h1; wps; exact h1
  · split
    · split
      · wps
        refine wp_mono (stable_terminate hP _ c h) ?_ (fun _ _ h' => h')
        intro _ c1 h1; wps; exact h1
      · exact h
    · exact h
  · exact h

/-- **`receive_data` preserves every stable predicate**, for every byte string -/
theorem stable_receiveData (hP : Stable P) (d : Bytes) (c : Conn) (h : P c) : P (receiveData d c).2 := by
  unfold receiveData
  cases FrameBuffer.addData c.fb d with
  | error e => exact h
  | ok fb =>
    simp only
    have h0 := hP.fb c { fb with maxFrameSize := c.maxInFrame } h
    have h1 := stable_recvLoop hP (fb.data.length + 1) [] _ h0
    cases hl : recvLoop (fb.data.length + 1) [] { c with fb := { fb with maxFrameSize := c.maxInFrame } } with
    | mk r c1 =>
      rw [hl] at h1
      cases r with
      | ok evs => exact h1
      | error e => exact stable_hideFb hP (handleRecvError e) c1 h1 (stable_handleRecvError hP e)

end H2
