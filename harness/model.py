"""The Lean model as a subprocess speaking the line protocol."""
import os
import subprocess

HERE = os.path.dirname(os.path.abspath(__file__))
DRV = os.path.join(HERE, '..', 'lean', '.lake', 'build', 'bin', 'h2drv')


class ModelProc(object):
    def __init__(self, path=None):
        # H2_DRV: the driver built against the regenerated definitions (check, when a bridge theorem does not hold)
        path = path or os.environ.get('H2_DRV') or DRV
        self.p = subprocess.Popen([path], stdin=subprocess.PIPE, stdout=subprocess.PIPE, bufsize=0)

    def send(self, line):
        self.p.stdin.write(line.encode('ascii') + b'\n')
        self.p.stdin.flush()
        out = self.p.stdout.readline()
        if not out:
            raise RuntimeError('model driver died on: %s' % line[:200])
        return out.decode('ascii').rstrip('\n')

    def reset(self):
        return self.send('reset')

    def close(self):
        try:
            self.p.stdin.close()
            self.p.wait(timeout=5)
        except Exception:
            self.p.kill()
