import H2.Driver
open H2.Driver

partial def loop (h : IO.FS.Stream) (out : IO.FS.Stream) (w : World) : IO Unit := do
  let line ← h.getLine
  if line.isEmpty then return ()
  let (w', s) := processLine w line
  out.putStrLn s
  out.flush
  loop h out w'

def main : IO Unit := do
  loop (← IO.getStdin) (← IO.getStdout) []
