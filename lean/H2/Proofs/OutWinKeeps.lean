/-
  Nothing but `send_data` and the WINDOW_UPDATE handler writes the connection's outbound flow-control window.
  (Generated from the `PS` section of Proofs/RecvEmits by substituting the field; same lemma-per-primitive scheme.)
  Used by Proofs/OutWin for the invariant `0 ≤ outbound_flow_control_window`.
-/
import H2.Proofs.RecvEmits
namespace H2
open H2.Gen H2.Conn

section
variable {α : Type} {Q : α → Conn → Prop} {E : Exc → Conn → Prop}

theorem po_connInput {Q : Unit → Conn → Prop} (i : ConnectionInputs) (c : Conn) (s0 : Int) (h : c.outWin = s0)
    (hq : ∀ c', c'.outWin = s0 → Q () c') (he : ∀ e c', c'.outWin = s0 → E e c') : wp (connInput i) Q E c := by
  unfold wp connInput
  cases connTable c.cstate i with
  | none => exact he _ _ h
  | some t => exact hq _ h

theorem po_withStream (sid : Int) (m : M Stream α) (c : Conn) (s0 : Int) (h : c.outWin = s0)
    (hq : ∀ a c', c'.outWin = s0 → Q a c') (he : ∀ e c', c'.outWin = s0 → E e c') : wp (withStream sid m) Q E c := by
  rw [wp_withStream]
  cases c.streams.lookup sid with
  | none => exact he _ _ h
  | some st => exact wp_havoc (fun a s' => hq a _ h) (fun e s' => he e _ h)

theorem po_getStreamById {Q : Unit → Conn → Prop} (sid : Int) (c : Conn) (s0 : Int) (h : c.outWin = s0)
    (hq : ∀ c', c'.outWin = s0 → Q () c') (he : ∀ e c', c'.outWin = s0 → E e c') : wp (getStreamById sid) Q E c := by
  rw [wp_getStreamById_eq]
  repeat' split
  all_goals first | exact hq c h | exact he _ c h

theorem po_openStreams {Q : Int → Conn → Prop} (r : Int) (c : Conn) (s0 : Int) (h : c.outWin = s0)
    (hq : ∀ a c', c'.outWin = s0 → Q a c') : wp (openStreams r) Q E c := by
  simp only [wp, openStreams]; exact hq _ _ h

theorem po_onConnWM {Q : Option Int → Conn → Prop} (f : WindowManager → WRes) (c : Conn) (s0 : Int) (h : c.outWin = s0)
    (hq : ∀ a c', c'.outWin = s0 → Q a c') (he : ∀ e c', c'.outWin = s0 → E e c') : wp (onConnWM f) Q E c := by
  rw [wp_onConnWM]
  cases f c.inWM with
  | mk r w => cases r <;> first | exact hq _ _ h | exact he _ _ h

theorem po_decodeHeaders {Q : List Header → Conn → Prop} (b : Bytes) (c : Conn) (s0 : Int) (h : c.outWin = s0)
    (hq : ∀ a c', c'.outWin = s0 → Q a c') (he : ∀ e c', c'.outWin = s0 → E e c') : wp (decodeHeaders b) Q E c := by
  unfold decodeHeaders
  wps
  apply wp_havoc
  · intro r hp'
    cases r <;> wps <;> first | exact hq _ _ h | exact he _ _ h
  · intro e hp'; exact he _ _ h

theorem po_fcc {Q : Unit → Conn → Prop} (o n : Int) (c : Conn) (s0 : Int) (h : c.outWin = s0)
    (hq : ∀ c', c'.outWin = s0 → Q () c') (he : ∀ e c', c'.outWin = s0 → E e c') :
    wp (flowControlChangeFromSettings o n) Q E c := by
  unfold wp flowControlChangeFromSettings
  simp only
  cases flowControlChangeFromSettings.go (n - o) [] c.streams with
  | mk r ss => cases r <;> first | exact hq _ h | exact he _ _ h

theorem po_ifcc {Q : Unit → Conn → Prop} (o n : Int) (c : Conn) (s0 : Int) (h : c.outWin = s0)
    (hq : ∀ c', c'.outWin = s0 → Q () c') (he : ∀ e c', c'.outWin = s0 → E e c') :
    wp (inboundFlowControlChangeFromSettings o n) Q E c := by
  unfold wp inboundFlowControlChangeFromSettings
  simp only
  cases inboundFlowControlChangeFromSettings.go (n - o) [] c.streams with
  | mk r ss => cases r <;> first | exact hq _ h | exact he _ _ h

theorem po_putStream {Q : Unit → Conn → Prop} (sid : Int) (st : Stream) (c : Conn) (s0 : Int) (h : c.outWin = s0)
    (hq : ∀ c', c'.outWin = s0 → Q () c') : wp (putStream sid st) Q E c := by
  rw [wp_putStream]
  apply hq
  unfold putStream modifyS; simp only
  split <;> exact h

end

theorem localOtherChanges_outWin (ch : List (Int × Option Int × Int)) (c : Conn) : (localOtherChanges ch c).outWin = c.outWin := by
  unfold localOtherChanges; repeat' split
  all_goals rfl
theorem remoteOtherChanges_outWin (ch : List (Int × Option Int × Int)) (c : Conn) : (remoteOtherChanges ch c).outWin = c.outWin := by
  unfold remoteOtherChanges; repeat' split
  all_goals rfl

/-- close goals of the form `… .outWin = s0` / continue through a method that never writes frames -/
macro "po_auto" : tactic => `(tactic|
  repeat' (first
    | assumption
    | (rw [localOtherChanges_outWin]; assumption)
    | (rw [remoteOtherChanges_outWin]; assumption)
    | (apply po_connInput _ _ _ (by assumption))
    | (apply po_withStream _ _ _ _ (by assumption))
    | (apply po_getStreamById _ _ _ (by assumption))
    | (apply po_openStreams _ _ _ (by assumption))
    | (apply po_onConnWM _ _ _ (by assumption))
    | (apply po_decodeHeaders _ _ _ (by assumption))
    | (apply po_fcc _ _ _ _ (by assumption))
    | (apply po_ifcc _ _ _ _ (by assumption))
    | (apply po_putStream _ _ _ _ (by assumption))
    | (intro _)
    | wps
    | split))

abbrev PO (m : CM α) (c : Conn) : Prop := wp m (fun _ c' => c'.outWin = c.outWin) (fun _ c' => c'.outWin = c.outWin) c

theorem po_ping (a : Bool) (p : Bytes) (c : Conn) : PO (receivePingFrame a p) c := by
  have h : c.outWin = c.outWin := rfl
  unfold PO receivePingFrame; po_auto
theorem po_priority (sid : Int) (p : Prio) (c : Conn) : PO (receivePriorityFrame sid p) c := by
  have h : c.outWin = c.outWin := rfl
  unfold PO receivePriorityFrame; po_auto


theorem po_goaway (l k : Int) (x : Bytes) (c : Conn) : PO (receiveGoawayFrame l k x) c := by
  have h : c.outWin = c.outWin := rfl
  unfold PO receiveGoawayFrame clearOutboundDataBuffer; po_auto
theorem po_rst (sid code : Int) (c : Conn) : PO (receiveRstStreamFrame sid code) c := by
  have h : c.outWin = c.outWin := rfl
  unfold PO receiveRstStreamFrame; po_auto
theorem po_altsvc (sid : Int) (o f : Bytes) (c : Conn) : PO (receiveAltSvcFrame sid o f) c := by
  have h : c.outWin = c.outWin := rfl
  unfold PO receiveAltSvcFrame; po_auto
theorem po_cont (sid : Int) (c : Conn) : PO (receiveNakedContinuation sid) c := by
  have h : c.outWin = c.outWin := rfl
  unfold PO receiveNakedContinuation; po_auto
theorem po_data (sid : Int) (p : Bytes) (es : Bool) (fcl : Int) (c : Conn) : PO (receiveDataFrame sid p es fcl) c := by
  have h : c.outWin = c.outWin := rfl
  unfold PO receiveDataFrame; po_auto
theorem po_settings (ack : Bool) (items : List (Int × Int)) (c : Conn) : PO (receiveSettingsFrame ack items) c := by
  have h : c.outWin = c.outWin := rfl
  unfold PO receiveSettingsFrame localSettingsAcked acknowledgeSettings localWindowChange remoteWindowChange
  po_auto


theorem po_use {α : Type} {Q : α → Conn → Prop} {E : Exc → Conn → Prop} {m : CM α} (hm : ∀ c, PO m c) (c : Conn)
    (s0 : Int) (h : c.outWin = s0) (hq : ∀ a c', c'.outWin = s0 → Q a c') (he : ∀ e c', c'.outWin = s0 → E e c') :
    wp m Q E c :=
  wp_mono (hm c) (fun a c' h' => hq a c' (h'.trans h)) (fun e c' h' => he e c' (h'.trans h))

theorem po_createStream (sid : Int) (ob : Bool) (c : Conn) : PO (createStream sid ob) c := by
  have h : c.outWin = c.outWin := rfl
  unfold PO createStream optInt?
  po_auto

theorem po_beginNewStream (sid : Int) (odd : Bool) (c : Conn) : PO (beginNewStream sid odd) c := by
  have h : c.outWin = c.outWin := rfl
  unfold PO beginNewStream
  repeat' (first | assumption | (apply po_use (po_createStream _ _) _ _ (by assumption)) | (intro _) | wps | split)

theorem po_getOrCreateStream (sid : Int) (odd : Bool) (c : Conn) : PO (getOrCreateStream sid odd) c := by
  have h : c.outWin = c.outWin := rfl
  unfold PO getOrCreateStream
  repeat' (first | assumption | (apply po_use (po_beginNewStream _ _) _ _ (by assumption)) | (intro _) | wps | split)

theorem po_refuse (p : Int) (c : Conn) : PO (refusePushedStream p) c := by
  have h : c.outWin = c.outWin := rfl
  unfold PO refusePushedStream; po_auto

macro "po_auto2" : tactic => `(tactic|
  repeat' (first
    | assumption
    | (apply po_use (po_getOrCreateStream _ _) _ _ (by assumption))
    | (apply po_use (po_beginNewStream _ _) _ _ (by assumption))
    | (apply po_use (po_priority _ _) _ _ (by assumption))
    | (apply po_use (po_refuse _) _ _ (by assumption))
    | (apply po_connInput _ _ _ (by assumption))
    | (apply po_withStream _ _ _ _ (by assumption))
    | (apply po_getStreamById _ _ _ (by assumption))
    | (apply po_openStreams _ _ _ (by assumption))
    | (apply po_decodeHeaders _ _ _ (by assumption))
    | (intro _)
    | wps
    | split))

theorem po_headersRest (sid : Int) (b : Bytes) (es : Bool) (pr : Option Prio) (c : Conn) : PO (receiveHeadersRest sid b es pr) c := by
  have h : c.outWin = c.outWin := rfl
  unfold PO receiveHeadersRest
  po_auto2

theorem po_headers (sid : Int) (b : Bytes) (es : Bool) (pr : Option Prio) (c : Conn) : PO (receiveHeadersFrame sid b es pr) c := by
  have h : c.outWin = c.outWin := rfl
  unfold PO receiveHeadersFrame openInboundStreams
  repeat' (first
    | assumption
    | (apply po_use (po_headersRest _ _ _ _) _ _ (by assumption))
    | (apply po_openStreams _ _ _ (by assumption))
    | (intro _)
    | wps
    | split)

theorem po_pushKnown (sid p : Int) (hs : List Header) (c : Conn) : PO (receivePushPromiseKnown sid p hs) c := by
  have h : c.outWin = c.outWin := rfl
  unfold PO receivePushPromiseKnown openInboundStreams
  po_auto2

theorem po_pushUnknown (sid p : Int) (c : Conn) : PO (receivePushPromiseUnknown sid p) c := by
  have h : c.outWin = c.outWin := rfl
  unfold PO receivePushPromiseUnknown
  po_auto2

theorem po_push (sid p : Int) (b : Bytes) (c : Conn) : PO (receivePushPromiseFrame sid p b) c := by
  have h : c.outWin = c.outWin := rfl
  unfold PO receivePushPromiseFrame
  repeat' (first
    | assumption
    | (apply po_use (po_pushKnown _ _ _) _ _ (by assumption))
    | (apply po_use (po_pushUnknown _ _) _ _ (by assumption))
    | (apply po_connInput _ _ _ (by assumption))
    | (apply po_getStreamById _ _ _ (by assumption))
    | (apply po_decodeHeaders _ _ _ (by assumption))
    | (intro _)
    | wps
    | split)


end H2
