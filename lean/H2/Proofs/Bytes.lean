/-
  Big-endian field coding: `rd32 (be32 n) = n` etc.
-/
import H2.Model.Frame

namespace H2

theorem u8_toNat_ofNat (n : Nat) : (UInt8.ofNat n).toNat = n % 256 := by
  simp [UInt8.toNat_ofNat']

theorem rd32_be32 (n : Nat) (h : n < 4294967296) : rd32 (be32 n) = n := by
  simp only [be32, rd32, u8_toNat_ofNat]
  omega

theorem rd16_be16 (n : Nat) (h : n < 65536) : rd16 (be16 n) = n := by
  simp only [be16, rd16, u8_toNat_ofNat]
  omega

theorem rd24_be24 (n : Nat) (h : n < 16777216) : rd24 (be24 n) = n := by
  simp only [be24, rd24, u8_toNat_ofNat]
  omega

theorem be32_length (n : Nat) : (be32 n).length = 4 := rfl
theorem be16_length (n : Nat) : (be16 n).length = 2 := rfl

theorem u32?_nat (n : Nat) (h : n < 4294967296) : u32? (n : Int) = some (be32 n) := by
  unfold u32?
  rw [if_pos ⟨by omega, by omega⟩, Int.toNat_natCast]

theorem u8?_nat (n : Nat) (h : n < 256) : u8? (n : Int) = some [UInt8.ofNat n] := by
  unfold u8?
  rw [if_pos ⟨by omega, by omega⟩, Int.toNat_natCast]

theorem u16?_nat (n : Nat) (h : n < 65536) : u16? (n : Int) = some (be16 n) := by
  unfold u16?
  rw [if_pos ⟨by omega, by omega⟩, Int.toNat_natCast]

end H2
