/-
  C21, assembly: `receive_data(a); receive_data(b)` against `receive_data(a + b)` — the preface check
  distributes over concatenation, the loop is stable under more input (Proofs/RecvLoop.lean), the error path
  (`GOAWAY`, re-raise) runs on the same state either way.
-/
import H2.Proofs.RecvLoop
namespace H2
open H2.Gen H2.Conn

namespace FrameBuffer

theorem next1_pre (fb : FrameBuffer) : (next1 fb).2.preamble = fb.preamble := by
  have h := next1_setPre fb fb.preamble
  have e : fb.setPre fb.preamble = fb := rfl
  rw [e] at h
  have := congrArg (fun p => p.2.preamble) h
  simp only [setPre] at this
  exact this

theorem next_pre (f : Nat) (fb : FrameBuffer) : (next f fb).2.preamble = fb.preamble := by
  induction f generalizing fb with
  | zero => rfl
  | succ n ih =>
    rw [next_succ]
    have h1 := next1_pre fb
    cases hn : next1 fb with
    | mk r fb' =>
      rw [hn] at h1
      cases r with
      | error e => exact h1
      | ok o => cases o with
        | none => exact h1
        | frame f => exact h1
        | skip => simp only; rw [ih fb']; exact h1

/-- the invariant of the preface check: bytes are buffered only once the preface is complete -/
def PreInv (fb : FrameBuffer) : Prop := fb.preamble ≠ [] → fb.data = []

theorem addData_eq (fb : FrameBuffer) (d : Bytes) :
    addData fb d = if fb.preamble = [] then .ok { fb with data := fb.data ++ d } else
      if fb.preamble.take (min fb.preamble.length d.length) = d.take (min fb.preamble.length d.length) then
        .ok { fb with data := fb.data ++ d.drop (min fb.preamble.length d.length),
                      preamble := fb.preamble.drop (min fb.preamble.length d.length) }
      else .error (mkExc .ProtocolError) := by
  unfold addData
  by_cases hp : fb.preamble = []
  · simp [hp]
  · simp only [List.isEmpty_iff, hp, if_false, bne_iff_ne, ne_eq, ite_not]

theorem addData_error (fb : FrameBuffer) (d : Bytes) (e : Exc) (h : addData fb d = .error e) : e = mkExc .ProtocolError := by
  rw [addData_eq] at h
  split at h
  · simp at h
  · split at h
    · simp at h
    · injection h with h; exact h.symm

/-- `add_data` distributes over concatenation of the input -/
theorem addData_append (fb : FrameBuffer) (a b : Bytes) :
    addData fb (a ++ b) = (match addData fb a with
      | .error e => .error e
      | .ok fb1 => addData fb1 b) := by
  simp only [addData_eq]
  by_cases hp : fb.preamble = []
  · simp [hp, List.append_assoc]
  · simp only [hp, if_false]
    by_cases hle : fb.preamble.length ≤ a.length
    · -- the preface ends inside `a`
      have m1 : min fb.preamble.length (a ++ b).length = fb.preamble.length := by simp; omega
      have m2 : min fb.preamble.length a.length = fb.preamble.length := by omega
      rw [m1, m2]
      have t1 : (a ++ b).take fb.preamble.length = a.take fb.preamble.length := List.take_append_of_le_length hle
      have d1 : (a ++ b).drop fb.preamble.length = a.drop fb.preamble.length ++ b := List.drop_append_of_le_length hle
      rw [t1, d1, List.take_length, List.drop_length]
      by_cases hc : fb.preamble = a.take fb.preamble.length
      · simp [← hc, List.append_assoc]
      · simp [hc]
    · -- `a` is a proper prefix of what is still expected
      have hlt : a.length < fb.preamble.length := by omega
      have m2 : min fb.preamble.length a.length = a.length := by omega
      rw [m2]
      have hsplit : fb.preamble = fb.preamble.take a.length ++ fb.preamble.drop a.length := (List.take_append_drop _ _).symm
      generalize hq : fb.preamble.take a.length = q at *
      generalize hrest : fb.preamble.drop a.length = rest at *
      have hql : q.length = a.length := by rw [← hq]; simp; omega
      have hrl : rest ≠ [] := by
        intro h; have := congrArg List.length hsplit; simp [h] at this; omega
      rw [hsplit]
      have m4 : min (q ++ rest).length (a ++ b).length = a.length + min rest.length b.length := by
        simp; omega
      rw [m4]
      have e1 : (q ++ rest).take (a.length + min rest.length b.length) = q ++ rest.take (min rest.length b.length) := by
        rw [← hql, List.take_length_add_append]
      have e2 : (a ++ b).take (a.length + min rest.length b.length) = a ++ b.take (min rest.length b.length) := by
        rw [List.take_length_add_append]
      have e3 : (a ++ b).drop (a.length + min rest.length b.length) = b.drop (min rest.length b.length) := by
        rw [List.drop_length_add_append]
      have e4 : (q ++ rest).drop (a.length + min rest.length b.length) = rest.drop (min rest.length b.length) := by
        rw [← hql, List.drop_length_add_append]
      rw [e1, e2, e3, e4]
      simp only [List.take_length, List.drop_length, List.append_nil]
      by_cases hc : q = a
      · subst hc
        simp [hrl]
      · have : ¬ (q ++ rest.take (min rest.length b.length) = a ++ b.take (min rest.length b.length)) := by
          intro h
          exact hc (List.append_inj_left h hql)
        simp [hc, this]

end FrameBuffer

namespace Conn
open FrameBuffer

theorem recvLoop_pre (f : Nat) (evs : List Event) (c : Conn) : (recvLoop f evs c).2.fb.preamble = c.fb.preamble := by
  induction f generalizing evs c with
  | zero => rfl
  | succ n ih =>
    rw [recvLoop_succ]
    have hp := next_pre (c.fb.data.length + 1) c.fb
    cases hn : FrameBuffer.next (c.fb.data.length + 1) c.fb with
    | mk r fb =>
      rw [hn] at hp
      cases r with
      | error e => exact hp
      | ok o => cases o with
        | none => exact hp
        | some rf =>
          simp only
          have hfb := hideFb_fb (receiveFrame rf) { c with fb := fb }
          cases hh : hideFb (receiveFrame rf) { c with fb := fb } with
          | mk r2 c2 =>
            rw [hh] at hfb
            cases r2 with
            | error e => simp only at hfb ⊢; rw [hfb]; exact hp
            | ok es => simp only at hfb ⊢; rw [ih]; simp only; rw [hfb]; exact hp

/-- events found so far are only carried along -/
theorem recvLoop_evs (f : Nat) (evs : List Event) (c : Conn) :
    recvLoop f evs c = (match recvLoop f [] c with
      | (.ok es, c') => (.ok (evs ++ es), c')
      | (.error e, c') => (.error e, c')) := by
  induction f generalizing evs c with
  | zero => simp [recvLoop, pure, M.pure]
  | succ n ih =>
    rw [recvLoop_succ, recvLoop_succ]
    cases hn : FrameBuffer.next (c.fb.data.length + 1) c.fb with
    | mk r fb =>
      cases r with
      | error e => rfl
      | ok o => cases o with
        | none => simp
        | some rf =>
          simp only
          cases hh : hideFb (receiveFrame rf) { c with fb := fb } with
          | mk r2 c2 =>
            cases r2 with
            | error e => rfl
            | ok es =>
              simp only
              rw [ih (evs ++ es), ih ([] ++ es)]
              cases recvLoop n [] { c2 with fb := { c2.fb with maxFrameSize := c2.maxInFrame } } with
              | mk r3 c3 => cases r3 <;> simp [List.append_assoc]

theorem recvLoop_empty (f : Nat) (evs : List Event) (c : Conn) (h : c.fb.data = []) :
    recvLoop (f + 1) evs c = (.ok evs, c) := by
  rw [recvLoop_succ]
  have : FrameBuffer.next (c.fb.data.length + 1) c.fb = (.ok none, c.fb) := by
    rw [h]; simp [FrameBuffer.next, next1, h]
  rw [this]

/-- the `except` clauses of receive_data always re-raise -/
theorem handleRecvError_raises (e : Exc) (c : Conn) : ∃ e' c', handleRecvError e c = (.error e', c') := by
  have : wp (handleRecvError e) (fun _ _ => False) (fun _ _ => True) c := by
    unfold handleRecvError
    repeat' (first | trivial | wps | split | intro _ | (apply wp_havoc <;> intros <;> first | trivial | skip))
  unfold wp at this
  cases h : handleRecvError e c with
  | mk r c' =>
    rw [h] at this
    cases r with
    | ok a => exact this.elim
    | error e' => exact ⟨e', c', rfl⟩


/-- equal in everything but the frame buffer -/
def sameButFb (c1 c2 : Conn) : Prop := { c1 with fb := {} } = { c2 with fb := {} }

theorem sameButFb_refl (c : Conn) : sameButFb c c := rfl
theorem sameButFb_moreFb (c : Conn) (x : Bytes) : sameButFb (c.moreFb x) c := rfl
theorem sameButFb_trans {a b c : Conn} (h1 : sameButFb a b) (h2 : sameButFb b c) : sameButFb a c := h1.trans h2
theorem sameButFb_out {a b : Conn} (h : sameButFb a b) : a.out = b.out := by
  unfold sameButFb at h; have h2 := congrArg Conn.out h; exact h2

def startRecv (c : Conn) (fb : FrameBuffer) : Conn := { c with fb := { fb with maxFrameSize := c.maxInFrame } }

def finishRecv : Except Exc (List Event) × Conn → Except Exc (List Event) × Conn
  | (.ok evs, c) => (.ok evs, c)
  | (.error e, c) => hideFb (handleRecvError e) c

theorem receiveData_eq (d : Bytes) (c : Conn) :
    receiveData d c = (match addData c.fb d with
      | .error e => (.error e, c)
      | .ok fb => finishRecv (recvLoop ((startRecv c fb).fb.data.length + 1) [] (startRecv c fb))) := by
  unfold receiveData
  cases addData c.fb d with
  | error e => rfl
  | ok fb =>
    simp only [startRecv, finishRecv]
    cases recvLoop (fb.data.length + 1) [] { c with fb := { fb with maxFrameSize := c.maxInFrame } } with
    | mk r c' => cases r <;> rfl

theorem finishRecv_error (e : Exc) (c : Conn) : ∃ e' c', finishRecv (.error e, c) = (.error e', c') := by
  obtain ⟨e', c', h⟩ := handleRecvError_raises e { c with fb := {} }
  refine ⟨e', { c' with fb := c.fb }, ?_⟩
  simp only [finishRecv, hideFb, h]

theorem finishRecv_more (r : Except Exc (List Event)) (c : Conn) (x : Bytes) :
    finishRecv (r, c.moreFb x) = ((finishRecv (r, c)).1, (finishRecv (r, c)).2.moreFb x) := by
  cases r with
  | ok evs => rfl
  | error e =>
    simp only [finishRecv]
    exact hideFb_setFb (handleRecvError e) c (c.fb.more x)

theorem addData_setMax (fb : FrameBuffer) (d : Bytes) (m : Int) :
    addData { fb with maxFrameSize := m } d = (match addData fb d with
      | .error e => .error e
      | .ok f => .ok { f with maxFrameSize := m }) := by
  simp only [addData_eq]
  split
  · rfl
  · split <;> rfl

theorem addData_waiting (fb fb1 : FrameBuffer) (d : Bytes) (h : addData fb d = .ok fb1) (hp : fb1.preamble ≠ [])
    (hi : PreInv fb) : fb1.data = [] := by
  rw [addData_eq] at h
  split at h
  · injection h with h; subst h; contradiction
  · rename_i hne
    split at h
    · injection h with h; subst h
      simp only at hp ⊢
      have hlt : min fb.preamble.length d.length < fb.preamble.length := by
        apply Nat.lt_of_not_le
        intro hle
        exact hp (List.drop_of_length_le hle)
      have : min fb.preamble.length d.length = d.length := by omega
      rw [hi hne, this, List.drop_length]; rfl
    · simp at h

theorem addData_ready (fb : FrameBuffer) (d : Bytes) (h : fb.preamble = []) : addData fb d = .ok (fb.more d) := by
  rw [addData_eq]; simp [h, more]

theorem startRecv_more (c : Conn) (x : Bytes) (h : c.fb.maxFrameSize = c.maxInFrame) :
    startRecv c (c.fb.more x) = c.moreFb x := by
  unfold startRecv moreFb more
  rw [← h]

/-- what `receive_data(a); receive_data(b)` and `receive_data(a + b)` have to do with each other -/
theorem recv_append (c : Conn) (a b : Bytes) (hpre : PreInv c.fb) :
    match receiveData a c with
    | (.error e, c1) => ∃ c', receiveData (a ++ b) c = (.error e, c') ∧ sameButFb c' c1
    | (.ok evs1, c1) => PreInv c1.fb ∧
      match receiveData b c1 with
      | (.ok evs2, c2) => receiveData (a ++ b) c = (.ok (evs1 ++ evs2), c2)
      | (.error e, c2) => ∃ c', receiveData (a ++ b) c = (.error e, c') ∧ sameButFb c' c2 := by
  rw [receiveData_eq a c, receiveData_eq (a ++ b) c, addData_append]
  cases ha : addData c.fb a with
  | error e => exact ⟨c, rfl, rfl⟩
  | ok fb1 =>
    simp only
    by_cases hp1 : fb1.preamble = []
    · -- the preface is complete: the loop runs on `a`, then goes on with `b`
      rw [addData_ready fb1 b hp1]
      simp only
      have hC : (startRecv c fb1).fb.maxFrameSize = (startRecv c fb1).maxInFrame := rfl
      have hCm : startRecv c (fb1.more b) = (startRecv c fb1).moreFb b := rfl
      rw [hCm]
      generalize hCdef : startRecv c fb1 = C at *
      have hCp : C.fb.preamble = [] := by rw [← hCdef]; exact hp1
      have key := recvLoop_more (C.fb.data.length + 1) [] C b (by omega)
      have hpre' := recvLoop_pre (C.fb.data.length + 1) [] C
      cases hl : recvLoop (C.fb.data.length + 1) [] C with
      | mk r c1 =>
        rw [hl] at hpre'
        simp only at hpre'
        cases r with
        | error e =>
          have k := key.1 e c1 hl ((C.moreFb b).fb.data.length + 1) (by simp [moreFb]; omega)
          rw [k, finishRecv_more]
          obtain ⟨e', c', he⟩ := finishRecv_error e c1
          rw [he]
          exact ⟨c'.moreFb b, rfl, rfl⟩
        | ok evs1 =>
          obtain ⟨k1, k2, k3⟩ := key.2 evs1 c1 hl
          have hmax := k2 hC
          have hp2 : c1.fb.preamble = [] := by rw [hpre']; exact hCp
          simp only [finishRecv]
          refine ⟨fun h => (h hp2).elim, ?_⟩
          rw [receiveData_eq b c1, addData_ready c1.fb b hp2]
          simp only
          rw [startRecv_more c1 b hmax]
          rw [k1 ((C.moreFb b).fb.data.length + 1) ((c1.moreFb b).fb.data.length + 1) (by simp [moreFb]; omega)
            (by simp [moreFb]; omega)]
          rw [recvLoop_evs _ evs1]
          cases hl2 : recvLoop ((c1.moreFb b).fb.data.length + 1) [] (c1.moreFb b) with
          | mk r2 c2 =>
            cases r2 with
            | ok es => simp [finishRecv]
            | error e =>
              simp only
              obtain ⟨e', c', he⟩ := finishRecv_error e c2
              rw [he]
              exact ⟨c', he, rfl⟩
    · -- still inside the preface: nothing is buffered, nothing runs
      have hd := addData_waiting c.fb fb1 a ha hp1 hpre
      have hs : (startRecv c fb1).fb.data = [] := hd
      rw [hs, List.length_nil, recvLoop_empty 0 [] _ hs]
      simp only [finishRecv]
      refine ⟨fun _ => hs, ?_⟩
      rw [receiveData_eq b (startRecv c fb1)]
      have hsm : (startRecv c fb1).fb = { fb1 with maxFrameSize := c.maxInFrame } := rfl
      rw [hsm, addData_setMax]
      cases hb : addData fb1 b with
      | error e => exact ⟨c, rfl, rfl⟩
      | ok fb2 =>
        simp only
        have : startRecv (startRecv c fb1) { fb2 with maxFrameSize := c.maxInFrame } = startRecv c fb2 := rfl
        rw [this]
        cases hl2 : recvLoop ((startRecv c fb2).fb.data.length + 1) [] (startRecv c fb2) with
        | mk r2 c2 =>
          cases r2 with
          | ok es => simp [finishRecv]
          | error e =>
            obtain ⟨e', c', he⟩ := finishRecv_error e c2
            rw [he]
            exact ⟨c', he, rfl⟩

end Conn
namespace FrameBuffer

theorem next1_len (fb : FrameBuffer) : (next1 fb).2.data.length ≤ fb.data.length := by
  unfold next1 updateHeaderBuffer
  by_cases h9 : fb.data.length < 9
  · simp [h9]
  · simp only [h9, if_false]
    cases hh : parseFrameHeader (fb.data.take 9) with
    | error e => simp
    | ok h =>
      simp only
      by_cases hlen : fb.data.length < h.length + 9
      · simp [hlen]
      · simp only [hlen, if_false]
        by_cases hmax : (h.length : Int) > fb.maxFrameSize
        · simp [hmax]
        · simp only [hmax, if_false]
          by_cases hack : (h.type = 4 && hasBit h.flags 1 && h.length != 0) = true
          · simp [hack]
          · simp only [hack]
            cases hp : parseBody h ((fb.data.drop 9).take h.length) with
            | error e => cases e <;> simp
            | ok f =>
              simp only [Bool.false_eq_true, if_false]
              cases hu : stepHeaderBuffer fb.headersBuffer f with
              | mk r hb2 =>
                cases r with
                | error e => simp
                | ok o => cases o <;> simp

theorem next_len (f : Nat) (fb : FrameBuffer) : (next f fb).2.data.length ≤ fb.data.length := by
  induction f generalizing fb with
  | zero => exact Nat.le_refl _
  | succ n ih =>
    rw [next_succ]
    have h1 := next1_len fb
    cases hn : next1 fb with
    | mk r fb' =>
      rw [hn] at h1
      cases r with
      | error e => exact h1
      | ok o => cases o with
        | none => exact h1
        | frame f => exact h1
        | skip => simp only at h1 ⊢; exact Nat.le_trans (ih fb') h1

end FrameBuffer
namespace Conn
theorem recvLoop_len (f : Nat) (evs : List Event) (c : Conn) : (recvLoop f evs c).2.fb.data.length ≤ c.fb.data.length := by
  induction f generalizing evs c with
  | zero => exact Nat.le_refl _
  | succ n ih =>
    rw [recvLoop_succ]
    have hp := FrameBuffer.next_len (c.fb.data.length + 1) c.fb
    cases hn : FrameBuffer.next (c.fb.data.length + 1) c.fb with
    | mk r fb =>
      rw [hn] at hp
      cases r with
      | error e => exact hp
      | ok o => cases o with
        | none => exact hp
        | some rf =>
          simp only
          have hfb := hideFb_fb (receiveFrame rf) { c with fb := fb }
          cases hh : hideFb (receiveFrame rf) { c with fb := fb } with
          | mk r2 c2 =>
            rw [hh] at hfb
            cases r2 with
            | error e => simp only at hfb hp ⊢; rw [hfb]; exact hp
            | ok es =>
              simp only at hfb hp ⊢
              refine Nat.le_trans (ih _ _) ?_
              simp only; rw [hfb]; exact hp
end Conn
end H2
