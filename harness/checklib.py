"""The decision procedure behind ./check (see DESIGN.md section 6)."""
import fcntl
import json
import os
import random
import re
import subprocess
import sys
import time

HERE = os.path.dirname(os.path.abspath(__file__))
ROOT = os.path.dirname(HERE)
LEAN = os.path.join(ROOT, 'lean')
WORK = os.path.join(ROOT, 'work')
PY = '/venv/bin/python'

sys.path.insert(0, HERE)

import wire  # noqa: E402
from profiles import PROFILES, PROJ, SS  # noqa: E402

ALLOWED_AXIOMS = {'propext', 'Classical.choice', 'Quot.sound'}
FORBIDDEN = re.compile(r'\b(sorry|admit|native_decide|bv_decide|implemented_by)\b|^\s*axiom\s|unsafe\s|maxHeartbeats\s+0')


def sh(cmd, cwd=None, timeout=3600, env=None):
    p = subprocess.run(cmd, cwd=cwd, stdout=subprocess.PIPE, stderr=subprocess.STDOUT, timeout=timeout, env=env)
    return p.returncode, p.stdout.decode('utf-8', 'replace')


# ---------------------------------------------------------------------------
# 1-3  regenerate, build, audit
# ---------------------------------------------------------------------------
def regenerate():
    """Gen/*.lean from /repo's working tree; returns status dict"""
    os.makedirs(WORK, exist_ok=True)
    st = {}
    rc, out = sh([PY, os.path.join(ROOT, 'tools', 'gen_tables.py'), os.path.join(LEAN, 'H2', 'Gen', 'Tables.lean'),
                  os.path.join(WORK, 'gen_summary.json')])
    st['tables'] = 'ok' if rc == 0 else 'error: ' + out[-400:]
    rc, out = sh([PY, os.path.join(ROOT, 'tools', 'py2lean.py'), os.path.join(LEAN, 'H2', 'Gen', 'WindowsRaw.lean')])
    try:
        st.update(json.loads(out.strip().splitlines()[-1]))
    except Exception:
        st['py2lean'] = 'error: ' + out[-400:]
    # what changed w.r.t. the committed baseline (informational, directs the failing-input search)
    rc, out = sh(['git', '-C', ROOT, 'diff', '--stat', '--', 'lean/H2/Gen'])
    st['gen_changed_vs_committed'] = bool(out.strip()) if rc == 0 else None   # None: not a git checkout
    return st


# reference definition (H2/Gen/Windows.lean) -> the module whose one theorem says that the function regenerated from
# /repo's current source (H2/Gen/WindowsRaw.lean) equals it
BRIDGES = {
    'H2.Gen.WindowManager.init': 'H2.Gen.Bridge.Init',
    'H2.Gen.WindowManager.window_consumed': 'H2.Gen.Bridge.WindowConsumed',
    'H2.Gen.WindowManager.window_opened': 'H2.Gen.Bridge.WindowOpened',
    'H2.Gen.WindowManager.maybe_update_window': 'H2.Gen.Bridge.MaybeUpdateWindow',
    'H2.Gen.WindowManager.process_bytes': 'H2.Gen.Bridge.ProcessBytes',
    'H2.Gen.validate_setting': 'H2.Gen.Bridge.ValidateSetting',
    'H2.Gen.guard_increment_window': 'H2.Gen.Bridge.GuardIncrementWindow',
}


def bridges():
    """build every bridge module; -> {reference function: True / error text}.  When one fails, the regenerated and the
    reference function are also evaluated on a grid of boundary values (tools/bridge_search.lean) and the first
    difference, if any, is reported with it."""
    res = {}
    for fn, mod in sorted(BRIDGES.items()):
        rc, out = sh(['lake', 'build', mod], cwd=LEAN, timeout=900)
        res[fn] = True if rc == 0 else ('bridge theorem of %s does not check: ' % mod) + ' '.join(
            l for l in out.splitlines() if 'error' in l)[:300]
    if any(v is not True for v in res.values()):
        rc, out = sh(['lake', 'env', 'lean', '--run', os.path.join(ROOT, 'tools', 'bridge_search.lean')], cwd=LEAN, timeout=600)
        diffs = dict((l.split(' ')[1], l) for l in out.splitlines() if l.startswith('DIFF '))
        for fn, v in list(res.items()):
            if v is not True:
                short = fn.split('.')[-1]
                res[fn] = v + (' | differing input: ' + diffs[short][:400] if short in diffs else
                               ' | no differing input on the boundary grid' if rc == 0 else ' | grid search did not run')
    return res


def retarget():
    """a bridge theorem does not check: the theorems (about the reference definitions) do not speak about the current
    source.  Fall back to building everything against the regenerated definitions themselves: a scratch copy of the
    Lean project (with its build products) whose H2/Gen/Windows.lean is the translator's stand-alone output.  Switches
    LEAN and the model driver to the copy; returns its directory (the caller removes it)."""
    global LEAN
    import shutil
    import tempfile
    d = tempfile.mkdtemp(prefix='h2_retarget_', dir='/var/tmp')
    dst = os.path.join(d, 'lean')
    shutil.copytree(LEAN, dst, symlinks=True)
    rc, out = sh([PY, os.path.join(ROOT, 'tools', 'py2lean.py'), os.path.join(dst, 'H2', 'Gen', 'WindowsRaw.lean'),
                  '--inline', os.path.join(dst, 'H2', 'Gen', 'Windows.lean')])
    LEAN = dst
    os.environ['H2_DRV'] = os.path.join(dst, '.lake', 'build', 'bin', 'h2drv')
    return d


def lake_build(targets):
    rc, out = sh(['lake', 'build'] + targets, cwd=LEAN, timeout=3000)
    errs = [l for l in out.splitlines() if l.startswith('error:') or ': error' in l]
    return rc == 0, out, errs


def props_of(pid):
    p = json.load(open(os.path.join(ROOT, 'theorems.json')))
    return p.get(pid, {'module': None, 'theorems': []})


def import_closure(roots):
    """the .lean files of this project that the given modules import, transitively (the property module, the
    model and its driver): what a theorem of the module can depend on.  `#print axioms` below is the
    authoritative test (it reports sorryAx and every other axiom); the text scan is an extra hygiene gate."""
    seen, todo, files = set(), [r for r in roots if r], []
    while todo:
        m = todo.pop()
        if m in seen:
            continue
        seen.add(m)
        path = os.path.join(LEAN, *m.split('.')) + '.lean'
        if not os.path.exists(path):
            continue
        files.append(path)
        for line in open(path, encoding='utf-8'):
            mm = re.match(r'\s*(?:public\s+)?import\s+([A-Za-z0-9_.]+)', line)
            if mm:
                todo.append(mm.group(1))
    return sorted(files)


def audit(pid, info):
    """grep for forbidden constructs + #print axioms of every property theorem"""
    res = {'forbidden': [], 'axioms': {}, 'ok': True}
    scanned = import_closure([info.get('module'), 'Main', 'H2.Driver'])
    res['scanned_files'] = len(scanned)
    for path in scanned:
        if True:
            in_block = False
            for n, line in enumerate(open(path, encoding='utf-8'), 1):
                s = line
                if in_block:
                    if '-/' in s:
                        in_block = False
                        s = s.split('-/', 1)[1]
                    else:
                        continue
                while '/-' in s:
                    pre, rest = s.split('/-', 1)
                    if '-/' in rest:
                        s = pre + rest.split('-/', 1)[1]
                    else:
                        s = pre
                        in_block = True
                        break
                s = s.split('--', 1)[0]
                if FORBIDDEN.search(s):
                    res['forbidden'].append('%s:%d: %s' % (os.path.relpath(path, ROOT), n, line.strip()[:100]))
    if res['forbidden']:
        res['ok'] = False
    if info['theorems']:
        os.makedirs(os.path.join(WORK, 'audit'), exist_ok=True)
        path = os.path.join(WORK, 'audit', 'Audit_%s.lean' % pid)
        with open(path, 'w') as fh:
            fh.write('import %s\nimport H2.Gen.Deps\n' % info['module'])
            for t in info['theorems']:
                fh.write('#print axioms %s\n' % t)
            # which reference definitions of H2/Gen/Windows.lean the theorems depend on (-> which bridges they need)
            fh.write('#gen_deps %s\n' % ' '.join(info['theorems']))
        rc, out = sh(['lake', 'env', 'lean', path], cwd=LEAN, timeout=1200)
        cur = None
        text = out.replace('\n  ', ' ')
        res['gen_deps'] = {}
        for m in re.finditer(r"'([^']+)' uses generated: \[([^\]]*)\]", out.replace('\n', ' ')):
            res['gen_deps'][m.group(1)] = [x.strip() for x in m.group(2).split(',') if x.strip()]
        if set(res['gen_deps']) != set(info['theorems']):
            res['ok'] = False
            res['gen_deps_missing'] = sorted(set(info['theorems']) - set(res['gen_deps']))
        for t in info['theorems']:
            m = re.search(r"'%s' depends on axioms: \[([^\]]*)\]" % re.escape(t), text)
            if m:
                ax = [a.strip() for a in m.group(1).split(',') if a.strip()]
            elif re.search(r"'%s' does not depend on any axioms" % re.escape(t), text):
                ax = []
            else:
                ax = None
            res['axioms'][t] = ax
            if ax is None or not set(ax) <= ALLOWED_AXIOMS:
                res['ok'] = False
        if rc != 0:
            res['ok'] = False
            res['lean_output'] = out[-1500:]
    return res


# ---------------------------------------------------------------------------
# 4  correspondence under the property's projection
# ---------------------------------------------------------------------------
def project(pid, line):
    pr = PROJ[pid]
    from corr import split_obs
    d = split_obs(line)
    out = []
    r = d.get('res', '')
    if pr['res'] == 'kind':
        t = r.split(' ')
        out.append(t[0] if t[0] != 'py' else r)
    else:
        out.append(r)
    ev = d.get('ev', '.')
    if pr['events'] is None:
        out.append(ev)
    elif pr['events'] == 'kinds':
        out.append(' '.join(e.split('(')[0] for e in ev.split(' ')) if ev != '.' else '.')
    else:
        out.append(' '.join(e for e in ev.split(' ') if e.split('(')[0] in pr['events']))
    o = d.get('out', '')
    fr = pr['frames']
    if fr is None or o in ('~', ''):
        out.append(o)
    else:
        mark, hexs = o[0], o[1:]
        try:
            data = b'' if hexs == '.' else bytes.fromhex(hexs)
            if data.startswith(wire.PREFACE):
                data = data[24:]
            fs = wire.split_frames(data)
            if fr == 'types':
                out.append(mark + ','.join(str(f['type']) for f in fs))
            elif fr == 'len':
                out.append(mark + str(len(data)))
            else:
                want = set(wire.NAMES.index(n) for n in fr)
                out.append(mark + ','.join('%d:%d:%d:%s' % (f['type'], f['flags'], f['sid'], f['payload'].hex()) for f in fs if f['type'] in want))
        except Exception:
            out.append(o)
    if pr['enc']:
        out.append(d.get('enc', ''))
    st = d.get('st', '').split(',')
    out.append(','.join(st[i] for i in pr['st'] if i < len(st)))
    ss = d.get('ss', '')
    sel = SS.get(pid, [])
    if sel is None:
        out.append(ss)
    elif sel and ss not in ('', '.', '?'):
        out.append(';'.join(':'.join(x.split(':')[i] for i in sel if i < len(x.split(':'))) for x in ss.split(';')))
    out.append('|'.join(d.get('extra', [])))
    return out


def cstate_of(line):
    for part in line.split(' | '):
        if part.startswith('st='):
            return part.split(',')[2]
    return '?'


def run_programs(pid, seed, budget, model, deadline, oracle=None, stop_first=False, cfg_filter=None):
    """generate programs for `pid`; returns dict with mismatches, oracle failures and coverage"""
    from corr import gen_program
    import gen
    stats = {'programs': 0, 'ops': 0, 'op_hist': {}, 'res_hist': {}, 'events_hist': {}, 'distinct_ops': set(),
             'erroring_ops': 0, 'modes': {}}
    mism, fails, samples = [], [], []
    profs = PROFILES[pid]
    total_share = sum(p.get('share', 1) for p in profs)
    k = 0
    for p in profs:
        n = max(1, int(round(budget * p.get('share', 1) / float(total_share))))
        for j in range(n):
            if time.time() > deadline:
                break
            rng = random.Random((seed * 1000003 + k) & 0xFFFFFFFF)
            k += 1
            r = gen_program(rng, model, mode=p['mode'], steps=p['steps'], weights=p.get('weights'),
                            invalid=p.get('invalid', 0.15), stop_on_mismatch=False,
                            autoack=p.get('autoack', False), cfgs=p.get('cfgs'))
            stats['programs'] += 1
            stats['modes'][p['mode']] = stats['modes'].get(p['mode'], 0) + 1
            first_mm = None
            for idx, (op, ol, ml, obs) in enumerate(r.log):
                stats['ops'] += 1
                o = op['op'] + (':' + op['what'] if op['op'] == 'q' else '')
                stats['op_hist'][o] = stats['op_hist'].get(o, 0) + 1
                if obs is not None:
                    rk = ' '.join(ol.split(' | ')[0].split(' ')[:2])
                    stats['res_hist'][rk] = stats['res_hist'].get(rk, 0) + 1
                    if not ol.startswith('ok'):
                        stats['erroring_ops'] += 1
                    for e in obs['events']:
                        kn = e.split('(')[0]
                        stats['events_hist'][kn] = stats['events_hist'].get(kn, 0) + 1
                    stats['distinct_ops'].add(hash((o, ol.split(' | ')[0], cstate_of(ol))))
                if ml is not None and obs is not None and first_mm is None and not r.unmodelled_at(idx):
                    if project(pid, ol) != project(pid, ml):
                        first_mm = idx
            if first_mm is not None:
                mism.append({'seed': seed, 'k': k - 1, 'idx': first_mm, 'ops': r.ops[:first_mm + 1]})
            if oracle is not None:
                fs = oracle(r)
                if fs:
                    f = min(fs, key=lambda x: x['idx'])
                    fails.append({'seed': seed, 'k': k - 1, 'failure': f, 'ops': r.ops[:f['idx'] + 1]})
            if len(samples) < 2 and len(r.ops) > 6:
                import proto
                samples.append([proto.fmt_op(o)[:140] for o in r.ops[:14]])
            if stop_first and (mism or fails):
                break
        if stop_first and (mism or fails):
            break
    stats['distinct_ops'] = len(stats['distinct_ops'])
    return {'mismatches': mism, 'failures': fails, 'stats': stats, 'samples': samples}


# ---------------------------------------------------------------------------
# known findings
# ---------------------------------------------------------------------------
def load_known():
    path = os.path.join(ROOT, 'known_findings.json')
    if not os.path.exists(path):
        return []
    return json.load(open(path))['findings']


def match_known(pid, failure, known):
    for k in known:
        if k.get('status') != 'open' or k['property'] != pid or k['clause'] != failure['clause']:
            continue
        if all(failure['detail'].get(a) == b for a, b in k.get('match', {}).items()):
            return k
    return None


# ---------------------------------------------------------------------------
# minimisation with respect to an oracle clause
# ---------------------------------------------------------------------------
def minimise_oracle(ops, oracle, clause, budget=300):
    from corr import replay

    def bad(cand):
        try:
            r = replay(cand, None)
            return any(f['clause'] == clause for f in oracle(r))
        except Exception:
            return False
    cur = list(ops)
    if not bad(cur):
        return cur
    n, tries = 2, 0
    while len(cur) >= 2 and tries < budget:
        chunk = max(1, len(cur) // n)
        reduced = False
        for i in range(0, len(cur), chunk):
            cand = cur[:i] + cur[i + chunk:]
            tries += 1
            if cand and bad(cand):
                cur, n, reduced = cand, max(n - 1, 2), True
                break
        if not reduced:
            if chunk == 1:
                break
            n = min(len(cur), n * 2)
    return cur


class Lock(object):
    def __enter__(self):
        os.makedirs(WORK, exist_ok=True)
        self.fh = open(os.path.join(WORK, '.lock'), 'w')
        fcntl.flock(self.fh, fcntl.LOCK_EX)
        return self

    def __exit__(self, *a):
        fcntl.flock(self.fh, fcntl.LOCK_UN)
        self.fh.close()
