"""Directed histories that complement the random profiles.

`corpus/<pid>/*.json` holds minimised histories kept from earlier rounds: defects that were found (they run first,
every time, on the real library and on the model, under the property's oracle and projection) and histories on
which an oracle was once wrong (they must stay silent).  A corpus file is {'ops': [...], 'note': ..., and
optionally 'expect_clause': <oracle clause this history must still raise, for recorded known findings>}.
"""
import glob
import json
import os

HERE = os.path.dirname(os.path.abspath(__file__))


def run_corpus(pid, model):
    from corr import dec_json, replay
    from oracles import ORACLES
    import checklib as L
    oracle = ORACLES.get(pid)
    fails, mism, n, ops_n = [], [], 0, 0
    for path in sorted(glob.glob(os.path.join(HERE, 'corpus', pid, '*.json'))):
        d = dec_json(json.load(open(path)))
        ops = d['ops']
        r = replay(ops, model)
        n += 1
        ops_n += len(ops)
        if model is not None:
            for idx, (op, ol, ml, obs) in enumerate(r.log):
                if ml is not None and obs is not None and not r.unmodelled_at(idx) and L.project(pid, ol) != L.project(pid, ml):
                    mism.append({'seed': 'corpus', 'k': os.path.basename(path), 'idx': idx, 'ops': ops[:idx + 1]})
                    break
        fs = oracle(r) if oracle else []
        if fs:
            f = min(fs, key=lambda x: x['idx'])
            fails.append({'seed': 'corpus', 'k': os.path.basename(path), 'failure': f, 'ops': ops[:f['idx'] + 1]})
        elif d.get('expect_clause'):
            # a recorded known finding that the oracle no longer sees: the record and the code have drifted apart.
            # Not a violation of the property; reported in the evidence so that the entry gets reviewed.
            pass
    return {'failures': fails, 'mismatches': mism, 'coverage': {'corpus_programs': n, 'corpus_ops': ops_n}}


def run(pid, seed, tier, model, deadline):
    res = run_corpus(pid, model)
    f = globals().get('special_' + pid)
    if f:
        more = f(seed, tier, model, deadline) or {}
        res['failures'] += more.get('failures', [])
        res['mismatches'] += more.get('mismatches', [])
        res['coverage'].update(more.get('coverage') or {})
    return res


def rechunk(ops, rng, p_split=0.7):
    """the same history with deliveries cut into pieces: recv(d) -> recv(d1) recv(d2) ..., xfer(all) -> xfer(n1) ... xfer(all)"""
    out = []
    for op in ops:
        if op['op'] == 'recv' and len(op['data']) >= 1 and rng.random() < p_split:
            d = op['data']
            k = rng.choice([1, 1, 2, 3, 5]) if len(d) > 1 else 1
            if rng.random() < 0.1:
                cuts = list(range(1, len(d)))[:40]            # byte by byte at the front
            else:
                cuts = sorted(rng.randrange(0, len(d) + 1) for _ in range(k))
            prev = 0
            for c in cuts:
                out.append(dict(op, data=d[prev:c]))
                prev = c
            out.append(dict(op, data=d[prev:]))
        elif op['op'] == 'xfer' and op.get('n') is None and rng.random() < p_split:
            for _ in range(rng.choice([1, 1, 2, 3])):
                out.append(dict(op, n=rng.choice([0, 1, 3, 8, 9, 10, 17, 24, 30, 50, 100, 1000, 16393])))
            out.append(op)
        else:
            out.append(op)
    return out


def special_C21(seed, tier, model, deadline):
    """programs of the C21 profile, re-delivered in random chunkings (on the real library and on the model), judged by
    the metamorphic oracle against delivery in one piece"""
    import random
    import time
    from corr import gen_program, replay
    from oracles import oracle_C21
    from profiles import PROFILES
    import checklib as L
    n = {'quick': 120, 'thorough': 2500}.get(tier, 120)
    fails, mism, progs, nops, groups = [], [], 0, 0, 0
    profs = PROFILES['C21']
    for k in range(n):
        if time.time() > deadline:
            break
        rng = random.Random((seed * 7368787 + k) & 0xFFFFFFFF)
        p = profs[k % len(profs)]
        r0 = gen_program(rng, None, mode=p['mode'], steps=p['steps'], weights=p.get('weights'), invalid=p.get('invalid', 0.15),
                         stop_on_mismatch=False)
        ops = rechunk(r0.ops, rng)
        r = replay(ops, model)
        progs += 1
        nops += len(ops)
        groups += len(ops) - len(r0.ops)
        if model is not None:
            for idx, (op, ol, ml, obs) in enumerate(r.log):
                if ml is not None and obs is not None and not r.unmodelled_at(idx) and L.project('C21', ol) != L.project('C21', ml):
                    mism.append({'seed': seed, 'k': 'rechunk-%d' % k, 'idx': idx, 'ops': ops[:idx + 1]})
                    break
        fs = oracle_C21(r)
        if fs:
            f = min(fs, key=lambda x: x['idx'])
            fails.append({'seed': seed, 'k': 'rechunk-%d' % k, 'failure': f, 'ops': ops[:f['idx'] + 1]})
    return {'failures': fails, 'mismatches': mism,
            'coverage': {'rechunked_programs': progs, 'rechunked_ops': nops, 'extra_chunks': groups}}


def special_C10(seed, tier, model, deadline):
    """limit pressure: a small acknowledged MAX_CONCURRENT_STREAMS, peers opening / closing streams around it while
    further SETTINGS frames (of either side) are in flight"""
    import random
    import time
    import wire
    from corr import replay
    from oracles import oracle_C10
    import checklib as L
    REQ = [(b':method', b'GET', False), (b':scheme', b'https', False), (b':path', b'/', False), (b':authority', b'x', False)]
    blk = wire.hpack_literal_block
    n = {'quick': 150, 'thorough': 3000}.get(tier, 150)
    fails, mism, progs, nops = [], [], 0, 0
    for k in range(n):
        if time.time() > deadline:
            break
        rng = random.Random((seed * 9176 + k) & 0xFFFFFFFF)
        lim = rng.choice([0, 1, 1, 2, 3])
        ops = [{'op': 'new', 'c': 0, 'client': False, 'vo': 1, 'no': 1, 'vi': 1, 'ni': 1, 'enc': None},
               {'op': 'initiate_connection', 'c': 0},
               {'op': 'recv', 'c': 0, 'data': wire.PREFACE + wire.settings_frame([]) + wire.settings_frame(ack=True)},
               {'op': 'update_settings', 'c': 0, 'settings': [(3, lim)]},
               {'op': 'recv', 'c': 0, 'data': wire.settings_frame(ack=True)}]
        nxt, live, unacked = 1, [], 0
        for _ in range(rng.randrange(6, 22)):
            r = rng.random()
            if r < 0.4:
                ops.append({'op': 'recv', 'c': 0, 'data': wire.headers_frames(nxt, blk(REQ), end_stream=rng.random() < 0.25)})
                live.append(nxt)
                nxt += 2
            elif r < 0.55 and live:
                sid = live.pop(rng.randrange(len(live)))
                ops.append({'op': 'recv', 'c': 0, 'data': wire.rst_stream(sid, 8) if rng.random() < 0.5 else wire.data_frame(sid, b'', True, None)})
            elif r < 0.75:
                kv = rng.choice([(3, lim), (3, lim), (3, rng.choice([0, 1, 2, 5, 100])), (3, rng.choice([0, 1, 2, 5, 100])), (4, 70000), (5, 16385), (1, 100), (16, 1)])
                ops.append({'op': 'update_settings', 'c': 0, 'settings': [kv]})
                unacked += 1
            elif r < 0.9 and unacked:
                ops.append({'op': 'recv', 'c': 0, 'data': wire.settings_frame(ack=True)})
                unacked -= 1
            else:
                ops.append({'op': 'q', 'c': 0, 'what': 'open_in'})
        r = replay(ops, model)
        progs += 1
        nops += len(ops)
        if model is not None:
            for idx, (op, ol, ml, obs) in enumerate(r.log):
                if ml is not None and obs is not None and not r.unmodelled_at(idx) and L.project('C10', ol) != L.project('C10', ml):
                    mism.append({'seed': seed, 'k': 'limit-%d' % k, 'idx': idx, 'ops': ops[:idx + 1]})
                    break
        fs = oracle_C10(r)
        if fs:
            f = min(fs, key=lambda x: x['idx'])
            fails.append({'seed': seed, 'k': 'limit-%d' % k, 'failure': f, 'ops': ops[:f['idx'] + 1]})
    return {'failures': fails, 'mismatches': mism, 'coverage': {'limit_pressure_programs': progs, 'limit_pressure_ops': nops}}


def special_C22(seed, tier, model, deadline):
    """push pressure on a client: ENABLE_PUSH on or off (acknowledged or still in flight), parents that are open, ended,
    reset locally / by the peer, purged from the table or never opened, promised ids of every kind"""
    import random
    import time
    import wire
    from corr import replay
    from oracles import oracle_C22
    import checklib as L
    REQ = [(b':method', b'GET', False), (b':scheme', b'https', False), (b':path', b'/', False), (b':authority', b'x', False)]
    RESP = [(b':status', b'200', False)]
    blk = wire.hpack_literal_block
    n = {'quick': 120, 'thorough': 2500}.get(tier, 120)
    fails, mism, progs, nops = [], [], 0, 0
    for k in range(n):
        if time.time() > deadline:
            break
        rng = random.Random((seed * 52361 + k) & 0xFFFFFFFF)
        ops = [{'op': 'new', 'c': 0, 'client': True, 'vo': 1, 'no': 1, 'vi': 1, 'ni': 1, 'enc': None},
               {'op': 'initiate_connection', 'c': 0},
               {'op': 'recv', 'c': 0, 'data': wire.settings_frame([]) + wire.settings_frame(ack=True)}]
        if rng.random() < 0.6:
            ops.append({'op': 'update_settings', 'c': 0, 'settings': [(2, 0)]})
            if rng.random() < 0.8:
                ops.append({'op': 'recv', 'c': 0, 'data': wire.settings_frame(ack=True)})
        nxt, mine, promised_next = 1, [], 2
        for _ in range(rng.randrange(5, 16)):
            r = rng.random()
            if r < 0.3 or not mine:
                ops.append({'op': 'send_headers', 'c': 0, 'sid': nxt, 'headers': REQ, 'es': rng.random() < 0.6})
                mine.append(nxt)
                nxt += 2
            elif r < 0.45:
                ops.append({'op': 'reset_stream', 'c': 0, 'sid': rng.choice(mine), 'code': 8})
            elif r < 0.55:
                sid = rng.choice(mine)
                ops.append({'op': 'recv', 'c': 0, 'data': rng.choice([wire.rst_stream(sid, 2), wire.headers_frames(sid, blk(RESP), end_stream=True)])})
            elif r < 0.9:
                parent = rng.choice(mine + [rng.choice(mine)] * 2 + [nxt, 2, promised_next - 2 if promised_next > 2 else 4])
                pid = promised_next if rng.random() < 0.85 else rng.choice([0, 1, 2, promised_next + 1, 2**31])
                ops.append({'op': 'recv', 'c': 0, 'data': wire.push_promise_frames(parent, pid, blk(REQ))})
                if pid == promised_next:
                    promised_next += 2
            else:
                ops.append({'op': 'q', 'c': 0, 'what': rng.choice(['open_in', 'open_out'])})
        r = replay(ops, model)
        progs += 1
        nops += len(ops)
        if model is not None:
            for idx, (op, ol, ml, obs) in enumerate(r.log):
                if ml is not None and obs is not None and not r.unmodelled_at(idx) and L.project('C22', ol) != L.project('C22', ml):
                    mism.append({'seed': seed, 'k': 'push-%d' % k, 'idx': idx, 'ops': ops[:idx + 1]})
                    break
        fs = oracle_C22(r)
        if fs:
            f = min(fs, key=lambda x: x['idx'])
            fails.append({'seed': seed, 'k': 'push-%d' % k, 'failure': f, 'ops': ops[:f['idx'] + 1]})
    return {'failures': fails, 'mismatches': mism, 'coverage': {'push_pressure_programs': progs, 'push_pressure_ops': nops}}


def special_C28(seed, tier, model, deadline):
    """determinism: the same programs are executed in separate interpreter processes under different PYTHONHASHSEED
    values (and at different wall-clock times); every observation line (result, events, appended bytes, state peeks)
    must be byte-identical to the in-process run, which in turn is compared with the model"""
    import random
    import subprocess
    import time
    from corr import gen_program, enc_json
    from profiles import PROFILES
    n = {'quick': 60, 'thorough': 1200}.get(tier, 60)
    hashseeds = {'quick': ['0', '1', '4242'], 'thorough': ['0', '1', '2', '3', '77', '4242', 'random', 'random']}.get(tier, ['0', '1'])
    progs, ref = [], []
    profs = PROFILES['C28']
    for k in range(n):
        if time.time() > deadline:
            break
        rng = random.Random((seed * 40503 + k) & 0xFFFFFFFF)
        p = profs[k % len(profs)]
        r = gen_program(rng, None, mode=p['mode'], steps=p['steps'], weights=p.get('weights'), invalid=p.get('invalid', 0.15),
                        stop_on_mismatch=False)
        progs.append(r.ops)
        ref.append([ol for op, ol, ml, obs in r.log])
    payload = ''.join(json.dumps(enc_json(ops)) + '\n' for ops in progs).encode()
    fails = []
    runs = 0
    for hs in hashseeds:
        env = dict(os.environ, PYTHONHASHSEED=hs, H2_SRC=os.environ.get('H2_SRC', '/repo/src'))
        pr = subprocess.run(['/venv/bin/python', os.path.join(HERE, 'detrun.py')], input=payload, stdout=subprocess.PIPE,
                            stderr=subprocess.PIPE, env=env, timeout=1200)
        lines = pr.stdout.decode().splitlines()
        runs += 1
        if pr.returncode != 0 or len(lines) != len(progs):
            fails.append({'seed': seed, 'k': 'hashseed-%s' % hs, 'failure': {'clause': 'subprocess-run-failed', 'idx': 0,
                          'detail': {'rc': pr.returncode, 'stderr': pr.stderr.decode()[-300:]}}, 'ops': progs[0] if progs else []})
            continue
        for j, line in enumerate(lines):
            got = json.loads(line)
            if got != ref[j]:
                idx = next((t for t in range(min(len(got), len(ref[j]))) if got[t] != ref[j][t]), 0)
                fails.append({'seed': seed, 'k': 'hashseed-%s-prog-%d' % (hs, j),
                              'failure': {'clause': 'output-depends-on-hash-seed-or-process', 'idx': idx,
                                          'detail': {'hashseed': hs}}, 'ops': progs[j][:idx + 1]})
                break
    # static side: the library reads no clock, entropy source, object identity or hash value
    import re
    import glob as _glob
    src = os.path.join(os.environ.get('H2_SRC', '/repo/src'), 'h2')
    pat = re.compile(r'^\s*(import|from)\s+(time|random|secrets|uuid|datetime)\b|os\.urandom|\bid\(|\bhash\(|getrandbits|time\.time')
    hits = []
    for path in sorted(_glob.glob(os.path.join(src, '*.py'))):
        for ln, line in enumerate(open(path, encoding='utf-8'), 1):
            code = line.split('#', 1)[0]
            if pat.search(code):
                hits.append('%s:%d: %s' % (os.path.basename(path), ln, line.strip()[:80]))
    if hits:
        fails.append({'seed': seed, 'k': 'static-scan', 'failure': {'clause': 'nondeterminism-source-in-library', 'idx': 0,
                      'detail': {'hits': hits[:5]}}, 'ops': []})
    return {'failures': fails, 'mismatches': [],
            'coverage': {'determinism_programs': len(progs), 'interpreter_processes': runs, 'hash_seeds': hashseeds,
                         'static_scan_files': len(_glob.glob(os.path.join(src, '*.py'))), 'static_scan_hits': len(hits)}}
