/-
  No frame handler and no public call touches the frame buffer: only `receive_data`'s own loop does.
  (Generated from Proofs/OutWinKeeps and the public-call part of Proofs/OutWin by substituting the field.)
-/
import H2.Proofs.OutWin
namespace H2
open H2.Gen H2.Conn

section
variable {α : Type} {Q : α → Conn → Prop} {E : Exc → Conn → Prop}

theorem pf_connInput {Q : Unit → Conn → Prop} (i : ConnectionInputs) (c : Conn) (s0 : FrameBuffer) (h : c.fb = s0)
    (hq : ∀ c', c'.fb = s0 → Q () c') (he : ∀ e c', c'.fb = s0 → E e c') : wp (connInput i) Q E c := by
  unfold wp connInput
  cases connTable c.cstate i with
  | none => exact he _ _ h
  | some t => exact hq _ h

theorem pf_withStream (sid : Int) (m : M Stream α) (c : Conn) (s0 : FrameBuffer) (h : c.fb = s0)
    (hq : ∀ a c', c'.fb = s0 → Q a c') (he : ∀ e c', c'.fb = s0 → E e c') : wp (withStream sid m) Q E c := by
  rw [wp_withStream]
  cases c.streams.lookup sid with
  | none => exact he _ _ h
  | some st => exact wp_havoc (fun a s' => hq a _ h) (fun e s' => he e _ h)

theorem pf_getStreamById {Q : Unit → Conn → Prop} (sid : Int) (c : Conn) (s0 : FrameBuffer) (h : c.fb = s0)
    (hq : ∀ c', c'.fb = s0 → Q () c') (he : ∀ e c', c'.fb = s0 → E e c') : wp (getStreamById sid) Q E c := by
  rw [wp_getStreamById_eq]
  repeat' split
  all_goals first | exact hq c h | exact he _ c h

theorem pf_openStreams {Q : Int → Conn → Prop} (r : Int) (c : Conn) (s0 : FrameBuffer) (h : c.fb = s0)
    (hq : ∀ a c', c'.fb = s0 → Q a c') : wp (openStreams r) Q E c := by
  simp only [wp, openStreams]; exact hq _ _ h

theorem pf_onConnWM {Q : Option Int → Conn → Prop} (f : WindowManager → WRes) (c : Conn) (s0 : FrameBuffer) (h : c.fb = s0)
    (hq : ∀ a c', c'.fb = s0 → Q a c') (he : ∀ e c', c'.fb = s0 → E e c') : wp (onConnWM f) Q E c := by
  rw [wp_onConnWM]
  cases f c.inWM with
  | mk r w => cases r <;> first | exact hq _ _ h | exact he _ _ h

theorem pf_decodeHeaders {Q : List Header → Conn → Prop} (b : Bytes) (c : Conn) (s0 : FrameBuffer) (h : c.fb = s0)
    (hq : ∀ a c', c'.fb = s0 → Q a c') (he : ∀ e c', c'.fb = s0 → E e c') : wp (decodeHeaders b) Q E c := by
  unfold decodeHeaders
  wps
  apply wp_havoc
  · intro r hp'
    cases r <;> wps <;> first | exact hq _ _ h | exact he _ _ h
  · intro e hp'; exact he _ _ h

theorem pf_fcc {Q : Unit → Conn → Prop} (o n : Int) (c : Conn) (s0 : FrameBuffer) (h : c.fb = s0)
    (hq : ∀ c', c'.fb = s0 → Q () c') (he : ∀ e c', c'.fb = s0 → E e c') :
    wp (flowControlChangeFromSettings o n) Q E c := by
  unfold wp flowControlChangeFromSettings
  simp only
  cases flowControlChangeFromSettings.go (n - o) [] c.streams with
  | mk r ss => cases r <;> first | exact hq _ h | exact he _ _ h

theorem pf_ifcc {Q : Unit → Conn → Prop} (o n : Int) (c : Conn) (s0 : FrameBuffer) (h : c.fb = s0)
    (hq : ∀ c', c'.fb = s0 → Q () c') (he : ∀ e c', c'.fb = s0 → E e c') :
    wp (inboundFlowControlChangeFromSettings o n) Q E c := by
  unfold wp inboundFlowControlChangeFromSettings
  simp only
  cases inboundFlowControlChangeFromSettings.go (n - o) [] c.streams with
  | mk r ss => cases r <;> first | exact hq _ h | exact he _ _ h

theorem pf_putStream {Q : Unit → Conn → Prop} (sid : Int) (st : Stream) (c : Conn) (s0 : FrameBuffer) (h : c.fb = s0)
    (hq : ∀ c', c'.fb = s0 → Q () c') : wp (putStream sid st) Q E c := by
  rw [wp_putStream]
  apply hq
  unfold putStream modifyS; simp only
  split <;> exact h

end

theorem localOtherChanges_fb (ch : List (Int × Option Int × Int)) (c : Conn) : (localOtherChanges ch c).fb = c.fb := by
  unfold localOtherChanges; repeat' split
  all_goals rfl
theorem remoteOtherChanges_fb (ch : List (Int × Option Int × Int)) (c : Conn) : (remoteOtherChanges ch c).fb = c.fb := by
  unfold remoteOtherChanges; repeat' split
  all_goals rfl

/-- close goals of the form `… .fb = s0` / continue through a method that never writes frames -/
macro "pf_auto" : tactic => `(tactic|
  repeat' (first
    | assumption
    | (rw [localOtherChanges_fb]; assumption)
    | (rw [remoteOtherChanges_fb]; assumption)
    | (apply pf_connInput _ _ _ (by assumption))
    | (apply pf_withStream _ _ _ _ (by assumption))
    | (apply pf_getStreamById _ _ _ (by assumption))
    | (apply pf_openStreams _ _ _ (by assumption))
    | (apply pf_onConnWM _ _ _ (by assumption))
    | (apply pf_decodeHeaders _ _ _ (by assumption))
    | (apply pf_fcc _ _ _ _ (by assumption))
    | (apply pf_ifcc _ _ _ _ (by assumption))
    | (apply pf_putStream _ _ _ _ (by assumption))
    | (intro _)
    | wps
    | split))

abbrev PF (m : CM α) (c : Conn) : Prop := wp m (fun _ c' => c'.fb = c.fb) (fun _ c' => c'.fb = c.fb) c

theorem pf_ping (a : Bool) (p : Bytes) (c : Conn) : PF (receivePingFrame a p) c := by
  have h : c.fb = c.fb := rfl
  unfold PF receivePingFrame; pf_auto
theorem pf_priority (sid : Int) (p : Prio) (c : Conn) : PF (receivePriorityFrame sid p) c := by
  have h : c.fb = c.fb := rfl
  unfold PF receivePriorityFrame; pf_auto


theorem pf_goaway (l k : Int) (x : Bytes) (c : Conn) : PF (receiveGoawayFrame l k x) c := by
  have h : c.fb = c.fb := rfl
  unfold PF receiveGoawayFrame clearOutboundDataBuffer; pf_auto
theorem pf_rst (sid code : Int) (c : Conn) : PF (receiveRstStreamFrame sid code) c := by
  have h : c.fb = c.fb := rfl
  unfold PF receiveRstStreamFrame; pf_auto
theorem pf_altsvc (sid : Int) (o f : Bytes) (c : Conn) : PF (receiveAltSvcFrame sid o f) c := by
  have h : c.fb = c.fb := rfl
  unfold PF receiveAltSvcFrame; pf_auto
theorem pf_cont (sid : Int) (c : Conn) : PF (receiveNakedContinuation sid) c := by
  have h : c.fb = c.fb := rfl
  unfold PF receiveNakedContinuation; pf_auto
theorem pf_data (sid : Int) (p : Bytes) (es : Bool) (fcl : Int) (c : Conn) : PF (receiveDataFrame sid p es fcl) c := by
  have h : c.fb = c.fb := rfl
  unfold PF receiveDataFrame; pf_auto
theorem pf_settings (ack : Bool) (items : List (Int × Int)) (c : Conn) : PF (receiveSettingsFrame ack items) c := by
  have h : c.fb = c.fb := rfl
  unfold PF receiveSettingsFrame localSettingsAcked acknowledgeSettings localWindowChange remoteWindowChange
  pf_auto


theorem pf_use {α : Type} {Q : α → Conn → Prop} {E : Exc → Conn → Prop} {m : CM α} (hm : ∀ c, PF m c) (c : Conn)
    (s0 : FrameBuffer) (h : c.fb = s0) (hq : ∀ a c', c'.fb = s0 → Q a c') (he : ∀ e c', c'.fb = s0 → E e c') :
    wp m Q E c :=
  wp_mono (hm c) (fun a c' h' => hq a c' (h'.trans h)) (fun e c' h' => he e c' (h'.trans h))

theorem pf_createStream (sid : Int) (ob : Bool) (c : Conn) : PF (createStream sid ob) c := by
  have h : c.fb = c.fb := rfl
  unfold PF createStream optInt?
  pf_auto

theorem pf_beginNewStream (sid : Int) (odd : Bool) (c : Conn) : PF (beginNewStream sid odd) c := by
  have h : c.fb = c.fb := rfl
  unfold PF beginNewStream
  repeat' (first | assumption | (apply pf_use (pf_createStream _ _) _ _ (by assumption)) | (intro _) | wps | split)

theorem pf_getOrCreateStream (sid : Int) (odd : Bool) (c : Conn) : PF (getOrCreateStream sid odd) c := by
  have h : c.fb = c.fb := rfl
  unfold PF getOrCreateStream
  repeat' (first | assumption | (apply pf_use (pf_beginNewStream _ _) _ _ (by assumption)) | (intro _) | wps | split)

theorem pf_refuse (p : Int) (c : Conn) : PF (refusePushedStream p) c := by
  have h : c.fb = c.fb := rfl
  unfold PF refusePushedStream; pf_auto

macro "pf_auto2" : tactic => `(tactic|
  repeat' (first
    | assumption
    | (apply pf_use (pf_getOrCreateStream _ _) _ _ (by assumption))
    | (apply pf_use (pf_beginNewStream _ _) _ _ (by assumption))
    | (apply pf_use (pf_priority _ _) _ _ (by assumption))
    | (apply pf_use (pf_refuse _) _ _ (by assumption))
    | (apply pf_connInput _ _ _ (by assumption))
    | (apply pf_withStream _ _ _ _ (by assumption))
    | (apply pf_getStreamById _ _ _ (by assumption))
    | (apply pf_openStreams _ _ _ (by assumption))
    | (apply pf_decodeHeaders _ _ _ (by assumption))
    | (intro _)
    | wps
    | split))

theorem pf_headersRest (sid : Int) (b : Bytes) (es : Bool) (pr : Option Prio) (c : Conn) : PF (receiveHeadersRest sid b es pr) c := by
  have h : c.fb = c.fb := rfl
  unfold PF receiveHeadersRest
  pf_auto2

theorem pf_headers (sid : Int) (b : Bytes) (es : Bool) (pr : Option Prio) (c : Conn) : PF (receiveHeadersFrame sid b es pr) c := by
  have h : c.fb = c.fb := rfl
  unfold PF receiveHeadersFrame openInboundStreams
  repeat' (first
    | assumption
    | (apply pf_use (pf_headersRest _ _ _ _) _ _ (by assumption))
    | (apply pf_openStreams _ _ _ (by assumption))
    | (intro _)
    | wps
    | split)

theorem pf_pushKnown (sid p : Int) (hs : List Header) (c : Conn) : PF (receivePushPromiseKnown sid p hs) c := by
  have h : c.fb = c.fb := rfl
  unfold PF receivePushPromiseKnown openInboundStreams
  pf_auto2

theorem pf_pushUnknown (sid p : Int) (c : Conn) : PF (receivePushPromiseUnknown sid p) c := by
  have h : c.fb = c.fb := rfl
  unfold PF receivePushPromiseUnknown
  pf_auto2

theorem pf_push (sid p : Int) (b : Bytes) (c : Conn) : PF (receivePushPromiseFrame sid p b) c := by
  have h : c.fb = c.fb := rfl
  unfold PF receivePushPromiseFrame
  repeat' (first
    | assumption
    | (apply pf_use (pf_pushKnown _ _ _) _ _ (by assumption))
    | (apply pf_use (pf_pushUnknown _ _) _ _ (by assumption))
    | (apply pf_connInput _ _ _ (by assumption))
    | (apply pf_getStreamById _ _ _ (by assumption))
    | (apply pf_decodeHeaders _ _ _ (by assumption))
    | (intro _)
    | wps
    | split)



section
variable {α : Type} {Q : α → Conn → Prop} {E : Exc → Conn → Prop}

theorem pf_prepare {Q : Unit → Conn → Prop} (fs : List Frame) (c : Conn) (s0 : FrameBuffer) (h : c.fb = s0)
    (hq : ∀ c', c'.fb = s0 → Q () c') (he : ∀ e c', c'.fb = s0 → E e c') : wp (prepareForSending fs) Q E c := by
  unfold prepareForSending
  wps
  split
  · exact hq c h
  · cases fs.mapM Frame.serialize? with
    | none => exact he _ c h
    | some bs =>
      simp only
      wps
      split
      · exact hq _ h
      · exact he _ _ h

theorem pf_withStreamHp (sid : Int) (m : SH α) (c : Conn) (s0 : FrameBuffer) (h : c.fb = s0)
    (hq : ∀ a c', c'.fb = s0 → Q a c') (he : ∀ e c', c'.fb = s0 → E e c') : wp (withStreamHp sid m) Q E c := by
  rw [wp_withStreamHp]
  cases c.streams.lookup sid with
  | none => exact he _ _ h
  | some st => exact wp_havoc (fun a s' => hq a _ h) (fun e s' => he e _ h)

end


/-! ### the public calls

  Every public call leaves the frame buffer alone. -/

macro "pf_api" : tactic => `(tactic|
  repeat' (first
    | assumption
    | (apply pf_connInput _ _ _ (by assumption))
    | (apply pf_withStream _ _ _ _ (by assumption))
    | (apply pf_withStreamHp _ _ _ _ (by assumption))
    | (apply pf_getStreamById _ _ _ (by assumption))
    | (apply pf_openStreams _ _ _ (by assumption))
    | (apply pf_onConnWM _ _ _ (by assumption))
    | (apply pf_prepare _ _ _ (by assumption))
    | (apply pf_use (pf_getOrCreateStream _ _) _ _ (by assumption))
    | (apply pf_use (pf_beginNewStream _ _) _ _ (by assumption))
    | (apply pf_use (pf_settings _ _) _ _ (by assumption))
    | (with_reducible apply ite_intro)
    | (intro _)
    | wps
    | split))

theorem pf_apiPing (d : Bytes) (c : Conn) : PF (ping d) c := by
  have h : c.fb = c.fb := rfl
  unfold PF ping; pf_api
theorem pf_apiResetStream (sid code : Int) (c : Conn) : PF (resetStream sid code) c := by
  have h : c.fb = c.fb := rfl
  unfold PF resetStream; pf_api
theorem pf_apiEndStream (sid : Int) (c : Conn) : PF (endStream sid) c := by
  have h : c.fb = c.fb := rfl
  unfold PF endStream; pf_api
set_option maxRecDepth 100000 in
theorem pf_apiIncrementWindow (n : Int) (sid : Option Int) (c : Conn) : PF (incrementFlowControlWindow n sid) c := by
  have h : c.fb = c.fb := rfl
  unfold PF incrementFlowControlWindow; pf_api
theorem pf_apiCloseConnection (code : Int) (extra : Option Bytes) (last : Option Int) (c : Conn) :
    PF (closeConnection code extra last) c := by
  have h : c.fb = c.fb := rfl
  unfold PF closeConnection; pf_api
theorem pf_apiUpdateSettings (items : List (Int × Int)) (c : Conn) : PF (updateSettings items) c := by
  have h : c.fb = c.fb := rfl
  unfold PF updateSettings; pf_api
set_option maxRecDepth 100000 in
theorem pf_apiAltsvc (f : Bytes) (o : Option Bytes) (sid : Option Int) (c : Conn) :
    PF (advertiseAlternativeService f o sid) c := by
  suffices hs : ∀ s0, c.fb = s0 → wp (advertiseAlternativeService f o sid) (fun _ c' => c'.fb = s0)
      (fun _ c' => c'.fb = s0) c from hs _ rfl
  intro s0 h
  unfold advertiseAlternativeService
  cases o with
  | none =>
    cases sid with
    | none => wps; simp only [Option.isSome_none, Bool.and_self, Bool.false_eq_true, if_false, Option.isNone_none, if_true]; exact h
    | some s =>
      wps
      simp only [Option.isSome_none, Bool.false_and, Bool.false_eq_true, if_false, Option.isNone_none, Option.isNone_some,
        Bool.and_false]
      pf_api
  | some ov =>
    wps
    cases sid with
    | some s => simp only [Option.isSome_some, Bool.and_self, if_true]; exact h
    | none =>
      simp only [Option.isSome_some, Option.isSome_none, Bool.and_false, Bool.false_eq_true, if_false, Option.isNone_some,
        Bool.false_and]
      with_reducible apply ite_intro
      · intro _; exact h
      intro hx; clear hx
      with_reducible apply ite_intro
      · intro _; exact h
      intro hx; clear hx
      with_reducible apply ite_intro
      · intro _; exact h
      intro hx; clear hx
      apply pf_connInput _ _ _ h
      · intro c1 h1
        wps
        generalize [Frame.altsvc 0 ov f] = fs
        apply pf_prepare _ _ _ h1
        · intro _ h2; exact h2
        · intro _ _ h2; exact h2
      · intro _ _ h2; exact h2
theorem pf_apiPrioritize (sid : Int) (w d : Option Int) (e : Option Bool) (c : Conn) : PF (prioritize sid w d e) c := by
  have h : c.fb = c.fb := rfl
  unfold PF prioritize; pf_api
theorem pf_apiAckData (size sid : Int) (c : Conn) : PF (acknowledgeReceivedData size sid) c := by
  have h : c.fb = c.fb := rfl
  unfold PF acknowledgeReceivedData ackCredit; pf_api
theorem pf_apiDataToSend (n : Option Int) (c : Conn) : PF (dataToSend n) c := by
  have h : c.fb = c.fb := rfl
  unfold PF dataToSend; pf_api
theorem pf_apiClearOut (c : Conn) : PF clearOutboundDataBuffer c := by
  have h : c.fb = c.fb := rfl
  unfold PF clearOutboundDataBuffer; pf_api
theorem pf_apiLocalWindow (sid : Int) (c : Conn) : PF (localFlowControlWindow sid) c := by
  have h : c.fb = c.fb := rfl
  unfold PF localFlowControlWindow; pf_api
theorem pf_apiRemoteWindow (sid : Int) (c : Conn) : PF (remoteFlowControlWindow sid) c := by
  have h : c.fb = c.fb := rfl
  unfold PF remoteFlowControlWindow; pf_api
theorem pf_apiNextStreamId (c : Conn) : PF getNextAvailableStreamId c := by
  have h : c.fb = c.fb := rfl
  unfold PF getNextAvailableStreamId; pf_api
theorem pf_apiOpenOut (c : Conn) : PF openOutboundStreams c := by
  have h : c.fb = c.fb := rfl
  unfold PF openOutboundStreams; pf_api
theorem pf_apiOpenIn (c : Conn) : PF openInboundStreams c := by
  have h : c.fb = c.fb := rfl
  unfold PF openInboundStreams; pf_api
theorem pf_apiSendHeaders (sid : Int) (hs : List Header) (es : Bool) (pw pd : Option Int) (pe : Option Bool) (c : Conn) :
    PF (sendHeaders sid hs es pw pd pe) c := by
  have h : c.fb = c.fb := rfl
  unfold PF sendHeaders sendHeadersTail addPriority openOutboundStreams; pf_api
theorem pf_apiPushStream (sid p : Int) (hs : List Header) (c : Conn) : PF (pushStream sid p hs) c := by
  have h : c.fb = c.fb := rfl
  unfold PF pushStream; pf_api
theorem pf_apiInitiate (c : Conn) : PF initiateConnection c := by
  have h : c.fb = c.fb := rfl
  unfold PF initiateConnection settingsFrameOfLocal; pf_api
theorem pf_apiUpgrade (hdr : Option Bytes) (c : Conn) :
    PF (initiateUpgradeConnection (fun items => do let _ ← receiveSettingsFrame false items; pure ()) hdr) c := by
  have h : c.fb = c.fb := rfl
  unfold PF initiateUpgradeConnection settingsFrameOfLocal
  repeat' (first
    | assumption
    | (apply pf_use (pf_apiInitiate) _ _ (by assumption))
    | (apply pf_connInput _ _ _ (by assumption))
    | (apply pf_withStream _ _ _ _ (by assumption))
    | (apply pf_use (pf_beginNewStream _ _) _ _ (by assumption))
    | (apply pf_use (pf_settings _ _) _ _ (by assumption))
    | (intro _)
    | wps
    | split)


theorem pf_apiSendData (sid : Int) (d : Bytes) (es : Bool) (pad : Option Int) (c : Conn) : PF (sendData sid d es pad) c := by
  have h : c.fb = c.fb := rfl
  unfold PF sendData sendDataCore localFlowControlWindow; pf_api

end H2
