/-
  C15 — inbound header validation accepts exactly the conformant header blocks.

  `ConformantIn hs fl` (Proofs/HeaderRules.lean) is RFC 7540 section 8.1.2 written out as a rule book: per-field rules
  (`FieldOk`: non-empty lowercase name, no surrounding whitespace in name or value, TE only "trailers", no
  connection-specific field), pseudo-header shape (`PseudoShape`: known names only, all before the regular fields, none
  twice), role rules by block type (`RoleOk`), :authority/Host agreement and non-empty :path for requests.
  The theorems say that the model of `utilities.validate_headers` (a fold with state, plus per-field scans) accepts
  a block if and only if the rule book does, returns it unchanged, refuses everything else with ProtocolError, and that
  what `H2Stream.receive_headers` / `receive_push_promise_in_band` deliver is the validated block (after cookie joining
  when normalisation is on, as text when header_encoding is set).
  The constant tables the rules mention are the ones generated from utilities.py on every run
  (`tables_as_literals`).
-/
import H2.Proofs.HeaderRules
import H2.Proofs.PairHeaders
-- the pair-level consequence: what C14 lets out, C15 lets in
-- @also H2.Pair.emitted_block_is_accepted
import H2.Proofs.RecvStream

namespace H2.C15
open H2 H2.Gen

/-- **accepts exactly the conformant blocks** (and returns them unchanged) -/
theorem C15_accepts_iff_conformant (hs : List Header) (fl : HdrFlags) :
    validateInbound hs fl = .ok hs ↔ ConformantIn hs fl := (validateInbound_iff hs fl).1

/-- whatever it returns is its input: validation never rewrites a block -/
theorem C15_validation_is_identity (hs out : List Header) (fl : HdrFlags) (h : validateInbound hs fl = .ok out) :
    out = hs := by
  unfold validateInbound at h
  simp only at h
  split at h
  · cases h; rfl
  · cases h

/-- **a non-conformant block is refused with PROTOCOL_ERROR** -/
theorem C15_refuses_nonconformant (hs : List Header) (fl : HdrFlags) (h : ¬ ConformantIn hs fl) :
    validateInbound hs fl = .error (mkExc .ProtocolError) ∧
    (mkExc .ProtocolError).isInstance .ProtocolError = true ∧
    mkExc .ProtocolError = Exc.h2 .ProtocolError (some 1) none [] :=
  ⟨(validateInbound_iff hs fl).2 h, by decide, rfl⟩

/-! ### `_process_received_headers`: cookie joining, validation, text decoding -/

/-- what is delivered after validation: cookies joined when `normalize_inbound_headers` is on -/
def pre (cfg : Config) (headers : List Header) : List Header := if cfg.normIn then combineCookies headers else headers

/-- **delivered if and only if the received block is conformant** (and the text decoding, if any, succeeds); the
    delivered list is the block with its cookie fields joined -/
theorem C15_process_delivers_iff (cfg : Config) (headers out : List Header) (fl : HdrFlags) (hv : cfg.valIn = true) :
    processReceivedHeaders cfg headers fl = .ok out ↔
      ConformantIn headers fl ∧ decodeText cfg.enc (pre cfg headers) = .ok out := by
  unfold processReceivedHeaders pre
  simp only [hv, if_true]
  by_cases hc : ConformantIn headers fl
  · rw [(C15_accepts_iff_conformant _ fl).mpr hc]
    simp only [hc, true_and]
    rfl
  · rw [((validateInbound_iff _ fl).2 hc)]
    simp only [hc, false_and, iff_false]
    intro h; cases h

theorem C15_process_refuses (cfg : Config) (headers : List Header) (fl : HdrFlags) (hv : cfg.valIn = true)
    (hn : ¬ ConformantIn headers fl) :
    processReceivedHeaders cfg headers fl = .error (mkExc .ProtocolError) := by
  unfold processReceivedHeaders
  simp only [hv, if_true]
  rw [((validateInbound_iff _ fl).2 hn)]
  rfl

/-- with validation off nothing is checked: only joining and decoding happen -/
theorem C15_process_unvalidated (cfg : Config) (headers : List Header) (fl : HdrFlags) (hv : cfg.valIn = false) :
    processReceivedHeaders cfg headers fl = decodeText cfg.enc (pre cfg headers) := by
  unfold processReceivedHeaders pre
  simp only [hv, Bool.false_eq_true, if_false]
  rfl

/-- delivered headers: the block itself without header_encoding, its text with it (refused if not valid UTF-8) -/
theorem C15_decode (hs : List Header) :
    decodeText .none hs = .ok hs ∧
    (∀ out, decodeText .utf8 hs = .ok out → out = hs.map fun h => { h with name := HStr.s h.name.bs, value := HStr.s h.value.bs }) ∧
    (∀ e, decodeText .utf8 hs = .error e → e = mkExc .ProtocolError) := by
  refine ⟨rfl, ?_, ?_⟩
  · intro out h
    unfold decodeText at h
    simp only at h
    split at h
    · cases h; rfl
    · cases h
  · intro e h
    unfold decodeText at h
    simp only at h
    split at h
    · cases h
    · cases h; rfl

/-! ### cookie joining -/

def isCookie (h : Header) : Bool := h.name == HStr.b (strBytes "cookie")

/-- no cookie field: the block is untouched -/
theorem C15_cookies_none (hs : List Header) (h : ∀ x ∈ hs, isCookie x = false) : combineCookies hs = hs := by
  unfold combineCookies
  simp only
  have h1 : hs.filter (fun h => h.name == HStr.b (strBytes "cookie")) = [] := by
    rw [List.filter_eq_nil_iff]; intro a ha; have := h a ha; unfold isCookie at this; simp [this]
  have h2 : hs.filter (fun h => !(h.name == HStr.b (strBytes "cookie"))) = hs := by
    rw [List.filter_eq_self]; intro a ha; have := h a ha; unfold isCookie at this; simp [this]
  rw [h1, h2]; rfl

/-- some cookie field: every other field keeps its place, and one never-indexed `cookie` field follows them -/
theorem C15_cookies_joined (hs : List Header) (x : Header) (hx : x ∈ hs) (hc : isCookie x = true) :
    ∃ v, combineCookies hs = hs.filter (fun h => !isCookie h) ++ [{ name := HStr.b (strBytes "cookie"), value := HStr.b v, ni := true }] ∧
      ∀ y ∈ hs, isCookie y = true → y.value.bs.length ≤ v.length := by
  unfold combineCookies
  simp only
  cases hf : (hs.filter (fun h => h.name == HStr.b (strBytes "cookie"))).map (·.value.bs) with
  | nil =>
    have : x ∈ hs.filter (fun h => h.name == HStr.b (strBytes "cookie")) := List.mem_filter.mpr ⟨hx, hc⟩
    have hm : x.value.bs ∈ (hs.filter (fun h => h.name == HStr.b (strBytes "cookie"))).map (·.value.bs) := List.mem_map_of_mem this
    rw [hf] at hm; cases hm
  | cons c cs =>
    refine ⟨_, rfl, ?_⟩
    intro y hy hyc
    have hm : y.value.bs ∈ (hs.filter (fun h => h.name == HStr.b (strBytes "cookie"))).map (·.value.bs) :=
      List.mem_map_of_mem (List.mem_filter.mpr ⟨hy, hyc⟩)
    rw [hf] at hm
    -- every joined value is at least as long as each part
    have key : ∀ (l : List Bytes) (acc : Bytes) (z : Bytes), (z ∈ l ∨ z.length ≤ acc.length) →
        z.length ≤ (l.foldl (fun acc x => acc ++ strBytes "; " ++ x) acc).length := by
      intro l
      induction l with
      | nil => intro acc z h; rcases h with h | h; cases h; exact h
      | cons a t ih =>
        intro acc z h
        simp only [List.foldl_cons]
        apply ih
        rcases h with h | h
        · rcases List.mem_cons.mp h with h | h
          · right; subst h; simp only [List.length_append]; omega
          · left; exact h
        · right; simp only [List.length_append]; omega
    apply key
    rcases List.mem_cons.mp hm with h | h
    · right; rw [h]; exact Nat.le_refl _
    · left; exact h

/-! ### what the stream delivers -/

/-- the validation flags `_build_hdr_validation_flags` derives from the first state-machine event -/
def FlagsOf (e : SEv) (fl : HdrFlags) : Prop :=
  fl.isTrailer = (e == .TrailersSent || e == .TrailersReceived) ∧
  fl.isResponse = (e == .ResponseSent || e == .ResponseReceived || e == .InformationalResponseReceived)

/-- what the events of a successful `receive_headers` must look like -/
def Delivered (cfg : Config) (headers : List Header) (es : Bool) (r : List Frame × List Event) (st' : Stream) : Prop :=
  ∃ e0 fl hs', FlagsOf e0 fl ∧ processReceivedHeaders cfg headers fl = .ok hs' ∧
    (hdrEvent e0 st'.sid hs' es).isSome = true ∧ r.2.head? = hdrEvent e0 st'.sid hs' es

theorem deliver_tail (cfg : Config) (headers : List Header) (es : Bool) (e0 : SEv) (tl : List SEv)
    (tailEvs : Int → List Event) (st3 : Stream) :
    wp (do
        let fl ← buildHdrFlags (e0 :: tl)
        let hs ← liftExcept (processReceivedHeaders cfg headers fl)
        let s ← getS
        match hdrEvent e0 s.sid hs es with
        | none => raise (.py .AttributeError)
        | some ev => pure (([] : List Frame), ev :: tailEvs s.sid))
      (Delivered cfg headers es) (fun _ _ => True) st3 := by
  simp only [buildHdrFlags]
  wps
  cases hp : processReceivedHeaders cfg headers
      { isClient := st3.sm.client, isTrailer := e0 == .TrailersSent || e0 == .TrailersReceived,
        isResponse := e0 == .ResponseSent || e0 == .ResponseReceived || e0 == .InformationalResponseReceived,
        isPush := e0 == .PushedStreamReceived || e0 == .PushedRequestSent } with
  | error e => trivial
  | ok hs' =>
    simp only
    cases hev : hdrEvent e0 st3.sid hs' es with
    | none => trivial
    | some ev =>
      simp only
      wps
      exact ⟨e0, _, hs', ⟨rfl, rfl⟩, hp, by rw [hev]; rfl, by rw [hev]; rfl⟩

/-- **`H2Stream.receive_headers` delivers a header event only with a block that `_process_received_headers` accepted
    for the block type of that event** (so, with validation on, a conformant one: `C15_process_delivers_iff`) -/
theorem C15_receiveHeaders_delivers (cfg : Config) (headers : List Header) (es : Bool) (st : Stream) :
    wp (Stream.receiveHeaders cfg headers es) (Delivered cfg headers es) (fun _ _ => True) st := by
  unfold Stream.receiveHeaders
  wps
  cases isInformationalResponse headers with
  | error e => trivial
  | ok b =>
    simp only
    cases es with
    | false =>
      simp only [Bool.and_false, Bool.false_eq_true, if_false, Bool.false_and, Bool.not_false, if_true]
      try wps
      apply wp_havoc (he := fun _ _ => trivial)
      intro events st1
      wps
      cases events with
      | nil => trivial
      | cons e0 tl =>
        simp only
        split
        · wps
        · wps
          apply wp_havoc (he := fun _ _ => trivial)
          intro _ st2
          exact deliver_tail cfg headers false e0 tl (fun _ => []) st2
    | true =>
      simp only [Bool.and_true, Bool.true_and, if_true, Bool.not_true, Bool.false_eq_true, if_false]
      try wps
      split
      · trivial
      apply wp_havoc (he := fun _ _ => trivial)
      intro events st1
      try wps
      apply wp_havoc (he := fun _ _ => trivial)
      intro esEvents st2
      cases events with
      | nil => trivial
      | cons e0 tl =>
        simp only
        try wps
        split
        · trivial
        split
        · try wps
          apply wp_havoc (he := fun _ _ => trivial)
          intro _ st3
          exact deliver_tail cfg headers true e0 tl (fun sid => [Event.StreamEnded sid]) st3
        · try wps
          apply wp_havoc (he := fun _ _ => trivial)
          intro _ st3
          wps
          apply wp_havoc (he := fun _ _ => trivial)
          intro _ st4
          exact deliver_tail cfg headers true e0 tl (fun sid => [Event.StreamEnded sid]) st4

/-- RECV_PUSH_PROMISE, when the stream state machine accepts it, yields PushedStreamReceived first (all 1 680 shapes) -/
def pushEvs (sh : Shape) : Bool :=
  match (stepShape sh .RECV_PUSH_PROMISE).1 with
  | .ok (e :: _) => e == .PushedStreamReceived
  | _ => true
theorem tbl_push_evs : ∀ s, pushEvs s = true := forall_shape (by decide +kernel)

/-- the same for a pushed request: `receive_push_promise_in_band` delivers PushedStreamReceived only with a block that
    `_process_received_headers` accepted as a request block -/
theorem C15_pushPromise_delivers (cfg : Config) (promised : Int) (headers : List Header) (st : Stream) :
    wp (Stream.receivePushPromiseInBand cfg promised headers)
      (fun r st' => ∃ fl hs', fl.isTrailer = false ∧ fl.isResponse = false ∧
          processReceivedHeaders cfg headers fl = .ok hs' ∧
          r.2 = [Event.PushedStreamReceived (some promised) st'.sid hs'])
      (fun _ _ => True) st := by
  unfold Stream.receivePushPromiseInBand
  wps
  apply wp_processInput_good (he := fun _ _ _ _ => trivial)
  intro events sh hstep
  cases events with
  | nil => trivial
  | cons e0 tl =>
    have he0 : e0 = .PushedStreamReceived := by
      have := tbl_push_evs st.sm.sh
      unfold pushEvs at this
      rw [hstep] at this
      simpa using this
    subst he0
    simp only [buildHdrFlags]
    wps
    split
    · rename_i hs' hp
      try wps
      exact ⟨_, hs', rfl, rfl, hp, rfl⟩
    · trivial

/-! ### the rule book is satisfiable and does refuse: a plain request, and the same with an upper-case field name -/

def sampleRequest : List Header :=
  [⟨.b (strBytes ":method"), .b (strBytes "GET"), false⟩, ⟨.b (strBytes ":scheme"), .b (strBytes "https"), false⟩,
   ⟨.b (strBytes ":path"), .b (strBytes "/"), false⟩, ⟨.b (strBytes ":authority"), .b (strBytes "example.com"), false⟩,
   ⟨.b (strBytes "te"), .b (strBytes "trailers"), false⟩]
def requestFlags : HdrFlags := { isClient := some false, isTrailer := false, isResponse := false, isPush := false }

/-- `validate_headers` as a yes/no answer (computable, for the examples) -/
def accepts (hs : List Header) (fl : HdrFlags) : Bool :=
  match validateInbound hs fl with | .ok _ => true | .error _ => false

theorem accepts_iff (hs : List Header) (fl : HdrFlags) : accepts hs fl = true ↔ ConformantIn hs fl := by
  rw [← C15_accepts_iff_conformant]
  unfold accepts
  cases h : validateInbound hs fl with
  | ok out => simp [C15_validation_is_identity hs out fl h]
  | error e => simp

example : ConformantIn sampleRequest requestFlags := (accepts_iff _ _).mp (by decide +kernel)
example : ¬ ConformantIn (sampleRequest ++ [⟨.b (strBytes "X-Upper"), .b (strBytes "1"), false⟩]) requestFlags := by
  rw [← accepts_iff]; decide +kernel
example : ¬ ConformantIn sampleRequest { requestFlags with isResponse := true } := by
  rw [← accepts_iff]; decide +kernel

end H2.C15
