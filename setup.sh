#!/bin/sh
# Build the framework from files on disk only (offline).
set -e
cd "$(dirname "$0")"
mkdir -p lean/H2/Gen evidence work
/venv/bin/python tools/gen_tables.py lean/H2/Gen/Tables.lean work/gen_summary.json
/venv/bin/python tools/py2lean.py lean/H2/Gen/Windows.lean
cd lean && lake build H2 h2drv
