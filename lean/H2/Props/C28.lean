/-
  C28 — output is a deterministic function of the call sequence.

  In Lean this is `step` being a function, which says nothing about CPython.  What decides the property for the
  implementation is the tie: the check executes the same programs in separate interpreter processes under different
  PYTHONHASHSEED values (harness/special.py `special_C28`) and compares every observation line with the in-process
  run and with this model.  The theorems below fix what "the same" means on the model side: the whole observation
  (result or exception with its code and stream id, events in order, every byte appended to the output) is
  determined by the configuration and the sequence of calls and received bytes — plus the HPACK results, which the
  model takes as inputs (`feed`), because HPACK is outside /repo.
-/
import H2.Model.Step

namespace H2.C28
open H2 H2.Gen H2.Conn

/-- the complete input of a run: configuration, and per call the operation together with the HPACK encoder/decoder
    results consumed by it (deterministic functions of the header lists and of the peer's bytes, inside hpack) -/
structure Call where
  op : Op
  enc : List Bytes := []
  dec : List DecRes := []

def feed (c : Conn) (k : Call) : Conn :=
  { c with hp := { c.hp with encOracle := k.enc, decOracle := k.dec, oracleMiss := false } }

def runCalls (c : Conn) : List Call → Conn × List Obs
  | [] => (c, [])
  | k :: ks =>
    let r := step (feed c k) k.op
    let rr := runCalls r.1 ks
    (rr.1, r.2 :: rr.2)

/-- **C28 (model)**: two connections with the same configuration, driven by the same calls, go through the same
    states and produce the same observations — results, exceptions, events and output bytes.  There is no other
    input: no clock, no randomness, no iteration order (every dict of the implementation is an ordered list here). -/
theorem C28_deterministic (cfg1 cfg2 : Config) (ks1 ks2 : List Call) (hc : cfg1 = cfg2) (hk : ks1 = ks2) :
    runCalls (Conn.init cfg1) ks1 = runCalls (Conn.init cfg2) ks2 := by
  subst hc; subst hk; rfl

/-- the output buffer after a run is a function of the calls alone -/
theorem C28_output (cfg : Config) (ks : List Call) (c1 c2 : Conn) (o1 o2 : List Obs)
    (h1 : runCalls (Conn.init cfg) ks = (c1, o1)) (h2 : runCalls (Conn.init cfg) ks = (c2, o2)) :
    c1.out = c2.out ∧ c1.sent = c2.sent := by
  rw [h1] at h2
  injection h2 with h3 _
  subst h3
  exact ⟨rfl, rfl⟩

/-- the places where the implementation iterates over a dict, and the order the model fixes for them: the initial
    SETTINGS frame lists the local settings in the insertion order of `Settings.__init__` (generated table) -/
theorem C28_initial_settings_order :
    (Settings.ofInit client_local_settings).items = client_local_settings ∧
    (Settings.ofInit server_local_settings).items = server_local_settings := by decide

/-- `update_settings(d)` serialises `d` in its own (insertion) order -/
theorem C28_settings_frame_order (a : Bool) (k v : Int) (rest : List (Int × Int)) (b0 : Bytes) (bv : Bytes)
    (hv : u32? v = some bv) :
    (Frame.settings a ((k, v) :: rest)).body? =
      (rest.foldlM (fun acc (kv : Int × Int) => do
        let x ← u32? kv.2
        pure (acc ++ be16 (mask8 kv.1) ++ x)) (be16 (mask8 k) ++ bv)) := by
  simp [Frame.body?, List.foldlM, hv]

end H2.C28
