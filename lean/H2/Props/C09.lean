/-
  C09 — stream identifiers are allocated and checked per RFC 7540 section 5.1.1.
-/
import H2.Proofs.RecvEmits
import H2.Proofs.Marks
import H2.Proofs.MarksMono
import H2.Proofs.History

namespace H2.C09
open H2 H2.Gen H2.Conn

/-- the parity of the ids this endpoint opens: clients odd, servers even -/
def ownParity (c : Conn) : Int := if c.cfg.client then 1 else 0

/-- watermarks are 0 or an id of the right parity, never above 2^31-1 -/
def IdsOk (c : Conn) : Prop :=
  (c.highestOut = 0 ∨ (c.highestOut % 2 = ownParity c ∧ 0 < c.highestOut)) ∧ c.highestOut ≤ HIGHEST_ALLOWED_STREAM_ID ∧
  (c.highestIn = 0 ∨ (c.highestIn % 2 = 1 - ownParity c ∧ 0 < c.highestIn)) ∧ c.highestIn ≤ HIGHEST_ALLOWED_STREAM_ID

theorem C09_ids_init (cfg : Config) : IdsOk (Conn.init cfg) := by
  unfold IdsOk
  cases h : cfg.client <;> simp [Conn.init, h, HIGHEST_ALLOWED_STREAM_ID]

/-- **get_next_available_stream_id**: the smallest id of the endpoint's parity above every id it has used; once that
    would exceed 2^31-1, NoAvailableStreamIDError — and the state is untouched either way -/
theorem C09_next_of_out (c : Conn)
    (h : (c.highestOut = 0 ∨ (c.highestOut % 2 = ownParity c ∧ 0 < c.highestOut)) ∧ c.highestOut ≤ HIGHEST_ALLOWED_STREAM_ID) :
    wp getNextAvailableStreamId
      (fun n c' => c' = c ∧ n % 2 = ownParity c ∧ c.highestOut < n ∧ n ≤ HIGHEST_ALLOWED_STREAM_ID ∧ 0 < n ∧
        (∀ m, m % 2 = ownParity c → c.highestOut < m → 0 < m → n ≤ m))
      (fun e c' => c' = c ∧ e.isInstance .NoAvailableStreamIDError = true ∧
        (∀ m, m % 2 = ownParity c → c.highestOut < m → 0 < m → HIGHEST_ALLOWED_STREAM_ID < m)) c := by
  unfold getNextAvailableStreamId
  obtain ⟨h1, h2⟩ := h
  unfold ownParity at *
  unfold HIGHEST_ALLOWED_STREAM_ID at *
  wps
  cases hc : c.cfg.client <;> simp only [hc, if_true, if_false, Bool.false_eq_true] at h1 ⊢
  all_goals (
    by_cases h0 : c.highestOut = 0
    · simp only [h0, beq_self_eq_true, if_true]
      rw [if_neg (by omega)]
      refine ⟨trivial, by omega, by omega, by omega, by omega, ?_⟩
      intro m hm1 hm2 hm3; omega
    · have hb : (c.highestOut == 0) = false := by simp [h0]
      simp only [hb, Bool.false_eq_true, if_false]
      rcases h1 with h1 | h1
      · exact absurd h1 h0
      · split
        · refine ⟨trivial, by decide, ?_⟩
          intro m hm1 hm2 hm3; omega
        · refine ⟨trivial, by omega, by omega, by omega, by omega, ?_⟩
          intro m hm1 hm2 hm3; omega)

theorem C09_next (c : Conn) (h : IdsOk c) :
    wp getNextAvailableStreamId
      (fun n c' => c' = c ∧ n % 2 = ownParity c ∧ c.highestOut < n ∧ n ≤ HIGHEST_ALLOWED_STREAM_ID ∧ 0 < n ∧
        (∀ m, m % 2 = ownParity c → c.highestOut < m → 0 < m → n ≤ m))
      (fun e c' => c' = c ∧ e.isInstance .NoAvailableStreamIDError = true ∧
        (∀ m, m % 2 = ownParity c → c.highestOut < m → 0 < m → HIGHEST_ALLOWED_STREAM_ID < m)) c :=
  C09_next_of_out c ⟨h.1, h.2.1⟩

theorem createStream_spec (sid : Int) (ob : Bool) (c : Conn) :
    wp (createStream sid ob)
      (fun _ c' => (if ob then c'.highestOut = sid ∧ c'.highestIn = c.highestIn
                    else c'.highestIn = sid ∧ c'.highestOut = c.highestOut) ∧ hasStream c' sid = true)
      (fun _ c' => c' = c) c := by
  unfold createStream optInt?
  wps
  cases c.localSettings.initialWindowSize with
  | none => rfl
  | some iw =>
    simp only
    wps
    cases c.remoteSettings.initialWindowSize with
    | none => rfl
    | some ow =>
      simp only
      wps
      cases WindowManager.init iw with
      | error e => rfl
      | ok wm =>
        simp only
        wps
        rw [wp_putStream]
        wps
        have h1 := hasStream_putStream c sid { sm := { sid := sid }, maxOutFrame := c.maxOutFrame, outWin := ow, inWM := wm }
        have h2 : (putStream sid { sm := { sid := sid }, maxOutFrame := c.maxOutFrame, outWin := ow, inWM := wm } c).2.highestOut = c.highestOut ∧
            (putStream sid { sm := { sid := sid }, maxOutFrame := c.maxOutFrame, outWin := ow, inWM := wm } c).2.highestIn = c.highestIn := by
          unfold putStream modifyS; simp only; split <;> exact ⟨rfl, rfl⟩
        cases ob
        · simp only [Bool.false_eq_true, if_false]
          exact ⟨⟨trivial, h2.1⟩, h1⟩
        · simp only [if_true]
          exact ⟨⟨trivial, h2.2⟩, h1⟩

/-- **_begin_new_stream**: a stream is opened (or promised) only with an id above every id used in that direction,
    of the parity allowed for it, at most 2^31-1; the watermark then is that id (so ids are strictly increasing).
    A refusal changes nothing. -/
theorem C09_begin (sid : Int) (odd : Bool) (c : Conn) :
    wp (beginNewStream sid odd)
      (fun _ c' =>
        (if streamIdIsOutbound c sid then c.highestOut < sid ∧ c'.highestOut = sid ∧ c'.highestIn = c.highestIn
         else c.highestIn < sid ∧ c'.highestIn = sid ∧ c'.highestOut = c.highestOut) ∧
        sid % 2 = (if odd then 1 else 0) ∧ sid ≤ HIGHEST_ALLOWED_STREAM_ID ∧ hasStream c' sid = true)
      (fun _ c' => c' = c) c := by
  unfold beginNewStream
  wps
  by_cases hlow : sid ≤ (if streamIdIsOutbound c sid then c.highestOut else c.highestIn)
  · simp only [hlow, if_true]
  · simp only [hlow, if_false]
    by_cases hpar : (sid % 2 != (if odd then 1 else 0)) = true
    · simp only [hpar, if_true]
    · simp only [hpar, if_false]
      by_cases hbig : sid > HIGHEST_ALLOWED_STREAM_ID
      · simp [hbig]
      · simp only [hbig, if_false]
        refine wp_mono (createStream_spec sid (streamIdIsOutbound c sid) c) ?_ ?_
        · intro _ c' h
          refine ⟨?_, by simpa using hpar, by omega, h.2⟩
          cases hob : streamIdIsOutbound c sid <;> simp only [hob, if_true, if_false, Bool.false_eq_true] at h hlow ⊢
          · exact ⟨by omega, h.1.1, h.1.2⟩
          · exact ⟨by omega, h.1.1, h.1.2⟩
        · intro e c' h; exact h

set_option maxRecDepth 8000 in
/-- what a frame on an id that is not above the watermark turns into (`_receive_frame`'s handler for
    StreamIDTooLowError): a stream error if that stream was reset, a STREAM_CLOSED connection error if it ended
    normally, the PROTOCOL_ERROR connection error otherwise -/
theorem C09_peer_low_id (c : Conn) (sid : Int) (code : Option Int) (evs : List Event) (hmax : 4 ≤ c.maxOutFrame) :
    let e : Exc := .h2 .StreamIDTooLowError code (some sid) evs
    (closedByReset c sid = true →
      wp (frameErrorHandler e)
        (fun r c' => r = [] ∧ c'.sent = c.sent ++ [Frame.rstStream sid ErrorCodes.STREAM_CLOSED])
        (fun e' c' => e' = pErr ∧ c'.cstate = .CLOSED ∧ c'.sent = c.sent) c) ∧
    (closedByReset c sid = false → closedByEnd c sid = true →
      wp (frameErrorHandler e) (fun _ _ => False) (fun e' c' => e' = mkStreamClosed sid ∧ c' = c) c) ∧
    (closedByReset c sid = false → closedByEnd c sid = false →
      wp (frameErrorHandler e) (fun _ _ => False) (fun e' c' => e' = e ∧ c' = c) c) := by
  intro e
  have hsub : ExcClass.isSub .StreamIDTooLowError .StreamClosedError = false := by decide
  refine ⟨?_, ?_, ?_⟩
  · intro hr
    simp only [e, frameErrorHandler, hsub, Bool.false_eq_true, if_false, Option.getD]
    wps
    simp only [hr, if_true]
    cases ht : connTable c.cstate .SEND_RST_STREAM with
    | none => rw [wp_connInput_err _ _ ht]; exact ⟨rfl, rfl, rfl⟩
    | some t =>
      rw [wp_connInput_ok _ _ _ ht]
      wps
      obtain ⟨b, hb, hlen⟩ := rst_serialize sid (ErrorCodes.STREAM_CLOSED : Nat)
        ⟨by simp [ErrorCodes.STREAM_CLOSED], by simp [ErrorCodes.STREAM_CLOSED]⟩
      rw [wp_prepare_eq [Frame.rstStream sid (ErrorCodes.STREAM_CLOSED : Nat)] _ [b] (by simp) (by simp [hb])
        (by simp only [List.all_cons, List.all_nil, Bool.and_true, hlen, decide_eq_true_eq]; omega)]
      wps
      exact ⟨trivial, trivial⟩
  · intro hr he
    simp only [e, frameErrorHandler, hsub, Bool.false_eq_true, if_false, Option.getD]
    wps
    simp only [hr, he, Bool.false_eq_true, if_false, if_true]
    exact ⟨trivial, trivial⟩
  · intro hr he
    simp only [e, frameErrorHandler, hsub, Bool.false_eq_true, if_false, Option.getD]
    wps
    simp only [hr, he, Bool.false_eq_true, if_false]
    exact ⟨trivial, trivial⟩

/-- **PRIORITY** for any stream id — idle, open, closed or never used — neither opens nor implicitly closes streams:
    apart from the connection state machine's own state nothing changes (stream table, both watermarks, closed-stream
    memory, windows); a self-dependency is a PROTOCOL_ERROR -/
theorem C09_priority_opens_nothing (sid : Int) (p : Prio) (c : Conn) :
    wp (receivePriorityFrame sid p)
      (fun fe c' => c' = { c with cstate := c'.cstate } ∧ fe.1 = [] ∧ p.dependsOn ≠ sid)
      (fun e c' => c' = { c with cstate := c'.cstate } ∧ e = pErr) c := by
  unfold receivePriorityFrame
  wps
  unfold wp connInput
  cases connTable c.cstate .RECV_PRIORITY with
  | none => exact ⟨rfl, rfl⟩
  | some t =>
    simp only
    by_cases hd : (p.dependsOn == sid) = true
    · simp only [hd, if_true, raise]; exact ⟨trivial, trivial⟩
    · simp only [hd, Bool.false_eq_true, if_false, pure, M.pure]
      exact ⟨trivial, trivial, by simpa using hd⟩

/-! ### along every history -/

theorem C09_calls_keep_marks (cl : Bool) : CallsKeep (MK cl) where
  initiate := fun c h => pm_apiInitiate c h
  upgrade := fun hdr c h => pm_apiUpgrade hdr c h
  sendHeaders := fun sid hs es pw pd pe c h => pm_apiSendHeaders sid hs es pw pd pe c h
  pushStream := fun sid p hs c h => pm_apiPushStream sid p hs c h
  sendData := fun sid d es pad c h => pm_apiSendData sid d es pad c h
  endStream := fun sid c h => pm_apiEndStream sid c h
  incrementWindow := fun i sid c h => pm_apiIncrementWindow i sid c h
  ping := fun d c h => pm_apiPing d c h
  resetStream := fun sid code c h => pm_apiResetStream sid code c h
  closeConnection := fun code extra last c h => pm_apiCloseConnection code extra last c h
  updateSettings := fun items c h => pm_apiUpdateSettings items c h
  altsvc := fun f o sid c h => pm_apiAltsvc f o sid c h
  prioritize := fun sid w d e c h => pm_apiPrioritize sid w d e c h
  ackData := fun size sid c h => pm_apiAckData size sid c h
  dataToSend := fun n c h => pm_apiDataToSend n c h
  clearOut := fun c h => pm_apiClearOut c h
  localWindow := fun sid c h => pm_apiLocalWindow sid c h
  remoteWindow := fun sid c h => pm_apiRemoteWindow sid c h
  nextStreamId := fun c h => pm_apiNextStreamId c h
  openOut := fun c h => pm_apiOpenOut c h
  openIn := fun c h => pm_apiOpenIn c h

/-- **the high-water marks stay in order, in every reachable state**: the highest id this endpoint has used is 0 or an id
    of its own parity, at most 2^31-1; the highest id the peer has used is 0 or an id of the peer's parity.  They are
    written by `_begin_new_stream` after its three checks, by `_refuse_pushed_stream` (an id of the peer's parity above
    the mark) and by the branch of `send_headers` that takes a refused request back -/
theorem C09_marks_every_history (cfg : Config) (c : Conn) (h : C29.Reachable cfg c) :
    c.cfg.client = cfg.client ∧
    (c.highestOut = 0 ∨ (c.highestOut % 2 = ownParity c ∧ 0 < c.highestOut)) ∧ c.highestOut ≤ HIGHEST_ALLOWED_STREAM_ID ∧
    (c.highestIn = 0 ∨ (c.highestIn % 2 = 1 - ownParity c ∧ 0 < c.highestIn)) := by
  have hm : MK cfg.client c := by
    refine every_history (C09_calls_keep_marks cfg.client) (fun d c h => receiveData_mk d c h) (fun _ _ h => h) cfg ?_ c h
    cases hc : cfg.client <;> simp [MK, Conn.init, hc]
  obtain ⟨h0, h1, h2, h3⟩ := hm
  unfold ownParity parOf HIGHEST_ALLOWED_STREAM_ID at *
  rw [h0]
  exact ⟨rfl, h1, h2, h3⟩

/-- **`get_next_available_stream_id` in every reachable state**: the smallest unused id of this endpoint's parity, or
    NoAvailableStreamIDError once that would pass 2^31-1; the state is untouched either way -/
theorem C09_next_every_history (cfg : Config) (c : Conn) (h : C29.Reachable cfg c) :
    wp getNextAvailableStreamId
      (fun n c' => c' = c ∧ n % 2 = ownParity c ∧ c.highestOut < n ∧ n ≤ HIGHEST_ALLOWED_STREAM_ID ∧ 0 < n ∧
        (∀ m, m % 2 = ownParity c → c.highestOut < m → 0 < m → n ≤ m))
      (fun e c' => c' = c ∧ e.isInstance .NoAvailableStreamIDError = true ∧
        (∀ m, m % 2 = ownParity c → c.highestOut < m → 0 < m → HIGHEST_ALLOWED_STREAM_ID < m)) c := by
  have := C09_marks_every_history cfg c h
  exact C09_next_of_out c ⟨this.2.1, this.2.2.1⟩

theorem C09_calls_keep_lower (lo li : Int) : CallsKeep (GE lo li) where
  initiate := fun c h => pg_apiInitiate c h
  upgrade := fun hdr c h => pg_apiUpgrade hdr c h
  sendHeaders := fun sid hs es pw pd pe c h => pg_apiSendHeaders sid hs es pw pd pe c h
  pushStream := fun sid p hs c h => pg_apiPushStream sid p hs c h
  sendData := fun sid d es pad c h => pg_apiSendData sid d es pad c h
  endStream := fun sid c h => pg_apiEndStream sid c h
  incrementWindow := fun i sid c h => pg_apiIncrementWindow i sid c h
  ping := fun d c h => pg_apiPing d c h
  resetStream := fun sid code c h => pg_apiResetStream sid code c h
  closeConnection := fun code extra last c h => pg_apiCloseConnection code extra last c h
  updateSettings := fun items c h => pg_apiUpdateSettings items c h
  altsvc := fun f o sid c h => pg_apiAltsvc f o sid c h
  prioritize := fun sid w d e c h => pg_apiPrioritize sid w d e c h
  ackData := fun size sid c h => pg_apiAckData size sid c h
  dataToSend := fun n c h => pg_apiDataToSend n c h
  clearOut := fun c h => pg_apiClearOut c h
  localWindow := fun sid c h => pg_apiLocalWindow sid c h
  remoteWindow := fun sid c h => pg_apiRemoteWindow sid c h
  nextStreamId := fun c h => pg_apiNextStreamId c h
  openOut := fun c h => pg_apiOpenOut c h
  openIn := fun c h => pg_apiOpenIn c h

/-- **the high-water marks never go down**: whatever is called and whatever arrives — so an id, once used in either
    direction, is never handed out, accepted or promised again (`C09_begin`: a new stream needs an id above the mark) -/
theorem C09_marks_never_decrease (c : Conn) (op : Op) :
    c.highestOut ≤ (step c op).1.highestOut ∧ c.highestIn ≤ (step c op).1.highestIn := by
  have h0 : GE c.highestOut c.highestIn c := ⟨Int.le_refl _, Int.le_refl _⟩
  by_cases hr : ∃ d, op = .recv d
  · obtain ⟨d, rfl⟩ := hr
    exact recv_keeps (P := GE c.highestOut c.highestIn) (fun d c' h => receiveData_ge d c' h) c d h0
  · exact call_keeps (C09_calls_keep_lower _ _) c op (fun d hd => hr ⟨d, hd⟩) h0

/-- …along any sequence of operations -/
theorem C09_marks_monotone (c : Conn) (ops : List Op) :
    c.highestOut ≤ (run c ops).1.highestOut ∧ c.highestIn ≤ (run c ops).1.highestIn := by
  induction ops generalizing c with
  | nil => exact ⟨Int.le_refl _, Int.le_refl _⟩
  | cons op ops ih =>
    have h1 := C09_marks_never_decrease c op
    have h2 := ih (step c op).1
    simp only [run]
    exact ⟨Int.le_trans h1.1 h2.1, Int.le_trans h1.2 h2.2⟩

end H2.C09
