/-
  Receive path, stream level: every H2Stream method reached from a received frame returns with the stream out of
  IDLE or raises a protocol error (never IndexError / KeyError / AttributeError / AssertionError / TypeError).
-/
import H2.Proofs.RecvFacts
namespace H2
open H2.Gen H2.Conn

def AllBytes (hs : List Header) : Prop := ∀ h ∈ hs, h.name.isStr = false ∧ h.value.isStr = false

theorem isInformationalResponse_ok (hs : List Header) (h : AllBytes hs) : ∃ b, isInformationalResponse hs = .ok b := by
  induction hs with
  | nil => exact ⟨false, rfl⟩
  | cons x xs ih =>
    unfold isInformationalResponse
    have hx := h x (List.mem_cons_self ..)
    have ih' := ih (fun y hy => h y (List.mem_cons_of_mem _ hy))
    split
    · exact ⟨false, rfl⟩
    · split
      · exact ih'
      · split
        · rename_i hc; simp [hx.1, hx.2] at hc
        · exact ⟨_, rfl⟩

/-- the exceptions some `except` clause of the receive path swallows (the connection goes on afterwards) -/
def isCaught (e : Exc) : Bool := e.isInstance .NoSuchStreamError || e.isInstance .StreamIDTooLowError

/-- a protocol error that no `except` clause swallows: it ends the connection -/
def Plain (e : Exc) : Prop := GoodExc e ∧ isCaught e = false

/-- error postcondition of stream methods: a protocol error; if it is one that is swallowed, the stream has left IDLE -/
def SE (e : Exc) (st' : Stream) : Prop := GoodExc e ∧ (isCaught e = true → st'.sm.state ≠ .IDLE)

theorem SE_of_plain {e : Exc} {st' : Stream} (h : Plain e) : SE e st' :=
  ⟨h.1, fun hc => by rw [h.2] at hc; contradiction⟩
theorem SE_of_state {e : Exc} {st' : Stream} (h : GoodExc e) (hs : st'.sm.state ≠ .IDLE) : SE e st' := ⟨h, fun _ => hs⟩

theorem plain_protoErr' : Plain protoErr' := ⟨goodExc_protoErr', by decide⟩
theorem plain_protoErr : Plain protoErr := ⟨goodExc_protoErr, by decide⟩
theorem plain_pErr : Plain pErr := ⟨goodExc_pErr, by decide⟩
theorem plain_mkExc (cls : ExcClass) (h : cls.isSub .ProtocolError = true)
    (h2 : (cls.isSub .NoSuchStreamError || cls.isSub .StreamIDTooLowError) = false) : Plain (mkExc cls) :=
  ⟨goodExc_mkExc _ _ h, h2⟩

/-- what a stream method on the receive path may do: return with the stream out of IDLE, or raise a protocol error -/
def SGood {α} (m : M Stream α) (st : Stream) : Prop :=
  wp m (fun _ st' => st'.sm.state ≠ .IDLE) SE st

theorem wp_processInput_good {Q : List SEv → Stream → Prop} {E : Exc → Stream → Prop} (i : StreamInputs) (st : Stream)
    (hq : ∀ evs sh, stepShape st.sm.sh i = (.ok evs, sh) → Q evs { st with sm := { st.sm with sh := sh } })
    (he : ∀ e sh, GoodExc e → (stepShape st.sm.sh i).2 = sh → E e { st with sm := { st.sm with sh := sh } }) :
    wp (processInput i) Q E st := by
  simp only [processInput, onSM, wp_zoom]
  unfold wp SM.process
  cases h : stepShape st.sm.sh i with
  | mk r sh =>
    cases r with
    | ok evs => simpa using hq evs sh h
    | proto => simpa using he _ sh (goodExc_mkExc _ _ (by decide)) (by rw [h])
    | streamClosed w => simpa using he _ sh (goodExc_streamClosed _ _) (by rw [h])

theorem trackContentLength_good {Q : Unit → Stream → Prop} {E : Exc → Stream → Prop} (n : Int) (es : Bool) (st : Stream)
    (hq : ∀ st', st'.sm = st.sm → Q () st') (he : ∀ e st', Plain e → E e st') :
    wp (Stream.trackContentLength n es) Q E st := by
  simp only [Stream.trackContentLength]
  wps
  repeat' split
  all_goals first | exact hq _ rfl | exact he _ _ (plain_mkExc _ (by decide) (by decide))

theorem initializeContentLength_good {Q : Unit → Stream → Prop} {E : Exc → Stream → Prop} (hs : List Header) (st : Stream)
    (hq : ∀ st', st'.sm = st.sm → Q () st') (he : ∀ e st', Plain e → E e st') :
    wp (Stream.initializeContentLength hs) Q E st := by
  simp only [Stream.initializeContentLength]
  wps
  split
  all_goals first | exact hq _ rfl | exact he _ _ plain_protoErr'

theorem validateInbound_err (hs : List Header) (fl : HdrFlags) (e : Exc) (h : validateInbound hs fl = .error e) :
    e = protoErr := by
  unfold validateInbound at h
  simp only at h
  split at h
  · simp at h
  · injection h with h; exact h.symm

theorem decodeText_err (enc : Encoding) (hs : List Header) (e : Exc) (h : decodeText enc hs = .error e) : e = protoErr := by
  unfold decodeText at h
  split at h
  · simp at h
  · split at h
    · simp at h
    · injection h with h; exact h.symm

theorem processReceivedHeaders_good (cfg : Config) (hs : List Header) (fl : HdrFlags) (e : Exc)
    (h : processReceivedHeaders cfg hs fl = .error e) : Plain e := by
  unfold processReceivedHeaders at h
  simp only [bind, Except.bind, pure, Except.pure] at h
  split at h
  · split at h
    · rename_i e' he
      injection h with h; subst h
      rw [validateInbound_err _ _ _ he]; exact plain_protoErr
    · rw [decodeText_err _ _ _ h]; exact plain_protoErr
  · rw [decodeText_err _ _ _ h]; exact plain_protoErr


theorem wp_liftExcept_good {σ α} {Q : α → σ → Prop} {E : Exc → σ → Prop} (r : Except Exc α) (s : σ)
    (hq : ∀ a, r = .ok a → Q a s) (he : ∀ e, r = .error e → E e s) : wp (liftExcept r : M σ α) Q E s := by
  rw [wp_liftExcept]
  cases r with
  | ok a => exact hq a rfl
  | error e => exact he e rfl

theorem buildHdrFlags_wp {Q : HdrFlags → Stream → Prop} {E : Exc → Stream → Prop} (e : SEv) (rest : List SEv) (st : Stream)
    (hq : ∀ fl, Q fl st) : wp (buildHdrFlags (e :: rest)) Q E st := by
  simp only [buildHdrFlags]
  wps
  exact hq _

theorem not_idle_step' {sh sh' : Shape} {i : StreamInputs} (h : sh.state ≠ .IDLE)
    (hs : (stepShape sh i).2 = sh') : sh'.state ≠ .IDLE := by
  have := tbl_not_idle sh i
  rw [hs] at this
  simpa [h] using this

theorem leaves_idle_step' {sh sh' : Shape} {i : StreamInputs} (hl : leavesIdle i = true)
    (hs : (stepShape sh i).2 = sh') : sh'.state ≠ .IDLE := by
  have := tbl_leaves_idle sh i
  rw [hs, hl] at this
  simpa using this

theorem sgood_receiveHeaders (cfg : Config) (hs : List Header) (es : Bool) (st : Stream) (hb : AllBytes hs) :
    SGood (Stream.receiveHeaders cfg hs es) st := by
  unfold SGood Stream.receiveHeaders
  obtain ⟨b, hb⟩ := isInformationalResponse_ok hs hb
  rw [hb]
  wps
  split
  · exact SE_of_plain plain_protoErr'
  · apply wp_processInput_good
    · intro evs sh hstep
      have hfact : evsHdr st.sm.sh (if b = true then .RECV_INFORMATIONAL_HEADERS else .RECV_HEADERS) = true := by
        split
        · exact tbl_info _
        · exact tbl_hdr _
      have hend : thenEndOk st.sm.sh (if b = true then .RECV_INFORMATIONAL_HEADERS else .RECV_HEADERS) = true := by
        split
        · exact tbl_info_end _
        · exact tbl_hdr_end _
      obtain ⟨e0, he0, hk⟩ := evsHdr_elim hfact hstep
      have hne := thenEndOk_elim hend hstep
      have hni : sh.state ≠ .IDLE := by
        have := tbl_leaves_idle st.sm.sh (if b = true then .RECV_INFORMATIONAL_HEADERS else .RECV_HEADERS)
        rw [hstep] at this
        cases b <;> simpa [leavesIdle] using this
      subst he0
      have hdr : ∀ sid hs' se, hdrEvent e0 sid hs' se ≠ none := by
        intro sid hs' se; cases e0 <;> simp [hdrEvOk] at hk <;> simp [hdrEvent]
      cases es with
      | false =>
        simp only [Bool.false_eq_true, if_false, Bool.false_and, Bool.not_false, if_true]
        wps
        split
        · exact SE_of_plain plain_protoErr'
        · apply initializeContentLength_good
          · intro st' hsm
            wps
            apply buildHdrFlags_wp
            intro fl
            wps
            cases hprh : processReceivedHeaders cfg hs fl with
            | error e => exact SE_of_plain (processReceivedHeaders_good _ _ _ _ hprh)
            | ok hs' =>
              wps
              split
              · rename_i hnone; exact absurd hnone (hdr _ _ _)
              · wps; rw [hsm]; exact hni
          · intro e st' hg; exact SE_of_plain hg
      | true =>
        simp only [if_true, Bool.true_and]
        wps
        apply wp_processInput_good
        · intro evs2 sh2 hstep2
          have hne2 := evsNonempty_elim hne hstep2
          have hni2 : sh2.state ≠ .IDLE := by
            have := tbl_not_idle sh .RECV_END_STREAM
            rw [hstep2] at this
            simpa [hni] using this
          have hemp : evs2.isEmpty = false := by cases evs2 <;> simp_all
          simp only [hemp, Bool.false_eq_true, if_false, Bool.not_true]
          wps
          split
          · apply trackContentLength_good
            · intro st' hsm
              wps
              apply buildHdrFlags_wp
              intro fl
              wps
              cases hprh : processReceivedHeaders cfg hs fl with
              | error e => exact SE_of_plain (processReceivedHeaders_good _ _ _ _ hprh)
              | ok hs' =>
                wps
                split
                · rename_i hnone; exact absurd hnone (hdr _ _ _)
                · wps; rw [hsm]; exact hni2
            · intro e st' hg; exact SE_of_plain hg
          · apply initializeContentLength_good
            · intro st' hsm
              wps
              apply trackContentLength_good
              · intro st'' hsm2
                wps
                apply buildHdrFlags_wp
                intro fl
                wps
                cases hprh : processReceivedHeaders cfg hs fl with
                | error e => exact SE_of_plain (processReceivedHeaders_good _ _ _ _ hprh)
                | ok hs' =>
                  wps
                  split
                  · rename_i hnone; exact absurd hnone (hdr _ _ _)
                  · wps; rw [hsm2, hsm]; exact hni2
              · intro e st' hg; exact SE_of_plain hg
            · intro e st' hg; exact SE_of_plain hg
        · intro e sh2 hg hsh; exact SE_of_state hg (not_idle_step' hni hsh)
    · intro e sh hg hsh; exact SE_of_state hg (leaves_idle_step' (by cases b <;> rfl) hsh)


theorem not_idle_step {sh sh' : Shape} {i : StreamInputs} {r : ProcRes} (h : sh.state ≠ .IDLE)
    (hs : stepShape sh i = (r, sh')) : sh'.state ≠ .IDLE := by
  have := tbl_not_idle sh i
  rw [hs] at this
  simpa [h] using this

theorem wm_consumed_err (w w' : WindowManager) (n : Int) (e : PyErr) (h : w.window_consumed n = (.error e, w')) :
    e = .h2 .FlowControlError := by
  unfold WindowManager.window_consumed at h
  simp only at h
  split at h
  · injection h with h _; injection h with h; exact h.symm
  · simp at h

theorem wm_opened_err (w w' : WindowManager) (n : Int) (e : PyErr) (h : w.window_opened n = (.error e, w')) :
    e = .h2 .FlowControlError := by
  unfold WindowManager.window_opened at h
  split at h
  · injection h with h _; injection h with h; exact h.symm
  · simp only at h
    split at h <;> simp at h

theorem wm_process_ok (w : WindowManager) (n : Int) : ∃ v w', w.process_bytes n = (.ok v, w') := by
  unfold WindowManager.process_bytes WindowManager.maybe_update_window
  simp only
  repeat' split
  all_goals exact ⟨_, _, rfl⟩

/-- a WindowManager call whose only failure is FlowControlError -/
theorem wp_onWM_good {Q : Option Int → Stream → Prop} {E : Exc → Stream → Prop} (f : WindowManager → WRes) (st : Stream)
    (hf : ∀ e w', f st.inWM = (.error e, w') → e = .h2 .FlowControlError)
    (hq : ∀ v w, Q v { st with inWM := w }) (he : ∀ e w, Plain e → E e { st with inWM := w }) :
    wp (onWM f) Q E st := by
  rw [wp_onWM]
  cases h : f st.inWM with
  | mk r w =>
    cases r with
    | ok v => exact hq v w
    | error e => rw [hf e w h]; exact he _ w ⟨goodExc_ofPyErr_h2 _ (by decide), by decide⟩

theorem sgood_receiveData (d : Bytes) (es : Bool) (fcl : Int) (st : Stream) (hni : st.sm.state ≠ .IDLE) :
    SGood (Stream.receiveData d es fcl) st := by
  unfold SGood Stream.receiveData
  wps
  apply wp_processInput_good
  · intro evs sh hstep
    have hne := evsNonempty_elim (tbl_data _) hstep
    have hend := thenEndOk_elim (tbl_data_end _) hstep
    have hni1 : sh.state ≠ .IDLE := not_idle_step hni hstep
    obtain ⟨e1, rest, rfl⟩ : ∃ e r, evs = e :: r := by
      cases evs with
      | nil => exact absurd rfl hne
      | cons e r => exact ⟨e, r, rfl⟩
    wps
    apply wp_onWM_good
    · intro e w' h; exact wm_consumed_err _ _ _ _ h
    · intro v w
      wps
      apply trackContentLength_good
      · intro st' hsm
        cases es with
        | false =>
          wps
          simp only [Bool.false_eq_true, if_false, Bool.false_and]
          rw [hsm]; exact hni1
        | true =>
          wps
          simp only [if_true, Bool.true_and]
          apply wp_processInput_good
          · intro evs2 sh2 hstep2
            rw [hsm] at hstep2
            have hne2 := evsNonempty_elim hend hstep2
            have hemp : evs2.isEmpty = false := by cases evs2 <;> simp_all
            wps
            simp only [hemp, Bool.false_eq_true, if_false]
            exact not_idle_step hni1 hstep2
          · intro e sh2 hg hsh; rw [hsm] at hsh; exact SE_of_state hg (not_idle_step' hni1 hsh)
      · intro e st' hg; exact SE_of_plain hg
    · intro e w hg; exact SE_of_plain hg
  · intro e sh hg hsh; exact SE_of_state hg (not_idle_step' hni hsh)


theorem sgood_receivePushPromiseInBand (cfg : Config) (promised : Int) (hs : List Header) (st : Stream)
    (hni : st.sm.state ≠ .IDLE) : SGood (Stream.receivePushPromiseInBand cfg promised hs) st := by
  unfold SGood Stream.receivePushPromiseInBand
  wps
  apply wp_processInput_good
  · intro evs sh hstep
    have hne : evs ≠ [] := by
      have := tbl_push st.sm.sh
      have h2 : evsNonempty st.sm.sh .RECV_PUSH_PROMISE = true := by
        cases hst : st.sm.sh.state <;> simp_all [SM.state]
      exact evsNonempty_elim h2 hstep
    have hni1 : sh.state ≠ .IDLE := not_idle_step hni hstep
    cases evs with
    | nil => exact absurd rfl hne
    | cons e rest =>
      wps
      apply buildHdrFlags_wp
      intro fl
      wps
      cases hprh : processReceivedHeaders cfg hs fl with
      | error e => exact SE_of_plain (processReceivedHeaders_good _ _ _ _ hprh)
      | ok hs' => wps; exact hni1
  · intro e sh hg hsh; exact SE_of_state hg (not_idle_step' hni hsh)

theorem sgood_remotelyPushed (hs : List Header) (st : Stream) : SGood (Stream.remotelyPushed hs) st := by
  unfold SGood Stream.remotelyPushed
  wps
  apply wp_processInput_good
  · intro evs sh hstep
    wps
    have := tbl_leaves_idle st.sm.sh .RECV_PUSH_PROMISE
    rw [hstep] at this
    show sh.state ≠ _
    simpa [leavesIdle] using this
  · intro e sh hg hsh; exact SE_of_state hg (leaves_idle_step' rfl hsh)

theorem sgood_resetStream (code : Int) (st : Stream) (hni : st.sm.state ≠ .IDLE) : SGood (Stream.resetStream code) st := by
  unfold SGood Stream.resetStream
  wps
  apply wp_processInput_good
  · intro evs sh hstep; wps; exact not_idle_step hni hstep
  · intro e sh hg hsh; exact SE_of_state hg (not_idle_step' hni hsh)

theorem giw_err (a b : Int) (e : PyErr) (h : guard_increment_window a b = .error e) : e = .h2 .FlowControlError := by
  unfold guard_increment_window at h
  simp only at h
  split at h
  · injection h with h; exact h.symm
  · simp at h

theorem sgood_receiveWindowUpdate (incr : Int) (st : Stream) (hni : st.sm.state ≠ .IDLE) :
    SGood (Stream.receiveWindowUpdate incr) st := by
  unfold SGood Stream.receiveWindowUpdate
  wps
  apply wp_processInput_good
  · intro evs sh hstep
    have hni1 := not_idle_step hni hstep
    wps
    split
    · exact hni1
    · cases hg : guard_increment_window st.outWin incr with
      | ok w => wps; exact hni1
      | error e =>
        rw [giw_err _ _ _ hg]
        simp only
        rw [if_pos (by decide)]
        have := sgood_resetStream ErrorCodes.FLOW_CONTROL_ERROR { st with sm := { st.sm with sh := sh } } hni1
        unfold SGood at this
        wps
        refine wp_mono this ?_ ?_
        · intro a s' h; wps; exact h
        · intro e s' h; exact h
  · intro e sh hg hsh; exact SE_of_state hg (not_idle_step' hni hsh)

theorem sgood_streamReset (code : Int) (st : Stream) (hni : st.sm.state ≠ .IDLE) : SGood (Stream.streamReset code) st := by
  unfold SGood Stream.streamReset
  wps
  apply wp_processInput_good
  · intro evs sh hstep
    wps
    split <;> first | (wps; exact not_idle_step hni hstep) | exact not_idle_step hni hstep
  · intro e sh hg hsh; exact SE_of_state hg (not_idle_step' hni hsh)

theorem sgood_receiveAltSvc (origin field : Bytes) (st : Stream) (hni : st.sm.state ≠ .IDLE) :
    SGood (Stream.receiveAltSvc origin field) st := by
  unfold SGood Stream.receiveAltSvc
  wps
  split
  · exact hni
  · apply wp_processInput_good
    · intro evs sh hstep
      have hni1 := not_idle_step hni hstep
      have hk := tbl_alt st.sm.sh
      unfold altOk at hk
      rw [hstep] at hk
      wps
      split
      · wps; exact hni1
      · simp only at hk
        rw [if_neg (by simpa using hk)]
        wps; exact hni1
    · intro e sh hg hsh; exact SE_of_state hg (not_idle_step' hni hsh)

/-- a CONTINUATION frame outside a header block: `receive_continuation` always raises -/
theorem continuation_raises (st : Stream) (hni : st.sm.state ≠ .IDLE) :
    wp (processInput .RECV_CONTINUATION) (fun _ _ => False) SE st := by
  apply wp_processInput_good
  · intro evs sh hstep
    have := tbl_cont st.sm.sh
    unfold neverOk at this
    rw [hstep] at this
    simp at this
  · intro e sh hg hsh; exact SE_of_state hg (not_idle_step' hni hsh)

end H2
