/-
  The top-level transition function of the model:
      step : Conn → Op → Conn × Obs
  one `Op` per public call of H2Connection (plus the read-only queries).
-/
import H2.Model.ConnRecv

namespace H2
open H2.Gen

inductive Query where
  | localWindow (sid : Int) | remoteWindow (sid : Int) | nextStreamId | openOut | openIn | inboundWindow
deriving Repr, DecidableEq, Inhabited

inductive Op where
  | initiateConnection
  | initiateUpgrade (settingsHeader : Option Bytes)
  | sendHeaders (sid : Int) (headers : List Header) (endStream : Bool) (pw pd : Option Int) (pe : Option Bool)
  | sendData (sid : Int) (data : Bytes) (endStream : Bool) (pad : Option Int)
  | endStream (sid : Int)
  | incrementWindow (incr : Int) (sid : Option Int)
  | pushStream (sid promised : Int) (headers : List Header)
  | ping (data : Bytes)
  | resetStream (sid code : Int)
  | closeConnection (code : Int) (extra : Option Bytes) (last : Option Int)
  | updateSettings (items : List (Int × Int))
  | altsvc (field : Bytes) (origin : Option Bytes) (sid : Option Int)
  | prioritize (sid : Int) (w d : Option Int) (e : Option Bool)
  | ackData (size sid : Int)
  | dataToSend (amount : Option Int)
  | clearOut
  | query (q : Query)
  | recv (data : Bytes)
deriving Repr, Inhabited

inductive Val where
  | none | int (n : Int) | bytes (b : Bytes)
deriving Repr, DecidableEq, Inhabited

inductive Res where
  | ok (v : Val)
  | h2 (cls : ExcClass) (code : Option Int) (sid : Option Int)
  | py (k : PyExc)
deriving Repr, Inhabited

def Res.isOk : Res → Bool | .ok _ => true | _ => false

structure Obs where
  res : Res
  events : List Event := []
deriving Repr, Inhabited

def resOf {α} (f : α → Val) : Except Exc α → Res
  | .ok a => .ok (f a)
  | .error (.h2 c code sid _) => .h2 c code sid
  | .error (.py k) => .py k

namespace Conn

def runU (m : CM Unit) (c : Conn) : Conn × Obs :=
  match m c with
  | (r, c') => (c', { res := resOf (fun _ => Val.none) r })

def runI (m : CM Int) (c : Conn) : Conn × Obs :=
  match m c with
  | (r, c') => (c', { res := resOf Val.int r })

def step (c : Conn) (op : Op) : Conn × Obs :=
  match op with
  | .initiateConnection => runU initiateConnection c
  | .initiateUpgrade h =>
    match initiateUpgradeConnection (fun items => do let _ ← receiveSettingsFrame false items; pure ()) h c with
    | (r, c') => (c', { res := resOf (fun o => match o with | some b => Val.bytes b | none => Val.none) r })
  | .sendHeaders sid hs es pw pd pe => runU (sendHeaders sid hs es pw pd pe) c
  | .sendData sid d es pad => runU (sendData sid d es pad) c
  | .endStream sid => runU (endStream sid) c
  | .incrementWindow i sid => runU (incrementFlowControlWindow i sid) c
  | .pushStream sid p hs => runU (pushStream sid p hs) c
  | .ping d => runU (ping d) c
  | .resetStream sid code => runU (resetStream sid code) c
  | .closeConnection code extra last => runU (closeConnection code extra last) c
  | .updateSettings items => runU (updateSettings items) c
  | .altsvc f o sid => runU (advertiseAlternativeService f o sid) c
  | .prioritize sid w d e => runU (prioritize sid w d e) c
  | .ackData size sid => runU (acknowledgeReceivedData size sid) c
  | .dataToSend n =>
    match dataToSend n c with
    | (r, c') => (c', { res := resOf Val.bytes r })
  | .clearOut => runU clearOutboundDataBuffer c
  | .query q =>
    match q with
    | .localWindow sid => runI (localFlowControlWindow sid) c
    | .remoteWindow sid => runI (remoteFlowControlWindow sid) c
    | .nextStreamId => runI getNextAvailableStreamId c
    | .openOut => runI openOutboundStreams c
    | .openIn => runI openInboundStreams c
    | .inboundWindow => runI (do let c ← getS; pure c.inWM.current_window_size) c
  | .recv data =>
    match receiveData data c with
    | (.ok evs, c') => (c', { res := .ok .none, events := evs })
    | (.error e, c') => (c', { res := resOf (fun (_ : Unit) => Val.none) (.error e) })

def run (c : Conn) : List Op → Conn × List Obs
  | [] => (c, [])
  | op :: ops =>
    let (c', o) := step c op
    let (c'', os) := run c' ops
    (c'', o :: os)

end Conn
end H2
