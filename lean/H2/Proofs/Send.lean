/-
  Specification of `_prepare_for_sending` and facts about frame serialisation used by several properties.
-/
import H2.Proofs.Wp
import H2.Proofs.Bytes

namespace H2
open H2.Gen H2.Conn

theorem wp_connInput_ok {Q : Unit → Conn → Prop} {E : Exc → Conn → Prop} (c : Conn) (i : ConnectionInputs)
    (t : ConnectionState) (h : connTable c.cstate i = some t) :
    wp (connInput i) Q E c = Q () { c with cstate := t } := by
  unfold wp connInput
  simp [h]

theorem wp_connInput_err {Q : Unit → Conn → Prop} {E : Exc → Conn → Prop} (c : Conn) (i : ConnectionInputs)
    (h : connTable c.cstate i = none) :
    wp (connInput i) Q E c = E pErr { c with cstate := .CLOSED } := by
  unfold wp connInput
  simp [h]

theorem wp_prepare_nil {Q : Unit → Conn → Prop} {E : Exc → Conn → Prop} (c : Conn) (hq : Q () c) :
    wp (prepareForSending []) Q E c := by
  simp only [prepareForSending, List.isEmpty_nil, if_true]
  exact hq

/-- `_prepare_for_sending(frames)` when every frame serialises and fits: appends the bytes, nothing else -/
theorem wp_prepare {Q : Unit → Conn → Prop} {E : Exc → Conn → Prop} (frames : List Frame) (c : Conn) (bs : List Bytes)
    (hser : frames.mapM Frame.serialize? = some bs)
    (hlen : (frames.all fun f => decide ((f.bodyLen : Int) ≤ c.maxOutFrame)) = true)
    (hq : Q () { c with out := c.out ++ bs.foldl (· ++ ·) [], sent := c.sent ++ frames }) :
    wp (prepareForSending frames) Q E c := by
  unfold prepareForSending
  split
  · rename_i h
    cases frames with
    | nil =>
      simp only [List.mapM_nil, Option.pure_def, Option.some.injEq] at hser
      subst hser
      simpa using hq
    | cons f fs => simp at h
  · simp only [hser]
    wps
    simp only [hlen, if_true]
    exact hq

/-- the same as an equation, for rewriting -/
theorem wp_prepare_eq {Q : Unit → Conn → Prop} {E : Exc → Conn → Prop} (frames : List Frame) (c : Conn) (bs : List Bytes)
    (hne : frames ≠ [])
    (hser : frames.mapM Frame.serialize? = some bs)
    (hlen : (frames.all fun f => decide ((f.bodyLen : Int) ≤ c.maxOutFrame)) = true) :
    wp (prepareForSending frames) Q E c = Q () { c with out := c.out ++ bs.foldl (· ++ ·) [], sent := c.sent ++ frames } := by
  unfold prepareForSending
  have : frames.isEmpty = false := by cases frames <;> simp_all
  simp only [this, Bool.false_eq_true, if_false, hser]
  wps
  simp only [hlen, if_true]

theorem rst_serialize (sid code : Int) (hc : 0 ≤ code ∧ code < 4294967296) :
    ∃ b, (Frame.rstStream sid code).serialize? = some b ∧ (Frame.rstStream sid code).bodyLen = 4 := by
  have h1 : ¬ (code < 0) := by omega
  simp [Frame.serialize?, Frame.body?, u32?, u8?, Frame.typeCode, Frame.flagByte, Frame.bodyLen, be32, hc.1, hc.2]

theorem goaway_serialize (last code : Int) (extra : Bytes) (hc : 0 ≤ code ∧ code < 4294967296) :
    ∃ b, (Frame.goaway last code extra).serialize? = some b ∧ (Frame.goaway last code extra).bodyLen = 8 + extra.length := by
  simp [Frame.serialize?, Frame.body?, u32?, u8?, Frame.typeCode, Frame.flagByte, Frame.bodyLen, be32, hc.1, hc.2]
  omega

theorem u8?_lit8 : u8? (8 : Int) = some [8] := by decide
theorem u8?_lit6 : u8? (6 : Int) = some [6] := by decide
theorem u8?_lit4 : u8? (4 : Int) = some [4] := by decide
theorem u8?_nat0 : u8? ((0 : Nat) : Int) = some [0] := by decide
theorem u8?_nat1 : u8? ((1 : Nat) : Int) = some [1] := by decide

theorem wu_serialize (sid incr : Int) :
    ∃ b, (Frame.windowUpdate sid incr).serialize? = some b ∧ (Frame.windowUpdate sid incr).bodyLen = 4 := by
  refine ⟨be16 (4 / 256 % 65536) ++ [UInt8.ofNat (4 % 256)] ++ [8] ++ [0] ++ be32 (mask31 sid) ++ be32 (mask31 incr), ?_, ?_⟩
  · simp only [Frame.serialize?, Frame.body?, Frame.typeCode, Frame.flagByte, Frame.sid, u8?_lit8, u8?_nat0, bind,
      Option.bind, pure, be32_length]
  · simp only [Frame.bodyLen, Frame.body?, Option.getD, be32_length]

theorem ping_serialize (ack : Bool) (d : Bytes) (h : d.length = 8) :
    ∃ b, (Frame.ping ack d).serialize? = some b ∧ (Frame.ping ack d).bodyLen = 8 := by
  have hbody : (Frame.ping ack d).body? = some d := by simp [Frame.body?, h, zeros]
  refine ⟨be16 (8 / 256 % 65536) ++ [UInt8.ofNat (8 % 256)] ++ [6] ++ [if ack then 1 else 0] ++ be32 (mask31 0) ++ d, ?_, ?_⟩
  · simp only [Frame.serialize?, hbody, Frame.typeCode, Frame.flagByte, Frame.sid, u8?_lit6, bind, Option.bind, pure, h]
    cases ack <;> simp only [u8?_nat0, u8?_nat1, if_true, if_false, Bool.false_eq_true] <;> rfl
  · simp [Frame.bodyLen, hbody, h]

theorem settings_ack_serialize : ∃ b, (Frame.settings true []).serialize? = some b ∧ (Frame.settings true []).bodyLen = 0 :=
  ⟨_, rfl, rfl⟩

end H2
