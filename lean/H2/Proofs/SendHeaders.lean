/-
  `H2Stream.send_headers` and `H2Connection.send_headers` in full: which frames come out (shape, sizes, serialisability),
  which exceptions are possible, what happens to the HPACK context and to the output buffer.
-/
import H2.Proofs.StreamsOk
namespace H2
open H2.Gen H2.Conn

/-! ### `H2Stream.send_headers` in full: frames, sizes, exceptions -/

/-- every header is a pair of two byte strings or of two text strings -/
def WellTyped (hs : List Header) : Prop := ∀ h ∈ hs, h.name.isStr = h.value.isStr

theorem isInformationalResponse_wt (hs : List Header) (h : WellTyped hs) : ∃ b, isInformationalResponse hs = .ok b := by
  induction hs with
  | nil => exact ⟨false, rfl⟩
  | cons x xs ih =>
    unfold isInformationalResponse
    have hx := h x List.mem_cons_self
    have ih' := ih (fun y hy => h y (List.mem_cons_of_mem _ hy))
    split
    · exact ⟨false, rfl⟩
    · split
      · exact ih'
      · split
        · rename_i hc; simp [hx] at hc
        · exact ⟨_, rfl⟩

/-- SEND_HEADERS / SEND_INFORMATIONAL_HEADERS / SEND_PUSH_PROMISE, when accepted, report an event (all shapes) -/
def sendEvs (sh : Shape) (i : StreamInputs) : Bool :=
  match (stepShape sh i).1 with
  | .ok [] => false
  | _ => true
theorem tbl_sendHeaders_evs : ∀ s, sendEvs s .SEND_HEADERS = true := forall_shape (by decide +kernel)
theorem tbl_sendInfo_evs : ∀ s, sendEvs s .SEND_INFORMATIONAL_HEADERS = true := forall_shape (by decide +kernel)

/-- the HEADERS (+ CONTINUATION) frames of one header block, as `send_headers` returns them -/
def HdrFrames (sid maxOut ov : Int) (es : Bool) (frames : List Frame) : Prop :=
  ∃ blocks : List Bytes, blocks ≠ [] ∧
    frames = (if es then setEndStream else id)
      (mkHeaderFrames (fun b eh => Frame.headers sid b false eh none none) sid blocks) ∧
    (∀ b ∈ blocks.head?, (b.length : Int) + ov ≤ maxOut) ∧ (∀ b ∈ blocks.tail, (b.length : Int) ≤ maxOut)

theorem validateOutbound_err (hs : List Header) (fl : HdrFlags) (e : Exc) (h : validateOutbound hs fl = .error e) :
    e = protoErr := by
  unfold validateOutbound at h
  simp only at h
  split at h
  · cases h
  · injection h with h; exact h.symm

theorem buildHeaderBlocks_err (cfg : Config) (headers : List Header) (fl : HdrFlags) (ov : Int) (s : Stream × Hp) :
    wp (buildHeaderBlocks cfg headers fl ov) (fun _ _ => True) (fun e _ => Allowed e) s := by
  unfold buildHeaderBlocks
  wps
  have rest : ∀ hs : List Header, wp (do
        let encoded ← onHp (Hp.encode hs)
        let s ← getS
        if s.1.maxOutFrame ≤ 0 then raise (.py .ValueError) else
        let first := (s.1.maxOutFrame - ov).toNat
        pure (encoded.take first :: chunks s.1.maxOutFrame.toNat (encoded.length + 1) (encoded.drop first)))
      (fun _ _ => True) (fun e _ => Allowed e) s := by
    intro hs
    unfold onHp
    wps
    unfold wp
    rw [Hp.encode_eq]
    simp only
    split
    · exact allowed_value
    · trivial
  by_cases hv : cfg.valOut = true
  · simp only [hv, if_true]
    try wps
    cases hval : validateOutbound (if cfg.normOut = true then normalizeOutbound headers else headers) fl with
    | error e => simp only; rw [validateOutbound_err _ _ _ hval]; trivial
    | ok out =>
      simp only
      have h := rest out
      simp only [wp_bind] at h
      exact h
  · simp only [hv, Bool.false_eq_true, if_false]
    try wps
    have h := rest (if cfg.normOut = true then normalizeOutbound headers else headers)
    simp only [wp_bind] at h
    exact h

theorem guardedHeaderBlocks_full (cfg : Config) (headers : List Header) (es pp : Bool) (events : List SEv)
    (s : Stream × Hp) (hm : 5 < s.1.maxOutFrame) (hsid : s.1.sm.sid ≠ 0) (hev : events ≠ []) :
    wp (Stream.guardedHeaderBlocks cfg headers es pp events)
      (fun blocks s' => s' = (s.1, s.2.afterEncode (outList cfg headers)) ∧
          blocks.flatten = s.2.encoded (outList cfg headers) ∧ blocks ≠ [] ∧
          (∀ b ∈ blocks.head?, (b.length : Int) + (if pp then 5 else 0) ≤ s.1.maxOutFrame) ∧
          (∀ b ∈ blocks.tail, (b.length : Int) ≤ s.1.maxOutFrame))
      (fun e s' => s' = s ∧ Allowed e) s := by
  unfold Stream.guardedHeaderBlocks
  wps
  with_reducible apply ite_intro
  · intro _; exact ⟨trivial, trivial⟩
  intro _
  with_reducible apply ite_intro
  · intro h0
    exfalso
    have : s.1.sm.sid = 0 := by
      have h0' : (s.1.sid == 0) = true := h0
      simpa [Stream.sid] using h0'
    exact hsid this
  intro _
  unfold onStream
  wps
  cases events with
  | nil => exact absurd rfl hev
  | cons e0 tl =>
    simp only [buildHdrFlags]
    wps
    have := buildHeaderBlocks_spec cfg headers
      { isClient := s.1.sm.client, isTrailer := e0 == .TrailersSent || e0 == .TrailersReceived,
        isResponse := e0 == .ResponseSent || e0 == .ResponseReceived || e0 == .InformationalResponseReceived,
        isPush := e0 == .PushedStreamReceived || e0 == .PushedRequestSent } (if pp then 5 else 0) s
      (by split <;> omega) (by split <;> omega)
    refine wp_mono (wp_and this (buildHeaderBlocks_err cfg headers _ (if pp then 5 else 0) s)) ?_ ?_
    · intro a s' h
      exact ⟨h.1.1, h.1.2.1, h.1.2.2.1, h.1.2.2.2.1, fun b hb => (h.1.2.2.2.2 b hb).1⟩
    · intro e s' h
      exact ⟨h.1, h.2⟩

theorem allowed_streamErr (sid : Int) (w : Bool) :
    Allowed (mkStreamClosed sid (if w then [Event.StreamReset sid (some (ErrorCodes.STREAM_CLOSED : Int)) false] else [])) := trivial

/-- what a successful header-sending stream method returns and leaves behind -/
def SentHeaders (cfg : Config) (headers : List Header) (s : Stream × Hp) (ov : Int) (es : Bool) (frames : List Frame)
    (s' : Stream × Hp) : Prop :=
  Encoded1 cfg headers s frames s' ∧ HdrFrames s.1.sm.sid s.1.maxOutFrame ov es frames ∧ s'.1.ident = s.1.ident

theorem sendHeadersAs_full (input : StreamInputs) (cfg : Config) (headers : List Header) (es pp : Bool)
    (s : Stream × Hp) (hm : 5 < s.1.maxOutFrame) (hsid : s.1.sm.sid ≠ 0)
    (hin : input = .SEND_HEADERS ∨ (input = .SEND_INFORMATIONAL_HEADERS ∧ es = false)) :
    wp (Stream.sendHeadersAs input cfg headers es pp)
      (fun frames s' => SentHeaders cfg headers s (if pp then 5 else 0) es frames s')
      (fun e s' => s'.2 = s.2 ∧ Allowed e ∧ s'.1.ident = s.1.ident) s := by
  unfold Stream.sendHeadersAs
  wps
  unfold onStream
  wps
  rw [wp_processInput_eq]
  have hevs : sendEvs s.1.sm.sh input = true := by
    rcases hin with h | h
    · rw [h]; exact tbl_sendHeaders_evs _
    · rw [h.1]; exact tbl_sendInfo_evs _
  cases hstep : stepShape s.1.sm.sh input with
  | mk r sh =>
    cases r with
    | proto => exact ⟨trivial, trivial, rfl⟩
    | streamClosed w => exact ⟨trivial, allowed_streamErr _ _, rfl⟩
    | ok events =>
      simp only
      have hev : events ≠ [] := by
        unfold sendEvs at hevs
        rw [hstep] at hevs
        intro h0; subst h0; simp at hevs
      have g := guardedHeaderBlocks_full cfg headers es pp events (s.1.withShape sh, s.2) hm hsid hev
      apply wp_mono g
      · intro blocks s' ⟨hs', hfl, hne, hsz1, hsz2⟩
        subst hs'
        wps
        cases es with
        | false =>
          simp only [Bool.false_eq_true, if_false]
          try wps
          refine ⟨⟨rfl, ?_, ?_⟩, ⟨blocks, hne, rfl, hsz1, hsz2⟩, ?_⟩
          · rw [mkHeaderFrames_fragments _ _ _ (fun b eh => rfl)]; exact hfl
          · rw [mkHeaderFrames_fragments _ _ _ (fun b eh => rfl), mkHeaderFrames_length]
          · simp only [Stream.ident]; split <;> split <;> rfl
        | true =>
          simp only [if_true]
          try wps
          rw [wp_processInput_eq]
          have hinp : input = .SEND_HEADERS := by
            rcases hin with h | h
            · exact h
            · cases h.2
          have ht := tbl_end_after_headers s.1.sm.sh
          unfold endAfterHeaders at ht
          rw [← hinp, hstep] at ht
          simp only at ht
          have e1 : (s.1.withShape sh).sm.sh = sh := rfl
          rw [e1]
          cases hend : stepShape sh .SEND_END_STREAM with
          | mk r2 sh2 =>
            rw [hend] at ht
            cases r2 with
            | proto => simp at ht
            | streamClosed w => simp at ht
            | ok evs2 =>
              simp only
              try wps
              obtain ⟨f1, f2⟩ := setEndStream_fragments
                (mkHeaderFrames (fun b eh => Frame.headers s.1.sid b false eh none none) s.1.sid blocks)
              refine ⟨⟨rfl, ?_, ?_⟩, ⟨blocks, hne, rfl, hsz1, hsz2⟩, ?_⟩
              · rw [f1, mkHeaderFrames_fragments _ _ _ (fun b eh => rfl)]; exact hfl
              · rw [f1, f2, mkHeaderFrames_fragments _ _ _ (fun b eh => rfl), mkHeaderFrames_length]
              · simp only [Stream.ident]; split <;> split <;> rfl
      · intro e s' ⟨hs', hal⟩
        subst hs'
        simp only [if_true]
        try wps
        exact ⟨trivial, hal, rfl⟩

theorem stream_sendHeaders_full (cfg : Config) (headers : List Header) (es pp : Bool) (s : Stream × Hp)
    (hm : 5 < s.1.maxOutFrame) (hsid : s.1.sm.sid ≠ 0) (hwt : WellTyped headers) :
    wp (Stream.sendHeaders cfg headers es pp)
      (fun frames s' => SentHeaders cfg headers s (if pp then 5 else 0) es frames s')
      (fun e s' => s'.2 = s.2 ∧ Allowed e ∧ s'.1.ident = s.1.ident) s := by
  unfold Stream.sendHeaders
  wps
  obtain ⟨b, hb⟩ := isInformationalResponse_wt headers hwt
  have fin : ∀ informational : Bool,
      (if (informational && es) = true then (True ∧ Allowed protoErr' ∧ True)
       else wp (Stream.sendHeadersAs (if informational = true then StreamInputs.SEND_INFORMATIONAL_HEADERS else StreamInputs.SEND_HEADERS)
          cfg headers es pp) (fun frames s' => SentHeaders cfg headers s (if pp then 5 else 0) es frames s')
          (fun e s' => s'.2 = s.2 ∧ Allowed e ∧ s'.1.ident = s.1.ident) s) := by
    intro informational
    with_reducible apply ite_intro
    · intro _; exact ⟨trivial, trivial, trivial⟩
    · intro hie
      apply sendHeadersAs_full _ cfg headers es pp s hm hsid
      cases informational
      · exact Or.inl rfl
      · right; refine ⟨rfl, ?_⟩; cases es
        · rfl
        · simp at hie
  with_reducible apply ite_intro
  · intro _
    try wps
    rw [hb]
    exact fin b
  · intro _
    try wps
    exact fin false

/-! ### the frames fit and serialise -/

theorem headers_serialize (sid : Int) (b : Bytes) (es eh : Bool) (prio : Option Prio)
    (hp : ∀ p, prio = some p → (0 ≤ p.dependsOn ∧ p.dependsOn ≤ 2147483647) ∧ (0 ≤ p.weight ∧ p.weight ≤ 255)) :
    (∃ bs, (Frame.headers sid b es eh none prio).serialize? = some bs) ∧
    (Frame.headers sid b es eh none prio).bodyLen = b.length + (if prio.isSome then 5 else 0) := by
  cases prio with
  | none =>
    have := ser_of_body (Frame.headers sid b es eh none none) b (by simp [Frame.body?, zeros])
      (by simp [Frame.typeCode]) (by simp only [Frame.flagByte]; cases es <;> cases eh <;> simp)
    exact ⟨this.1, by rw [this.2]; simp⟩
  | some p =>
    obtain ⟨hd, hw⟩ := hp p rfl
    obtain ⟨a, ha, hla⟩ := u32?_some (p.dependsOn + (if p.exclusive then 2147483648 else 0))
      (by split <;> omega) (by split <;> omega)
    obtain ⟨w, hw', hlw⟩ := u8?_some p.weight hw.1 (by omega)
    have := ser_of_body (Frame.headers sid b es eh none (some p)) (a ++ w ++ b)
      (by simp [Frame.body?, prioBytes?, ha, hw', zeros])
      (by simp [Frame.typeCode]) (by simp only [Frame.flagByte]; cases es <;> cases eh <;> simp)
    exact ⟨this.1, by rw [this.2]; simp [hla, hlw]; omega⟩

theorem continuation_serialize (sid : Int) (b : Bytes) (eh : Bool) :
    (∃ bs, (Frame.continuation sid b eh).serialize? = some bs) ∧ (Frame.continuation sid b eh).bodyLen = b.length := by
  have := ser_of_body (Frame.continuation sid b eh) b (by simp [Frame.body?])
    (by simp [Frame.typeCode]) (by simp only [Frame.flagByte]; cases eh <;> simp)
  exact this

/-- the frames of `mkHeaderFrames` after the first: CONTINUATION frames carrying the tail blocks -/
theorem mkHeaderFrames_shape (first : Bytes → Bool → Frame) (sid : Int) (b : Bytes) (rest : List Bytes) :
    ∃ eh conts, mkHeaderFrames first sid (b :: rest) = first b eh :: conts ∧
      ∀ f ∈ conts, ∃ blk eh', f = Frame.continuation sid blk eh' ∧ blk ∈ rest := by
  unfold mkHeaderFrames
  cases rest with
  | nil => exact ⟨true, [], rfl, fun f hf => by cases hf⟩
  | cons c t =>
    refine ⟨false, _, rfl, ?_⟩
    intro f hf
    simp only [List.mem_map] at hf
    obtain ⟨⟨blk, i⟩, hmem, rfl⟩ := hf
    refine ⟨blk, _, rfl, ?_⟩
    have hm2 : (blk, i).1 ∈ (c :: t) := by
      have := List.of_mem_zip (l₁ := c :: t) (l₂ := List.range' 0 (c :: t).length) (a := blk) (b := i)
        (by rw [← List.zipIdx_eq_zip_range']; exact hmem)
      exact this.1
    exact hm2

theorem hdrFrames_first (sid mo ov : Int) (es : Bool) (frames : List Frame) (h : HdrFrames sid mo ov es frames) :
    ∃ b eh conts, frames = Frame.headers sid b es eh none none :: conts ∧ (b.length : Int) + ov ≤ mo ∧
      ∀ f ∈ conts, ∃ blk eh', f = Frame.continuation sid blk eh' ∧ (blk.length : Int) ≤ mo := by
  obtain ⟨blocks, hne, hfr, hs1, hs2⟩ := h
  cases blocks with
  | nil => exact absurd rfl hne
  | cons b rest =>
    obtain ⟨eh, conts, hmk, hc⟩ := mkHeaderFrames_shape (fun b eh => Frame.headers sid b false eh none none) sid b rest
    rw [hmk] at hfr
    refine ⟨b, eh, conts, ?_, hs1 b (by simp), ?_⟩
    · rw [hfr]; cases es <;> rfl
    · intro f hf
      obtain ⟨blk, eh', hfe, hmem⟩ := hc f hf
      exact ⟨blk, eh', hfe, hs2 blk (by simpa using hmem)⟩

/-- the frames `send_headers` hands to `_prepare_for_sending` (priority fields put on the first one or not): every
    one serialises and fits the frame size the fragments were cut for -/
theorem hdrFrames_fit (sid mo : Int) (es : Bool) (b : Bytes) (eh : Bool) (conts : List Frame) (prio : Option Prio)
    (hp : ∀ p, prio = some p → (0 ≤ p.dependsOn ∧ p.dependsOn ≤ 2147483647) ∧ (0 ≤ p.weight ∧ p.weight ≤ 255))
    (hb : (b.length : Int) + (if prio.isSome then 5 else 0) ≤ mo)
    (hc : ∀ f ∈ conts, ∃ blk eh', f = Frame.continuation sid blk eh' ∧ (blk.length : Int) ≤ mo) :
    ∀ f ∈ Frame.headers sid b es eh none prio :: conts, (∃ bs, f.serialize? = some bs) ∧ (f.bodyLen : Int) ≤ mo := by
  intro f hf
  rcases List.mem_cons.mp hf with h | h
  · subst h
    obtain ⟨h1, h2⟩ := headers_serialize sid b es eh prio hp
    refine ⟨h1, ?_⟩
    rw [h2]
    cases prio <;> simp at hb ⊢ <;> omega
  · obtain ⟨blk, eh', hfe, hl⟩ := hc f h
    subst hfe
    obtain ⟨h1, h2⟩ := continuation_serialize sid blk eh'
    exact ⟨h1, by rw [h2]; exact hl⟩

/-! ### `H2Connection.send_headers` -/

/-- What the steps of `send_headers` around the stream method preserve.  `cr` is a ghost flag: the stream object `sid`
    has been created by this call and not yet been used (it is IDLE until the stream method runs). -/
structure G (sid : Int) (cr : Bool) (c0 c : Conn) : Prop where
  out : c.out = c0.out
  sent : c.sent = c0.sent
  hp : c.hp = c0.hp
  cfg : c.cfg = c0.cfg
  mof : c.maxOutFrame = c0.maxOutFrame
  ls : c.localSettings = c0.localSettings
  rs : c.remoteSettings = c0.remoteSettings
  fb : c.fb = c0.fb
  so : SO c
  /-- a stream that existed when the call started is still there -/
  pre : hasStream c0 sid = true → hasStream c sid = true
  /-- the only IDLE stream there can be is the one this call created -/
  idle : c.cstate ≠ .CLOSED → ∀ e ∈ c.streams, e.2.sm.state = .IDLE → e.1 = sid ∧ cr = true

theorem G.refl {c : Conn} (sid : Int) (h : SO c) (hw : WF c) : G sid false c c :=
  ⟨rfl, rfl, rfl, rfl, rfl, rfl, rfl, rfl, h, fun hs => hs, fun hc e he hi => absurd hi (hw.2 hc e he)⟩

section
variable {α : Type} {Q : α → Conn → Prop} {E : Exc → Conn → Prop}

theorem g_connInput {Q : Unit → Conn → Prop} (i : ConnectionInputs) (sid : Int) (cr : Bool) (c0 c : Conn) (h : G sid cr c0 c)
    (hq : ∀ c', G sid cr c0 c' → Q () c') (he : ∀ c', G sid cr c0 c' → E pErr c') : wp (connInput i) Q E c := by
  unfold wp connInput
  cases hct : connTable c.cstate i with
  | none =>
    exact he _ ⟨h.out, h.sent, h.hp, h.cfg, h.mof, h.ls, h.rs, h.fb, h.so, h.pre, fun hc => absurd rfl hc⟩
  | some t =>
    have hcl : t ≠ .CLOSED → c.cstate ≠ .CLOSED := by
      intro ht hc
      rw [hc] at hct
      exact ht (conn_closed_absorbing _ _ hct)
    exact hq _ ⟨h.out, h.sent, h.hp, h.cfg, h.mof, h.ls, h.rs, h.fb, h.so, h.pre, fun hc => h.idle (hcl hc)⟩

theorem g_getStreamById {Q : Unit → Conn → Prop} (sid : Int) (cr : Bool) (c0 c : Conn) (h : G sid cr c0 c)
    (hq : hasStream c sid = true → Q () c) (he : ∀ e, Allowed e → E e c) : wp (getStreamById sid) Q E c := by
  rw [wp_getStreamById_eq]
  by_cases hs : hasStream c sid = true
  · rw [if_pos hs]; exact hq hs
  · rw [if_neg hs]
    repeat' split
    all_goals first | exact he _ (allowed_h2 _ _ _ _) | exact he _ (allowed_streamClosed _ _)

theorem g_openStreams {Q : Int → Conn → Prop} (r : Int) (sid : Int) (cr : Bool) (c0 c : Conn) (h : G sid cr c0 c)
    (hno : hasStream c0 sid = false) (hq : ∀ a c', G sid cr c0 c' → Q a c') : wp (openStreams r) Q E c := by
  simp only [wp, openStreams]
  apply hq
  exact ⟨h.out, h.sent, h.hp, h.cfg, h.mof, h.ls, h.rs, h.fb,
      ⟨fun e he => h.so.1 e (List.mem_filter.mp he).1, h.so.2.1, h.so.2.2⟩,
      fun hs => (by rw [hno] at hs; cases hs),
      fun hc e he hi => h.idle hc e (List.mem_filter.mp he).1 hi⟩

end

theorem putStream_same (c : Conn) (sid : Int) (st : Stream) :
    (putStream sid st c).2.out = c.out ∧ (putStream sid st c).2.sent = c.sent ∧ (putStream sid st c).2.hp = c.hp ∧
    (putStream sid st c).2.cfg = c.cfg ∧ (putStream sid st c).2.localSettings = c.localSettings ∧
    (putStream sid st c).2.remoteSettings = c.remoteSettings ∧ (putStream sid st c).2.fb = c.fb := by
  unfold putStream modifyS; simp only; split <;> exact ⟨rfl, rfl, rfl, rfl, rfl, rfl, rfl⟩

theorem putStream_cstate' (c : Conn) (sid : Int) (st : Stream) : (putStream sid st c).2.cstate = c.cstate := by
  unfold putStream modifyS; simp only; split <;> rfl

theorem mem_putStream (c : Conn) (sid : Int) (st : Stream) (e : Int × Stream) (he : e ∈ (putStream sid st c).2.streams) :
    e ∈ c.streams ∨ e.1 = sid := by
  unfold putStream modifyS at he
  simp only at he
  split at he
  · simp only [List.mem_map] at he
    obtain ⟨e0, he0, heq⟩ := he
    split at heq
    · subst heq; exact Or.inr rfl
    · subst heq; exact Or.inl he0
  · rcases List.mem_append.mp he with h1 | h1
    · exact Or.inl h1
    · simp only [List.mem_singleton] at h1; subst h1; exact Or.inr rfl

theorem lookup_replace_other {α} (l : List (Int × α)) (sid k : Int) (v : α) (hk : k ≠ sid) :
    (l.map fun e => if e.1 == sid then (sid, v) else e).lookup k = l.lookup k := by
  induction l with
  | nil => rfl
  | cons e t ih =>
    obtain ⟨a, b⟩ := e
    by_cases ha : a = sid
    · subst ha
      have : (k == a) = false := by simp [hk]
      simp only [List.map_cons, beq_self_eq_true, if_true, List.lookup, this]
      exact ih
    · have h1 : (a == sid) = false := by simp [ha]
      simp only [List.map_cons, h1, Bool.false_eq_true, if_false, List.lookup]
      rw [ih]

theorem lookup_replace_same {α} (l : List (Int × α)) (sid : Int) (v : α) (h : (l.any fun e => e.1 == sid) = true) :
    (l.map fun e => if e.1 == sid then (sid, v) else e).lookup sid = some v := by
  induction l with
  | nil => simp at h
  | cons e t ih =>
    obtain ⟨a, b⟩ := e
    by_cases ha : a = sid
    · subst ha; simp [List.lookup]
    · have h1 : (a == sid) = false := by simp [ha]
      have h2 : (sid == a) = false := by simp [Ne.symm ha]
      simp only [List.any_cons, h1, Bool.false_or] at h
      simp only [List.map_cons, h1, Bool.false_eq_true, if_false, List.lookup, h2]
      exact ih h

theorem lookup_snoc_other {α} (l : List (Int × α)) (sid k : Int) (v : α) (hk : k ≠ sid) :
    (l ++ [(sid, v)]).lookup k = l.lookup k := by
  induction l with
  | nil => have : (k == sid) = false := by simp [hk]
           simp [List.lookup, this]
  | cons e t ih =>
    obtain ⟨a, b⟩ := e
    simp only [List.cons_append, List.lookup]
    rw [ih]

theorem lookup_snoc_same {α} (l : List (Int × α)) (sid : Int) (v : α) (h : (l.any fun e => e.1 == sid) = false) :
    (l ++ [(sid, v)]).lookup sid = some v := by
  induction l with
  | nil => simp [List.lookup]
  | cons e t ih =>
    obtain ⟨a, b⟩ := e
    simp only [List.any_cons, Bool.or_eq_false_iff] at h
    have h2 : (sid == a) = false := by
      have := h.1; simp only [beq_eq_false_iff_ne, ne_eq] at this ⊢; exact fun hh => this hh.symm
    simp only [List.cons_append, List.lookup, h2]
    exact ih h.2

theorem lookup_putStream_same (c : Conn) (sid : Int) (st : Stream) :
    (putStream sid st c).2.streams.lookup sid = some st := by
  unfold putStream modifyS
  simp only
  split
  · rename_i h; exact lookup_replace_same _ _ _ h
  · rename_i h; exact lookup_snoc_same _ _ _ (Bool.eq_false_iff.mpr h)

theorem lookup_putStream_other (c : Conn) (sid k : Int) (st : Stream) (hk : k ≠ sid) :
    (putStream sid st c).2.streams.lookup k = c.streams.lookup k := by
  unfold putStream modifyS
  simp only
  split
  · exact lookup_replace_other _ _ _ _ hk
  · exact lookup_snoc_other _ _ _ _ hk

theorem lookup_setStream_other (c : Conn) (sid k : Int) (st : Stream) (hk : k ≠ sid) :
    (setStream c sid st).streams.lookup k = c.streams.lookup k := lookup_replace_other _ _ _ _ hk

/-- the H2Stream object `_begin_new_stream` builds -/
def freshStream (sid mo ow iw : Int) : Stream :=
  { sm := { sid := sid }, maxOutFrame := mo, outWin := ow,
    inWM := { max_window_size := iw, current_window_size := iw, bytes_processed := 0 } }

theorem g_createStream {Q : Unit → Conn → Prop} {E : Exc → Conn → Prop} (sid : Int) (ob : Bool) (c0 c : Conn)
    (h : G sid false c0 c)
    (hls : SettingsOk c0.localSettings) (hrs : SettingsOk c0.remoteSettings) (hs : 0 < sid ∧ sid ≤ 2147483647)
    (hq : ∀ c', G sid true c0 c' → hasStream c' sid = true →
      (∃ ow iw, c'.streams.lookup sid = some (freshStream sid c.maxOutFrame ow iw)) →
      (∀ k, k ≠ sid → c'.streams.lookup k = c.streams.lookup k) → Q () c') : wp (createStream sid ob) Q E c := by
  unfold createStream
  wps
  have hls' : SettingsOk c.localSettings := by rw [h.ls]; exact hls
  have hrs' : SettingsOk c.remoteSettings := by rw [h.rs]; exact hrs
  obtain ⟨iw, hiw⟩ := getItem?_of_ok c.localSettings _ (by decide) hls'.1 hls'.2.2
  obtain ⟨ow, how⟩ := getItem?_of_ok c.remoteSettings _ (by decide) hrs'.1 hrs'.2.2
  have hiv := validB_iws iw (getItem?_valid _ _ _ hls'.2.2 hiw)
  unfold Settings.initialWindowSize optInt?
  rw [hiw, how]
  wps
  have hinit : WindowManager.init iw = .ok { max_window_size := iw, current_window_size := iw, bytes_processed := 0 } := by
    unfold WindowManager.init
    rw [if_pos (by simpa using hiv.2)]
  rw [hinit]
  simp only
  wps
  rw [wp_putStream]
  wps
  have hp := so_putStream c sid (freshStream sid c.maxOutFrame ow iw) h.so ⟨rfl, hs.1, hs.2, rfl⟩
  obtain ⟨f1, f2, f3⟩ := putStream_fields c sid (freshStream sid c.maxOutFrame ow iw)
  obtain ⟨s1, s2, s3, s4, s5, s6, s7⟩ := putStream_same c sid (freshStream sid c.maxOutFrame ow iw)
  have hhas := hasStream_putStream c sid (freshStream sid c.maxOutFrame ow iw)
  have hcs := putStream_cstate' c sid (freshStream sid c.maxOutFrame ow iw)
  have hidle : (putStream sid (freshStream sid c.maxOutFrame ow iw) c).2.cstate ≠ .CLOSED →
      ∀ e ∈ (putStream sid (freshStream sid c.maxOutFrame ow iw) c).2.streams, e.2.sm.state = .IDLE →
        e.1 = sid ∧ true = true := by
    intro hc e he hi
    rw [hcs] at hc
    rcases mem_putStream c sid _ e he with h1 | h1
    · have := (h.idle hc e h1 hi).2; cases this
    · exact ⟨h1, rfl⟩
  cases ob
  · simp only [Bool.false_eq_true, if_false]
    apply hq
    · exact ⟨s1.trans h.out, s2.trans h.sent, s3.trans h.hp, s4.trans h.cfg, f1.trans h.mof, s5.trans h.ls, s6.trans h.rs,
        s7.trans h.fb, ⟨hp.1, by show 0 ≤ sid; omega, hp.2.2⟩, fun _ => hhas, hidle⟩
    · exact hhas
    · exact ⟨ow, iw, lookup_putStream_same c sid _⟩
    · exact fun k hk => lookup_putStream_other c sid k _ hk
  · simp only [if_true]
    apply hq
    · exact ⟨s1.trans h.out, s2.trans h.sent, s3.trans h.hp, s4.trans h.cfg, f1.trans h.mof, s5.trans h.ls, s6.trans h.rs,
        s7.trans h.fb, ⟨hp.1, hp.2.1, by show 0 ≤ sid; omega⟩, fun _ => hhas, hidle⟩
    · exact hhas
    · exact ⟨ow, iw, lookup_putStream_same c sid _⟩
    · exact fun k hk => lookup_putStream_other c sid k _ hk

theorem g_getOrCreateStream {Q : Unit → Conn → Prop} {E : Exc → Conn → Prop} (sid : Int) (odd : Bool) (c0 c : Conn)
    (h : G sid false c0 c) (hls : SettingsOk c0.localSettings) (hrs : SettingsOk c0.remoteSettings)
    (hq : ∀ cr c', G sid cr c0 c' → hasStream c' sid = true → (cr = true → hasStream c0 sid = false) → Q () c')
    (he : ∀ e, Allowed e → E e c) :
    wp (getOrCreateStream sid odd) Q E c := by
  unfold getOrCreateStream
  wps
  with_reducible apply ite_intro
  · intro hs; exact hq false c h hs (fun hh => by cases hh)
  intro hnos
  have hno : hasStream c sid = false := by simpa using hnos
  have hno0 : hasStream c0 sid = false := by
    cases h0 : hasStream c0 sid with
    | false => rfl
    | true => have := h.pre h0; rw [hno] at this; cases this
  unfold beginNewStream
  wps
  with_reducible apply ite_intro
  · intro _; exact he _ (allowed_h2 _ _ _ _)
  intro hlow
  with_reducible apply ite_intro
  · intro _; exact he _ allowed_pErr
  intro _
  with_reducible apply ite_intro
  · intro _; exact he _ allowed_pErr
  intro hhigh
  apply g_createStream sid _ c0 c h hls hrs ?_ (fun c' g hh _ _ => hq true c' g hh (fun _ => hno0))
  have h1 := h.so.2.1
  have h2 := h.so.2.2
  unfold HIGHEST_ALLOWED_STREAM_ID at hhigh
  constructor
  · by_cases ho : streamIdIsOutbound c sid = true
    · simp only [ho, if_true] at hlow; omega
    · simp only [ho, Bool.false_eq_true, if_false] at hlow; omega
  · omega

/-- `_prepare_for_sending` of frames that serialise and fit: it returns, and only the buffer and the history changed -/
theorem wp_prepare_fit {Q : Unit → Conn → Prop} {E : Exc → Conn → Prop} (fs : List Frame) (c : Conn)
    (hf : ∀ f ∈ fs, (∃ b, f.serialize? = some b) ∧ (f.bodyLen : Int) ≤ c.maxOutFrame)
    (hq : ∀ o, Q () { c with out := o, sent := c.sent ++ fs }) : wp (prepareForSending fs) Q E c := by
  unfold prepareForSending
  wps
  split
  · rename_i he
    have : fs = [] := by simpa using he
    subst this
    have h := hq c.out
    rw [List.append_nil] at h
    exact h
  · obtain ⟨bs, hbs⟩ := mapM_some Frame.serialize? fs (fun f hf' => (hf f hf').1)
    rw [hbs]
    wps
    have : (fs.all fun f => decide ((f.bodyLen : Int) ≤ c.maxOutFrame)) = true := by
      rw [List.all_eq_true]
      intro f hf'
      simpa using (hf f hf').2
    rw [if_pos this]
    exact hq _

attribute [local irreducible] prepareForSending

theorem wp_withStreamHp {α} {Q : α → Conn → Prop} {E : Exc → Conn → Prop} (sid : Int) (m : SH α) (c : Conn) :
    wp (withStreamHp sid m) Q E c =
      (match c.streams.lookup sid with
       | none => E (.py .KeyError) c
       | some st => wp m (fun a s' => Q a { setStream c sid s'.1 with hp := s'.2 })
                      (fun e s' => E e { setStream c sid s'.1 with hp := s'.2 }) (st, c.hp)) := by
  unfold wp withStreamHp setStream
  cases c.streams.lookup sid with
  | none => rfl
  | some st =>
    simp only
    cases m (st, c.hp) with
    | mk r s' => cases r <;> rfl

/-- `_add_frame_priority` cannot fail once the arguments passed the check at the start of `send_headers` -/
theorem addPriority_spec {Q : List Frame → Conn → Prop} {E : Exc → Conn → Prop} (pp : Bool) (sid : Int) (b : Bytes)
    (es eh : Bool) (conts : List Frame) (pw pd : Option Int) (pe : Option Bool) (c : Conn)
    (hcp : pp = true → checkPriority sid pw pd = .ok ())
    (hq : ∀ prio : Option Prio, prio.isSome = pp →
      (∀ p, prio = some p → (0 ≤ p.dependsOn ∧ p.dependsOn ≤ 2147483647) ∧ (0 ≤ p.weight ∧ p.weight ≤ 255)) →
      Q (Frame.headers sid b es eh none prio :: conts) c) :
    wp (addPriority pp (Frame.headers sid b es eh none none :: conts) pw pd pe) Q E c := by
  unfold addPriority
  cases pp with
  | false => simp only [Bool.false_eq_true, if_false]; wps; exact hq none rfl (fun p hp => by cases hp)
  | true =>
    simp only [if_true]
    wps
    cases hf : framePriority sid pw pd pe with
    | error x =>
      exfalso
      unfold framePriority at hf
      rw [hcp rfl] at hf
      simp [bind, Except.bind, pure, Except.pure] at hf
    | ok p =>
      simp only
      try wps
      exact hq (some p) rfl (fun q hq' => by injection hq' with hq'; subst hq'; exact framePriority_ok sid pw pd pe p hf)

/-- where the stream state machine stands after `H2Stream.send_headers`: out of IDLE if it returned; out of IDLE or
    where it was if it raised (a refused header block restores the saved state) -/
theorem stream_sendHeaders_state (cfg : Config) (headers : List Header) (es pp : Bool) (s : Stream × Hp)
    (hm : 5 < s.1.maxOutFrame) :
    wp (Stream.sendHeaders cfg headers es pp) (fun _ s' => s'.1.sm.state ≠ .IDLE)
      (fun _ s' => s'.1.sm.state ≠ .IDLE ∨ s'.1.sm.state = s.1.sm.state) s := by
  have asP : ∀ input : StreamInputs, leavesIdle input = true →
      wp (Stream.sendHeadersAs input cfg headers es pp) (fun _ s' => s'.1.sm.state ≠ .IDLE)
        (fun _ s' => s'.1.sm.state ≠ .IDLE ∨ s'.1.sm.state = s.1.sm.state) s := by
    intro input hli
    unfold Stream.sendHeadersAs
    wps
    unfold onStream
    wps
    rw [wp_processInput_eq]
    have hleave := tbl_leaves_idle s.1.sm.sh input
    rw [hli] at hleave
    simp only [Bool.not_true, Bool.false_or, bne_iff_ne, ne_eq] at hleave
    cases hstep : stepShape s.1.sm.sh input with
    | mk r sh =>
      rw [hstep] at hleave
      have hsh : sh.state ≠ .IDLE := hleave
      cases r with
      | proto => exact Or.inl hsh
      | streamClosed w => exact Or.inl hsh
      | ok events =>
        simp only
        -- the guarded part: it either leaves the stream alone or the saved state comes back
        have g : wp (Stream.guardedHeaderBlocks cfg headers es pp events)
            (fun _ s' => s'.1 = s.1.withShape sh) (fun _ s' => s'.1 = s.1.withShape sh) (s.1.withShape sh, s.2) :=
          wp_mono (guardedHeaderBlocks_spec cfg headers es pp events (s.1.withShape sh, s.2) hm)
            (fun _ s' h => by rw [h.1]) (fun _ s' h => by rw [h])
        apply wp_mono g
        · intro blocks s' hs'
          wps
          cases es with
          | false =>
            simp only [Bool.false_eq_true, if_false]
            try wps
            show (if _ then _ else _ : Stream).sm.state ≠ .IDLE
            rw [hs']
            split <;> split <;> exact hsh
          | true =>
            simp only [if_true]
            try wps
            rw [wp_processInput_eq]
            have hn := tbl_not_idle s'.1.sm.sh .SEND_END_STREAM
            have hs1 : s'.1.sm.sh = sh := by rw [hs']; rfl
            rw [hs1] at hn ⊢
            have : (sh.state == StreamState.IDLE) = false := by simpa using hsh
            rw [this, Bool.false_or] at hn
            cases hend : stepShape sh .SEND_END_STREAM with
            | mk r2 sh2 =>
              rw [hend] at hn
              have hsh2 : sh2.state ≠ .IDLE := by simpa using hn
              cases r2 with
              | proto => exact Or.inl hsh2
              | streamClosed w => exact Or.inl hsh2
              | ok evs2 =>
                simp only
                try wps
                show (if _ then _ else _ : Stream).sm.state ≠ .IDLE
                split <;> split <;> exact hsh2
        · intro e s' hs'
          simp only [if_true]
          try wps
          exact Or.inr rfl
  unfold Stream.sendHeaders
  wps
  have fin : ∀ informational : Bool,
      (if (informational && es) = true then (s.1.sm.state ≠ .IDLE ∨ True)
       else wp (Stream.sendHeadersAs (if informational = true then StreamInputs.SEND_INFORMATIONAL_HEADERS else StreamInputs.SEND_HEADERS)
          cfg headers es pp) (fun _ s' => s'.1.sm.state ≠ .IDLE)
          (fun _ s' => s'.1.sm.state ≠ .IDLE ∨ s'.1.sm.state = s.1.sm.state) s) := by
    intro informational
    with_reducible apply ite_intro
    · intro _; exact Or.inr trivial
    · intro _
      apply asP
      cases informational <;> rfl
  with_reducible apply ite_intro
  · intro _
    try wps
    cases isInformationalResponse headers with
    | error e => exact Or.inr trivial
    | ok b => exact fin b
  · intro _
    try wps
    exact fin false


/-- what `send_headers` leaves alone whether it returns or raises, and the invariants -/
structure Kept (c c' : Conn) : Prop where
  so : SO c'
  fb : c'.fb = c.fb
  ls : c'.localSettings = c.localSettings
  rs : c'.remoteSettings = c.remoteSettings
  mof : c'.maxOutFrame = c.maxOutFrame
  cfg : c'.cfg = c.cfg
  /-- no stream is left IDLE (unless the connection is closed) -/
  ni : c'.cstate ≠ .CLOSED → StreamsNotIdle c'.streams

/-- what C29 and C13 ask of `send_headers`: it returns having made exactly one `encode` call (of the normalised
    list), or it raises an allowed exception and then neither the output nor the compression context has changed -/
def SendHeadersOk (c : Conn) (headers : List Header) : Unit → Conn → Prop :=
  fun _ c' => c'.hp = c.hp.afterEncode (outList c.cfg headers) ∧ Kept c c'
def SendHeadersErr (c : Conn) : Exc → Conn → Prop :=
  fun e c' => Allowed e ∧ OS c' = OS c ∧ c'.hp = c.hp ∧ Kept c c'

theorem G.kept {sid : Int} {c0 c : Conn} (g : G sid false c0 c) : Kept c0 c :=
  ⟨g.so, g.fb, g.ls, g.rs, g.mof, g.cfg, fun hc e he hi => by have := (g.idle hc e he hi).2; cases this⟩

theorem notIdle_of_g {sid : Int} {cr : Bool} {c0 c2 : Conn} (g2 : G sid cr c0 c2) (st' : Stream)
    (hst' : st'.sm.state ≠ .IDLE) (hc : (setStream c2 sid st').cstate ≠ .CLOSED) :
    StreamsNotIdle (setStream c2 sid st').streams := by
  intro e he hi
  simp only [setStream, List.mem_map] at he
  obtain ⟨e0, he0, heq⟩ := he
  split at heq
  · subst heq; exact hst' hi
  · rename_i hk
    subst heq
    have := (g2.idle hc e0 he0 hi).1
    exact hk (by simp [this])

set_option maxRecDepth 20000 in
theorem api_sendHeadersTail (c0 c : Conn) (sid : Int) (headers : List Header) (es : Bool) (pw pd : Option Int)
    (pe : Option Bool) (hG : G sid false c0 c) (hwf : WFb c0) (hwt : WellTyped headers)
    (hcp : (pw.isSome || pd.isSome || pe.isSome) = true → checkPriority sid pw pd = .ok ()) (g0 : 0 ≤ c0.highestOut) :
    wp (sendHeadersTail c0 sid headers es pw pd pe) (SendHeadersOk c0 headers) (SendHeadersErr c0) c := by
  unfold sendHeadersTail SendHeadersOk SendHeadersErr
  wps
  have gos : ∀ cr c', G sid cr c0 c' → OS c' = OS c0 := fun cr c' g => by unfold OS; rw [g.out, g.sent]
  apply g_connInput _ sid false c0 c hG
  · intro c1 g1
    try wps
    apply g_getOrCreateStream sid _ c0 c1 g1 hwf.ls hwf.rs
    · intro cr c2 g2 hhas hfresh
      wps
      rw [wp_withStreamHp]
      rw [hasStream_lookup] at hhas
      cases hl : c2.streams.lookup sid with
      | none => rw [hl] at hhas; simp at hhas
      | some st =>
        simp only
        have hst := g2.so.1 _ (lookup_mem _ _ _ hl)
        have hmo : 16384 ≤ st.maxOutFrame := by rw [hst.2.2.2, g2.mof]; exact hwf.mof
        have hsid : st.sm.sid ≠ 0 := by rw [hst.1]; have := hst.2.1; omega
        have hstream := stream_sendHeaders_full c0.cfg headers es (pw.isSome || pd.isSome || pe.isSome) (st, c2.hp)
          (by show 5 < st.maxOutFrame; omega) hsid hwt
        have hstate := stream_sendHeaders_state c0.cfg headers es (pw.isSome || pd.isSome || pe.isSome) (st, c2.hp)
          (by show 5 < st.maxOutFrame; omega)
        apply wp_mono (wp_and hstream hstate)
        · intro frames s' ⟨⟨henc, hfr, hid⟩, hni⟩
          obtain ⟨b, eh, conts, hfe, hb, hc⟩ := hdrFrames_first _ _ _ _ _ hfr
          subst hfe
          have hsid' : st.sm.sid = sid := hst.1
          simp only at hb hc hsid'
          rw [hsid']
          rw [hsid'] at hc
          wps
          apply addPriority_spec _ sid b es eh conts pw pd pe _ hcp
          intro prio hps hpr
          try wps
          have hfit := hdrFrames_fit sid st.maxOutFrame es b eh conts prio hpr
            (by rw [hps]; exact hb) hc
          apply wp_prepare_fit
          · intro f hf
            obtain ⟨h1, h2⟩ := hfit f hf
            refine ⟨h1, ?_⟩
            show (f.bodyLen : Int) ≤ c2.maxOutFrame
            rw [← hst.2.2.2]; exact h2
          · intro o
            have hso3 : SO (setStream c2 sid s'.1) := so_setStream c2 sid st s'.1 g2.so hl hid
            refine ⟨?_, ⟨hso3, g2.fb, g2.ls, g2.rs, g2.mof, g2.cfg, ?_⟩⟩
            · show s'.2 = c0.hp.afterEncode (outList c0.cfg headers)
              rw [henc.1]
              show c2.hp.afterEncode (outList c0.cfg headers) = _
              rw [g2.hp]
            · intro hcl; exact notIdle_of_g g2 s'.1 hni hcl
        · intro e s' ⟨⟨hhp, hal, hid⟩, hni⟩
          simp only [if_true]
          try wps
          have hso3 : SO (setStream c2 sid s'.1) := so_setStream c2 sid st s'.1 g2.so hl hid
          with_reducible apply ite_intro
          · intro _
            try wps
            refine ⟨hal, ?_, ?_, ?_⟩
            · unfold OS setStream; simp only; rw [g2.out, g2.sent]
            · show s'.2 = c0.hp; rw [hhp]; exact g2.hp
            · refine ⟨⟨?_, hso3.2.1, g0⟩, g2.fb, g2.ls, g2.rs, g2.mof, g2.cfg, ?_⟩
              · intro e he
                exact hso3.1 e (List.mem_filter.mp he).1
              · -- the stream this call may have created is removed: nothing IDLE is left
                intro hcl e he hi
                obtain ⟨hmem, hk⟩ := List.mem_filter.mp he
                simp only [setStream, List.mem_map] at hmem
                obtain ⟨e0, he0, heq⟩ := hmem
                split at heq
                · subst heq; simp at hk
                · rename_i hk0
                  subst heq
                  have := (g2.idle hcl e0 he0 hi).1
                  exact hk0 (by simp [this])
          · intro hop
            try wps
            refine ⟨hal, ?_, ?_, ?_⟩
            · unfold OS setStream; simp only; rw [g2.out, g2.sent]
            · show s'.2 = c0.hp; rw [hhp]; exact g2.hp
            · refine ⟨hso3, g2.fb, g2.ls, g2.rs, g2.mof, g2.cfg, ?_⟩
              -- the stream existed when the call started, so it was not IDLE, and a refused call does not make it so
              intro hcl
              have h0 : hasStream c0 sid = true := by simpa using hop
              have hstni : st.sm.state ≠ .IDLE := by
                intro hi
                have hcr := (g2.idle hcl (sid, st) (lookup_mem _ _ _ hl) hi).2
                have := hfresh hcr
                rw [h0] at this; cases this
              apply notIdle_of_g g2 s'.1 ?_ hcl
              rcases hni with h1 | h1
              · exact h1
              · rw [h1]; exact hstni
    · intro e hal; exact ⟨hal, gos _ c1 g1, g1.hp, g1.kept⟩
  · intro c1 g1; exact ⟨allowed_pErr, gos _ c1 g1, g1.hp, g1.kept⟩

set_option maxRecDepth 20000 in
/-- **`H2Connection.send_headers`**, any arguments (header tuples well-typed), any state satisfying the invariants -/
theorem api_sendHeaders (sid : Int) (headers : List Header) (es : Bool) (pw pd : Option Int) (pe : Option Bool)
    (c : Conn) (hwf : WF c) (hso : SO c) (hwt : WellTyped headers) :
    wp (sendHeaders sid headers es pw pd pe) (SendHeadersOk c headers) (SendHeadersErr c) c := by
  have tail : ∀ c1, G sid false c c1 → ((pw.isSome || pd.isSome || pe.isSome) = true → checkPriority sid pw pd = .ok ()) →
      wp (sendHeadersTail c sid headers es pw pd pe) (SendHeadersOk c headers) (SendHeadersErr c) c1 :=
    fun c1 g hcp => api_sendHeadersTail c c1 sid headers es pw pd pe g hwf.1 hwt hcp hso.2.2
  have gos : ∀ c', G sid false c c' → OS c' = OS c := fun c' g => by unfold OS; rw [g.out, g.sent]
  have g00 := G.refl sid hso hwf
  have gate2 : ((pw.isSome || pd.isSome || pe.isSome) = true → checkPriority sid pw pd = .ok ()) →
      wp (do
        if !c.cfg.client then getStreamById sid
        else if !hasStream c sid then do
          let maxOpen := c.remoteSettings.maxConcurrentStreams
          let n ← openOutboundStreams
          if n + 1 > maxOpen then raise (mkExc .TooManyStreamsError) else pure ()
        sendHeadersTail c sid headers es pw pd pe) (SendHeadersOk c headers) (SendHeadersErr c) c := by
    intro hcp
    wps
    with_reducible apply ite_intro
    · intro _
      apply g_getStreamById sid false c c g00
      · intro _; exact tail c g00 hcp
      · intro e hal; exact ⟨hal, rfl, rfl, g00.kept⟩
    · intro _
      with_reducible apply ite_intro
      · intro hnos
        have hno : hasStream c sid = false := by simpa using hnos
        unfold openOutboundStreams
        wps
        apply g_openStreams _ sid false c c g00 hno
        intro n c1 g1
        wps
        with_reducible apply ite_intro
        · intro _; try wps
          exact ⟨trivial, gos c1 g1, g1.hp, g1.kept⟩
        · intro _; try wps
          exact tail c1 g1 hcp
      · intro _; try wps
        exact tail c g00 hcp
  unfold sendHeaders
  wps
  with_reducible apply ite_intro
  · intro hpp
    with_reducible apply ite_intro
    · intro _; exact ⟨trivial, rfl, rfl, g00.kept⟩
    · intro _
      cases hck : checkPriority sid pw pd with
      | error x => simp only; rw [checkPriority_err _ _ _ _ hck]; exact ⟨trivial, rfl, rfl, g00.kept⟩
      | ok u =>
        simp only
        have := gate2 (fun _ => hck)
        simp only [wp_bind, wp_ite] at this
        exact this
  · intro hpp
    try wps
    have := gate2 (fun h => absurd h hpp)
    simp only [wp_bind, wp_ite] at this
    exact this

end H2
